(* C08/C12, history level: every run of the sender model satisfies the close-object-flag monitor
   P_C12_close_flag, under the premises of C12_lifecycle_full (accepted adds have pairwise distinct
   TOIs, max_transfer_count >= 1 unless carousel).
   The invariant of C12Full (Ginv: monitor objects vs. model state) is reused as it is; what is
   added here is the meaning of the encoder's [e_closable] bit: an encoder held by a session is
   closable only if its object has no carousel and the transfer in progress is its last one
   (max_transfer_count = completed transfers + 1).  That add-on invariant (Cinv) is carried through
   the same walk (session_run, rr_loop, read_queues, sender_read, step, run). *)
From FluteV Require Import Model.SenderCtl Spec.SenderSpec Proofs.SenderProofs Proofs.C12Full.
From Coq Require Import Lia Permutation.
Open Scope N_scope.

Arguments N.add : simpl never. Arguments N.mul : simpl never. Arguments N.sub : simpl never.
Arguments N.eqb : simpl never. Arguments N.ltb : simpl never. Arguments N.leb : simpl never.
Arguments Z.add : simpl never. Arguments Z.sub : simpl never. Arguments Z.mul : simpl never.
Arguments Z.ltb : simpl never. Arguments Z.leb : simpl never. Arguments Z.max : simpl never.
Arguments Nat.max : simpl never. Arguments Nat.min : simpl never. Arguments Nat.leb : simpl never.
Arguments Nat.mul : simpl never. Arguments Nat.sub : simpl never.

(* ================= the monitor ================= *)
Definition cok (x : c12obj) : bool :=
  match x_removed x with Some _ => true | None => false end
  || Nat.eqb (x_npk x) 0
  || (negb (x_car x) && Nat.eqb (S (x_sent x)) (N.to_nat (x_max x) * pk1 (x_npk x))).

Definition close_okP (g : ghost) (o : rout) : Prop :=
  match o with
  | RObj toi true => exists x, find_obj toi (gl g) = Some x /\ cok x = true
  | _ => True
  end.

Lemma close_okP_step g o now n ls : close_okP g o -> c12_close_ok (gl g) (TRead now o n ls) = true.
Proof.
  destruct o as [|id c|toi c| |]; try reflexivity. destruct c; [|reflexivity].
  cbn [close_okP c12_close_ok]. intros (x & -> & Hc). exact Hc.
Qed.

Lemma close_ok_not_read l e : (forall now r n ls, e <> TRead now r n ls) -> c12_close_ok l e = true.
Proof. destruct e; try reflexivity. intros H. exfalso. eapply H. reflexivity. Qed.

(* ================= the encoder ================= *)
Lemma enc_read_closable force e c e' : enc_read force e = (Some c, e') -> e_closable e' = e_closable e.
Proof.
  unfold enc_read. destruct (e_stopped e); [discriminate|].
  destruct (e_left e) as [|l].
  - destruct (e_sent e =? 0); [|discriminate]. intros H. injection H as _ <-. reflexivity.
  - intros H. injection H as _ <-. reflexivity.
Qed.

(* a flagged packet: forced, or the lone packet of an empty object, or the last packet of a closable transfer *)
Lemma enc_read_flag o force e e' : e_stopped e = false -> enc_ok o e ->
  enc_read force e = (Some true, e') ->
  force = true \/ o_npk o = 0%nat \/ (e_closable e = true /\ S (N.to_nat (e_sent e)) = nn o).
Proof.
  intros Hs Hok. unfold enc_read. rewrite Hs.
  destruct (e_left e) as [|l] eqn:El.
  - destruct (N.eqb_spec (e_sent e) 0) as [E0|E0]; [|discriminate]. intros _. right. left.
    destruct Hok as [[_ H]|[H _]]; [congruence|lia].
  - intros H. injection H as Hfl _. destruct force; [left; reflexivity|]. right. right.
    cbn [orb] in Hfl. apply andb_prop in Hfl. destruct Hfl as [Hc Hl]. apply Nat.eqb_eq in Hl. subst l.
    split; [assumption|].
    destruct Hok as [[H0 H]|[H0 H]].
    + unfold nn, pk1. rewrite H0, <- H, El. reflexivity.
    + rewrite El in H. lia.
Qed.

(* ================= the meaning of e_closable ================= *)
Definition clo (s : st) (u : nat) (e : enc) : Prop :=
  e_closable e = true -> car_some (o_car (oo s u)) = false /\ o_max (oo s u) = cnt s u + 1.

Definition Cinv (sl : list session) (s : st) : Prop := forall u e, holds sl u e -> clo s u e.

(* [u]'s descriptor is unchanged, and so is its transfer count unless it is a carousel object *)
Definition keeps (s s' : st) (u : nat) : Prop :=
  oo s' u = oo s u /\ (car_some (o_car (oo s u)) = false -> cnt s' u = cnt s u).

Lemma keeps_refl s u : keeps s s u.
Proof. split; auto. Qed.

Lemma keeps_trans s1 s2 s3 u : keeps s1 s2 u -> keeps s2 s3 u -> keeps s1 s3 u.
Proof.
  intros [A B] [C D]. split; [congruence|]. intros H. rewrite D, B; auto. rewrite A. assumption.
Qed.

Lemma keeps_same s s' u : objs s' = objs s -> keeps s s' u.
Proof. intros E. unfold keeps, oo, cnt, obj. rewrite E. auto. Qed.

Lemma clo_keeps s s' u e : keeps s s' u -> clo s u e -> clo s' u e.
Proof.
  intros [A B] H Hc. destruct (H Hc) as [C D]. rewrite A. split; [assumption|]. rewrite B; assumption.
Qed.

Lemma Cinv_keeps sl s s' : Cinv sl s -> (forall u, In u (sfiles sl) -> keeps s s' u) -> Cinv sl s'.
Proof.
  intros HC Hk u e Hh. eapply clo_keeps; [apply Hk; eapply holds_in_sfiles; eassumption|apply HC; assumption].
Qed.

Lemma Cinv_cons ss rest s :
  Cinv (ss :: rest) s <->
  ((forall u e, ss_file ss = Some u -> ss_enc ss = Some e -> clo s u e) /\ Cinv rest s).
Proof.
  unfold Cinv. split.
  - intros H. split.
    + intros u e Hf He. apply H. apply holds_cons. left. auto.
    + intros u e Hh. apply H. apply holds_cons. right. assumption.
  - intros [H1 H2] u e Hh. apply holds_cons in Hh. destruct Hh as [[Hf He]|Hh]; auto.
Qed.

Lemma Cinv_perm sl sl' s : Permutation sl sl' -> Cinv sl s -> Cinv sl' s.
Proof. intros Hp HC u e Hh. apply HC. eapply holds_perm; [apply Permutation_sym; eassumption|assumption]. Qed.

Lemma upd_nth_oob {A} (F : A -> A) : forall l i, (length l <= i)%nat -> upd_nth i F l = l.
Proof. induction l as [|x l IH]; intros [|i] H; cbn in *; try lia; auto. f_equal. apply IH. lia. Qed.

Lemma keeps_upd_t_pres s id G u :
  (forall t, t_count (G t) = t_count t) -> keeps s (upd_t s id G) u.
Proof.
  intros HG. split; [apply oo_upd_t|]. intros _.
  unfold cnt, obj, upd_t. cbn [objs set_objs].
  apply (nth_upd_nth_inv _ (fun f => t_count (f_t f))). intros a. cbn. apply HG.
Qed.

Section Walk.
  Variable P : odesc -> Prop.
  Variable fdt_npk : N -> nat.
  Variable fdt_ok : N -> bool.
  Variable divf : Z -> N -> option Z.

  Lemma keeps_upd_t_init s id now t' u :
    t_init divf (oo s id) now (f_t (obj s id)) = Some t' -> keeps s (upd_t s id (fun _ => t')) u.
  Proof.
    intros Ht. split; [apply oo_upd_t|]. intros Hc.
    destruct (Nat.eq_dec u id) as [->|Hne]; [|apply cnt_upd_t_neq; assumption].
    destruct (Nat.lt_ge_cases id (length (objs s))) as [Hlt|Hge].
    - destruct (cnt_tot_upd_t_eq s id (fun _ => t') Hlt) as [A _]. rewrite A.
      destruct (t_init_spec divf _ _ _ _ Ht) as [_ B]. apply B. assumption.
    - unfold cnt, obj, upd_t. cbn [objs set_objs]. rewrite upd_nth_oob by assumption. reflexivity.
  Qed.

  Lemma keeps_publish now s u : (u < length (objs s))%nat -> keeps s (snd (publish fdt_npk fdt_ok now s)) u.
  Proof.
    intros Hu. destruct (publish_spec fdt_npk fdt_ok now s) as (_ & _ & _ & (_ & HO & _) & HC & _).
    split; [apply HO; assumption|]. intros _. apply HC. assumption.
  Qed.

  Lemma held_lt g sl s u : Uinv P g sl s -> In u (sfiles sl) -> (u < length (objs s))%nat.
  Proof.
    intros HU Hu. eapply Uinv_ids_lt; [exact HU|]. apply HU. auto.
  Qed.

  (* ---------- the flagged packet ---------- *)
  Lemma packet_close g rest s ss u e e' close :
    Uinv P g (ss :: rest) s -> Cinv (ss :: rest) s -> ss_file ss = Some u -> ss_enc ss = Some e ->
    enc_read (can_be_stopped (obj s u) && negb (is_added s (toi_of s u))) e = (Some close, e') ->
    close_okP g (match o_fdtid (oo s u) with Some fid => RFdt fid close | None => RObj (toi_of s u) close end).
  Proof.
    intros HU HC Hf He Hr.
    destruct (o_fdtid (oo s u)) as [fid|] eqn:Efid; [exact I|].
    destruct close; [|exact I]. cbn [close_okP].
    destruct (holds_head P _ _ _ _ _ _ HU Hf He) as (Hh & Hnq & Hnr & Hug).
    destruct (in_ids _ _ Hug) as [x Hxu].
    pose proof HU as (ND1 & ND2 & Hm & Hent & Hwf).
    destruct (Hent _ Hxu) as [Hl Ho]. cbn [fst snd] in Hl, Ho.
    destruct Ho as (Hst & HP & Hmax & Hnc & HQF & Henc & HF & HnF).
    pose proof Hst as (Stoi & Snpk & Smax & Scar & Sal).
    assert (Hhold : holds (ss :: rest) u e) by (apply Hh; reflexivity).
    exists x. split.
    { rewrite toi_of_oo, <- Stoi. eapply find_obj_gl; eassumption. }
    pose proof (is_added_user P _ _ _ _ _ HU Hxu) as Hadd.
    unfold cok.
    destruct (in_dec Nat.eq_dec u (files s)) as [Hin|Hin].
    - assert (Ea : is_added s (toi_of s u) = true) by (apply Hadd; assumption).
      rewrite Ea, andb_false_r in Hr.
      destruct (HF Hin) as (H1 & H2 & H3 & H4 & H5).
      destruct (H4 e Hhold) as [Hs Hx]. specialize (Hx Efid).
      destruct (enc_read_flag (oo s u) false e e' Hs (Henc e Hhold) Hr) as [Hff|[Hn0|[Hcl Hlast]]].
      + discriminate.
      + rewrite Snpk, Hn0. cbn [Nat.eqb]. rewrite orb_true_r. reflexivity.
      + destruct (HC u e Hhold Hcl) as [Hcar Hmx].
        rewrite Scar, Hcar, Smax, Snpk. cbn [negb andb]. fold (nn (oo s u)).
        apply orb_true_intro. right. apply Nat.eqb_eq.
        rewrite Hmx, (Hnc Hcar), Hx.
        replace (N.to_nat (tot s u + 1)) with (S (N.to_nat (tot s u))) by lia.
        rewrite Nat.mul_succ_l. lia.
    - assert (HnF0 : ~ In u (files s)) by assumption.
      destruct (HnF HnF0 e Hhold Efid) as (at_ & al & Hrm & _).
      rewrite Hrm. reflexivity.
  Qed.

  Lemma keeps_tick s id u : keeps s (upd_t s id t_tickf) u.
  Proof. apply keeps_upd_t_pres. intros t. destruct (t_tickf_spec t) as [A _]. exact A. Qed.

  (* ---------- get_next_file_transfer ---------- *)
  Lemma gnft_keeps prio now s r s1 :
    get_next_file_transfer fdt_npk fdt_ok divf prio now s = ROk _ (r, s1) ->
    forall u, (u < length (objs s))%nat -> keeps s s1 u.
  Proof.
    unfold get_next_file_transfer.
    destruct (find_remove _ (queue s)) as [[id q']|] eqn:Efr.
    2:{ intros H. injection H as <- <-. intros; apply keeps_refl. }
    set (s0 := log_ev (set_queue s q') (EvStart (toi_of s id))).
    unfold transfer_started. change (f_o (obj s0 id)) with (oo s0 id).
    destruct (t_init divf (oo s0 id) now (f_t (obj s0 id))) as [t'|] eqn:Ht; [|discriminate].
    set (s2 := upd_t s0 id (fun _ => t')).
    intros H. injection H as <- <-. intros u Hu.
    assert (K2 : keeps s s2 u).
    { eapply keeps_trans; [apply (keeps_same s s0); reflexivity|].
      eapply keeps_upd_t_init. exact Ht. }
    change (full_fdt s2) with (full_fdt s). destruct (full_fdt s); [exact K2|].
    eapply keeps_trans; [exact K2|]. apply keeps_publish. unfold s2. rewrite len_upd_t. exact Hu.
  Qed.

  Lemma clo_last s id p :
    clo s id (mk_enc p 0 false (is_last_transfer (obj s id))).
  Proof.
    unfold clo. cbn [e_closable]. unfold is_last_transfer.
    change (f_o (obj s id)) with (oo s id). change (t_count (f_t (obj s id))) with (cnt s id).
    destruct (car_some (o_car (oo s id))); [discriminate|]. intros H. apply N.eqb_eq in H. auto.
  Qed.

  Lemma file_get_phase_cl g ss rest now s : fwf ss -> Uinv P g (ss :: rest) s -> Cinv (ss :: rest) s ->
    match (match ss_enc ss with
           | None => get_next fdt_npk fdt_ok divf ss now s
           | Some _ => ROk _ (ss, s)
           end) with
    | RPanicked _ => True
    | ROk _ (ss1, s1) => Cinv (ss1 :: rest) s1
    end.
  Proof.
    intros [Hfo Hwf] HU HC. destruct (ss_enc ss) as [e|] eqn:He; [exact HC|].
    destruct Hwf as [[Hf _]|(u & e & _ & He')]; [|congruence].
    unfold get_next. rewrite Hfo.
    destruct (get_next_file_transfer fdt_npk fdt_ok divf (ss_prio ss) now s) as [[[id|] s1]|] eqn:Eg; [| |exact I].
    - pose proof (gnft_keeps _ _ _ _ _ Eg) as HK.
      apply Cinv_cons. apply Cinv_cons in HC. destruct HC as [_ HCr]. split.
      + cbn [ss_file ss_enc]. intros u e Hu Hee. injection Hu as <-. injection Hee as <-. apply clo_last.
      + eapply Cinv_keeps; [exact HCr|]. intros u Hu. apply HK. eapply held_lt; [exact HU|].
        rewrite sfiles_cons. apply in_app_iff. right. exact Hu.
    - pose proof (gnft_keeps _ _ _ _ _ Eg) as HK.
      apply Cinv_cons. apply Cinv_cons in HC. destruct HC as [_ HCr]. split.
      + cbn [ss_file ss_enc]. intros u e Hu. discriminate.
      + eapply Cinv_keeps; [exact HCr|]. intros u Hu. apply HK. eapply held_lt; [exact HU|].
        rewrite sfiles_cons. apply in_app_iff. right. exact Hu.
  Qed.

  (* ---------- one run of a file session ---------- *)
  Lemma file_session_run_cl : forall fuel g ss rest fs now s o ss' s',
    fwf ss -> Uinv P g (ss :: rest) s -> Finv g fs s -> Cinv (ss :: rest) s ->
    session_run fdt_npk fdt_ok divf fuel ss now s = (o, ss', s') ->
    close_okP g o /\ Cinv (ss' :: rest) s'.
  Proof.
    induction fuel as [|f IH]; intros g ss rest fs now s o ss' s' Hw HU HFi HC H; cbn [session_run] in H.
    - injection H as <- <- <-. split; [exact I|assumption].
    - pose proof (file_get_phase P fdt_npk fdt_ok divf g ss rest fs now s Hw HU HFi) as Hg.
      pose proof (file_get_phase_cl g ss rest now s Hw HU HC) as Hg2.
      destruct (match ss_enc ss with
                | None => get_next fdt_npk fdt_ok divf ss now s
                | Some _ => ROk _ (ss, s)
                end) as [[ss1 s1]|].
      2:{ injection H as <- <- <-. split; [exact I|assumption]. }
      destruct Hg as ([Hfo1 Hwf1] & U1 & F1 & E1).
      rewrite Hfo1 in H. cbn [negb andb] in H.
      destruct (negb (Nat.eqb (length (fdtq s1)) 0)).
      { injection H as <- <- <-. split; [exact I|assumption]. }
      destruct Hwf1 as [[Hf1 He1]|(u & e & Hf1 & He1)]; rewrite He1 in H; try rewrite Hf1 in H.
      { injection H as <- <- <-. split; [exact I|assumption]. }
      destruct (match t_next_ts (f_t (obj s1 u)) with Some ts => (now <? ts)%Z | None => false end).
      { injection H as <- <- <-. split; [exact I|assumption]. }
      destruct (enc_read (can_be_stopped (obj s1 u) && negb (is_added s1 (o_toi (f_o (obj s1 u))))) e)
        as [[close|] e'] eqn:Hr.
      + injection H as <- <- <-. split.
        * change (o_fdtid (f_o (obj s1 u))) with (o_fdtid (oo s1 u)).
          change (o_toi (f_o (obj s1 u))) with (toi_of s1 u).
          eapply packet_close; eassumption.
        * apply Cinv_cons. apply Cinv_cons in Hg2. destruct Hg2 as [C1 C2]. split.
          -- cbn [ss_file ss_enc]. intros u0 e0 Hu He0. injection Hu as <-. injection He0 as <-.
             eapply clo_keeps; [apply keeps_tick|].
             intros Hcl. apply (C1 u e Hf1 He1). rewrite <- (enc_read_closable _ _ _ _ Hr). exact Hcl.
          -- eapply Cinv_keeps; [exact C2|]. intros v _. apply keeps_tick.
      + destruct (Uinv_done P g rest fs s1 ss1 u e e' now (ss_prio ss1) U1 F1 Hf1 He1 Hr) as (U2 & F2 & E2).
        apply (IH g _ rest fs) in H; [exact H|split; [reflexivity|left; auto]|exact U2|exact F2|].
        apply Cinv_cons. split; [cbn [ss_file]; intros; discriminate|].
        apply Cinv_cons in Hg2. destruct Hg2 as [_ C2].
        eapply Cinv_keeps; [exact C2|]. intros v Hv.
        destruct (holds_head P _ _ _ _ _ _ U1 Hf1 He1) as (_ & _ & Hnr & _).
        destruct (transfer_done_spec u now s1) as ((_ & HO & _) & Hoth & _).
        assert (Hne : v <> u) by congruence.
        split.
        -- apply HO. eapply held_lt; [exact U1|]. rewrite sfiles_cons. apply in_app_iff. right. exact Hv.
        -- intros _. apply Hoth. assumption.
  Qed.

  (* ---------- the FDT session does not touch the user objects' counters ---------- *)
  Lemma gnfdt_keeps now s r s1 :
    get_next_fdt_transfer fdt_npk fdt_ok divf now s = ROk _ (r, s1) ->
    forall u, (u < length (objs s))%nat -> keeps s s1 u.
  Proof.
    unfold get_next_fdt_transfer.
    destruct (match cur_fdt s with Some c => t_transferring (f_t (obj s c)) | None => false end).
    { intros H. injection H as <- <-. intros; apply keeps_refl. }
    set (s1' := if current_fdt_will_expire now s then snd (publish fdt_npk fdt_ok now s) else s).
    assert (K1 : forall u, (u < length (objs s))%nat -> keeps s s1' u).
    { intros u Hu. unfold s1'. destruct (current_fdt_will_expire now s); [apply keeps_publish; assumption|apply keeps_refl]. }
    set (s2 := match fdtq s1' with [] => s1' | x :: r0 => set_cur_fdt (set_fdtq s1' r0) (Some x) end).
    assert (K2 : forall u, keeps s1' s2 u).
    { intros u. unfold s2. destruct (fdtq s1'); [apply keeps_refl|apply keeps_same; reflexivity]. }
    clearbody s2.
    destruct (cur_fdt s2) as [c|].
    2:{ intros H. injection H as <- <-. intros u Hu. eapply keeps_trans; [apply K1; assumption|apply K2]. }
    destruct (should_transfer_now (obj s2 c) 0 (full_fdt s2) now).
    2:{ intros H. injection H as <- <-. intros u Hu. eapply keeps_trans; [apply K1; assumption|apply K2]. }
    unfold transfer_started. change (f_o (obj s2 c)) with (oo s2 c).
    destruct (t_init divf (oo s2 c) now (f_t (obj s2 c))) as [t'|] eqn:Ht; [|discriminate].
    intros H. injection H as <- <-. intros u Hu.
    eapply keeps_trans; [apply K1; assumption|]. eapply keeps_trans; [apply K2|].
    eapply keeps_upd_t_init. exact Ht.
  Qed.

  Lemma fdt_session_run_keeps : forall fuel g sl fs now s o fs' s',
    Uinv P g sl s -> Finv g fs s ->
    session_run fdt_npk fdt_ok divf fuel fs now s = (o, fs', s') ->
    forall u, In u (map snd g) -> keeps s s' u.
  Proof.
    induction fuel as [|f IH]; intros g sl fs now s o fs' s' HU HFi H; cbn [session_run] in H.
    - injection H as <- <- <-. intros; apply keeps_refl.
    - pose proof HFi as (Hfo & Hwf & Hids).
      assert (Hg : match (match ss_enc fs with
                          | None => get_next fdt_npk fdt_ok divf fs now s
                          | Some _ => ROk _ (fs, s)
                          end) with
                   | RPanicked _ => True
                   | ROk _ (fs1, s1) => Uinv P g sl s1 /\ Finv g fs1 s1
                                        /\ (forall u, In u (map snd g) -> keeps s s1 u)
                   end).
      { destruct (ss_enc fs) as [e|] eqn:He.
        - split; [assumption|]. split; [assumption|intros; apply keeps_refl].
        - unfold get_next. rewrite Hfo.
          destruct (get_next_fdt_transfer fdt_npk fdt_ok divf now s) as [[[c|] s1]|] eqn:Eg; [| |exact I].
          + destruct (gnfdt_inv P _ _ _ _ _ _ _ _ _ _ HU HFi Eg) as (E1 & U1 & F1 & Hc).
            split; [assumption|]. split.
            * eapply Finv_session; [exact F1|reflexivity|right; cbn; eauto|].
              intros c0 [<-|[]]. exact Hc.
            * intros u Hu. eapply gnfdt_keeps; [exact Eg|]. eapply Uinv_ids_lt; eassumption.
          + destruct (gnfdt_inv P _ _ _ _ _ _ _ _ _ _ HU HFi Eg) as (E1 & U1 & F1 & _).
            split; [assumption|]. split.
            * eapply Finv_session; [exact F1|reflexivity|left; auto|]. intros c0 [].
            * intros u Hu. eapply gnfdt_keeps; [exact Eg|]. eapply Uinv_ids_lt; eassumption. }
      destruct (match ss_enc fs with
                | None => get_next fdt_npk fdt_ok divf fs now s
                | Some _ => ROk _ (fs, s)
                end) as [[fs1 s1]|].
      2:{ injection H as <- <- <-. intros; apply keeps_refl. }
      destruct Hg as (U1 & F1 & K1).
      pose proof F1 as (Hfo1 & Hwf1 & Hids1).
      rewrite Hfo1 in H. cbn [negb andb] in H.
      destruct Hwf1 as [[Hf1 He1]|(c & e & Hf1 & He1)]; rewrite He1 in H; try rewrite Hf1 in H.
      { injection H as <- <- <-. exact K1. }
      destruct (match t_next_ts (f_t (obj s1 c)) with Some ts => (now <? ts)%Z | None => false end).
      { injection H as <- <- <-. exact K1. }
      assert (Hc : In c (fdt_ids fs1 s1)).
      { unfold fdt_ids, sfile. rewrite Hf1, !in_app_iff. right. right. left. reflexivity. }
      destruct (Hids1 c Hc) as (Hl & Hng & Hfid & Htoi).
      destruct (enc_read false e) as [[close|] e'] eqn:Hr.
      + injection H as <- <- <-. intros u Hu. eapply keeps_trans; [apply K1; assumption|]. apply keeps_tick.
      + destruct (transfer_done_spec c now s1) as (Hext & Hoth & _ & Hfq & Hcur & Hcases).
        set (s2 := transfer_done c now s1) in *.
        assert (EFQ : files s2 = files s1 /\ queue s2 = queue s1).
        { rewrite toi_of_oo in Hcases.
          destruct Hcases as [(_ & A & B)|[(A & _)|[(A & _)|(A & _)]]]; auto; contradiction. }
        destruct EFQ as [EF EQ].
        assert (U2 : Uinv P g sl s2).
        { apply (Uinv_frame P g sl s1); auto; [apply Hext|].
          intros u Hu. assert (Hne : u <> c) by congruence. destruct (Hoth u Hne) as [A B].
          split; [|auto]. apply Hext. eapply Uinv_ids_lt; eassumption. }
        assert (F2 : Finv g (mk_session (ss_prio fs1) true None None) s2).
        { eapply Finv_frame; [|exact Hext|].
          -- eapply Finv_session; [exact F1|reflexivity|left; auto|]. intros c0 [].
          -- intros c0 Hc0. unfold fdt_ids in *. rewrite Hfq in Hc0. cbn [sfile ss_file] in *.
             rewrite !in_app_iff in *. destruct Hc0 as [Hc0|[Hc0|Hc0]]; auto.
             destruct Hcur as [E|E]; rewrite E in Hc0; [auto|destruct Hc0]. }
        intros u Hu. eapply keeps_trans; [apply K1; assumption|].
        assert (Hne : u <> c) by congruence.
        eapply keeps_trans.
        * split; [apply Hext; eapply Uinv_ids_lt; eassumption|intros _; apply Hoth; assumption].
        * exact (IH g sl _ now s2 _ _ _ U2 F2 H u Hu).
  Qed.

  (* ---------- Sender::read ---------- *)
  Lemma rr_loop_cl : forall n g q orig now s o q' s' pre post fs,
    Uinv P g (pre ++ q_sessions q ++ post) s -> Finv g fs s -> Cinv (pre ++ q_sessions q ++ post) s ->
    rr_loop fdt_npk fdt_ok divf n q orig now s = (o, q', s') ->
    close_okP g o /\ Cinv (pre ++ q_sessions q' ++ post) s'.
  Proof.
    induction n as [|n IH]; intros g q orig now s o q' s' pre post fs HU HFi HC H; cbn [rr_loop] in H.
    - injection H as <- <- <-. split; [exact I|assumption].
    - destruct (nth_error (q_sessions q) (q_index q)) as [ss|] eqn:En.
      2:{ injection H as <- <- <-. split; [exact I|assumption]. }
      destruct (session_run fdt_npk fdt_ok divf 4 ss now s) as [[o1 ss1] s1] eqn:Er.
      destruct (nth_error_split_upd _ _ _ ss1 En) as (a & b & Eq & Eu).
      rewrite Eu in H. rewrite Eq in HU, HC.
      assert (Hw : fwf ss).
      { eapply Uinv_fwf_in; [exact HU|]. rewrite !in_app_iff. right. left. right. left. reflexivity. }
      apply (Uinv_perm P _ _ _ _ (perm_pick pre a ss b post)) in HU.
      apply (Cinv_perm _ _ _ (perm_pick pre a ss b post)) in HC.
      destruct (file_session_run_inv P _ _ _ _ _ _ _ _ _ _ _ _ _ Hw HU HFi Er) as (M1 & U1 & F1 & E1).
      destruct (file_session_run_cl _ _ _ _ _ _ _ _ _ _ Hw HU HFi HC Er) as (M2 & C1).
      apply (Uinv_perm P _ _ _ _ (Permutation_sym (perm_pick pre a ss1 b post))) in U1.
      apply (Cinv_perm _ _ _ (Permutation_sym (perm_pick pre a ss1 b post))) in C1.
      set (q1 := mk_squeue (q_prio q)
                   (if Nat.eqb (S (q_index q)) (length (q_sessions q)) then 0%nat else S (q_index q))
                   (a ++ ss1 :: b)) in *.
      change (a ++ ss1 :: b) with (q_sessions q1) in U1, C1.
      destruct o1; try (injection H as <- <- <-; split; assumption).
      destruct (Nat.eqb _ orig).
      + injection H as <- <- <-. split; assumption.
      + cbn [gstep] in U1, F1. apply (IH g _ _ _ _ _ _ _ pre post fs U1 F1 C1) in H. exact H.
  Qed.

  Lemma read_queues_cl : forall todo g done now s o qs s' fs,
    Uinv P g (flat_map q_sessions (done ++ todo)) s -> Finv g fs s ->
    Cinv (flat_map q_sessions (done ++ todo)) s ->
    read_queues fdt_npk fdt_ok divf done todo now s = (o, qs, s') ->
    close_okP g o /\ Cinv (flat_map q_sessions qs) s'.
  Proof.
    induction todo as [|q r IH]; intros g done now s o qs s' fs HU HFi HC H; cbn [read_queues] in H.
    - injection H as <- <- <-. rewrite app_nil_r in HC. split; [exact I|assumption].
    - destruct (read_priority_queue fdt_npk fdt_ok divf q now s) as [[o1 q1] s1] eqn:Er.
      unfold read_priority_queue in Er. rewrite flat_map_mid in HU, HC.
      destruct (rr_loop_inv P _ _ _ _ _ _ _ _ _ _ _ _ _ _ _ HU HFi Er) as (M1 & U1 & F1 & E1).
      destruct (rr_loop_cl _ _ _ _ _ _ _ _ _ _ _ _ HU HFi HC Er) as (M2 & C1).
      rewrite <- flat_map_mid in U1, C1.
      destruct o1; try (injection H as <- <- <-; split; assumption).
      cbn [gstep] in U1, F1.
      assert (Eapp : done ++ q1 :: r = (done ++ [q1]) ++ r) by (rewrite <- app_assoc; reflexivity).
      rewrite Eapp in U1, C1.
      apply (IH g _ _ _ _ _ _ fs U1 F1 C1) in H. exact H.
  Qed.

  Definition allsess (s : st) : list session := flat_map q_sessions (squeues s).

  Lemma run_fdt_session_cl g now s o s' : Ginv P g s -> Cinv (allsess s) s ->
    run_fdt_session fdt_npk fdt_ok divf now s = (o, s') -> Cinv (allsess s') s'.
  Proof.
    intros [HU HFi] HC. unfold run_fdt_session.
    destruct (session_run fdt_npk fdt_ok divf 4 (fdt_session s) now s) as [[o1 fs1] s1] eqn:Er.
    intros H. injection H as <- <-.
    destruct (fdt_session_run_inv P _ _ _ _ _ _ _ _ _ _ _ _ HU HFi Er) as (M & U1 & F1 & (_ & _ & Eq & _)).
    unfold allsess. change (squeues (set_fdt_session s1 fs1)) with (squeues s1). rewrite Eq.
    eapply Cinv_keeps; [exact HC|]. intros u Hu.
    eapply keeps_trans; [|apply (keeps_same s1); reflexivity].
    eapply fdt_session_run_keeps; [exact HU|exact HFi|exact Er|]. apply HU. auto.
  Qed.

  Lemma sender_read_cl g now s o s' : Ginv P g s -> Cinv (allsess s) s ->
    sender_read fdt_npk fdt_ok divf now s = (o, s') ->
    close_okP g o /\ Cinv (allsess s') s'.
  Proof.
    intros HG HC. unfold sender_read.
    destruct (run_fdt_session fdt_npk fdt_ok divf now s) as [o1 s1] eqn:E1.
    destruct (run_fdt_session_inv P _ _ _ _ _ _ _ _ HG E1) as [N1 G1].
    pose proof (run_fdt_session_cl _ _ _ _ _ HG HC E1) as C1.
    assert (Hno : forall o0, (forall toi c, o0 <> RObj toi c) -> close_okP g o0).
    { intros o0 Hn. destruct o0; try exact I. exfalso. eapply Hn. reflexivity. }
    destruct o1; try (intros H; injection H as <- <-; split; [apply Hno; assumption|assumption]).
    destruct (read_queues fdt_npk fdt_ok divf [] (squeues s1) now s1) as [[o2 qs] s2] eqn:E2.
    pose proof G1 as [U1 F1].
    destruct (read_queues_inv P _ _ _ (squeues s1) g [] _ _ _ _ _ _ U1 F1 E2) as (M2 & U2 & F2 & (_ & _ & _ & Efs)).
    destruct (read_queues_cl (squeues s1) g [] _ _ _ _ _ _ U1 F1 C1 E2) as (M3 & C2).
    assert (G3 : Ginv P (gstep g o2) (set_squeues s2 qs)).
    { split; [exact U2|]. change (fdt_session (set_squeues s2 qs)) with (fdt_session s2). rewrite Efs. exact F2. }
    assert (C3 : Cinv (allsess (set_squeues s2 qs)) (set_squeues s2 qs)).
    { unfold allsess. cbn [squeues set_squeues]. eapply Cinv_keeps; [exact C2|].
      intros u _. apply keeps_same. reflexivity. }
    destruct o2; try (intros H; injection H as <- <-; split; assumption).
    cbn [gstep] in G3.
    intros H. destruct (run_fdt_session_inv P _ _ _ _ _ _ _ _ G3 H) as [N3 G4].
    split; [apply Hno; assumption|]. exact (run_fdt_session_cl _ _ _ _ _ G3 C3 H).
  Qed.

  (* ---------- API operations ---------- *)
  Lemma step_cl g s op out s' :
    Ginv P g s -> Cinv (allsess s) s -> step fdt_npk fdt_ok divf s op = (out, s') ->
    c12_close_ok (gl g) (ev_of fdt_npk op out s') = true /\ Cinv (allsess s') s'.
  Proof.
    intros HG HC Hs. destruct op as [od start accepted|now|toi|toi ts| |now]; cbn [step] in Hs.
    - destruct (negb (has_queue s (o_prio od))).
      { injection Hs as <- <-. split; [reflexivity|exact HC]. }
      destruct (complete s).
      { injection Hs as <- <-. split; [reflexivity|exact HC]. }
      destruct accepted; cbn [negb] in Hs.
      2:{ injection Hs as <- <-. split; [reflexivity|exact HC]. }
      injection Hs as <- <-. split; [reflexivity|].
      unfold allsess. cbn [squeues set_queue set_files set_objs].
      eapply Cinv_keeps; [exact HC|]. intros u Hu.
      destruct HG as [HU _]. pose proof (held_lt _ _ _ _ HU Hu) as Hlt.
      unfold keeps, oo, cnt, obj. cbn [objs set_queue set_files set_objs].
      rewrite app_nth1 by assumption. auto.
    - destruct (publish fdt_npk fdt_ok now s) as [ok s1] eqn:Ep. injection Hs as <- <-.
      assert (E : s1 = snd (publish fdt_npk fdt_ok now s)) by (rewrite Ep; reflexivity).
      split; [reflexivity|].
      destruct (publish_spec fdt_npk fdt_ok now s) as (_ & _ & _ & (_ & _ & Eq & _) & _).
      rewrite <- E in Eq. unfold allsess. rewrite Eq.
      eapply Cinv_keeps; [exact HC|]. intros u Hu. rewrite E. apply keeps_publish.
      destruct HG as [HU _]. eapply held_lt; eassumption.
    - destruct (is_added s toi) eqn:Ea.
      + injection Hs as <- <-. split; [reflexivity|].
        eapply Cinv_keeps; [exact HC|]. intros u _. apply keeps_same. reflexivity.
      + injection Hs as <- <-. split; [reflexivity|exact HC].
    - destruct (find_file s toi) as [id|].
      + destruct (t_transferring (f_t (obj s id))).
        * injection Hs as <- <-. split; [reflexivity|exact HC].
        * injection Hs as <- <-. split; [reflexivity|].
          eapply Cinv_keeps; [exact HC|]. intros u _. apply keeps_upd_t_pres. reflexivity.
      + injection Hs as <- <-. split; [reflexivity|exact HC].
    - injection Hs as <- <-. split; [reflexivity|].
      eapply Cinv_keeps; [exact HC|]. intros u _. apply keeps_same. reflexivity.
    - destruct (sender_read fdt_npk fdt_ok divf now s) as [r s1] eqn:Er. injection Hs as <- <-.
      destruct (sender_read_cl _ _ _ _ _ HG HC Er) as [M C1]. split; [|exact C1].
      destruct r; cbn [ev_of]; try reflexivity. apply close_okP_step. exact M.
  Qed.
End Walk.

(* ================= the run ================= *)
Lemma run_cl Pb fdt_npk fdt_ok divf : forall ops g s,
  Ginv (fun o => Pb o = true) g s -> Cinv (allsess s) s ->
  c12_adds_okb Pb (tois g) (map fst (model_trace fdt_npk fdt_ok divf s ops)) = true ->
  c12_close_run (gl g) (map fst (model_trace fdt_npk fdt_ok divf s ops)) = true.
Proof.
  induction ops as [|o r IH]; intros g s HG HC Hp; [reflexivity|].
  cbn [model_trace] in *.
  destruct (step fdt_npk fdt_ok divf s o) as [out s1] eqn:Es.
  cbn [map fst c12_close_run] in *.
  apply adds_okb_cons in Hp. destruct Hp as [Ha Hp].
  destruct (step_inv _ _ _ _ _ _ _ _ _ HG Es Ha) as (g1 & Hc & G1 & Ht).
  destruct (step_cl _ _ _ _ _ _ _ _ _ HG HC Es) as [K C1].
  rewrite K, Hc. cbn [andb snd]. rewrite <- Ht in Hp. exact (IH g1 s1 G1 C1 Hp).
Qed.

Lemma Cinv_init full dur car sid queues :
  Cinv (allsess (init_st full dur car sid queues)) (init_st full dur car sid queues).
Proof.
  set (s := init_st full dur car sid queues).
  assert (Hidle : Forall (fun ss => ss_file ss = None /\ ss_enc ss = None /\ ss_fdt_only ss = false)
                         (allsess s)).
  { unfold allsess, s, init_st. cbn [squeues]. induction queues as [|pq qs IH]; cbn [map flat_map]; [constructor|].
    apply Forall_app. split; [|exact IH]. cbn [q_sessions].
    apply Forall_forall. intros ss Hin. apply repeat_spec in Hin. subst ss. cbn. auto. }
  destruct (sfiles_idle _ Hidle) as [Hs _].
  intros u e Hh. apply holds_in_sfiles in Hh. rewrite Hs in Hh. destruct Hh.
Qed.

(* every run of the model satisfies the close-flag monitor; premise on the trace (the accepted adds) *)
Theorem C12_close_flag_holds : forall fdt_npk fdt_ok divf ops full dur car sid queues,
  let tr := model_trace fdt_npk fdt_ok divf (init_st full dur car sid queues) ops in
  c12_adds_okb (fun _ => true) [] (map fst tr) = true ->
  P_C12_close_flag (map fst tr) = true.
Proof.
  intros fdt_npk fdt_ok divf ops full dur car sid queues tr Hp. unfold P_C12_close_flag.
  apply (run_cl (fun _ => true) fdt_npk fdt_ok divf ops [] _
                (Ginv_init _ full dur car sid queues) (Cinv_init full dur car sid queues) Hp).
Qed.

(* the same with the premise on the operations *)
Theorem C12_close_flag_holds_ops : forall fdt_npk fdt_ok divf ops full dur car sid queues,
  ops_adds_okb (fun _ => true) [] ops = true ->
  P_C12_close_flag (map fst (model_trace fdt_npk fdt_ok divf (init_st full dur car sid queues) ops)) = true.
Proof. intros. apply C12_close_flag_holds. apply ops_to_trace. assumption. Qed.
