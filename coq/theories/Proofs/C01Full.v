(* C01 / C16, object level, No-Code scheme: composition of the sender model (Model/BlockEnc.v, theorem
   C08_transfer_full / P_C08_transfer) with the object-receiver model (Model/ObjRecv.v, theorems
   C02_nocode_recoverable_delivers / C03_nocode_complete_implies_exact) over the identity channel.
   The two models have different packet types; [to_apkt] is the wire bridge of the No-Code scheme
   (/repo/src/common/alccodec/alcnocode.rs: payload id = 16 bits SBN, 16 bits ESI, big endian). *)
From FluteV Require Import Model.Partition Model.BlockEnc Spec.C07Spec Spec.C08Spec
  Proofs.PartitionProofs Proofs.BlockEncProofs Proofs.C08Full
  Model.ObjRecv Spec.RecvSpec Spec.SessionSpec Proofs.SessionProofs Proofs.C02Full.
From Coq Require Import Lia Arith PeanoNat.
Open Scope N_scope.

Arguments N.add : simpl never. Arguments N.mul : simpl never. Arguments N.sub : simpl never.
Arguments N.div : simpl never. Arguments N.modulo : simpl never. Arguments N.min : simpl never.
Arguments N.ltb : simpl never. Arguments N.leb : simpl never. Arguments N.eqb : simpl never.
Arguments N.of_nat : simpl never. Arguments N.to_nat : simpl never.

(* ================= 1. sender side, No-Code: no repair symbol, no padding ================= *)
(* P_C08_transfer tolerates a zero-padded last symbol (payload_ok) and up to c_parity repair symbols per
   block.  The No-Code block of the model (mk_block, NoCode branch = Block::new_from_buffer) has neither:
   every packet is a source symbol whose payload is exactly the E-byte slice of the content at its
   RFC 5052 offset (short for the last symbol of the object).  Executable: *)
Definition sym_slice (e : N) (content : list N) (i : N) : list N :=
  firstn (N.to_nat e) (skipn (N.to_nat (i * e)) content).

Definition P_C08_nocode_exact (c : ecfg) (content : list N) (ps : list pkt) : bool :=
  let '(al, as_, nal, n) := block_partitioning (c_b c) (c_tlen c) (c_e c) in
  forallb (fun p => (p_sbn p <? n) && (p_esi p <? nominal_syms al as_ nal (p_sbn p))
                    && eqb_listN (p_payload p) (sym_slice (c_e c) content (sym_off al as_ nal (p_sbn p) + p_esi p))) ps.

Lemma enumerate_from_nth a l sh : In sh (enumerate_from a l) ->
  exists j, nth_error l j = Some (sh_data sh) /\ sh_esi sh = a + N.of_nat j.
Proof.
  revert a; induction l as [|x l IH]; intros a H; [destruct H|].
  cbn [enumerate_from In] in H. destruct H as [<-|H].
  - exists 0%nat. cbn [nth_error sh_data sh_esi]. split; [reflexivity|lia].
  - destruct (IH _ H) as (j & Hj & Ej). exists (S j). cbn [nth_error]. split; [exact Hj|lia].
Qed.

Lemma chunk_is_sym_slice (content : list N) off len e (j : nat) :
  0 < e -> off + len <= lenN content ->
  (off + len = lenN content \/ (N.of_nat j + 1) * e <= len) ->
  firstn (N.to_nat e) (skipn (j * N.to_nat e) (sublist off (off + len) content))
  = firstn (N.to_nat e) (skipn (N.to_nat (off + N.of_nat j * e)) content).
Proof.
  intros He Hle Hcase. unfold sublist.
  replace (N.to_nat (off + len - off)) with (N.to_nat len) by lia.
  rewrite skipn_firstn_comm, firstn_firstn, BlockEncProofs.skipn_skipn.
  assert (E : N.to_nat (off + N.of_nat j * e) = (j * N.to_nat e + N.to_nat off)%nat).
  { rewrite N2Nat.inj_add, N2Nat.inj_mul, Nat2N.id. lia. }
  rewrite E. set (m := (j * N.to_nat e + N.to_nat off)%nat) in *.
  assert (Em : (j * N.to_nat e)%nat = N.to_nat (N.of_nat j * e)) by (rewrite N2Nat.inj_mul, Nat2N.id; reflexivity).
  destruct Hcase as [Hend|Hfull].
  - (* the block ends the content: both sides are bounded by what is left *)
    destruct (Nat.le_gt_cases (N.to_nat e) (N.to_nat len - j * N.to_nat e)) as [G|G].
    + rewrite Nat.min_l by exact G. reflexivity.
    + rewrite Nat.min_r by lia.
      assert (Hl : (length (skipn m content) <= N.to_nat len - j * N.to_nat e)%nat).
      { rewrite skipn_length. unfold m. unfold lenN in Hend. lia. }
      rewrite firstn_all2 by exact Hl. rewrite firstn_all2 by lia. reflexivity.
  - rewrite Nat.min_l; [reflexivity|].
    replace ((N.of_nat j + 1) * e) with (N.of_nat j * e + e) in Hfull by ring. lia.
Qed.

(* no panic (debug_assert) and no fuel exhaustion *)
Definition no_panic (outs : list outcome) : Prop :=
  Forall (fun o => match o with OPkt _ | ONone => True | _ => False end) outs.

Theorem nocode_transfer_exact : forall rep raptor_src c content,
  c_fec c = NoCode -> 0 < c_tlen c ->
  filedesc_accepts c = true -> c_tlen c = lenN content -> (1 <= c_window c)%nat ->
  let blocks := blocks_of_buffer rep raptor_src c content in
  let outs := enc_run (S (S (total_shards blocks))) c [] (est_init blocks) in
  P_C08_nocode_exact c content (pkts_of outs) = true /\ no_panic outs.
Proof.
  intros rep rsrc c content Hfec Hl Hacc Hlen Hw blocks outs. unfold outs. clear outs.
  destruct (accepts_pos c Hacc Hl) as [He Hb].
  pose proof (partition_covers_proof (c_b c) (c_tlen c) (c_e c) Hb He Hl) as P.
  unfold P_C08_nocode_exact.
  destruct (block_partitioning (c_b c) (c_tlen c) (c_e c)) as [[[al as_] nal] n] eqn:Ebp.
  destruct P as [P _].
  assert (Eb0 : blocks = blocks_buf rep rsrc (S (length content)) c al as_ nal content 0 0).
  { unfold blocks, blocks_of_buffer. rewrite Ebp.
    destruct content; [unfold lenN in Hlen; cbn [length] in Hlen; lia|reflexivity]. }
  destruct (ceil_witness (c_tlen c) (c_e c) He) as (r & HT & Hr).
  set (T := div_ceil (c_tlen c) (c_e c)) in *.
  set (e := c_e c) in *. set (l := c_tlen c) in *.
  pose proof P as [C Lb Ls Ll Lt Ln Lp Ev Od].
  set (off := fun s => sym_off al as_ nal s * e).
  set (len := fun s => block_len_closed al as_ nal l e s).
  set (nom := fun s => nominal_syms al as_ nal s).
  set (buf := fun s => sublist (off s) (off s + len s) content).
  set (blockfn := fun s => the_block rep c s (buf s)).
  pose proof (blk_facts _ _ _ _ _ _ _ _ _ P He HT Hr) as BF. fold off len nom in BF.
  pose proof (blk_k_nominal _ _ _ _ _ _ _ _ _ P He HT Hr) as BK. fold len nom in BK.
  pose proof (nom_pos _ _ _ _ _ _ l e r P He HT Hr) as NP. fold nom in NP.
  assert (Hbuflen : forall s, s < n -> lenN (buf s) = len s).
  { intros s Hs. destruct (BF s Hs) as (Hstep & _). unfold buf.
    rewrite lenN_sublist; [lia|lia|]. rewrite Hstep. fold l in Hlen. lia. }
  assert (Hmk : forall s, s < n -> mk_block rep rsrc c s (buf s) = Some (blockfn s)).
  { intros s Hs. unfold mk_block, blockfn, the_block, src_pl, rep_pl. fold e.
    destruct (N.eqb_spec e 0) as [Z|_]; [lia|]. cbv zeta. rewrite Hfec. cbn [padded enumerate_from].
    rewrite app_nil_r. reflexivity. }
  set (nn := N.to_nat n).
  assert (Hnl : (nn <= length content)%nat).
  { assert (nal * 1 <= nal * al) by (apply N.mul_le_mono_l; lia).
    assert ((n - nal) * 1 <= (n - nal) * as_) by (apply N.mul_le_mono_l; lia).
    pose proof (div_ceil_le l e He). fold T in H1. unfold lenN in Hlen. lia. }
  assert (Eblocks : blocks = map (fun i => blockfn (N.of_nat i)) (seq 0 nn)).
  { rewrite Eb0.
    pose proof (blocks_buf_spec _ _ _ _ _ _ l e r P He HT Hr rep rsrc c content blockfn eq_refl (eq_sym Hlen) Hmk
                  nn (S (length content)) 0 ltac:(lia) ltac:(lia) ltac:(lia)) as S0.
    cbv beta in S0. rewrite sym_off_0, N.mul_0_l in S0. rewrite S0. apply map_ext. intros i. reflexivity. }
  clear Eb0. clearbody blocks. subst blocks.
  set (BL := map (fun i => blockfn (N.of_nat i)) (seq 0 nn)).
  set (s0 := est_init BL).
  assert (Fsbn : forall s, bk_sbn (blockfn s) = s) by reflexivity.
  assert (Eall : all_wbs s0 = map to_wb BL) by reflexivity.
  set (g := fun s => src_of_wb (to_wb (blockfn s))).
  assert (Hg : forall s, s < n -> g s = len s).
  { intros s Hs. unfold g, blockfn. rewrite src_of_the_block by exact He. rewrite Hfec. cbn [padded].
    apply (Hbuflen s Hs). }
  assert (HSRC : src_total s0 = l).
  { unfold src_total. rewrite Eall. unfold BL. rewrite src_total_of_map.
    pose proof (sum_src _ _ _ _ _ _ l e r P He HT Hr g 0) as S1. fold len in S1.
    rewrite (map_ext (fun i => src_of_wb (to_wb (blockfn (N.of_nat i)))) (fun i => g (0 + N.of_nat i)))
      by (intros i; unfold g; do 3 f_equal; lia).
    pose proof (S1 ltac:(intros s Hs; apply Hg; lia) ltac:(rewrite Hg by lia; lia) nn 0 ltac:(lia) ltac:(lia)) as S2.
    cbv beta in S2. rewrite sym_off_0 in S2. lia. }
  assert (Hx : forall s, s < n -> 0 < g s).
  { intros s Hs. rewrite (Hg s Hs). destruct (BF s Hs) as (_ & Hpos & _). exact Hpos. }
  assert (W : wf c (src_total s0) s0).
  { apply wf_init.
    - pose proof (nodup_seq blockfn Fsbn nn) as ND. rewrite map_map in ND. exact ND.
    - fold s0. rewrite HSRC. fold l. lia.
    - intros b0 Hb0. fold s0. rewrite HSRC. fold l. unfold BL in Hb0. apply in_map_iff in Hb0.
      destruct Hb0 as (i & <- & Hi). apply in_seq in Hi.
      pose proof (Hx (N.of_nat i) ltac:(lia)) as Hxi. unfold g in Hxi. lia. }
  assert (Htot : (0 < tot s0)%nat).
  { destruct (Nat.eq_dec (tot s0) 0) as [Z|]; [|lia]. apply src_zero_of_tot in Z.
    fold (src_total s0) in Z. lia. }
  rewrite total_shards_tot. fold s0.
  destruct (enc_run_complete_proof c (src_total s0) Hw (S (S (tot s0))) s0 W ltac:(lia) (or_introl Htot))
    as (_ & R2 & R3 & _).
  split; [|exact R2].
  pose proof (enc_run_hdr c Hw (S (S (tot s0))) s0 eq_refl (wf_nodup _ _ _ W) (or_introl Htot)) as R5.
  set (ps := pkts_of (enc_run (S (S (tot s0))) c [] s0)) in *. clearbody ps.
  apply forallb_forall. intros p Hp.
  destruct (R5 p Hp) as [(wb & Hin & E1 & _) _]. rewrite Eall in Hin. unfold BL in Hin. rewrite map_map in Hin.
  apply in_map_iff in Hin. destruct Hin as (i & <- & Hi). apply in_seq in Hi.
  cbn [to_wb wb_sbn blockfn the_block bk_sbn] in E1.
  assert (Hs : p_sbn p < n) by lia. set (s := p_sbn p) in *.
  (* the packet is one of the shards of its block *)
  assert (Hv : In (view_p p) (map view_sh (enumerate_from 0 (chunks (N.to_nat e) (buf s))))).
  { assert (In (view_p p) (map view_p (filter (fun q => p_sbn q =? s) ps))).
    { apply in_map. apply filter_In. split; [exact Hp|apply N.eqb_refl]. }
    rewrite (R3 s) in H. unfold pend in H. rewrite Eall in H. unfold BL in H.
    replace s with (N.of_nat i) in H at 1 by lia.
    rewrite (pend_of_seq blockfn Fsbn i nn 0) in H by lia.
    replace (N.of_nat i) with s in H by lia.
    cbn [blockfn the_block bk_shards] in H. unfold src_pl, rep_pl in H. rewrite Hfec in H.
    cbn [padded enumerate_from] in H. rewrite app_nil_r in H. fold e in H. exact H. }
  apply in_map_iff in Hv. destruct Hv as (sh & Ev' & Hsh).
  destruct (enumerate_from_nth _ _ _ Hsh) as (j & Hj & Ej). rewrite N.add_0_l in Ej.
  assert (Eesi : p_esi p = N.of_nat j) by (unfold view_p, view_sh in Ev'; inversion Ev'; congruence).
  assert (Epl : p_payload p = sh_data sh) by (unfold view_p, view_sh in Ev'; inversion Ev'; congruence).
  assert (Hjk : N.of_nat j < nom s).
  { assert (Hjl : (j < length (chunks (N.to_nat e) (buf s)))%nat) by (apply nth_error_Some; congruence).
    pose proof (chunks_length e (buf s) He) as HL. unfold lenN at 1 in HL.
    rewrite (Hbuflen s Hs), (BK s Hs) in HL. lia. }
  apply chunks_nth in Hj; [|exact He]. destruct Hj as [_ Hd].
  destruct (BF s Hs) as (Hstep & Hpos & Hoff & Hle & Hlt & Hfull & Hnext).
  apply andb_true_iff; split; [apply andb_true_iff; split|].
  - apply N.ltb_lt. exact Hs.
  - apply N.ltb_lt. rewrite Eesi. exact Hjk.
  - rewrite Epl, Hd. unfold buf.
    rewrite chunk_is_sym_slice; [| exact He | rewrite Hstep; fold l in Hlen; lia |].
    + unfold sym_slice. rewrite Eesi. unfold off.
      replace ((sym_off al as_ nal s + N.of_nat j) * e) with (sym_off al as_ nal s * e + N.of_nat j * e) by ring.
      apply eqb_listN_refl.
    + destruct (N.eq_dec (off s + len s) l) as [El|Ne]; [left; fold l in Hlen; lia|right].
      assert (len s = nom s * e) by lia.
      assert ((N.of_nat j + 1) * e <= nom s * e) by (apply N.mul_le_mono_r; lia). lia.
Qed.
Print Assumptions nocode_transfer_exact.

(* ================= 2. the debug profile does not matter for a run that does not panic ================= *)
(* C08_transfer_full carries the premise (c_debug c && negb (c_tlen c =? 0)) = false, which for a non-empty
   object says "release build".  It is only used for the empty object; we remove it for non-empty objects by
   running the theorem on [nodebug c] and showing that the two runs coincide. *)
Definition nodebug (c : ecfg) : ecfg :=
  mk_ecfg (c_fec c) (c_e c) (c_b c) (c_parity c) (c_window c) (c_closable c) (c_tlen c) false.

Lemma read_loop_nodebug c force : forall fuel s,
  fst (read_loop fuel c force s) <> OPanic -> read_loop fuel (nodebug c) force s = read_loop fuel c force s.
Proof.
  induction fuel as [|f IH]; intros s H; [reflexivity|].
  cbn [read_loop] in *. cbn [nodebug c_window c_debug c_tlen c_closable] in *.
  destruct (refill (c_window c) (s_window s) (s_future s) (S (length (s_future s)))) as [win fut].
  destruct win as [|w0 win'].
  - destruct (s_nb_sent s =? 0); [|reflexivity].
    destruct (c_debug c && negb (c_tlen c =? 0)); [cbn [fst] in H; congruence|reflexivity].
  - set (win := w0 :: win') in *. clearbody win.
    destruct (nth_error win (if Nat.leb (length win) (s_idx s) then 0%nat else s_idx s)) as [wb|]; [|reflexivity].
    destruct (wb_rest wb) as [|sh rest]; [|reflexivity].
    apply IH. exact H.
Qed.

Lemma enc_run_nodebug c : forall fuel forces s,
  no_panic (enc_run fuel c forces s) -> enc_run fuel (nodebug c) forces s = enc_run fuel c forces s.
Proof.
  induction fuel as [|f IH]; intros forces s H; [reflexivity|].
  cbn [enc_run] in *. destruct forces as [|x r].
  - assert (R : enc_read (nodebug c) false s = enc_read c false s).
    { unfold enc_read in *. destruct (s_stopped s); [reflexivity|]. apply read_loop_nodebug.
      destruct (read_loop _ c false s) as [o s']. cbn [fst]. intros ->. inversion H as [|? ? H1 _]; exact H1. }
    rewrite R. destruct (enc_read c false s) as [o s']. destruct o; try reflexivity.
    f_equal. apply IH. inversion H; assumption.
  - assert (R : enc_read (nodebug c) x s = enc_read c x s).
    { unfold enc_read in *. destruct (s_stopped s); [reflexivity|]. apply read_loop_nodebug.
      destruct (read_loop _ c x _) as [o s']. cbn [fst]. intros ->. inversion H as [|? ? H1 _]; exact H1. }
    rewrite R. destruct (enc_read c x s) as [o s']. destruct o; try reflexivity.
    f_equal. apply IH. inversion H; assumption.
Qed.

Lemma blocks_buf_nodebug rep rsrc c al as_ nal content : forall fuel sbn off,
  blocks_buf rep rsrc fuel (nodebug c) al as_ nal content sbn off = blocks_buf rep rsrc fuel c al as_ nal content sbn off.
Proof.
  induction fuel as [|f IH]; intros sbn off; [reflexivity|].
  cbn [blocks_buf]. cbn [nodebug c_e]. change (mk_block rep rsrc (nodebug c)) with (mk_block rep rsrc c).
  destruct (mk_block rep rsrc c sbn _); [|reflexivity]. f_equal. rewrite IH. reflexivity.
Qed.

Lemma blocks_of_buffer_nodebug rep rsrc c content :
  blocks_of_buffer rep rsrc (nodebug c) content = blocks_of_buffer rep rsrc c content.
Proof.
  unfold blocks_of_buffer. cbn [nodebug c_b c_tlen c_e].
  destruct (block_partitioning (c_b c) (c_tlen c) (c_e c)) as [[[al as_] nal] n].
  destruct content; [reflexivity|apply blocks_buf_nodebug].
Qed.

(* the No-Code blocks do not depend on the FEC oracles *)
Lemma blocks_of_buffer_nocode_oracle rp rs rp' rs' c content : c_fec c = NoCode ->
  blocks_of_buffer rp rs c content = blocks_of_buffer rp' rs' c content.
Proof.
  intros Hfec. unfold blocks_of_buffer.
  destruct (block_partitioning (c_b c) (c_tlen c) (c_e c)) as [[[al as_] nal] n].
  destruct content as [|x content]; [reflexivity|]. generalize (x :: content) as ct. intros ct.
  generalize (S (length ct)) as fuel. generalize 0 at 2 4 as off. generalize 0 as sbn.
  intros sbn off fuel. revert sbn off. induction fuel as [|f IH]; intros sbn off; [reflexivity|].
  cbn [blocks_buf]. unfold mk_block. rewrite Hfec.
  destruct (c_e c =? 0); [reflexivity|]. cbv zeta. f_equal. rewrite IH. reflexivity.
Qed.

(* C08_transfer_full for a non-empty No-Code object, whatever the build profile *)
Theorem nocode_transfer_full : forall rep raptor_src c content,
  c_fec c = NoCode -> 0 < c_tlen c ->
  filedesc_accepts c = true -> c_tlen c = lenN content -> (1 <= c_window c)%nat ->
  let blocks := blocks_of_buffer rep raptor_src c content in
  let ps := pkts_of (enc_run (S (S (total_shards blocks))) c [] (est_init blocks)) in
  P_C08_transfer c content None ps = true /\ P_C08_nocode_exact c content ps = true.
Proof.
  intros rep rsrc c content Hfec Hl Hacc Hlen Hw blocks ps.
  destruct (nocode_transfer_exact rep rsrc c content Hfec Hl Hacc Hlen Hw) as [Hex Hnp].
  fold blocks in Hex, Hnp. split; [|exact Hex].
  set (rsrc' := fun (buf : list N) (_ : N) => Some (chunks (N.to_nat (c_e c)) buf)).
  set (rep' := fun (_ : fec) (_ : N) (_ : list N) (_ p : N) => repeat (@nil N) (N.to_nat p)).
  (* the No-Code blocks do not depend on the oracles *)
  assert (Eor : blocks_of_buffer rep' rsrc' c content = blocks) by (apply blocks_of_buffer_nocode_oracle; exact Hfec).
  pose proof (C08_transfer_strong rep' rsrc' (nodebug c) content) as S.
  cbv zeta in S. rewrite blocks_of_buffer_nodebug, Eor in S.
  rewrite enc_run_nodebug in S by exact Hnp.
  apply S; try assumption; try reflexivity.
  intros f sbn buf k p. unfold rep'. apply repeat_length.
Qed.
Print Assumptions nocode_transfer_full.

(* ================= 3. the wire bridge of the No-Code scheme ================= *)
(* AlcNoCode::add_fec_payload_id writes ((sbn & 0xFFFF) << 16) | (esi & 0xFFFF) big endian; the receiver's
   get_fec_payload_id reads it back (parse_pid FNoCode).  The close-object flag is the LCT B flag; the
   codepoint is the FEC encoding id 0; no EXT_FTI / EXT_CENC is needed since the FDT entry carries them. *)
Definition to_apkt (toi : N) (p : pkt) : apkt :=
  src_pkt toi (p_sbn p mod 65536) (p_esi p mod 65536) (p_close p) (p_payload p).

(* the receiver's OTI (from the FDT entry) describes the sender's configuration *)
Definition oti_matches (c : ecfg) (oti : roti) : Prop :=
  ro_fec oti = FNoCode /\ ro_e oti = c_e c /\ ro_b oti = c_b c.

(* every ESI of the object fits the 16-bit field: the large blocks have at most 65536 symbols
   (implied by B <= 65536; Oti::new_no_code takes B as u16) [esi_wraps_refuted below] *)
Definition nocode_esi_fits (c : ecfg) : bool :=
  let '(al, _, _, _) := block_partitioning (c_b c) (c_tlen c) (c_e c) in al <=? 65536.

Lemma parse_mk_pid s i : s < 65536 -> i < 65536 -> parse_pid FNoCode (mk_pid s i) = Some (s, i, None).
Proof.
  intros Hs Hi. unfold parse_pid, mk_pid. cbn [length Nat.eqb]. unfold be_val. cbn [fold_left].
  pose proof (N.div_mod s 256 ltac:(lia)) as Ds. pose proof (N.div_mod i 256 ltac:(lia)) as Di.
  set (a := s / 256) in *. set (b := s mod 256) in *. set (x := i / 256) in *. set (y := i mod 256) in *.
  replace ((((0 * 256 + a) * 256 + b) * 256 + x) * 256 + y) with (i + s * 65536) by lia.
  rewrite N.div_add by lia. rewrite N.mod_add by lia.
  rewrite N.div_small, N.mod_small by lia. rewrite N.add_0_l. reflexivity.
Qed.

Lemma eqb_listN_eq a : forall b, eqb_listN a b = true -> a = b.
Proof.
  induction a as [|x a IH]; intros [|y b] H; cbn [eqb_listN] in H; try discriminate; [reflexivity|].
  apply andb_true_iff in H. destruct H as [H1 H2]. apply N.eqb_eq in H1. subst y. f_equal. apply IH. exact H2.
Qed.

(* number of source blocks of an accepted No-Code object fits the 16-bit SBN field *)
Lemma nocode_sbn_fits c al as_ nal n : c_fec c = NoCode -> filedesc_accepts c = true -> 0 < c_tlen c ->
  block_partitioning (c_b c) (c_tlen c) (c_e c) = (al, as_, nal, n) -> n <= 65535.
Proof.
  intros Hfec Hacc Hl Ebp. destruct (accepts_pos c Hacc Hl) as [He Hb].
  pose proof (partition_covers_proof (c_b c) (c_tlen c) (c_e c) Hb He Hl) as P. rewrite Ebp in P.
  destruct P as [_ En].
  unfold filedesc_accepts in Hacc. apply andb_true_iff in Hacc. destruct Hacc as [Hacc _].
  apply andb_true_iff in Hacc. destruct Hacc as [Hacc _]. apply N.leb_le in Hacc.
  unfold max_transfer_length in Hacc. rewrite Hfec in Hacc. cbn [max_source_blocks_number] in Hacc.
  assert (H1 : c_tlen c <= (c_b c * 65535) * c_e c) by lia.
  destruct (div_ceil_is_ceil (c_tlen c) (c_e c) He) as [_ M1]. specialize (M1 _ H1).
  destruct (div_ceil_is_ceil (div_ceil (c_tlen c) (c_e c)) (c_b c) Hb) as [_ M2].
  rewrite En. apply M2. lia.
Qed.

Section Bridge.
  Set Default Proof Using "All".
  Variable c : ecfg.
  Variable content : list N.
  Variable oti : roti.
  Variable toi : N.
  Variables al as_ nal n : N.
  Hypothesis Hfec : c_fec c = NoCode.
  Hypothesis Hacc : filedesc_accepts c = true.
  Hypothesis Hlen : c_tlen c = lenN content.
  Hypothesis Hl : 0 < c_tlen c.
  Hypothesis Hoti : oti_matches c oti.
  Hypothesis Hesi : nocode_esi_fits c = true.
  Hypothesis Ebp : block_partitioning (c_b c) (c_tlen c) (c_e c) = (al, as_, nal, n).

  Lemma bridge_partition : partition_of oti (lenN_ content) = (al, as_, nal, n).
  Proof.
    destruct Hoti as (_ & E1 & E2). unfold partition_of. rewrite E1, E2.
    change (lenN_ content) with (lenN content). rewrite <- Hlen. exact Ebp.
  Qed.

  Lemma bridge_al : al <= 65536.
  Proof. unfold nocode_esi_fits in Hesi. rewrite Ebp in Hesi. apply N.leb_le in Hesi. exact Hesi. Qed.

  Lemma bridge_nom s : nominal_syms al as_ nal s <= 65536.
  Proof.
    destruct (accepts_pos c Hacc Hl) as [He Hb].
    pose proof (partition_covers_proof (c_b c) (c_tlen c) (c_e c) Hb He Hl) as P. rewrite Ebp in P.
    destruct P as [P _]. destruct P. pose proof bridge_al. unfold nominal_syms. destruct (s <? nal); lia.
  Qed.

  (* one packet *)
  Lemma bridge_pkt p :
    p_sbn p < n -> p_esi p < nominal_syms al as_ nal (p_sbn p) ->
    p_payload p = sym_slice (c_e c) content (sym_off al as_ nal (p_sbn p) + p_esi p) ->
    genuine_pkt oti content (to_apkt toi p) = true /\ pid_of (to_apkt toi p) = (p_sbn p, p_esi p)
    /\ a_close_obj (to_apkt toi p) = p_close p.
  Proof.
    intros Hs Hi Hp.
    pose proof (nocode_sbn_fits c al as_ nal n Hfec Hacc Hl Ebp) as Hn.
    pose proof (bridge_nom (p_sbn p)) as Hk.
    assert (Epid : a_pid_with FNoCode (to_apkt toi p) = Some (p_sbn p, p_esi p, None)).
    { unfold a_pid_with, to_apkt, src_pkt. cbn [a_pidbytes].
      rewrite !N.mod_small by lia. apply parse_mk_pid; lia. }
    split; [|split; [|reflexivity]].
    - unfold genuine_pkt. rewrite bridge_partition. unfold genuineb. rewrite Epid.
      apply andb_true_iff; split; [apply andb_true_iff; split|].
      + apply N.ltb_lt. exact Hs.
      + apply N.ltb_lt. exact Hi.
      + unfold to_apkt, src_pkt. cbn [a_payload]. rewrite Hp.
        destruct Hoti as (_ & E1 & _). unfold sym_bytes, take, drop, sym_slice, k_of, soff. rewrite E1.
        apply eqb_bytes_refl.
    - unfold pid_of. rewrite Epid. reflexivity.
  Qed.

  (* all packets of a transfer *)
  Lemma bridge_all ps : P_C08_nocode_exact c content ps = true ->
    Forall (fun q => genuine_pkt oti content q = true) (map (to_apkt toi) ps)
    /\ map pid_of (map (to_apkt toi) ps) = map (fun p => (p_sbn p, p_esi p)) ps
    /\ map a_close_obj (map (to_apkt toi) ps) = map p_close ps.
  Proof.
    intros H. unfold P_C08_nocode_exact in H. rewrite Ebp in H.
    assert (A : forall p, In p ps -> genuine_pkt oti content (to_apkt toi p) = true
                                  /\ pid_of (to_apkt toi p) = (p_sbn p, p_esi p)
                                  /\ a_close_obj (to_apkt toi p) = p_close p).
    { intros p Hp. rewrite forallb_forall in H. specialize (H p Hp).
      apply andb_true_iff in H. destruct H as [H H3]. apply andb_true_iff in H. destruct H as [H1 H2].
      apply N.ltb_lt in H1. apply N.ltb_lt in H2. apply eqb_listN_eq in H3. apply bridge_pkt; assumption. }
    split; [|split].
    - apply Forall_forall. intros q Hq. apply in_map_iff in Hq. destruct Hq as (p & <- & Hp). apply (A p Hp).
    - rewrite map_map. apply map_ext_in. intros p Hp. apply (A p Hp).
    - rewrite map_map. apply map_ext_in. intros p Hp. apply (A p Hp).
  Qed.

  (* coverage, from P_C08_transfer: every source symbol of every block is among the packets *)
  Lemma transfer_covers ps : P_C08_transfer c content None ps = true ->
    forall s i, s < n -> i < nominal_syms al as_ nal s -> In (s, i) (map (fun p => (p_sbn p, p_esi p)) ps).
  Proof.
    intros H s i Hs Hi. destruct (accepts_pos c Hacc Hl) as [He Hb].
    pose proof (partition_covers_proof (c_b c) (c_tlen c) (c_e c) Hb He Hl) as P. rewrite Ebp in P.
    destruct P as [P _]. destruct (ceil_witness (c_tlen c) (c_e c) He) as (r & HT & Hr).
    pose proof (blk_k_nominal _ _ _ _ _ _ _ _ _ P He HT Hr s Hs) as BK. cbv beta in BK.
    unfold P_C08_transfer in H. cbv zeta in H. rewrite (rfc_partition_eq _ _ _ Hb He), Ebp in H.
    destruct (N.eqb_spec (c_tlen c) 0) as [|_]; [lia|].
    apply andb_true_iff in H. destruct H as [_ H]. apply andb_true_iff in H. destruct H as [H _].
    rewrite forallb_forall in H.
    assert (Hin : In s (seqN n)).
    { unfold seqN. apply in_map_iff. exists (N.to_nat s). split; [lia|]. apply in_seq. lia. }
    specialize (H s Hin). unfold block_ok in H. cbv zeta in H.
    assert (Ek : blk_k al as_ nal (c_tlen c) (c_e c) s = nominal_syms al as_ nal s).
    { unfold blk_k, blk_len. rewrite rfc_ceil_eq by exact He. exact BK. }
    rewrite Ek in H.
    repeat (apply andb_true_iff in H; destruct H as [H ?]).
    match goal with X : eqb_listN (map p_esi _) (seqN _) = true |- _ => apply eqb_listN_eq in X; rename X into Hseq end.
    assert (Hi' : In i (seqN (nominal_syms al as_ nal s))).
    { unfold seqN. apply in_map_iff. exists (N.to_nat i). split; [lia|]. apply in_seq. lia. }
    rewrite <- Hseq in Hi'. apply in_map_iff in Hi'. destruct Hi' as (p & Ep & Hp).
    apply filter_In in Hp. destruct Hp as [Hp _]. unfold of_block in Hp. apply filter_In in Hp.
    destruct Hp as [Hp Esb]. apply N.eqb_eq in Esb.
    apply in_map_iff. exists p. split; [rewrite Ep, Esb; reflexivity|exact Hp].
  Qed.

  (* close flags, from P_C08_transfer *)
  Lemma transfer_flags ps : P_C08_transfer c content None ps = true ->
    exists body lst, ps = body ++ [lst] /\ Forall (fun p => p_close p = false) body /\ p_close lst = c_closable c.
  Proof.
    intros H. destruct (accepts_pos c Hacc Hl) as [He Hb].
    pose proof (partition_covers_proof (c_b c) (c_tlen c) (c_e c) Hb He Hl) as P. rewrite Ebp in P.
    destruct P as [P _]. destruct (ceil_witness (c_tlen c) (c_e c) He) as (r & HT & Hr).
    pose proof (nom_pos _ _ _ _ _ _ (c_tlen c) (c_e c) r P He HT Hr 0) as NP. cbv beta in NP.
    pose proof (transfer_covers ps H 0 0 ltac:(destruct P; lia) NP) as Hne.
    unfold P_C08_transfer in H. cbv zeta in H. rewrite (rfc_partition_eq _ _ _ Hb He), Ebp in H.
    destruct (N.eqb_spec (c_tlen c) 0) as [|_]; [lia|].
    apply andb_true_iff in H. destruct H as [_ H]. apply andb_true_iff in H. destruct H as [_ H].
    unfold close_ok_complete in H. apply andb_true_iff in H. destruct H as [H1 H2].
    destruct ps as [|p0 ps0]; [destruct Hne|]. set (ps := p0 :: ps0) in *.
    assert (Hnn : ps <> []) by discriminate. clearbody ps.
    exists (removelast ps), (last ps p0). split; [apply app_removelast_last; exact Hnn|]. split.
    - apply Forall_forall. intros p Hp. rewrite forallb_forall in H1. specialize (H1 p Hp).
      destruct (p_close p); [discriminate|reflexivity].
    - rewrite (app_removelast_last p0 Hnn) in H2. rewrite last_opt_app in H2.
      apply eqb_prop in H2. exact H2.
  Qed.
End Bridge.
Unset Default Proof Using.

(* the bridge in one statement *)
Theorem wire_bridge : forall c content oti toi al as_ nal n,
  c_fec c = NoCode -> filedesc_accepts c = true -> c_tlen c = lenN content -> 0 < c_tlen c ->
  oti_matches c oti -> nocode_esi_fits c = true ->
  block_partitioning (c_b c) (c_tlen c) (c_e c) = (al, as_, nal, n) ->
  forall ps, P_C08_transfer c content None ps = true -> P_C08_nocode_exact c content ps = true ->
  (Forall (fun q => genuine_pkt oti content q = true) (map (to_apkt toi) ps)
   /\ map pid_of (map (to_apkt toi) ps) = map (fun p => (p_sbn p, p_esi p)) ps
   /\ map a_close_obj (map (to_apkt toi) ps) = map p_close ps)
  /\ (forall s i, s < n -> i < nominal_syms al as_ nal s -> In (s, i) (map (fun p => (p_sbn p, p_esi p)) ps))
  /\ exists body lst, ps = body ++ [lst] /\ Forall (fun p => p_close p = false) body /\ p_close lst = c_closable c.
Proof.
  intros c content oti toi al as_ nal n H1 H2 H3 H4 H5 H6 H7 ps H8 H9. split; [|split].
  - exact (bridge_all c content oti toi al as_ nal n H1 H2 H3 H4 H5 H6 H7 ps H9).
  - exact (transfer_covers c content oti toi al as_ nal n H1 H2 H3 H4 H5 H6 H7 ps H8).
  - exact (transfer_flags c content oti toi al as_ nal n H1 H2 H3 H4 H5 H6 H7 ps H8).
Qed.
Print Assumptions wire_bridge.

(* ================= 4. coverage implies the recoverability premise of C02 ================= *)
Lemma block_rec_of_in k s got : (forall i, i < k -> In (s, i) got) -> block_recoverable false 0 k s got = true.
Proof.
  intros H. unfold block_recoverable. apply N.eqb_eq.
  set (mine := distinct (map snd (filter (fun p : N * N => fst p =? s) got))).
  set (l := filter (fun x => x <? k) mine).
  assert (ND : NoDup l) by (apply NoDup_filter, distinct_nodup).
  assert (Lt : forall x, In x l -> x < k).
  { intros x Hx. apply filter_In in Hx. destruct Hx as [_ Hx]. apply N.ltb_lt in Hx. exact Hx. }
  assert (All : forall j, j < k -> In j l).
  { intros j Hj. apply filter_In. split; [|apply N.ltb_lt; exact Hj].
    apply distinct_in. apply in_map_iff. exists (s, j). split; [reflexivity|].
    apply filter_In. split; [apply H; exact Hj|cbn [fst]; apply N.eqb_refl]. }
  pose proof (count_le l k ND Lt). pose proof (count_all_le l k All). lia.
Qed.

Lemma blocks_rec_of_all (f : N -> N) got : forall m a,
  (forall j, (a <= j < a + m)%nat -> block_recoverable false 0 (f (N.of_nat j)) (N.of_nat j) got = true) ->
  blocks_recoverable false 0 (map f (map N.of_nat (seq a m))) (N.of_nat a) got = true.
Proof.
  induction m as [|m IH]; intros a H; [reflexivity|]. cbn [seq map blocks_recoverable].
  rewrite (H a ltac:(lia)). cbn [andb].
  replace (N.of_nat a + 1) with (N.of_nat (S a)) by lia. apply IH. intros j Hj. apply H. lia.
Qed.

Lemma covered_recoverable oti L al as_ nal n pkts :
  partition_of oti L = (al, as_, nal, n) -> covered al as_ nal n (map pid_of pkts) -> recoverable oti L pkts = true.
Proof.
  intros Hp Cov. unfold recoverable, source_ks. rewrite Hp. unfold below.
  apply (blocks_rec_of_all (k_of al as_ nal) (map pid_of pkts) (N.to_nat n) 0%nat).
  intros j Hj. apply block_rec_of_in. intros i Hi. apply Cov; [lia|exact Hi].
Qed.

Lemma covered_incl al as_ nal n l l' : covered al as_ nal n l -> incl l l' -> covered al as_ nal n l'.
Proof. intros C I s i Hs Hi. apply I, C; assumption. Qed.

(* ================= 5. the composition theorems ================= *)
(* what "delivered" means at object level: the object receiver ends Completed and its writer (the first
   one the builder created for this TOI) received: open, writes whose concatenation is [content], one
   complete - nothing else (ShapeDone); hence complete_exact and the executable predicates of C01 (one
   completed copy, byte-exact, no failed writer; the metadata is not modelled at this level: the writer's
   metadata [m] is whatever the session level gave it) and of C02/C16 *)
Definition delivered (E : env) (fid : N) (files : list fdtfile) (inst : option roti) (toi max : N)
  (content : list N) (pkts : list apkt) : Prop :=
  let (o, cx) := receive E fid files inst toi max pkts in
  r_state o = Completed
  /\ ShapeDone content (toi, 0%nat) toi cx
  /\ forall m, complete_exact content (m, calls_of (toi, 0%nat) (c_log cx)) = true
               /\ P_C01_object m content 1 [(m, calls_of (toi, 0%nat) (c_log cx))] = true
               /\ P_C02_object true content [(m, calls_of (toi, 0%nat) (c_log cx))] = true.

Lemma list_eqb_refl {A} (f : A -> A -> bool) : (forall x, f x x = true) -> forall l, list_eqb f l l = true.
Proof. intros H. induction l as [|x l IH]; [reflexivity|]. cbn [list_eqb]. rewrite H, IH. reflexivity. Qed.
Lemma opt_eqb_refl {A} (f : A -> A -> bool) : (forall x, f x x = true) -> forall o, opt_eqb f o o = true.
Proof. intros H [x|]; [apply H|reflexivity]. Qed.
Lemma meta_eqb_refl m : meta_eqb m m = true.
Proof.
  unfold meta_eqb.
  rewrite !eqb_bytes_refl, !(opt_eqb_refl eqb_bytes eqb_bytes_refl), !(opt_eqb_refl N.eqb N.eqb_refl),
    (list_eqb_refl eqb_bytes eqb_bytes_refl), !N.eqb_refl. reflexivity.
Qed.

Lemma exact_once content m calls : complete_exact content (m, calls) = true ->
  P_C01_object m content 1 [(m, calls)] = true.
Proof.
  intros H. unfold P_C01_object. cbn [filter forallb snd fst]. pose proof H as H'.
  unfold complete_exact in H'. cbn [snd] in H'.
  apply andb_true_iff in H'. destruct H' as [H' _]. apply andb_true_iff in H'. destruct H' as [H1 H2].
  rewrite H1. cbn [length]. rewrite H2, H, meta_eqb_refl. reflexivity.
Qed.

Section Compose.
  Variable rep : fec -> N -> list N -> N -> N -> list (list N).
  Variable raptor_src : list N -> N -> option (list (list N)).
  Variable c : ecfg.
  Variable content : list N.
  Variable oti : roti.
  Variable E : env.
  Variables toi max fid : N.
  Variable files : list fdtfile.
  Variable inst : option roti.
  Variable md5 : option (list N).
  (* sender: an accepted No-Code configuration, a non-empty content of the announced length *)
  Hypothesis Hfec : c_fec c = NoCode.
  Hypothesis Hacc : filedesc_accepts c = true.
  Hypothesis Hlen : c_tlen c = lenN content.
  Hypothesis Hl : 0 < c_tlen c.
  Hypothesis Hw : (1 <= c_window c)%nat.
  (* wire: E is a u16; every ESI fits 16 bits *)
  Hypothesis He16 : c_e c < 65536.
  Hypothesis Hesi : nocode_esi_fits c = true.
  (* receiver: the FDT entry describes the object; the environment is friendly *)
  Hypothesis Hoti : oti_matches c oti.
  Hypothesis Hfdt : fdt_entry_for files inst toi oti (c_tlen c) md5.
  Hypothesis Hwa : writer_accepts E toi.
  Hypothesis Hws : writes_succeed E toi.
  Hypothesis Hmd5 : md5_good E content md5.
  Hypothesis Hmax : c_tlen c <= max.
  Hypothesis Hnb : nb_blocks_of oti (c_tlen c) <= 4097.

  (* the packets of one uninterrupted transfer, on the wire *)
  Definition transfer_pkts : list pkt :=
    let blocks := blocks_of_buffer rep raptor_src c content in
    pkts_of (enc_run (S (S (total_shards blocks))) c [] (est_init blocks)).
  Definition wire_pkts : list apkt := map (to_apkt toi) transfer_pkts.

  Lemma Hok : nocode_ok oti (lenN_ content).
  Proof.
    destruct Hoti as (F & E1 & E2). destruct (accepts_pos c Hacc Hl) as [He Hb].
    change (lenN_ content) with (lenN content). rewrite <- Hlen.
    unfold nocode_ok. rewrite F, E1, E2. repeat split; try assumption.
    unfold filedesc_accepts in Hacc. apply andb_true_iff in Hacc. destruct Hacc as [A _].
    apply andb_true_iff in A. destruct A as [A _]. apply N.leb_le in A.
    unfold max_transfer_length in A. rewrite Hfec in A. unfold U64. lia.
  Qed.

  (* C02_nocode_recoverable_delivers, repackaged *)
  Lemma delivered_of_recoverable pkts :
    Forall (fun q => genuine_pkt oti content q = true) pkts ->
    close_flag_ok oti (lenN_ content) pkts ->
    recoverable oti (lenN_ content) pkts = true ->
    delivered E fid files inst toi max content pkts.
  Proof.
    intros G Cl Rec.
    pose proof (nocode_recoverable_delivers E oti content toi max fid files inst md5 pkts) as D.
    cbv zeta in D. unfold delivered.
    assert (D' : let (o, cx) := receive E fid files inst toi max pkts in
                 r_state o = Completed /\ ShapeDone content (toi, 0%nat) toi cx
                 /\ forall m, complete_exact content (m, calls_of (toi, 0%nat) (c_log cx)) = true
                     /\ P_C02_object (recoverable oti (lenN_ content) pkts) content
                          [(m, calls_of (toi, 0%nat) (c_log cx))] = true).
    { apply D; try assumption.
      - exact Hok.
      - change (lenN_ content) with (lenN content). rewrite <- Hlen. exact Hfdt.
      - change (lenN_ content) with (lenN content). rewrite <- Hlen. exact Hmax.
      - change (lenN_ content) with (lenN content). rewrite <- Hlen. exact Hnb. }
    destruct (receive E fid files inst toi max pkts) as [o cx].
    destruct D' as (D1 & D2 & D3). split; [exact D1|]. split; [exact D2|]. intros m.
    destruct (D3 m) as [X Y]. split; [exact X|]. split; [apply exact_once; exact X|].
    rewrite Rec in Y. exact Y.
  Qed.

  (* the bridge: what the wire image of one uninterrupted transfer satisfies on the receiver side -
     every packet genuine; every list containing them recoverable; the close-object flag on the last
     packet only, iff last transfer *)
  Lemma wire_facts :
    Forall (fun q => genuine_pkt oti content q = true) wire_pkts
    /\ (forall l, incl wire_pkts l -> recoverable oti (lenN_ content) l = true)
    /\ exists body lst, wire_pkts = body ++ [lst] /\ Forall (fun q => a_close_obj q = false) body
                        /\ a_close_obj lst = c_closable c.
  Proof.
    destruct (block_partitioning (c_b c) (c_tlen c) (c_e c)) as [[[al as_] nal] n] eqn:Ebp.
    destruct (nocode_transfer_full rep raptor_src c content Hfec Hl Hacc Hlen Hw) as [H8 Hex].
    fold transfer_pkts in H8, Hex.
    pose proof (bridge_partition c content oti toi al as_ nal n Hfec Hacc Hlen Hl Hoti Hesi Ebp) as Hpart.
    destruct (bridge_all c content oti toi al as_ nal n Hfec Hacc Hlen Hl Hoti Hesi Ebp _ Hex) as (G & Epid & Ecl).
    fold wire_pkts in G, Epid, Ecl.
    pose proof (transfer_covers c content oti toi al as_ nal n Hfec Hacc Hlen Hl Hoti Hesi Ebp _ H8) as Cov.
    rewrite <- Epid in Cov.
    destruct (transfer_flags c content oti toi al as_ nal n Hfec Hacc Hlen Hl Hoti Hesi Ebp _ H8)
      as (body & lst & Eps & Fb & Cl).
    split; [exact G|]. split.
    - intros l I. apply (covered_recoverable _ _ _ _ _ _ _ Hpart).
      intros s i Hs Hi. apply (incl_map pid_of I). apply Cov; assumption.
    - exists (map (to_apkt toi) body), (to_apkt toi lst). split; [|split].
      + unfold wire_pkts. rewrite Eps, map_app. reflexivity.
      + apply Forall_forall. intros q Hq. apply in_map_iff in Hq.
        destruct Hq as (p & <- & Hp). rewrite Forall_forall in Fb. apply (Fb p Hp).
      + exact Cl.
  Qed.

  (* main lemma 1: any genuine, flag-free packets [pre] (e.g. the tail of an earlier carousel cycle, in any
     order, with any duplication), then one whole transfer in order (last transfer or not) *)
  Theorem prefix_then_transfer_delivered pre :
    Forall (fun q => genuine_pkt oti content q = true) pre ->
    Forall (fun q => a_close_obj q = false) pre ->
    delivered E fid files inst toi max content (pre ++ wire_pkts).
  Proof.
    intros Gpre Fpre. destruct wire_facts as (G & Rec & body & lst & Ew & Fb & _).
    assert (RecAll : recoverable oti (lenN_ content) (pre ++ wire_pkts) = true)
      by (apply Rec; apply incl_appr, incl_refl).
    apply delivered_of_recoverable; [apply Forall_app; split; assumption| |exact RecAll].
    rewrite Ew, app_assoc. apply close_flag_ok_last.
    - apply Forall_app. split; assumption.
    - rewrite <- app_assoc, <- Ew. exact RecAll.
  Qed.

  (* main lemma 2: any list of genuine packets without the close-object flag that contains every packet of
     one transfer - any order, any duplication, anything genuine in between *)
  Theorem superset_delivered l :
    Forall (fun q => genuine_pkt oti content q = true) l ->
    Forall (fun q => a_close_obj q = false) l ->
    incl wire_pkts l ->
    delivered E fid files inst toi max content l.
  Proof.
    intros Gl Fl I. destruct wire_facts as (_ & Rec & _).
    apply delivered_of_recoverable; [exact Gl|apply close_flag_ok_noflag; exact Fl|apply Rec; exact I].
  Qed.

  (* T1 (C01): clean channel, one transfer, last (close flag on the last packet) or intermediate *)
  Theorem clean_channel_delivered : delivered E fid files inst toi max content wire_pkts.
  Proof. apply (prefix_then_transfer_delivered []); constructor. Qed.

  (* T2 (C16): carousel (no close flag), late join at any offset j of one cycle, then one whole cycle *)
  Theorem late_join_delivered : c_closable c = false ->
    forall j, delivered E fid files inst toi max content (skipn j wire_pkts ++ wire_pkts).
  Proof.
    intros Hc j. destruct wire_facts as (G & _ & body & lst & Ew & Fb & Cl).
    assert (Fall : Forall (fun q => a_close_obj q = false) wire_pkts).
    { rewrite Ew. apply Forall_app. split; [exact Fb|]. constructor; [congruence|constructor]. }
    assert (Sub : forall P : apkt -> Prop, Forall P wire_pkts -> Forall P (skipn j wire_pkts)).
    { intros P F. rewrite <- (firstn_skipn j wire_pkts) in F. apply Forall_app in F. apply F. }
    apply prefix_then_transfer_delivered; apply Sub; assumption.
  Qed.
End Compose.

Print Assumptions clean_channel_delivered.
Print Assumptions late_join_delivered.
Print Assumptions superset_delivered.
Print Assumptions prefix_then_transfer_delivered.

(* ================= 6. concrete instances ================= *)
(* the No-Code blocks do not use the FEC oracles *)
Definition no_rep : fec -> N -> list N -> N -> N -> list (list N) := fun _ _ _ _ _ => [].
Definition no_rsrc : list N -> N -> option (list (list N)) := fun _ _ => None.

(* the 5-byte object of Proofs/C02Full.v (E = 2, B = 2: block 0 = [1;2] [3;4], block 1 = the short symbol [5]),
   sent with two interleaved blocks by a debug-profile sender: last transfer / carousel transfer *)
Definition ex_cfg (closable : bool) : ecfg := mk_ecfg NoCode 2 2 0 2 closable 5 true.

Example ex_wire :
  map (fun p => (p_sbn p, p_esi p, p_payload p, p_close p)) (transfer_pkts no_rep no_rsrc (ex_cfg true) ex_content)
  = [(0, 0, [1; 2], false); (1, 0, [5], false); (0, 1, [3; 4], true)]
  /\ map (fun q => (pid_of q, a_payload q, a_close_obj q)) (wire_pkts no_rep no_rsrc (ex_cfg true) ex_content 7)
     = [((0, 0), [1; 2], false); ((1, 0), [5], false); ((0, 1), [3; 4], true)]
  /\ map a_pidbytes (wire_pkts no_rep no_rsrc (ex_cfg true) ex_content 7) = [[0; 0; 0; 0]; [0; 1; 0; 0]; [0; 0; 0; 1]].
Proof. vm_compute. repeat split. Qed.

Example ex_clean_channel_computed :
  summary 7 (receive env_ok 1 ex_files None 7 1000 (wire_pkts no_rep no_rsrc (ex_cfg true) ex_content 7))
  = (Completed, [CallOpen true; CallWrite [1; 2; 3; 4] true; CallWrite [5] true; CallComplete])
  /\ summary 7 (receive env_ok 1 ex_files None 7 1000 (wire_pkts no_rep no_rsrc (ex_cfg false) ex_content 7))
  = (Completed, [CallOpen true; CallWrite [1; 2; 3; 4] true; CallWrite [5] true; CallComplete]).
Proof. vm_compute. split; reflexivity. Qed.

Example ex_late_join_computed :
  let w := wire_pkts no_rep no_rsrc (ex_cfg false) ex_content 7 in
  forallb (fun j => match summary 7 (receive env_ok 1 ex_files None 7 1000 (skipn j w ++ w)) with
                    | (Completed, [CallOpen true; CallWrite [1; 2; 3; 4] true; CallWrite [5] true; CallComplete]) => true
                    | _ => false end) [0; 1; 2; 3; 4]%nat = true.
Proof. vm_compute. reflexivity. Qed.

(* the premises of the theorems are satisfiable: they apply to this instance *)
Lemma ex_premises closable :
  c_fec (ex_cfg closable) = NoCode /\ filedesc_accepts (ex_cfg closable) = true
  /\ c_tlen (ex_cfg closable) = lenN ex_content /\ 0 < c_tlen (ex_cfg closable)
  /\ (1 <= c_window (ex_cfg closable))%nat /\ c_e (ex_cfg closable) < 65536
  /\ nocode_esi_fits (ex_cfg closable) = true /\ oti_matches (ex_cfg closable) ex_oti
  /\ fdt_entry_for ex_files None 7 ex_oti (c_tlen (ex_cfg closable)) None
  /\ writer_accepts env_ok 7 /\ writes_succeed env_ok 7 /\ md5_good env_ok ex_content None
  /\ c_tlen (ex_cfg closable) <= 1000 /\ nb_blocks_of ex_oti (c_tlen (ex_cfg closable)) <= 4097.
Proof.
  split; [reflexivity|]. split; [destruct closable; vm_compute; reflexivity|]. split; [reflexivity|].
  split; [reflexivity|]. split; [cbn [ex_cfg c_window]; lia|]. split; [reflexivity|]. split; [reflexivity|].
  split; [split; [reflexivity|split; reflexivity]|].
  split; [exists (mk_ff 7 CNull (Some ex_oti) 5 None None false); repeat split|].
  split; [split; reflexivity|]. split; [intros i; reflexivity|]. split; [exact I|].
  split; [vm_compute; discriminate|vm_compute; discriminate].
Qed.

Example ex_clean_channel_by_theorem closable :
  delivered env_ok 1 ex_files None 7 1000 ex_content (wire_pkts no_rep no_rsrc (ex_cfg closable) ex_content 7).
Proof.
  destruct (ex_premises closable) as (H1 & H2 & H3 & H4 & H5 & H6 & H7 & H8 & H9 & H10 & H11 & H12 & H13 & H14).
  apply (clean_channel_delivered no_rep no_rsrc (ex_cfg closable) ex_content ex_oti env_ok 7 1000 1 ex_files None None);
    assumption.
Qed.

Example ex_late_join_by_theorem j :
  let w := wire_pkts no_rep no_rsrc (ex_cfg false) ex_content 7 in
  delivered env_ok 1 ex_files None 7 1000 ex_content (skipn j w ++ w).
Proof.
  destruct (ex_premises false) as (H1 & H2 & H3 & H4 & H5 & H6 & H7 & H8 & H9 & H10 & H11 & H12 & H13 & H14).
  apply (late_join_delivered no_rep no_rsrc (ex_cfg false) ex_content ex_oti env_ok 7 1000 1 ex_files None None);
    (assumption || reflexivity).
Qed.

(* D39 (found here, replayed on the sender, fixed in /repo: FileDesc::new now refuses such objects - first
   conjunct).  Before the fix FileDesc::new accepted a No-Code OTI whose maximum source block
   length exceeds 65536 (the field is a public u32; only Oti::new_no_code takes a u16), and an object with a
   block of more than 65536 symbols.  AlcNoCode::add_fec_payload_id masks the ESI with 0xFFFF: the symbol
   65536 of the block goes out as ESI 0.  Instance: E = 1, B = 65537, L = 65537 (one block of 65537
   symbols).  The wire image of ESI 65536 reads back as (sbn 0, esi 0); whatever the sender emits, no packet
   list is recoverable for the receiver, since no packet can carry ESI 65536. *)
Definition wrap_cfg : ecfg := mk_ecfg NoCode 1 65537 0 1 true 65537 false.
Definition wrap_oti : roti := mk_roti FNoCode 1 65537 0 None.

Lemma wire_esi_16bit toi p : snd (pid_of (to_apkt toi p)) < 65536.
Proof.
  unfold pid_of, a_pid_with, to_apkt, src_pkt. cbn [a_pidbytes].
  rewrite parse_mk_pid by (apply N.mod_lt; lia). cbn [snd]. apply N.mod_lt. lia.
Qed.

Example esi_wraps_refuted :
  filedesc_accepts wrap_cfg = false /\ oti_matches wrap_cfg wrap_oti
  /\ block_partitioning (c_b wrap_cfg) (c_tlen wrap_cfg) (c_e wrap_cfg) = (65537, 65537, 0, 1)
  /\ nocode_esi_fits wrap_cfg = false
  /\ (let p := mk_pkt 0 65536 [9] true 65537 true in
      pid_of (to_apkt 7 p) = (0, 0) /\ a_pidbytes (to_apkt 7 p) = [0; 0; 0; 0])
  /\ forall toi ps, recoverable wrap_oti 65537 (map (to_apkt toi) ps) = false.
Proof.
  split; [vm_compute; reflexivity|]. split; [repeat split|]. split; [vm_compute; reflexivity|].
  split; [vm_compute; reflexivity|]. split; [vm_compute; repeat split|].
  intros toi ps. destruct (recoverable wrap_oti 65537 (map (to_apkt toi) ps)) eqn:R; [exfalso|reflexivity].
  assert (Hp : partition_of wrap_oti 65537 = (65537, 65537, 0, 1)) by (vm_compute; reflexivity).
  unfold recoverable, source_ks in R. rewrite Hp in R. apply recoverable_covered in R.
  assert (Hk : 65536 < k_of 65537 65537 0 0) by (vm_compute; reflexivity).
  specialize (R 0 65536 ltac:(lia) Hk). apply in_map_iff in R. destruct R as (q & Eq & Hq).
  apply in_map_iff in Hq. destruct Hq as (p & <- & _).
  pose proof (wire_esi_16bit toi p) as W. rewrite Eq in W. cbn [snd] in W. lia.
Qed.
