(* C04, receiver side: no step of the object receiver (Model/ObjRecv.v, after fixes D5 D7 D9 D10 D28
   D33 D34) raises the model's panic flag, whatever the packet, whatever the writer / FEC / MD5 /
   inflate oracles answer.  The proof carries an invariant of the object state ([inv]):
     - no OTI yet            => no block has been created;
     - OTI known             => the transfer length is known, the stored partition (a_large, a_small,
                                nb_a_large) is the partition of (B, L, E), L and E are in the range in
                                which block_length's u64 arithmetic cannot overflow;
     - every initialised block has its decoder unless it is completed. *)
From FluteV Require Import Model.ObjRecv Model.Recv Proofs.PartitionProofs Proofs.D48Step.
From Coq Require Import Lia.
Open Scope N_scope.

Arguments N.add : simpl never. Arguments N.mul : simpl never. Arguments N.sub : simpl never.
Arguments N.div : simpl never. Arguments N.modulo : simpl never.
Arguments N.eqb : simpl never. Arguments N.ltb : simpl never. Arguments N.leb : simpl never.
Arguments block_partitioning : simpl never. Arguments block_length64 : simpl never.

(* ---------- the invariant ---------- *)
Definition blk_ok (b : bdec) : Prop := bd_init b = true -> bd_alloc b = true \/ bd_completed b = true.
Definition blocks_ok (o : objrecv) : Prop := Forall blk_ok (r_blocks o).

(* ranges: a transfer length of at most 2^64 - 2^16 and a symbol length below 2^16 *)
Definition tl_ok (tl : N) : Prop := tl + 65536 <= U64.
Definition e_ok (oti : roti) : Prop := ro_e oti < 65536.

Definition part_ok (o : objrecv) : Prop :=
  forall oti tl, r_oti o = Some oti -> r_tlen o = Some tl ->
    exists n, block_partitioning (ro_b oti) tl (ro_e oti) = (r_al o, r_as o, r_nal o, n).

Record inv (o : objrecv) : Prop := {
  i_none : r_oti o = None -> r_blocks o = [] /\ r_off o = 0;
  i_tlen : r_oti o <> None -> r_tlen o <> None;
  i_tl : forall tl, r_tlen o = Some tl -> tl_ok tl;
  i_e : forall oti, r_oti o = Some oti -> e_ok oti;
  i_part : part_ok o;
  i_blocks : blocks_ok o
}.

(* the fields the invariant reads, apart from the blocks *)
Definition core_eq (o o' : objrecv) : Prop :=
  r_oti o' = r_oti o /\ r_tlen o' = r_tlen o /\ r_al o' = r_al o /\ r_as o' = r_as o /\ r_nal o' = r_nal o.

Lemma core_refl o : core_eq o o.
Proof. repeat split. Qed.
Lemma core_trans a b c : core_eq a b -> core_eq b c -> core_eq a c.
Proof. intros (A1&A2&A3&A4&A5) (B1&B2&B3&B4&B5). repeat split; congruence. Qed.

(* a step that keeps the core, keeps the blocks well-formed, and either keeps an OTI-less object
   block-less *)
Definition keeps (o o' : objrecv) : Prop :=
  core_eq o o' /\ (blocks_ok o -> blocks_ok o') /\
  (r_blocks o = [] /\ r_off o = 0 -> r_oti o = None -> r_blocks o' = [] /\ r_off o' = 0).

Lemma keeps_refl o : keeps o o.
Proof. split; [apply core_refl|]. split; auto. Qed.
Lemma keeps_trans a b c : keeps a b -> keeps b c -> keeps a c.
Proof.
  intros (A1&A2&A3) (B1&B2&B3). split; [eapply core_trans; eassumption|]. split; [auto|].
  intros H N. apply B3; [apply A3; assumption|]. destruct A1 as (E&_). congruence.
Qed.

Lemma inv_keeps o o' : inv o -> keeps o o' -> inv o'.
Proof.
  intros [I1 I2 I3 I4 I5 I6] ((E1&E2&E3&E4&E5)&K2&K3). constructor.
  - intros N. rewrite E1 in N. apply K3; auto.
  - rewrite E1, E2. exact I2.
  - rewrite E2. exact I3.
  - rewrite E1. exact I4.
  - unfold part_ok in *. rewrite E1, E2, E3, E4, E5. exact I5.
  - auto.
Qed.

Definition np (c c' : ctx) : Prop := c_panic c = false -> c_panic c' = false.
Lemma np_refl c : np c c. Proof. exact (fun H => H). Qed.
Lemma np_trans a b c : np a b -> np b c -> np a c. Proof. unfold np; auto. Qed.
Lemma np_logc c e : np c (logc c e). Proof. exact (fun H => H). Qed.
Lemma np_inc_calls c t : np c (inc_calls c t). Proof. exact (fun H => H). Qed.
Lemma np_inc_wcount c w : np c (inc_wcount c w). Proof. exact (fun H => H). Qed.

Section S.
  Variable E : env.

  (* ---------- complete / error ---------- *)
  Lemma keeps_clear o s ws : keeps o (clear_bufs (set_wstate (set_state o s) ws)).
  Proof.
    split; [repeat split|]. split.
    - intros _. constructor.
    - intros [_ H] _. split; [reflexivity|exact H].
  Qed.

  Lemma complete_keeps o c : keeps o (fst (complete o c)) /\ np c (snd (complete o c)).
  Proof. unfold complete. destruct (r_writer o) as [[w ws]|]; cbn [fst snd]; split; try apply keeps_clear; apply np_refl || apply np_logc. Qed.

  Lemma error_keeps o i c : keeps o (fst (error o i c)) /\ np c (snd (error o i c)).
  Proof. unfold error. destruct (r_writer o) as [[w ws]|]; cbn [fst snd]; split; try apply keeps_clear; apply np_refl || apply np_logc. Qed.

  Lemma keeps_set_state o s : keeps o (set_state o s).
  Proof. split; [repeat split|]. split; auto. Qed.

  (* ---------- block decoders ---------- *)
  Lemma blk_ok_new : blk_ok bdec_new.
  Proof. intros H; discriminate. Qed.

  Lemma Forall_upd_nthb (P : bdec -> Prop) f : forall l i,
    Forall P l -> (forall x, nth_error l i = Some x -> P (f x)) -> Forall P (upd_nthb i f l).
  Proof.
    induction l as [|y l IH]; intros i HF Hx; [destruct i; constructor|].
    inversion HF; subst. destruct i as [|j]; cbn [upd_nthb].
    - constructor; [apply Hx; reflexivity|assumption].
    - constructor; [assumption|]. apply IH; [assumption|]. intros x Hn. apply Hx. exact Hn.
  Qed.

  Lemma bd_init_block_alloc oti k size b b' :
    bd_init b = false -> bd_init_block oti k size b = Some b' ->
    bd_alloc b' = true /\ bd_init b' = true /\ bd_completed b' = bd_completed b.
  Proof.
    intros Hi. unfold bd_init_block. rewrite Hi.
    destruct (ro_fec oti).
    - intros H; inversion H; subst; cbn; auto.
    - destruct (rs_ok k (ro_parity oti)); [|discriminate]. intros H; inversion H; subst; cbn; auto.
    - destruct (rs_ok k (ro_parity oti)); [|discriminate]. intros H; inversion H; subst; cbn; auto.
    - discriminate.
    - destruct (ro_scheme oti) as [[[z n] al]|]; [|discriminate].
      destruct (_ || _); [discriminate|]. intros H; inversion H; subst; cbn; auto.
    - destruct (ro_scheme oti) as [x|]; [|discriminate].
      destruct (_ || _); [discriminate|]. intros H; inversion H; subst; cbn; auto.
  Qed.

  Lemma bd_push_alloc toi oti sbn esi payload b :
    bd_alloc b = true ->
    snd (bd_push E toi oti sbn esi payload b) = false /\ blk_ok (fst (bd_push E toi oti sbn esi payload b)).
  Proof.
    intros Ha. unfold bd_push. destruct (bd_completed b) eqn:Ec; cbn [fst snd].
    - split; [reflexivity|]. intros _. right. exact Ec.
    - rewrite Ha. cbn [negb fst snd].
      destruct (ro_e oti <? lenN_ payload); cbn [fst snd]; split; try reflexivity; intros _; left; [exact Ha|reflexivity].
  Qed.

  (* ---------- the block writer ---------- *)
  Lemma do_write_np w data c : np c (snd (do_write E w data c)).
  Proof. unfold do_write. cbn [snd]. exact (fun H => H). Qed.

  Lemma bw_write_np w sbn b bw c :
    np c (snd (bw_write E w sbn b bw c)) /\ fst (bw_write E w sbn b bw c) <> BwPanic.
  Proof.
    unfold bw_write. destruct (negb (bw_sbn bw =? sbn)); cbn [fst snd]; [split; [apply np_refl|discriminate]|].
    destruct (bd_data b) as [data0|]; cbn [fst snd]; [|split; [apply np_refl|discriminate]].
    cbv zeta.
    destruct (bw_cenc bw).
    - unfold do_write. destruct (e_write_ok E w (wcount c w)); cbn [fst snd]; split; try discriminate; exact (fun H => H).
    - destruct (bw_dead bw && _); cbn [fst snd]; [split; [apply np_refl|discriminate]|].
      destruct (e_inflate E CZlib (bw_acc bw) false); cbn [fst snd]; [|split; [apply np_refl|discriminate]].
      destruct (e_inflate E CZlib _ _); cbn [fst snd]; [|split; [apply np_refl|discriminate]].
      destruct (skipn _ _); unfold do_write; [cbn [fst snd]; split; [apply np_refl|discriminate]|].
      destruct (e_write_ok E w (wcount c w)); cbn [fst snd]; split; try discriminate; exact (fun H => H).
    - destruct (bw_dead bw && _); cbn [fst snd]; [split; [apply np_refl|discriminate]|].
      destruct (e_inflate E CDeflate (bw_acc bw) false); cbn [fst snd]; [|split; [apply np_refl|discriminate]].
      destruct (e_inflate E CDeflate _ _); cbn [fst snd]; [|split; [apply np_refl|discriminate]].
      destruct (skipn _ _); unfold do_write; [cbn [fst snd]; split; [apply np_refl|discriminate]|].
      destruct (e_write_ok E w (wcount c w)); cbn [fst snd]; split; try discriminate; exact (fun H => H).
    - destruct (bw_dead bw && _); cbn [fst snd]; [split; [apply np_refl|discriminate]|].
      destruct (e_inflate E CGzip (bw_acc bw) false); cbn [fst snd]; [|split; [apply np_refl|discriminate]].
      destruct (e_inflate E CGzip _ _); cbn [fst snd]; [|split; [apply np_refl|discriminate]].
      destruct (skipn _ _); unfold do_write; [cbn [fst snd]; split; [apply np_refl|discriminate]|].
      destruct (e_write_ok E w (wcount c w)); cbn [fst snd]; split; try discriminate; exact (fun H => H).
  Qed.

  (* ---------- write_blocks ---------- *)
  Definition robj (r : res) : objrecv := match r with ROk x | RErr x => x end.

  Lemma keeps_set_blocks o bl off nb sz bw :
    (blocks_ok o -> Forall blk_ok bl) ->
    (r_blocks o = [] /\ r_off o = 0 -> r_oti o = None -> bl = [] /\ off = 0) ->
    keeps o (set_blocks o bl off nb sz bw).
  Proof. intros H1 H2. split; [repeat split|]. split; [exact H1|exact H2]. Qed.

  Lemma write_blocks_keeps : forall fuel sbn o c,
    keeps o (robj (fst (write_blocks E fuel sbn o c))) /\ np c (snd (write_blocks E fuel sbn o c)).
  Proof.
    induction fuel as [|f IH]; intros sbn o c; cbn [write_blocks fst snd robj];
      [split; [apply keeps_refl|apply np_refl]|].
    destruct (r_writer o) as [[w ws]|]; [|split; [apply keeps_refl|apply np_refl]].
    destruct ws; try (split; [apply keeps_refl|apply np_refl]).
    destruct (r_bw o) as [bw|]; [|split; [apply keeps_refl|apply np_refl]].
    destruct ((r_off o <=? sbn) && (sbn - r_off o <? N.of_nat (length (r_blocks o)))) eqn:Hr;
      [|split; [apply keeps_refl|apply np_refl]].
    apply andb_prop in Hr. destruct Hr as [Hr1 Hr2]. apply N.ltb_lt in Hr2.
    set (idx := N.to_nat (sbn - r_off o)).
    destruct (bd_completed (nth idx (r_blocks o) bdec_new)) eqn:Hc; cbn [negb];
      [|split; [apply keeps_refl|apply np_refl]].
    pose proof (bw_write_np w sbn (nth idx (r_blocks o) bdec_new) bw c) as [N1 N2].
    destruct (bw_write E w sbn (nth idx (r_blocks o) bdec_new) bw c) as [[| bw' | |] c1]; cbn [fst snd robj] in *.
    - split; [apply keeps_refl|exact N1].
    - assert (K1 : forall nb sz,
                 keeps o (let (bl, off) := if Nat.eqb idx 0 then (tl (r_blocks o), r_off o + 1)
                                           else (upd_nthb idx (fun x => mk_bdec (bd_completed x) (bd_init x) 0 (bd_k x) [] None false) (r_blocks o), r_off o) in
                          set_blocks o bl off nb sz (Some bw'))).
      { intros nb sz. destruct (Nat.eqb idx 0).
        - apply keeps_set_blocks.
          + unfold blocks_ok. intros HF. destruct (r_blocks o); [constructor|inversion HF; assumption].
          + intros [Hb _] _. rewrite Hb in Hr2. cbn in Hr2. lia.
        - apply keeps_set_blocks.
          + unfold blocks_ok. intros HF. apply Forall_upd_nthb; [exact HF|].
            intros x Hx _. right. cbn [bd_completed]. rewrite (nth_error_nth _ _ bdec_new Hx) in Hc. exact Hc.
          + intros [Hb _] _. rewrite Hb in Hr2. cbn in Hr2. lia. }
      specialize (K1 (r_nb_alloc o - 1) (r_alloc_size o - bd_size (nth idx (r_blocks o) bdec_new))).
      destruct (if Nat.eqb idx 0 then _ else _) as [bl off]. cbv zeta beta iota.
      set (o1 := set_blocks o bl off _ _ (Some bw')) in *.
      destruct (bw_left bw' =? 0).
      + destruct (match r_md5 o1, bw_md5 bw' with Some want, Some got => eqb_bytes want got | _, _ => true end).
        * pose proof (complete_keeps o1 c1) as [K2 N3]. destruct (complete o1 c1) as [o2 c2]. cbn [fst snd robj] in *.
          split; [eapply keeps_trans; eassumption|eapply np_trans; eassumption].
        * pose proof (error_keeps o1 false c1) as [K2 N3]. destruct (error o1 false c1) as [o2 c2]. cbn [fst snd robj] in *.
          split; [eapply keeps_trans; eassumption|eapply np_trans; eassumption].
      + destruct (IH (sbn + 1) o1 c1) as [K2 N3].
        split; [eapply keeps_trans; eassumption|eapply np_trans; eassumption].
    - split; [apply keeps_refl|exact N1].
    - congruence.
  Qed.

  (* ---------- block_length cannot underflow or overflow inside the partition ---------- *)
  Lemma block_length64_some b l e al as_ nal n sbn :
    block_partitioning b l e = (al, as_, nal, n) -> sbn < n -> tl_ok l -> e < 65536 ->
    block_length64 al as_ nal l e sbn <> None.
  Proof.
    intros Hp Hs Hl He.
    assert (Hb0 : 0 < b).
    { destruct (N.eq_dec b 0) as [Z|]; [|lia]. subst b. unfold block_partitioning in Hp. cbn in Hp. inversion Hp; subst. lia. }
    assert (He0 : 0 < e).
    { destruct (N.eq_dec e 0) as [Z|]; [|lia]. subst e. unfold block_partitioning in Hp.
      destruct (b =? 0); cbn in Hp; inversion Hp; subst; lia. }
    assert (Hl0 : 0 < l).
    { destruct (N.eq_dec l 0) as [Z|]; [|lia]. subst l. rewrite partition_zero_length in Hp. inversion Hp; subst. lia. }
    pose proof (partition_covers_proof b l e Hb0 He0 Hl0) as P. rewrite Hp in P. destruct P as [P _].
    destruct (ceil_witness l e He0) as (r & HT & Hr).
    rewrite (block_length64_eq _ _ _ _ _ _ _ _ _ sbn P He0 HT Hr Hs) by (unfold tl_ok in Hl; lia).
    destruct (block_length_closed_form _ _ _ _ _ _ _ _ _ sbn P He0 HT Hr Hs) as [Eq _].
    rewrite Eq. discriminate.
  Qed.

  (* ---------- push_to_block2 ---------- *)
  Lemma Forall_app_repeat (l : list bdec) k : Forall blk_ok l -> Forall blk_ok (l ++ repeat bdec_new k).
  Proof.
    intros H. apply Forall_app. split; [exact H|]. apply Forall_forall. intros x Hx.
    apply repeat_spec in Hx. subst x. apply blk_ok_new.
  Qed.

  Lemma push_to_block2_keeps p o c :
    inv o -> r_oti o <> None ->
    keeps o (robj (fst (push_to_block2 E p o c))) /\ np c (snd (push_to_block2 E p o c)).
  Proof.
    intros I Hoti. unfold push_to_block2.
    destruct (r_oti o) as [oti|] eqn:Eo; [|congruence].
    destruct (r_tlen o) as [tlen|] eqn:Et.
    2: { exfalso. apply (i_tlen o I); [rewrite Eo; discriminate|exact Et]. }
    destruct (a_pid_with (ro_fec oti) p) as [[[sbn esi] sbl]|]; cbn [fst snd robj]; [|split; [apply keeps_refl|apply np_refl]].
    destruct (tlen =? 0).
    { destruct (r_writer o); cbn [fst snd robj]; [|split; [apply keeps_refl|apply np_refl]].
      pose proof (complete_keeps o c) as [K N]. destruct (complete o c) as [o1 c1]. exact (conj K N). }
    destruct (sbn <? r_off o); cbn [fst snd robj]; [split; [apply keeps_refl|apply np_refl]|].
    destruct (match sbl with None => nb_blocks_of oti tlen <=? sbn | Some _ => false end) eqn:Hnb;
      cbn [fst snd robj]; [split; [apply keeps_refl|apply np_refl]|].
    destruct ((N.of_nat (length (r_blocks o)) <=? sbn - r_off o) && (4096 <? sbn - r_off o));
      cbn [fst snd robj]; [split; [apply keeps_set_state|apply np_refl]|].
    cbv zeta.
    set (bl0 := if N.of_nat (length (r_blocks o)) <=? sbn - r_off o
                then r_blocks o ++ repeat bdec_new (N.to_nat (sbn - r_off o) + 1 - length (r_blocks o))
                else r_blocks o).
    assert (Hbl0 : Forall blk_ok bl0).
    { unfold bl0. destruct (N.of_nat (length (r_blocks o)) <=? sbn - r_off o); [apply Forall_app_repeat|]; apply (i_blocks o I). }
    assert (Kbl : forall bl nb sz, Forall blk_ok bl -> keeps o (set_blocks o bl (r_off o) nb sz (r_bw o))).
    { intros bl nb sz HF. apply keeps_set_blocks; [intros _; exact HF|]. intros _ N. congruence. }
    set (idx := N.to_nat (sbn - r_off o)).
    set (b := nth idx bl0 bdec_new).
    assert (Hb : blk_ok b).
    { unfold b. destruct (nth_in_or_default idx bl0 bdec_new) as [Hin|Hd].
      - rewrite Forall_forall in Hbl0. apply Hbl0. exact Hin.
      - rewrite Hd. apply blk_ok_new. }
    destruct (bd_completed b) eqn:Hc; cbn [fst snd robj]; [split; [apply Kbl; exact Hbl0|apply np_refl]|].
    (* block initialisation: never the panic outcome *)
    set (k := match sbl with Some v => v | None => if sbn <? r_nal o then r_al o else r_as o end).
    assert (Hlen : match sbl with
                   | Some _ => Some (k * ro_e oti)
                   | None => block_length64 (r_al o) (r_as o) (r_nal o) tlen (ro_e oti) sbn
                   end <> None).
    { destruct sbl as [v|]; [discriminate|].
      destruct (i_part o I oti tlen Eo Et) as [n Hp].
      apply (block_length64_some _ _ _ _ _ _ n sbn Hp).
      - unfold nb_blocks_of in Hnb. rewrite Hp in Hnb. apply N.leb_gt in Hnb. exact Hnb.
      - apply (i_tl o I). exact Et.
      - apply (i_e o I). exact Eo. }
    destruct (bd_init b) eqn:Hi.
    - (* already initialised, not completed: it has its decoder *)
      assert (Ha : bd_alloc b = true) by (destruct (Hb Hi) as [A|A]; [exact A|congruence]).
      destruct (bd_push_alloc (r_toi o) oti sbn esi (a_payload p) b Ha) as [Pn Pk].
      destruct (bd_push E (r_toi o) oti sbn esi (a_payload p) b) as [b2 pan]. cbn [fst snd] in Pn, Pk. subst pan.
      set (o1 := set_blocks _ (upd_nthb idx (fun _ => b2) bl0) _ _ _ _).
      assert (K1 : keeps o o1).
      { unfold o1. eapply keeps_trans; [apply Kbl; exact Hbl0|].
        apply keeps_set_blocks; [intros _; apply Forall_upd_nthb; [exact Hbl0|intros; exact Pk]|].
        cbn [r_oti set_blocks]. intros _ N. congruence. }
      destruct (bd_completed b2); cbn [fst snd robj]; [|split; [exact K1|apply np_refl]].
      destruct (write_blocks_keeps (S (length (r_blocks o1))) sbn o1 c) as [K2 N2].
      split; [eapply keeps_trans; eassumption|exact N2].
    - destruct (match sbl with Some _ => Some (k * ro_e oti) | None => block_length64 _ _ _ _ _ _ end) as [blen|]; [|congruence].
      destruct ((2 <=? r_nb_alloc o) && (r_max o <? r_alloc_size o + blen)); cbn [fst snd robj].
      { split; [eapply keeps_trans; [apply Kbl; exact Hbl0|apply keeps_set_state]|apply np_refl]. }
      destruct (bd_init_block oti k blen b) as [b'|] eqn:Eb; cbn [fst snd robj].
      2: { split; [eapply keeps_trans; [apply Kbl; exact Hbl0|apply keeps_set_state]|apply np_refl]. }
      destruct (bd_init_block_alloc oti k blen b b' Hi Eb) as (Ha & _ & _).
      destruct (bd_push_alloc (r_toi o) oti sbn esi (a_payload p) b' Ha) as [Pn Pk].
      destruct (bd_push E (r_toi o) oti sbn esi (a_payload p) b') as [b2 pan]. cbn [fst snd] in Pn, Pk. subst pan.
      set (o1 := set_blocks _ (upd_nthb idx (fun _ => b2) bl0) _ _ _ _).
      assert (K1 : keeps o o1).
      { unfold o1. eapply keeps_trans; [apply Kbl; exact Hbl0|].
        apply keeps_set_blocks; [intros _; apply Forall_upd_nthb; [exact Hbl0|intros; exact Pk]|].
        cbn [r_oti set_blocks]. intros _ N. congruence. }
      destruct (bd_completed b2); cbn [fst snd robj]; [|split; [exact K1|apply np_refl]].
      destruct (write_blocks_keeps (S (length (r_blocks o1))) sbn o1 c) as [K2 N2].
      split; [eapply keeps_trans; eassumption|exact N2].
  Qed.

  (* ---------- push_to_block, the packet cache ---------- *)
  Lemma oti_kept o o' : keeps o o' -> r_oti o <> None -> r_oti o' <> None.
  Proof. intros ((E1&_)&_) H. rewrite E1. exact H. Qed.

  Lemma push_to_block_keeps p o c :
    inv o -> r_oti o <> None ->
    keeps o (robj (fst (push_to_block E p o c))) /\ np c (snd (push_to_block E p o c)).
  Proof.
    intros I Ho. unfold push_to_block. destruct (push_to_block2_keeps p o c I Ho) as [K N].
    destruct (push_to_block2 E p o c) as [[o1|o1] c1]; cbn [fst snd robj] in *; [|exact (conj K N)].
    destruct (a_close_obj p); [|exact (conj K N)].
    destruct (r_state o1); try exact (conj K N).
    destruct (r_writer o1) as [wr|] eqn:Ewr1; [|exact (conj K N)].
    destruct (error_keeps o1 true c1) as [K2 N2]. destruct (error o1 true c1) as [o2 c2]. cbn [fst snd robj] in *.
    split; [eapply keeps_trans; eassumption|eapply np_trans; eassumption].
  Qed.

  Lemma keeps_set_cache o cache sz :
    keeps o (mk_or (r_state o) (r_toi o) (r_oti o) cache sz (r_max o) (r_blocks o) (r_off o)
                   (r_tlen o) (r_cenc o) (r_md5 o) (r_md5chk o) (r_al o) (r_as o) (r_nal o) (r_writer o)
                   (r_bw o) (r_fdt_id o) (r_nb_alloc o) (r_alloc_size o) (r_clen o) (r_nocache o)).
  Proof. split; [repeat split|]. split; auto. Qed.

  Lemma drain_cache_keeps : forall cache o c,
    inv o -> r_oti o <> None ->
    keeps o (fst (drain_cache E cache o c)) /\ np c (snd (drain_cache E cache o c)).
  Proof.
    induction cache as [|p rest IH]; intros o c I Ho; cbn [drain_cache fst snd]; [split; [apply keeps_refl|apply np_refl]|].
    set (o0 := mk_or _ _ _ rest _ _ _ _ _ _ _ _ _ _ _ _ _ _ _ _ _ _).
    assert (K0 : keeps o o0) by apply keeps_set_cache.
    assert (I0 : inv o0) by (eapply inv_keeps; eassumption).
    assert (Ho0 : r_oti o0 <> None) by exact Ho.
    destruct (push_to_block_keeps p o0 c I0 Ho0) as [K1 N1].
    destruct (push_to_block E p o0 c) as [[o1|o1] c1]; cbn [fst snd robj] in *.
    - destruct (r_cache o1) as [|x xs] eqn:Ec; cbn [fst snd].
      + split; [exact (keeps_trans _ _ _ K0 K1)|exact N1].
      + destruct (IH o1 c1) as [K2 N2]; [exact (inv_keeps _ _ I0 K1)|exact (oti_kept _ _ K1 Ho0)|].
        split; [exact (keeps_trans _ _ _ K0 (keeps_trans _ _ _ K1 K2))|exact (np_trans _ _ _ N1 N2)].
    - destruct (error_keeps o1 false c1) as [K2 N2]. destruct (error o1 false c1) as [o2 c2]. cbn [fst snd] in *.
      split; [exact (keeps_trans _ _ _ K0 (keeps_trans _ _ _ K1 K2))|exact (np_trans _ _ _ N1 N2)].
  Qed.

  Lemma nb_block_pos_oti o : inv o -> nb_block o <> 0 -> r_oti o <> None.
  Proof.
    intros I Hn Ho. destruct (i_none o I Ho) as [Hb Hf]. unfold nb_block in Hn. rewrite Hb, Hf in Hn. cbn in Hn. lia.
  Qed.

  Lemma push_from_cache_keeps o c :
    inv o -> keeps o (fst (push_from_cache E o c)) /\ np c (snd (push_from_cache E o c)).
  Proof.
    intros I. unfold push_from_cache. destruct (cache_replay_blocked o) eqn:Hblk; [split; [apply keeps_refl|apply np_refl]|].
    assert (Hoti : r_oti o <> None).
    { unfold cache_replay_blocked in Hblk. destruct (r_oti o); [discriminate|discriminate Hblk]. }
    destruct (drain_cache_keeps (r_cache o) o c I Hoti) as [K N].
    destruct (drain_cache E (r_cache o) o c) as [o1 c1]. cbn [fst snd] in *.
    split; [eapply keeps_trans; [exact K|apply keeps_set_cache]|exact N].
  Qed.

  (* ---------- init_blocks_partitioning, init_object_writer ---------- *)
  (* the invariant up to the stored partition, which init_partition (re)establishes *)
  Record pinv (o : objrecv) : Prop := {
    p_none : r_oti o = None -> r_blocks o = [] /\ r_off o = 0;
    p_tlen : r_oti o <> None -> r_tlen o <> None;
    p_tl : forall tl, r_tlen o = Some tl -> tl_ok tl;
    p_e : forall oti, r_oti o = Some oti -> e_ok oti;
    p_part : 0 < nb_block o -> part_ok o;
    p_blocks : blocks_ok o
  }.

  Lemma inv_pinv o : inv o -> pinv o.
  Proof. intros [I1 I2 I3 I4 I5 I6]. constructor; auto. Qed.

  Lemma pinv_inv o : pinv o -> part_ok o -> inv o.
  Proof. intros [P1 P2 P3 P4 P5 P6] H. constructor; auto. Qed.

  Lemma init_partition_inv o : pinv o -> inv (init_partition o).
  Proof.
    intros P. pose proof P as [P1 P2 P3 P4 P5 P6]. unfold init_partition.
    destruct (N.ltb_spec 0 (nb_block o)) as [Hn|Hn]; [apply pinv_inv; auto|].
    destruct (r_oti o) as [oti|] eqn:Eo.
    2: { apply pinv_inv; [exact P|]. intros x t H; congruence. }
    destruct (r_tlen o) as [tl|] eqn:Et.
    2: { apply pinv_inv; [exact P|]. intros x t _ H; congruence. }
    destruct (block_partitioning (ro_b oti) tl (ro_e oti)) as [[[al as_] nal] n] eqn:Ep.
    constructor; cbn [r_oti r_tlen r_blocks r_off r_al r_as r_nal].
    - discriminate.
    - intros _. discriminate.
    - exact P3.
    - exact P4.
    - intros x t Hx Ht. cbn [r_oti r_tlen r_al r_as r_nal] in *.
      inversion Hx; inversion Ht; subst. exists n. exact Ep.
    - unfold blocks_ok. cbn [r_blocks]. apply Forall_forall. intros x Hx. apply repeat_spec in Hx. subst. apply blk_ok_new.
  Qed.

  Lemma init_writer_keeps o c : keeps o (fst (init_writer E o c)) /\ np c (snd (init_writer E o c)).
  Proof.
    unfold init_writer. destruct (r_writer o); [split; [apply keeps_refl|apply np_refl]|].
    destruct (r_fdt_id o); [|split; [apply keeps_refl|apply np_refl]].
    destruct (r_cenc o); [|split; [apply keeps_refl|apply np_refl]].
    destruct (r_tlen o) eqn:Et; [|split; [apply keeps_refl|apply np_refl]].
    destruct (r_oti o) eqn:Eo; [|split; [apply keeps_refl|apply np_refl]].
    cbv zeta. destruct (e_builder E (r_toi o) (ncalls c (r_toi o))); cbn [fst snd];
      try (split; [apply keeps_set_state|exact (fun H => H)]).
    match goal with |- context [e_open_ok E ?w] => destruct (e_open_ok E w) end; cbn [negb fst snd].
    - split; [|exact (fun H => H)].
      split; [repeat split; cbn [r_oti r_tlen r_al r_as r_nal]; congruence|]. split; auto.
    - match goal with |- context [error ?x false ?y] =>
        destruct (error_keeps x false y) as [K N]; destruct (error x false y) as [o2 c2] end.
      cbn [fst snd] in *. split; [|intros H; apply N; exact H].
      eapply keeps_trans; [|exact K].
      split; [repeat split; cbn [r_oti r_tlen r_al r_as r_nal]; congruence|]. split; auto.
  Qed.

  (* ---------- ObjectReceiver::push ---------- *)
  (* what the parser can hand over: a transfer length and a symbol length in range (EXT_FTI carries
     at most 48 and 16 bits) *)
  Definition pkt_ok (p : apkt) : Prop :=
    forall ot l, a_oti p = Some (ot, l) -> tl_ok l /\ e_ok ot.

  Definition or_push_pre (p : apkt) (o : objrecv) : objrecv :=
    let fid := match r_fdt_id o with
               | Some x => Some x
               | None => if a_toi p =? 0 then a_fdt_id p else None
               end in
    let ce := match r_cenc o with
              | Some x => Some x
              | None => match a_cenc p with
                        | Some x => Some x
                        | None => if r_toi o =? 0 then Some CNull else None
                        end
              end in
    let '(oti, tl) :=
      match r_oti o, a_oti p with
      | None, Some (ot, l) => (Some ot, match r_tlen o with Some x => Some x | None => Some l end)
      | x, _ => (x, r_tlen o)
      end in
    mk_or (r_state o) (r_toi o) oti (r_cache o) (r_cache_size o) (r_max o) (r_blocks o) (r_off o)
          tl ce (r_md5 o) (r_md5chk o) (r_al o) (r_as o) (r_nal o) (r_writer o) (r_bw o) fid
          (r_nb_alloc o) (r_alloc_size o) (r_clen o) (r_nocache o).

  Definition or_push_tail (p : apkt) (o1 : objrecv) (c : ctx) : objrecv * ctx :=
    let o2 := init_partition o1 in
    let (o3, c3) := init_writer E o2 c in
    match r_state o3 with
    | Receiving =>
      let (o4, c4) := push_from_cache E o3 c3 in
      match r_state o4 with
      | Receiving =>
      match r_oti o4 with
      | None =>
        if r_max o4 <=? r_cache_size o4 then error o4 false c4
        else (mk_or (r_state o4) (r_toi o4) (r_oti o4) (r_cache o4 ++ [p]) (r_cache_size o4 + a_datalen p) (r_max o4) (r_blocks o4)
                    (r_off o4) (r_tlen o4) (r_cenc o4) (r_md5 o4) (r_md5chk o4) (r_al o4) (r_as o4) (r_nal o4)
                    (r_writer o4) (r_bw o4) (r_fdt_id o4) (r_nb_alloc o4) (r_alloc_size o4) (r_clen o4) (r_nocache o4), c4)
      | Some _ =>
        match push_to_block E p o4 c4 with
        | (ROk o5, c5) => (o5, c5)
        | (RErr o5, c5) => error o5 false c5
        end
      end
      | _ => (o4, c4)
      end
    | _ => (o3, c3)
    end.

  Lemma or_push_unfold p o c :
    or_push E p o c = match r_state o with
                      | Receiving => or_push_tail p (or_push_pre p o) c
                      | _ => (o, c)
                      end.
  Proof.
    unfold or_push, or_push_tail, or_push_pre. destruct (r_state o); try reflexivity.
    destruct (r_oti o); destruct (a_oti p) as [[ot l]|]; reflexivity.
  Qed.

  Lemma or_push_pre_pinv p o : inv o -> pkt_ok p -> pinv (or_push_pre p o).
  Proof.
    intros I Hp. unfold or_push_pre.
    destruct (r_oti o) as [x|] eqn:Eo.
    - (* the OTI is already known: only the FDT id and the content encoding may be set *)
      apply inv_pinv. eapply inv_keeps; [exact I|].
      destruct (a_oti p) as [[ot l]|]; cbv zeta beta iota;
        (split; [repeat split; cbn [r_oti r_tlen r_al r_as r_nal]; congruence|]; split; auto).
    - destruct (i_none o I Eo) as [Hb Hf].
      destruct (a_oti p) as [[ot l]|] eqn:Ea; cbv zeta beta iota.
      + destruct (Hp ot l Ea) as [Hl He].
        constructor; cbn [r_oti r_tlen r_blocks r_off].
        * discriminate.
        * intros _. destruct (r_tlen o); discriminate.
        * intros tl Ht. destruct (r_tlen o) as [y|] eqn:Ey; inversion Ht; subst; [apply (i_tl o I); exact Ey|exact Hl].
        * intros oti Ho. inversion Ho; subst. exact He.
        * unfold nb_block. cbn [r_blocks r_off]. rewrite Hb, Hf. cbn. lia.
        * exact (i_blocks o I).
      + apply inv_pinv. eapply inv_keeps; [exact I|].
        split; [repeat split; cbn [r_oti r_tlen r_al r_as r_nal]; congruence|]. split; auto.
  Qed.

  Lemma or_push_tail_total p o1 c :
    pinv o1 -> inv (fst (or_push_tail p o1 c)) /\ np c (snd (or_push_tail p o1 c)).
  Proof.
    intros P. unfold or_push_tail.
    pose proof (init_partition_inv o1 P) as I2. set (o2 := init_partition o1) in *.
    destruct (init_writer_keeps o2 c) as [K3 N3]. destruct (init_writer E o2 c) as [o3 c3]. cbn [fst snd] in *.
    pose proof (inv_keeps _ _ I2 K3) as I3.
    destruct (r_state o3); cbn [fst snd]; try exact (conj I3 N3).
    destruct (push_from_cache_keeps o3 c3 I3) as [K4 N4]. destruct (push_from_cache E o3 c3) as [o4 c4]. cbn [fst snd] in *.
    pose proof (inv_keeps _ _ I3 K4) as I4.
    destruct (r_state o4) eqn:Es4; cbn [fst snd]; try exact (conj I4 (np_trans _ _ _ N3 N4)).
    destruct (r_oti o4) as [x|] eqn:Eo.
    - destruct (push_to_block_keeps p o4 c4 I4) as [K5 N5]; [rewrite Eo; discriminate|].
      destruct (push_to_block E p o4 c4) as [[o5|o5] c5]; cbn [fst snd robj] in *.
      + split; [exact (inv_keeps _ _ I4 K5)|exact (np_trans _ _ _ N3 (np_trans _ _ _ N4 N5))].
      + destruct (error_keeps o5 false c5) as [K6 N6]. destruct (error o5 false c5) as [o6 c6]. cbn [fst snd] in *.
        split; [exact (inv_keeps _ _ (inv_keeps _ _ I4 K5) K6)|].
        exact (np_trans _ _ _ N3 (np_trans _ _ _ N4 (np_trans _ _ _ N5 N6))).
    - destruct (r_max o4 <=? r_cache_size o4).
      + destruct (error_keeps o4 false c4) as [K6 N6]. destruct (error o4 false c4) as [o6 c6]. cbn [fst snd] in *.
        split; [exact (inv_keeps _ _ I4 K6)|exact (np_trans _ _ _ N3 (np_trans _ _ _ N4 N6))].
      + cbn [fst snd]. split; [|exact (np_trans _ _ _ N3 N4)].
        eapply inv_keeps; [exact I4|]. rewrite <- Eo, <- Es4. apply keeps_set_cache.
  Qed.

  Theorem or_push_total p o c :
    inv o -> pkt_ok p -> inv (fst (or_push E p o c)) /\ np c (snd (or_push E p o c)).
  Proof.
    intros I Hp. rewrite or_push_unfold.
    destruct (r_state o); cbn [fst snd]; try (split; [exact I|apply np_refl]).
    apply or_push_tail_total. apply or_push_pre_pinv; assumption.
  Qed.

  (* ---------- ObjectReceiver::attach_fdt ---------- *)
  (* what FdtInstance::parse can hand over: Transfer-Length is a u64 (here: at most 2^64 - 2^16, see
     the note on [tl_ok] in Properties/C04.v), the symbol length is cast to u16 *)
  Definition file_ok (f : fdtfile) : Prop :=
    tl_ok (ff_tlen f) /\ (forall x, ff_oti f = Some x -> e_ok x).
  Definition files_ok (files : list fdtfile) (ioti : option roti) : Prop :=
    Forall file_ok files /\ (forall x, ioti = Some x -> e_ok x).

  Definition or_attach_tail (o1 : objrecv) (c : ctx) : bool * objrecv * ctx :=
    let o2 := init_partition o1 in
    let (o3a, c3a) := init_writer E o2 c in
    let (o3, c3) := d48_step o3a c3a in
    let (o4, c4) := push_from_cache E o3 c3 in
    let '(o5, c5) := match write_blocks E (S (length (r_blocks o4))) 0 o4 c4 with
                     | (ROk x, cx) => (x, cx)
                     | (RErr x, cx) => error x false cx
                     end in
    let (o6, c6) := push_from_cache E o5 c5 in
    (true, o6, c6).

  Lemma d48_step_keeps o c : keeps o (fst (d48_step o c)) /\ np c (snd (d48_step o c)).
  Proof.
    destruct (d48_step_cases o c) as [-> | ->]; [|apply complete_keeps].
    cbn [fst snd]. split; [apply keeps_refl|apply np_refl].
  Qed.

  Lemma or_attach_tail_total o1 c :
    pinv o1 -> inv (snd (fst (or_attach_tail o1 c))) /\ np c (snd (or_attach_tail o1 c)).
  Proof.
    intros P. unfold or_attach_tail.
    pose proof (init_partition_inv o1 P) as I2. set (o2 := init_partition o1) in *.
    destruct (init_writer_keeps o2 c) as [K3a N3a]. destruct (init_writer E o2 c) as [o3a c3a]. cbn [fst snd] in *.
    pose proof (inv_keeps _ _ I2 K3a) as I3a.
    destruct (d48_step_keeps o3a c3a) as [K3b N3b]. destruct (d48_step o3a c3a) as [o3 c3]. cbn [fst snd] in *.
    pose proof (inv_keeps _ _ I3a K3b) as I3. pose proof (np_trans _ _ _ N3a N3b) as N3.
    destruct (push_from_cache_keeps o3 c3 I3) as [K4 N4]. destruct (push_from_cache E o3 c3) as [o4 c4]. cbn [fst snd] in *.
    pose proof (inv_keeps _ _ I3 K4) as I4.
    destruct (write_blocks_keeps (S (length (r_blocks o4))) 0 o4 c4) as [K5 N5].
    destruct (write_blocks E (S (length (r_blocks o4))) 0 o4 c4) as [[o5|o5] c5]; cbn [fst snd robj] in *.
    - pose proof (inv_keeps _ _ I4 K5) as I5.
      destruct (push_from_cache_keeps o5 c5 I5) as [K6 N6]. destruct (push_from_cache E o5 c5) as [o6 c6]. cbn [fst snd] in *.
      split; [exact (inv_keeps _ _ I5 K6)|].
      exact (np_trans _ _ _ N3 (np_trans _ _ _ N4 (np_trans _ _ _ N5 N6))).
    - pose proof (inv_keeps _ _ I4 K5) as I5.
      destruct (error_keeps o5 false c5) as [K6 N6]. destruct (error o5 false c5) as [o6 c6]. cbn [fst snd] in *.
      pose proof (inv_keeps _ _ I5 K6) as I6.
      destruct (push_from_cache_keeps o6 c6 I6) as [K7 N7]. destruct (push_from_cache E o6 c6) as [o7 c7]. cbn [fst snd] in *.
      split; [exact (inv_keeps _ _ I6 K7)|].
      exact (np_trans _ _ _ N3 (np_trans _ _ _ N4 (np_trans _ _ _ N5 (np_trans _ _ _ N6 N7)))).
  Qed.

  Theorem or_attach_total id files ioti o c :
    inv o -> files_ok files ioti ->
    inv (snd (fst (or_attach E id files ioti o c))) /\ np c (snd (or_attach E id files ioti o c)).
  Proof.
    intros I [HF HI]. unfold or_attach.
    destruct (r_fdt_id o); cbn [fst snd]; [split; [exact I|apply np_refl]|].
    destruct (find (fun f => ff_toi f =? r_toi o) files) as [f|] eqn:Ef; cbn [fst snd]; [|split; [exact I|apply np_refl]].
    assert (Hf : file_ok f).
    { apply find_some in Ef. destruct Ef as [Hin _]. rewrite Forall_forall in HF. apply HF. exact Hin. }
    destruct Hf as [Hl He].
    assert (G : forall o1, pinv o1 ->
                inv (snd (fst (or_attach_tail o1 c))) /\ np c (snd (or_attach_tail o1 c))) by (intros; apply or_attach_tail_total; assumption).
    destruct (r_oti o) as [x|] eqn:Eo.
    - (* the OTI is known (and with it the transfer length) *)
      destruct (r_tlen o) as [tl|] eqn:Et.
      2: { exfalso. apply (i_tlen o I); [rewrite Eo; discriminate|exact Et]. }
      cbv zeta beta iota. apply G.
      apply inv_pinv. eapply inv_keeps; [exact I|].
      split; [repeat split; cbn [r_oti r_tlen r_al r_as r_nal]; congruence|]. split; auto.
    - destruct (i_none o I Eo) as [Hb Hz].
      destruct (match ff_oti f with Some x => Some x | None => ioti end) as [x|] eqn:Ex; cbv zeta beta iota; apply G.
      + constructor; cbn [r_oti r_tlen r_blocks r_off].
        * discriminate.
        * intros _. discriminate.
        * intros tl Ht. inversion Ht; subst. exact Hl.
        * intros oti Ho. inversion Ho; subst.
          destruct (ff_oti f) as [y|] eqn:Ey; [inversion Ex; subst; apply He; reflexivity|apply HI; exact Ex].
        * unfold nb_block. cbn [r_blocks r_off]. rewrite Hb, Hz. cbn. lia.
        * exact (i_blocks o I).
      + constructor; cbn [r_oti r_tlen r_blocks r_off].
        * intros _. split; assumption.
        * intros H; congruence.
        * intros tl Ht. destruct (r_tlen o) as [y|] eqn:Ey; inversion Ht; subst; [apply (i_tl o I); exact Ey|exact Hl].
        * intros oti Ho. discriminate.
        * unfold nb_block. cbn [r_blocks r_off]. rewrite Hb, Hz. cbn. lia.
        * exact (i_blocks o I).
  Qed.

  (* Drop for ObjectReceiver *)
  Lemma or_drop_np o c : np c (or_drop o c).
  Proof.
    unfold or_drop. destruct (r_writer o) as [[w ws]|]; [|apply np_refl].
    destruct ws; try apply np_refl; apply (error_keeps o false c).
  Qed.

  Lemma inv_new toi mx : inv (or_new toi mx).
  Proof.
    constructor; cbn.
    - auto.
    - intros H; congruence.
    - intros tl H; discriminate.
    - intros oti H; discriminate.
    - intros oti tl H; discriminate.
    - constructor.
  Qed.
End S.

(* ================= the receiver (Model/Recv.v) ================= *)
Section R.
  Variable E : env.
  Variable parse_fdt : list N -> option fdtinst.
  Variable cfg : rconfig.

  Definition inst_ok (i : fdtinst) : Prop := files_ok (fi_files i) (fi_oti i).
  (* what FdtInstance::parse returns is in range (see [file_ok]) *)
  Hypothesis parse_fdt_ok : forall xml i, parse_fdt xml = Some i -> inst_ok i.

  Definition finv (f : fdtrecv) : Prop :=
    (forall o, fr_obj f = Some o -> inv o) /\ (forall i, fr_inst f = Some i -> inst_ok i).

  Record rinv (r : recv) : Prop := {
    ri_objs : Forall (fun q => inv (snd q)) (rv_objects r);
    ri_frs : Forall (fun q => finv (snd q)) (rv_fdt_receivers r);
    ri_cur : Forall finv (rv_fdt_current r)
  }.

  Lemma rinv0 : rinv recv0.
  Proof. constructor; constructor. Qed.

  (* ---------- the object map ---------- *)
  Lemma get_obj_inv r toi o : Forall (fun q => inv (snd q)) (rv_objects r) -> get_obj r toi = Some o -> inv o.
  Proof.
    intros HF. unfold get_obj. destruct (find _ (rv_objects r)) as [q|] eqn:Ef; [|discriminate].
    intros H; inversion H; subst. apply find_some in Ef. destruct Ef as [Hin _].
    rewrite Forall_forall in HF. exact (HF q Hin).
  Qed.

  Lemma put_obj_inv toi o l : inv o -> Forall (fun q : N * objrecv => inv (snd q)) l ->
    Forall (fun q : N * objrecv => inv (snd q)) (put_obj toi o l).
  Proof.
    intros Io HF. unfold put_obj. destruct (existsb _ l).
    - apply Forall_forall. intros q Hq. apply in_map_iff in Hq. destruct Hq as (q0 & Eq & Hin).
      destruct (fst q0 =? toi); subst q; [exact Io|]. rewrite Forall_forall in HF. exact (HF q0 Hin).
    - apply Forall_app. split; [exact HF|]. constructor; [exact Io|constructor].
  Qed.

  Lemma del_obj_inv toi l : Forall (fun q : N * objrecv => inv (snd q)) l ->
    Forall (fun q : N * objrecv => inv (snd q)) (del_obj toi l).
  Proof.
    intros HF. unfold del_obj. apply Forall_forall. intros q Hq. apply filter_In in Hq.
    rewrite Forall_forall in HF. apply HF. tauto.
  Qed.

  Definition same_fdt (r r' : recv) : Prop :=
    rv_fdt_receivers r' = rv_fdt_receivers r /\ rv_fdt_current r' = rv_fdt_current r.

  Lemma rinv_objs r r' : rinv r -> same_fdt r r' -> Forall (fun q => inv (snd q)) (rv_objects r') -> rinv r'.
  Proof. intros [A B C] [E1 E2] H. constructor; [exact H|rewrite E1; exact B|rewrite E2; exact C]. Qed.

  Lemma remove_obj_ok toi r c :
    rinv r -> rinv (fst (remove_obj toi r c)) /\ np c (snd (remove_obj toi r c)).
  Proof.
    intros I. unfold remove_obj. destruct (get_obj r toi) as [o|]; cbn [fst snd]; [|split; [exact I|apply np_refl]].
    split; [|apply or_drop_np].
    eapply rinv_objs; [exact I|split; reflexivity|]. cbn [rv_objects set_objects]. apply del_obj_inv. apply (ri_objs r I).
  Qed.

  Lemma gc_error_ok : forall fuel r c,
    rinv r -> rinv (fst (gc_error cfg fuel r c)) /\ np c (snd (gc_error cfg fuel r c)).
  Proof.
    induction fuel as [|f IH]; intros r c I; cbn [gc_error fst snd]; [split; [exact I|apply np_refl]|].
    destruct (cf_max_err cfg <? N.of_nat (length (rv_error r))); cbn [fst snd]; [|split; [exact I|apply np_refl]].
    destruct (rv_error r) as [|toi rest]; cbn [fst snd]; [split; [exact I|apply np_refl]|].
    set (r1 := mk_recv _ _ rest _ _ _).
    assert (I1 : rinv r1) by (destruct I as [A B C]; constructor; assumption).
    destruct (remove_obj_ok toi r1 c I1) as [I2 N2]. destruct (remove_obj toi r1 c) as [r2 c2]. cbn [fst snd] in *.
    destruct (IH r2 c2 I2) as [I3 N3]. split; [exact I3|exact (np_trans _ _ _ N2 N3)].
  Qed.

  Lemma check_state_ok toi r c :
    rinv r -> rinv (fst (check_state cfg toi r c)) /\ np c (snd (check_state cfg toi r c)).
  Proof.
    intros I. unfold check_state. destruct (get_obj r toi) as [o|]; [|split; [exact I|apply np_refl]].
    destruct (r_state o).
    - split; [exact I|apply np_refl].
    - apply remove_obj_ok. destruct I as [A B C]; constructor; assumption.
    - set (r1 := mk_recv _ _ (insert_sorted toi (rv_error r)) _ _ _).
      assert (I1 : rinv r1) by (destruct I as [A B C]; constructor; assumption).
      destruct (gc_error_ok (S (length (rv_error r1))) r1 c I1) as [I2 N2].
      destruct (gc_error cfg (S (length (rv_error r1))) r1 c) as [r2 c2]. cbn [fst snd] in *.
      destruct (remove_obj_ok toi r2 c2 I2) as [I3 N3]. split; [exact I3|exact (np_trans _ _ _ N2 N3)].
    - set (r1 := mk_recv _ _ (insert_sorted toi (rv_error r)) _ _ _).
      assert (I1 : rinv r1) by (destruct I as [A B C]; constructor; assumption).
      destruct (gc_error_ok (S (length (rv_error r1))) r1 c I1) as [I2 N2].
      destruct (gc_error cfg (S (length (rv_error r1))) r1 c) as [r2 c2]. cbn [fst snd] in *.
      destruct (remove_obj_ok toi r2 c2 I2) as [I3 N3]. split; [exact I3|exact (np_trans _ _ _ N2 N3)].
  Qed.

  Lemma check_all_ok : forall tois r c,
    rinv r -> rinv (fst (check_all cfg tois r c)) /\ np c (snd (check_all cfg tois r c)).
  Proof.
    induction tois as [|t rest IH]; intros r c I; cbn [check_all fst snd]; [split; [exact I|apply np_refl]|].
    destruct (check_state_ok t r c I) as [I1 N1]. destruct (check_state cfg t r c) as [r1 c1]. cbn [fst snd] in *.
    destruct (IH r1 c1 I1) as [I2 N2]. split; [exact I2|exact (np_trans _ _ _ N1 N2)].
  Qed.

  Lemma attach_all_ok id i : inst_ok i -> forall tois r c att,
    rinv r ->
    rinv (fst (fst (attach_all E id i tois r c att))) /\ np c (snd (fst (attach_all E id i tois r c att))).
  Proof.
    intros Hi. induction tois as [|toi rest IH]; intros r c att I; cbn [attach_all fst snd]; [split; [exact I|apply np_refl]|].
    destruct (get_obj r toi) as [o|] eqn:Eg; [|apply IH; exact I].
    pose proof (get_obj_inv r toi o (ri_objs r I) Eg) as Io.
    destruct (or_attach_total E id (fi_files i) (fi_oti i) o c Io Hi) as [I1 N1].
    destruct (or_attach E id (fi_files i) (fi_oti i) o c) as [[ok o1] c1]. cbn [fst snd] in *.
    set (r1 := set_objects r (put_obj toi o1 (rv_objects r))).
    assert (Ir1 : rinv r1).
    { eapply rinv_objs; [exact I|split; reflexivity|]. cbn [rv_objects set_objects]. apply put_obj_inv; [exact I1|apply (ri_objs r I)]. }
    destruct (IH r1 c1 (if ok then att ++ [toi] else att) Ir1) as [I2 N2].
    split; [exact I2|exact (np_trans _ _ _ N1 N2)].
  Qed.

  (* ---------- FdtReceiver ---------- *)
  Lemma finv_update f now : finv f -> finv (fr_update_expired f now).
  Proof.
    intros [A B]. unfold fr_update_expired. destruct (fr_state f); try (split; assumption).
    destruct (fr_check f && fr_is_expired f now); split; assumption.
  Qed.

  Lemma finv_new id : finv (fr_new cfg id).
  Proof.
    split; cbn [fr_new fr_obj fr_inst].
    - intros o H; inversion H; subst. apply inv_new.
    - intros i H; discriminate.
  Qed.

  Lemma apply_fdt_log_inst : forall log f,
    (forall i, fr_inst f = Some i -> inst_ok i) ->
    (forall i, fr_inst (apply_fdt_log parse_fdt log f) = Some i -> inst_ok i) /\
    fr_obj (apply_fdt_log parse_fdt log f) = fr_obj f.
  Proof.
    induction log as [|e r IH]; intros f H; cbn [apply_fdt_log]; [split; [exact H|reflexivity]|].
    destruct e; try (apply IH; exact H).
    - destruct (IH (mk_fr (fr_id f) (fr_obj f) (fr_data f ++ data) (fr_state f) (fr_inst f) (fr_offset f) (fr_check f)) H) as [A B].
      split; [exact A|exact B].
    - destruct (parse_fdt (fr_data f)) as [i|] eqn:Ep.
      + destruct (IH (mk_fr (fr_id f) (fr_obj f) (fr_data f) FComplete (Some i) (fr_offset f) (fr_check f))) as [A B];
          [|split; [exact A|exact B]].
        cbn [fr_inst]. intros j Hj. inversion Hj; subst. exact (parse_fdt_ok _ _ Ep).
      + destruct (IH (mk_fr (fr_id f) (fr_obj f) (fr_data f) FError (fr_inst f) (fr_offset f) (fr_check f)) H) as [A B].
        split; [exact A|exact B].
    - destruct (IH (mk_fr (fr_id f) (fr_obj f) (fr_data f) FError (fr_inst f) (fr_offset f) (fr_check f)) H) as [A B].
      split; [exact A|exact B].
    - destruct (IH (mk_fr (fr_id f) (fr_obj f) (fr_data f) FError (fr_inst f) (fr_offset f) (fr_check f)) H) as [A B].
      split; [exact A|exact B].
  Qed.

  Lemma fr_push_ok p now f :
    finv f -> pkt_ok p ->
    finv (fst (fr_push E parse_fdt p now f)) /\ snd (fr_push E parse_fdt p now f) = false.
  Proof.
    intros [Fo Fi] Hp. unfold fr_push. cbv zeta.
    set (f0 := mk_fr (fr_id f) (fr_obj f) (fr_data f) (fr_state f) (fr_inst f) _ (fr_check f)).
    change (fr_obj f0) with (fr_obj f).
    destruct (fr_obj f) as [o|] eqn:Eo; cbn [fst snd].
    2: { split; [|reflexivity]. split; [intros x Hx; unfold f0 in Hx; cbn [fr_obj] in Hx; discriminate|exact Fi]. }
    destruct (or_push_total (E_fdt E) p o ctx0 (Fo o eq_refl) Hp) as [I1 N1].
    destruct (or_push (E_fdt E) p o ctx0) as [o1 c1]. cbn [fst snd] in *.
    destruct (apply_fdt_log_inst (c_log c1) f0 Fi) as [A B].
    set (f1 := apply_fdt_log parse_fdt (c_log c1) f0) in *.
    split; [|apply N1; reflexivity].
    destruct (r_state o1); split; cbn [fr_obj fr_inst]; try exact A;
      intros x Hx; inversion Hx; subst; exact I1.
  Qed.

  (* ---------- Receiver::push on the FDT object ---------- *)
  Lemma in_frs_finv r id q :
    rinv r -> find (fun q => fst q =? id) (rv_fdt_receivers r) = Some q -> finv (snd q).
  Proof.
    intros I Ef. apply find_some in Ef. destruct Ef as [Hin _].
    pose proof (ri_frs r I) as HF. rewrite Forall_forall in HF. exact (HF q Hin).
  Qed.

  Lemma store_finv (id : N) (f : fdtrecv) (l : list (N * fdtrecv)) :
    finv f -> Forall (fun q => finv (snd q)) l ->
    Forall (fun q => finv (snd q))
           (if existsb (fun q => fst q =? id) l then map (fun q => if fst q =? id then (id, f) else q) l else l ++ [(id, f)]).
  Proof.
    intros Hf HF. destruct (existsb _ l).
    - apply Forall_forall. intros q Hq. apply in_map_iff in Hq. destruct Hq as (q0 & Eq & Hin).
      destruct (fst q0 =? id); subst q; [exact Hf|]. rewrite Forall_forall in HF. exact (HF q0 Hin).
    - apply Forall_app. split; [exact HF|]. constructor; [exact Hf|constructor].
  Qed.

  Lemma Forall_firstn {A} (P : A -> Prop) n l : Forall P l -> Forall P (firstn n l).
  Proof.
    revert l. induction n as [|n IH]; intros l H; cbn [firstn]; [constructor|].
    destruct l as [|x l]; [constructor|]. inversion H; subst. constructor; [assumption|apply IH; assumption].
  Qed.

  Lemma Forall_filter {A} (P : A -> Prop) g l : Forall P l -> Forall P (filter g l).
  Proof. intros H. apply Forall_forall. intros x Hx. apply filter_In in Hx. rewrite Forall_forall in H. apply H. tauto. Qed.

  Lemma push_fdt_obj_ok p now r c :
    rinv r -> pkt_ok p ->
    rinv (snd (fst (push_fdt_obj E parse_fdt cfg p now r c))) /\ np c (snd (push_fdt_obj E parse_fdt cfg p now r c)).
  Proof.
    intros I Hp. unfold push_fdt_obj.
    destruct (a_fdt_id p) as [id|]; [|destruct (a_close_obj p || a_close_sess p); cbn [fst snd]; split; [exact I|apply np_refl|exact I|apply np_refl]].
    destruct (cf_once cfg && existsb (fun f => fr_id f =? id) (rv_fdt_current r)); cbn [fst snd]; [split; [exact I|apply np_refl]|].
    cbv zeta.
    set (f0 := match find (fun q => fst q =? id) (rv_fdt_receivers r) with Some q => snd q | None => fr_new cfg id end).
    assert (F0 : finv f0).
    { unfold f0. destruct (find _ (rv_fdt_receivers r)) as [q|] eqn:Ef; [exact (in_frs_finv r id q I Ef)|apply finv_new]. }
    destruct (fr_state f0); cbn [fst snd]; try (split; [exact I|apply np_refl]).
    destruct (fr_push_ok p now f0 F0 Hp) as [F1 Pn]. destruct (fr_push E parse_fdt p now f0) as [f1 pan]. cbn [fst snd] in *. subst pan.
    set (f2 := match fr_state f1 with FComplete => fr_update_expired f1 now | _ => f1 end).
    assert (F2 : finv f2) by (unfold f2; destruct (fr_state f1); try exact F1; apply finv_update; exact F1).
    assert (Istore : rinv (mk_recv (rv_objects r) (rv_completed r) (rv_error r)
                                   (if existsb (fun q => fst q =? id) (rv_fdt_receivers r)
                                    then map (fun q => if fst q =? id then (id, f2) else q) (rv_fdt_receivers r)
                                    else rv_fdt_receivers r ++ [(id, f2)]) (rv_fdt_current r) (rv_closed r))).
    { destruct I as [A B C]. constructor; cbn; [exact A|apply store_finv; assumption|exact C]. }
    destruct (fr_state f2); cbn [fst snd]; try (split; [exact Istore|apply np_refl]).
    2: { (* FError: the failed instance is forgotten (D41) *)
         split; [|apply np_refl]. destruct I as [A B C]. constructor; cbn; [exact A|apply Forall_filter; exact B|exact C]. }
    (* the instance is complete: it becomes the current one *)
    set (r1 := mk_recv (rv_objects r) (rv_completed r) (rv_error r)
                       (filter (fun q => negb (fst q =? id)) (rv_fdt_receivers r)) (f2 :: rv_fdt_current r) (rv_closed r)).
    assert (I1 : rinv r1).
    { destruct I as [A B C]. constructor; cbn; [exact A|apply Forall_filter; exact B|constructor; assumption]. }
    destruct (fr_inst f2) as [i|] eqn:Ei; cbn [fst snd].
    - destruct (attach_all_ok id i (proj2 F2 i Ei) (map fst (rv_objects r1)) r1 c [] I1) as [I2 N2].
      destruct (attach_all E id i (map fst (rv_objects r1)) r1 c []) as [[r2 c2] attached]. cbn [fst snd] in *.
      destruct (check_all_ok attached r2 c2 I2) as [I3 N3].
      destruct (check_all cfg attached r2 c2) as [r3 c3]. cbn [fst snd] in *.
      split; [|exact (np_trans _ _ _ N2 N3)].
      destruct I3 as [A B C]. constructor; cbn [rv_objects rv_fdt_receivers rv_fdt_current]; [exact A|exact B|apply Forall_firstn; exact C].
    - split; [|apply np_refl]. destruct I1 as [A B C]. constructor; cbn [rv_objects rv_fdt_receivers rv_fdt_current]; [exact A|exact B|apply Forall_firstn; exact C].
  Qed.

  (* ---------- Receiver::push on an object ---------- *)
  Lemma create_attach_ok : forall cur now o c,
    Forall finv cur -> inv o ->
    Forall finv (fst (fst (create_attach E cur now o c))) /\ inv (snd (fst (create_attach E cur now o c)))
    /\ np c (snd (create_attach E cur now o c)).
  Proof.
    induction cur as [|f rest IH]; intros now o c HF Io; cbn [create_attach fst snd]; [split; [constructor|split; [exact Io|apply np_refl]]|].
    inversion HF as [|? ? Ff Fr]; subst.
    pose proof (finv_update f now Ff) as F1. set (f1 := fr_update_expired f now) in *.
    assert (G : Forall finv (fst (fst (let '(rest', o2, c2) := create_attach E rest now o c in (f1 :: rest', o2, c2))))
                /\ inv (snd (fst (let '(rest', o2, c2) := create_attach E rest now o c in (f1 :: rest', o2, c2))))
                /\ np c (snd (let '(rest', o2, c2) := create_attach E rest now o c in (f1 :: rest', o2, c2)))).
    { destruct (IH now o c Fr Io) as (A & B & C). destruct (create_attach E rest now o c) as [[rest' o2] c2]. cbn [fst snd] in *.
      split; [constructor; assumption|split; [exact B|exact C]]. }
    destruct (fr_state f1); try exact G.
    destruct (fr_inst f1) as [i|] eqn:Ei; [|exact G].
    destruct (or_attach_total E (fr_id f1) (fi_files i) (fi_oti i) o c Io (proj2 F1 i Ei)) as [I1 N1].
    destruct (or_attach E (fr_id f1) (fi_files i) (fi_oti i) o c) as [[ok o1] c1]. cbn [fst snd] in *.
    destruct ok; cbn [fst snd].
    - split; [constructor; assumption|split; [exact I1|exact N1]].
    - destruct (IH now o1 c1 Fr I1) as (A & B & C). destruct (create_attach E rest now o1 c1) as [[rest' o2] c2]. cbn [fst snd] in *.
      split; [constructor; assumption|split; [exact B|exact (np_trans _ _ _ N1 C)]].
  Qed.

  Definition push_obj_go (p : apkt) (now : Z) (r2 : recv) (c : ctx) : pres * recv * ctx :=
    let '(r3, o, c3) :=
      match get_obj r2 (a_toi p) with
      | Some o => (r2, o, c)
      | None =>
        let '(cur, o1, c1) := create_attach E (rv_fdt_current r2) now (or_new (a_toi p) (cf_max_cache cfg)) c in
        (mk_recv (rv_objects r2 ++ [(a_toi p, o1)]) (rv_completed r2) (rv_error r2) (rv_fdt_receivers r2) cur (rv_closed r2),
         o1, c1)
      end in
    let (o2, c4) := or_push E p o c3 in
    let r4 := set_objects r3 (put_obj (a_toi p) o2 (rv_objects r3)) in
    let (r5, c5) := check_state cfg (a_toi p) r4 c4 in
    (POk, r5, c5).

  Lemma push_obj_go_ok p now r2 c :
    rinv r2 -> pkt_ok p ->
    rinv (snd (fst (push_obj_go p now r2 c))) /\ np c (snd (push_obj_go p now r2 c)).
  Proof.
    intros I2 Hp. unfold push_obj_go. set (toi := a_toi p).
    destruct (get_obj r2 toi) as [o|] eqn:Eg.
    - pose proof (get_obj_inv r2 toi o (ri_objs r2 I2) Eg) as Io.
      destruct (or_push_total E p o c Io Hp) as [Io2 N2]. destruct (or_push E p o c) as [o2 c4]. cbn [fst snd] in *.
      cbv zeta. set (r4 := set_objects r2 (put_obj toi o2 (rv_objects r2))).
      assert (I4 : rinv r4).
      { eapply rinv_objs; [exact I2|split; reflexivity|]. cbn [rv_objects set_objects]. apply put_obj_inv; [exact Io2|apply (ri_objs r2 I2)]. }
      destruct (check_state_ok toi r4 c4 I4) as [I5 N5]. destruct (check_state cfg toi r4 c4) as [r5 c5]. cbn [fst snd] in *.
      split; [exact I5|exact (np_trans _ _ _ N2 N5)].
    - destruct (create_attach_ok (rv_fdt_current r2) now (or_new toi (cf_max_cache cfg)) c (ri_cur r2 I2) (inv_new _ _)) as (A & B & C0).
      destruct (create_attach E (rv_fdt_current r2) now (or_new toi (cf_max_cache cfg)) c) as [[cur o1] c1]. cbn [fst snd] in *.
      set (r3 := mk_recv (rv_objects r2 ++ [(toi, o1)]) _ _ _ cur _).
      assert (I3 : rinv r3).
      { destruct I2 as [X Y Z]. constructor; cbn [rv_objects rv_fdt_receivers rv_fdt_current r3];
          [apply Forall_app; split; [exact X|constructor; [exact B|constructor]]|exact Y|exact A]. }
      destruct (or_push_total E p o1 c1 B Hp) as [Io2 N2]. destruct (or_push E p o1 c1) as [o2 c4]. cbn [fst snd] in *.
      cbv zeta. set (r4 := set_objects r3 (put_obj toi o2 (rv_objects r3))).
      assert (I4 : rinv r4).
      { eapply rinv_objs; [exact I3|split; reflexivity|]. cbn [rv_objects set_objects]. apply put_obj_inv; [exact Io2|apply (ri_objs r3 I3)]. }
      destruct (check_state_ok toi r4 c4 I4) as [I5 N5]. destruct (check_state cfg toi r4 c4) as [r5 c5]. cbn [fst snd] in *.
      split; [exact I5|exact (np_trans _ _ _ C0 (np_trans _ _ _ N2 N5))].
  Qed.

  Lemma push_obj_ok p now r c :
    rinv r -> pkt_ok p ->
    rinv (snd (fst (push_obj E cfg p now r c))) /\ np c (snd (push_obj E cfg p now r c)).
  Proof.
    intros I Hp.
    pose proof (fun r2 I2 => push_obj_go_ok p now r2 c I2 Hp) as G. unfold push_obj_go in G.
    unfold push_obj. cbv zeta.
    assert (F1 : rinv (mk_recv (rv_objects r) (filter (fun t => negb (t =? a_toi p)) (rv_completed r)) (rv_error r)
                               (rv_fdt_receivers r) (rv_fdt_current r) (rv_closed r)))
      by (destruct I as [A B C]; constructor; assumption).
    assert (F2 : forall r1, rinv r1 ->
                 rinv (mk_recv (rv_objects r1) (rv_completed r1) (filter (fun t => negb (t =? a_toi p)) (rv_error r1))
                               (rv_fdt_receivers r1) (rv_fdt_current r1) (rv_closed r1)))
      by (intros r1 [A B C]; constructor; assumption).
    destruct (existsb (N.eqb (a_toi p)) (rv_completed r)).
    - destruct (cf_once cfg); cbn [fst snd]; [split; [exact I|apply np_refl]|].
      destruct (is_first_symbol p) as [[|]|]; cbn [fst snd]; try (split; [exact I|apply np_refl]).
      match goal with |- context [existsb (N.eqb (a_toi p)) (rv_error ?r1)] => destruct (existsb (N.eqb (a_toi p)) (rv_error r1)) end.
      + apply G. apply F2. exact F1.
      + apply G. exact F1.
    - destruct (existsb (N.eqb (a_toi p)) (rv_error r)).
      + destruct (is_first_symbol p) as [[|]|]; cbn [fst snd]; try (split; [exact I|apply np_refl]).
        apply G. apply F2. exact I.
      + apply G. exact I.
  Qed.

  (* ---------- one receiver event, any history ---------- *)
  Definition ev_ok (e : rev) : Prop := match e with RvPush p _ => pkt_ok p | _ => True end.

  Lemma fold_remove_ok : forall (l : list N) r c,
    rinv r ->
    let step := fun (acc : recv * ctx) (toi : N) =>
                  let (r1, c1) := acc in
                  remove_obj toi (mk_recv (rv_objects r1) (rv_completed r1) (filter (fun t => negb (t =? toi)) (rv_error r1))
                                          (rv_fdt_receivers r1) (rv_fdt_current r1) (rv_closed r1)) c1 in
    rinv (fst (fold_left step l (r, c))) /\ np c (snd (fold_left step l (r, c))).
  Proof.
    induction l as [|t rest IH]; intros r c I; cbn [fold_left fst snd]; [split; [exact I|apply np_refl]|].
    set (r0 := mk_recv _ _ (filter _ (rv_error r)) _ _ _).
    assert (I0 : rinv r0) by (destruct I as [A B C]; constructor; assumption).
    destruct (remove_obj_ok t r0 c I0) as [I1 N1]. destruct (remove_obj t r0 c) as [r1 c1]. cbn [fst snd] in *.
    destruct (IH r1 c1 I1) as [I2 N2]. split; [exact I2|exact (np_trans _ _ _ N1 N2)].
  Qed.

  Lemma fold_drop_np : forall (l : list (N * objrecv)) c, np c (fold_left (fun cc q => or_drop (snd q) cc) l c).
  Proof.
    induction l as [|q rest IH]; intros c; cbn [fold_left]; [apply np_refl|].
    exact (np_trans _ _ _ (or_drop_np (snd q) c) (IH _)).
  Qed.

  Theorem recv_step_ok r e c :
    rinv r -> ev_ok e ->
    rinv (snd (fst (recv_step E parse_fdt cfg r e c))) /\ np c (snd (recv_step E parse_fdt cfg r e c)).
  Proof.
    intros I He. destruct e as [p now| |now expired expired_fdt|]; cbn [recv_step ev_ok] in *.
    - assert (I0 : rinv (if a_close_sess p
                         then mk_recv (rv_objects r) (rv_completed r) (rv_error r) (rv_fdt_receivers r) (rv_fdt_current r) true
                         else r)).
      { destruct (a_close_sess p); [destruct I as [A B C]; constructor; assumption|exact I]. }
      destruct (a_toi p =? 0); [apply push_fdt_obj_ok|apply push_obj_ok]; assumption.
    - cbn [fst snd]. split; [exact I|apply np_refl].
    - cbv zeta.
      destruct (fold_remove_ok (filter (fun t => existsb (fun q => fst q =? t) (rv_objects r)) expired) r c I) as [I1 N1].
      cbv zeta in I1, N1.
      destruct (fold_left _ (filter _ expired) (r, c)) as [r1 c1]. cbn [fst snd] in *.
      split; [|exact N1].
      destruct I1 as [A B C]. constructor; cbn [rv_objects rv_fdt_receivers rv_fdt_current]; [exact A| |exact C].
      apply Forall_filter. apply Forall_forall. intros q Hq. apply in_map_iff in Hq. destruct Hq as (q0 & Eq & Hin).
      subst q. cbn [snd]. apply finv_update. rewrite Forall_forall in B. exact (B q0 Hin).
    - cbn [fst snd]. split; [|apply fold_drop_np].
      destruct I as [A B C]. constructor; cbn [rv_objects rv_fdt_receivers rv_fdt_current set_objects]; [constructor|exact B|exact C].
  Qed.

  (* recv_step_total: from any state that satisfies the invariant (the initial one does), whatever the
     sequence of packets, clean-ups and drops, whatever the oracles answer, the panic flag stays down *)
  Theorem recv_run_ok : forall evs r c,
    rinv r -> Forall ev_ok evs -> c_panic c = false ->
    rinv (snd (fst (recv_run E parse_fdt cfg r evs c))) /\ c_panic (snd (recv_run E parse_fdt cfg r evs c)) = false.
  Proof.
    induction evs as [|e rest IH]; intros r c I HF Hc; cbn [recv_run fst snd]; [split; assumption|].
    inversion HF as [|? ? He Hr]; subst.
    destruct (recv_step_ok r e c I He) as [I1 N1]. destruct (recv_step E parse_fdt cfg r e c) as [[x r1] c1]. cbn [fst snd] in *.
    destruct (IH r1 c1 I1 Hr (N1 Hc)) as [I2 N2]. destruct (recv_run E parse_fdt cfg r1 rest c1) as [[xs r2] c2]. cbn [fst snd] in *.
    split; assumption.
  Qed.
End R.

(* ================= oracle preconditions (block decoder level) ================= *)
(* What the external decoders need of their inputs (found by fuzzing them through flute, D10 D28 D34):
     raptorq       1 <= K <= 56403, E >= 1, every symbol exactly E bytes long;
     raptor_code   1 <= K <= 8192, every symbol at least ceil(block size / K) bytes long;
     reed-solomon  at least K shards (it checks the shard sizes itself).
   No-Code has no external decoder and GF(2^m) has none at all. *)
Definition fec_pre (f : rfec) (k e size : N) (sh : list (N * list N)) : Prop :=
  match f with
  | FRaptorQ => (1 <= k /\ k <= RAPTORQ_KMAX) /\ 1 <= e /\ Forall (fun s => lenN_ (snd s) = e) sh
  | FRaptor => (1 <= k /\ k <= RAPTOR_KMAX) /\ Forall (fun s => raptor_symbol_size size k <= lenN_ (snd s)) sh
  | FRS28 | FRS28US => 1 <= k /\ k <= lenN_ sh
  | FNoCode | FRS2M => False
  end.

(* a block that holds a decoder was created inside these ranges and only holds such symbols *)
Definition bdec_wf (oti : roti) (b : bdec) : Prop :=
  bd_alloc b = true ->
  match ro_fec oti with
  | FRaptorQ => (1 <= bd_k b /\ bd_k b <= RAPTORQ_KMAX) /\ 1 <= ro_e oti /\ Forall (fun s => lenN_ (snd s) = ro_e oti) (bd_shards b)
  | FRaptor => (1 <= bd_k b /\ bd_k b <= RAPTOR_KMAX) /\
               Forall (fun s => raptor_symbol_size (bd_size b) (bd_k b) <= lenN_ (snd s)) (bd_shards b)
  | FRS28 | FRS28US => 1 <= bd_k b
  | FRS2M => False
  | FNoCode => True
  end.

Lemma bdec_new_wf oti : bdec_wf oti bdec_new.
Proof. intros H; discriminate. Qed.

Lemma bd_init_block_wf oti k size b b' :
  bd_init b = false -> bd_init_block oti k size b = Some b' -> bdec_wf oti b'.
Proof.
  intros Hi. unfold bd_init_block, bdec_wf. rewrite Hi.
  destruct (ro_fec oti) eqn:Ef.
  - intros Hx; inversion Hx; subst; auto.
  - unfold rs_ok. destruct (N.ltb_spec 0 k) as [Hk|Hk]; cbn [andb]; [|discriminate].
    destruct ((0 <? ro_parity oti) && (k + ro_parity oti <=? 256)); [|discriminate].
    intros Hx; inversion Hx; subst. cbn. intros _. lia.
  - unfold rs_ok. destruct (N.ltb_spec 0 k) as [Hk|Hk]; cbn [andb]; [|discriminate].
    destruct ((0 <? ro_parity oti) && (k + ro_parity oti <=? 256)); [|discriminate].
    intros Hx; inversion Hx; subst. cbn. intros _. lia.
  - discriminate.
  - destruct (ro_scheme oti) as [[[z n] al]|]; [|discriminate].
    destruct (N.eqb_spec (ro_e oti) 0) as [He|He]; cbn [orb]; [discriminate|].
    destruct (al =? 0); cbn [orb]; [discriminate|]. destruct (negb (ro_e oti mod al =? 0)); cbn [orb]; [discriminate|].
    destruct (n =? 0); cbn [orb]; [discriminate|]. destruct (N.eqb_spec k 0) as [Hk|Hk]; cbn [orb]; [discriminate|].
    destruct (N.ltb_spec RAPTORQ_KMAX k) as [Hm|Hm]; [discriminate|].
    intros Hx; inversion Hx; subst. cbn [bd_alloc bd_k bd_shards]. intros _.
    split; [split; lia|]. split; [lia|constructor].
  - destruct (ro_scheme oti) as [x|]; [|discriminate].
    destruct (N.eqb_spec k 0) as [Hk|Hk]; cbn [orb]; [discriminate|]. destruct (N.ltb_spec RAPTOR_KMAX k) as [Hm|Hm]; [discriminate|].
    intros Hx; inversion Hx; subst. cbn [bd_alloc bd_k bd_shards bd_size]. intros _.
    split; [split; lia|constructor].
Qed.

Lemma pad_to_len t p : t <= lenN_ (pad_to t p).
Proof. unfold pad_to, lenN_. rewrite app_length, repeat_length. lia. Qed.

Section Oracle.
  Variables E1 E2 : env.
  (* two worlds whose FEC oracles differ only outside the decoders' preconditions *)
  Hypothesis debug_eq : e_debug E1 = e_debug E2.
  Hypothesis fec_eq : forall toi f sbn k e size sh,
      fec_pre f k e size sh -> e_fec E1 toi f sbn k e size sh = e_fec E2 toi f sbn k e size sh.

  Theorem bd_push_oracle_pre toi oti sbn esi payload b :
    bdec_wf oti b ->
    bd_push E1 toi oti sbn esi payload b = bd_push E2 toi oti sbn esi payload b
    /\ bdec_wf oti (fst (bd_push E1 toi oti sbn esi payload b)).
  Proof.
    intros W. unfold bd_push.
    destruct (bd_completed b); [split; [reflexivity|exact W]|].
    destruct (bd_alloc b) eqn:Ea; cbn [negb]; [|rewrite debug_eq; split; [reflexivity|intros Hx; cbn [fst] in Hx; congruence]].
    destruct (ro_e oti <? lenN_ payload); [split; [reflexivity|exact W]|].
    specialize (W Ea). cbv zeta.
    destruct (ro_fec oti) eqn:Ef.
    - (* No-Code: no external decoder *)
      split; [reflexivity|]. unfold bdec_wf. rewrite Ef. intros _. exact I.
    - (* RS28: consulted only with at least k shards *)
      assert (G : forall sh : list (N * list N),
                 (if bd_k b <=? N.of_nat (length sh)
                  then if count_lt (bd_k b) sh =? bd_k b then concat_src (N.to_nat (bd_k b)) 0 sh
                       else e_fec E1 toi FRS28 sbn (bd_k b) (ro_e oti) (bd_size b) sh
                  else None) =
                 (if bd_k b <=? N.of_nat (length sh)
                  then if count_lt (bd_k b) sh =? bd_k b then concat_src (N.to_nat (bd_k b)) 0 sh
                       else e_fec E2 toi FRS28 sbn (bd_k b) (ro_e oti) (bd_size b) sh
                  else None)).
      { intros sh. destruct (N.leb_spec (bd_k b) (N.of_nat (length sh))) as [Hk|Hk]; [|reflexivity].
        destruct (count_lt (bd_k b) sh =? bd_k b); [reflexivity|].
        apply fec_eq. split; [exact W|exact Hk]. }
      split; [destruct (bd_data b); [reflexivity|rewrite G; reflexivity]|].
      unfold bdec_wf. rewrite Ef. intros _. exact W.
    - assert (G : forall sh : list (N * list N),
                 (if bd_k b <=? N.of_nat (length sh)
                  then if count_lt (bd_k b) sh =? bd_k b then concat_src (N.to_nat (bd_k b)) 0 sh
                       else e_fec E1 toi FRS28US sbn (bd_k b) (ro_e oti) (bd_size b) sh
                  else None) =
                 (if bd_k b <=? N.of_nat (length sh)
                  then if count_lt (bd_k b) sh =? bd_k b then concat_src (N.to_nat (bd_k b)) 0 sh
                       else e_fec E2 toi FRS28US sbn (bd_k b) (ro_e oti) (bd_size b) sh
                  else None)).
      { intros sh. destruct (N.leb_spec (bd_k b) (N.of_nat (length sh))) as [Hk|Hk]; [|reflexivity].
        destruct (count_lt (bd_k b) sh =? bd_k b); [reflexivity|].
        apply fec_eq. split; [exact W|exact Hk]. }
      split; [destruct (bd_data b); [reflexivity|rewrite G; reflexivity]|].
      unfold bdec_wf. rewrite Ef. intros _. exact W.
    - (* GF(2^m): a block never holds a decoder *)
      contradiction.
    - (* RaptorQ: K in range, every stored symbol exactly E bytes *)
      destruct W as (W1 & W2 & W3).
      set (sh := if (lenN_ payload =? ro_e oti) && negb (has_esi esi (bd_shards b)) &&
                    negb match bd_data b with Some _ => true | None => false end
                 then bd_shards b ++ [(esi, payload)] else bd_shards b).
      assert (Wsh : Forall (fun s => lenN_ (snd s) = ro_e oti) sh).
      { unfold sh. destruct (N.eqb_spec (lenN_ payload) (ro_e oti)) as [El|]; cbn [andb]; [|exact W3].
        destruct (negb (has_esi esi (bd_shards b)) && negb _); [|exact W3].
        apply Forall_app. split; [exact W3|]. constructor; [exact El|constructor]. }
      split.
      + destruct (bd_data b); [reflexivity|]. fold sh.
        rewrite (fec_eq toi FRaptorQ sbn (bd_k b) (ro_e oti) (bd_size b) sh) by (split; [exact W1|split; [exact W2|exact Wsh]]).
        reflexivity.
      + unfold bdec_wf. rewrite Ef. cbn [fst bd_alloc bd_k bd_shards]. intros _. fold sh.
        split; [exact W1|split; [exact W2|exact Wsh]].
    - (* Raptor: K in range, every stored symbol at least the size of the block's largest symbol *)
      destruct W as (W1 & W3).
      set (pl := pad_to (raptor_symbol_size (bd_size b) (bd_k b)) payload).
      set (sh := if true && negb (has_esi esi (bd_shards b)) &&
                    negb match bd_data b with Some _ => true | None => false end
                 then bd_shards b ++ [(esi, pl)] else bd_shards b).
      assert (Wsh : Forall (fun s => raptor_symbol_size (bd_size b) (bd_k b) <= lenN_ (snd s)) sh).
      { unfold sh. destruct (true && negb (has_esi esi (bd_shards b)) && negb _); [|exact W3].
        apply Forall_app. split; [exact W3|]. constructor; [cbn [snd]; apply pad_to_len|constructor]. }
      split.
      + destruct (bd_data b); [reflexivity|]. fold pl. fold sh.
        rewrite (fec_eq toi FRaptor sbn (bd_k b) (ro_e oti) (bd_size b) sh) by (split; [exact W1|exact Wsh]).
        reflexivity.
      + unfold bdec_wf. rewrite Ef. cbn [fst bd_alloc bd_k bd_shards bd_size]. intros _. fold pl. fold sh.
        split; [exact W1|exact Wsh].
  Qed.
End Oracle.
