(* C02 / C03 / C01 for CONTENT-ENCODED objects (Content-Encoding gzip / deflate / zlib), No-Code scheme.
   The packets carry the transfer-encoded bytes [transfer] (Transfer-Length L = |transfer|); the block writer of the
   model (Model/ObjRecv.v bw_write, branch bw_cenc <> CNull) hands the accumulated transfer bytes to the oracle
   e_inflate E ce acc finished after every block and writes what is new in its answer.
   Part O: the hypothesis on the oracle (inflate_oracle_ok: every prefix; inflate_oracle_blocks: the block boundaries
           only - exactly the calls the model makes) and a toy oracle that satisfies it.
   Part D: the object invariant of Proofs/C02Full.v generalised (blocks hold slices of [transfer], the writer has
           received the decoded prefix of [content]); delivery and safety at the object level.
   Part S: the receiver level (recv_run) through the interface of Proofs/C02SessionRS.v (section SessIface). *)
From FluteV Require Import Proofs.D48Step Model.Partition Spec.C07Spec Proofs.PartitionProofs Model.ObjRecv Model.Recv
  Spec.RecvSpec Spec.SessionSpec Proofs.RecvProofs Proofs.SessionProofs Proofs.C09Full Proofs.C02RS
  Proofs.C02Session Proofs.C02SessionRS Proofs.C02Full.
From Coq Require Import Lia.
Open Scope N_scope.

Arguments N.add : simpl never. Arguments N.mul : simpl never. Arguments N.sub : simpl never.
Arguments N.eqb : simpl never. Arguments N.ltb : simpl never. Arguments N.leb : simpl never.
Arguments N.div : simpl never. Arguments N.modulo : simpl never. Arguments N.min : simpl never.

Ltac prj := cbn [r_state r_toi r_oti r_cache r_cache_size r_max r_blocks r_off r_tlen r_cenc r_md5 r_md5chk
                 r_al r_as r_nal r_writer r_bw r_fdt_id r_nb_alloc r_alloc_size r_clen r_nocache] in *.

(* ================= O. the hypothesis on the inflate oracle ================= *)
(* [cut a]: the model may ask for the decoded output after exactly [a] transfer bytes.  dl a = number of content bytes
   the decoder has produced when it has been fed the first a transfer bytes (not finished); fed everything and
   finished, it has produced the content. *)
Definition inflate_oracle_on (cut : N -> Prop) (E : env) (ce : cenc) (transfer content : list N) : Prop :=
  exists dl : N -> N,
    dl 0 = 0
    /\ (forall x y, x <= y -> dl x <= dl y)
    /\ (forall a, cut a -> a < lenN_ transfer ->
          e_inflate E ce (take a transfer) false = Some (take (dl a) content))
    /\ e_inflate E ce transfer true = Some content.

(* every prefix: a streaming decoder, whatever the partition into blocks is *)
Definition inflate_oracle_ok (E : env) (ce : cenc) (transfer content : list N) : Prop :=
  inflate_oracle_on (fun _ => True) E ce transfer content.

(* the block boundaries of the RFC 5052 partition of the transfer-encoded object: the only calls the model makes *)
Definition block_cut (oti : roti) (L a : N) : Prop :=
  let '(al, as_, nal, n) := partition_of oti L in exists s, s < n /\ a = boff (ro_e oti) L al as_ nal s.
Definition inflate_oracle_blocks (E : env) (ce : cenc) (oti : roti) (transfer content : list N) : Prop :=
  inflate_oracle_on (block_cut oti (lenN_ transfer)) E ce transfer content.

Lemma inflate_oracle_on_weaken (P Q : N -> Prop) E ce transfer content :
  (forall a, Q a -> P a) -> inflate_oracle_on P E ce transfer content -> inflate_oracle_on Q E ce transfer content.
Proof.
  intros PQ (dl & H0 & Hm & Hc & Hf). exists dl. split; [exact H0|]. split; [exact Hm|]. split; [|exact Hf].
  intros a Qa Ha. apply Hc; [apply PQ; exact Qa|exact Ha].
Qed.
Lemma inflate_oracle_ok_blocks E ce oti transfer content :
  inflate_oracle_ok E ce transfer content -> inflate_oracle_blocks E ce oti transfer content.
Proof. apply inflate_oracle_on_weaken. intros; exact I. Qed.

(* ---------- byte strings ---------- *)
Lemma skipn_app_len {A} (a r : list A) : skipn (length a) (a ++ r) = r.
Proof. induction a as [|x a IH]; [reflexivity|exact IH]. Qed.
Lemma take_drop (n : N) (l : list N) : take n l ++ drop n l = l.
Proof. unfold take, drop. apply firstn_skipn. Qed.
Lemma take_le_split (d1 d2 : N) (l : list N) : d1 <= d2 -> take d2 l = take d1 l ++ take (d2 - d1) (drop d1 l).
Proof. intros H. rewrite take_add. f_equal. lia. Qed.
(* what is new in [after] with respect to [before], both prefixes of the content *)
Lemma fresh_prefix (d1 d2 : N) (l : list N) : d1 <= d2 ->
  take d1 l ++ skipn (length (take d1 l)) (take d2 l) = take d2 l.
Proof. intros H. rewrite (take_le_split d1 d2 l H). rewrite skipn_app_len. reflexivity. Qed.
Lemma fresh_all (d1 : N) (l : list N) : take d1 l ++ skipn (length (take d1 l)) l = l.
Proof.
  assert (H : skipn (length (take d1 l)) (take d1 l ++ drop d1 l) = drop d1 l) by apply skipn_app_len.
  rewrite take_drop in H. rewrite H. apply take_drop.
Qed.
Lemma take_len (l : list N) : take (lenN_ l) l = l.
Proof. apply take_all. lia. Qed.

(* ================= D. the object level ================= *)
Section CencDelivery.
  Set Default Proof Using "All".
  Variable E : env.
  Variable oti : roti.
  Variable transfer content : list N.
  Variable ce : cenc.
  Variable w : wid.
  Variable toi : N.
  Variable md5 : option (list N).
  Variable max : N.
  Variables al as_ nal n : N.
  Let e := ro_e oti.
  Let b := ro_b oti.
  Let L := lenN_ transfer.
  Hypothesis Hfec : ro_fec oti = FNoCode.
  Hypothesis He : 0 < e.
  Hypothesis Hb : 0 < b.
  Hypothesis HL : 0 < L.
  Hypothesis Hu64 : L + e < U64.
  Hypothesis Hpart : block_partitioning b L e = (al, as_, nal, n).
  Hypothesis Hce : ce <> CNull.
  (* the oracle at the block boundaries *)
  Variable dl : N -> N.
  Hypothesis Hdl0 : dl 0 = 0.
  Hypothesis Hdlm : forall x y, x <= y -> dl x <= dl y.
  Hypothesis Hdlc : forall s, s < n -> e_inflate E ce (take (boff e L al as_ nal s) transfer) false = Some (take (dl (boff e L al as_ nal s)) content).
  Hypothesis Hfin : e_inflate E ce transfer true = Some content.

  Notation PF lem := (lem b e L al as_ nal n Hb He HL Hpart) (only parsing).
  Notation kof := (k_of al as_ nal).
  Notation sof := (soff al as_ nal).
  Notation bof := (boff e L al as_ nal).
  Notation bln := (blen e L al as_ nal).
  Notation BInit := (C02Full.BlockInit oti transfer al as_ nal n).
  Notation BOk := (C02Full.BlockOk oti transfer al as_ nal n).
  Notation asumT := (C02Full.asum oti transfer al as_ nal).
  Notation blkT := (C02Full.blk_bytes oti transfer al as_ nal).
  Notation symT := (C02Full.sym_bytes oti transfer).
  Notation ShRecv := (C02Full.ShapeRecv content w toi).
  Notation ShDone := (C02Full.ShapeDone content w toi).
  Notation ShErr := (C02Full.ShapeErr content w toi).
  Notation LiveOne := C02Full.LiveOne.
  Notation Mono := C02Full.Mono.
  Notation LiveAll := C02Full.LiveAll.


  (* content bytes the writer has received once [off] blocks are written *)
  Definition DL (off : N) : N := if off <? n then dl (bof off) else lenN_ content.

  Lemma DL_0 : DL 0 = 0.
  Proof. unfold DL. pose proof (PF n_pos). destruct (N.ltb_spec 0 n); [|lia]. rewrite (PF boff_0). exact Hdl0. Qed.

  (* ---------- the object invariant ---------- *)
  Record CStatic (o : objrecv) : Prop := {
    cst_state : r_state o = Receiving;
    cst_oti : r_oti o = Some oti;
    cst_tlen : r_tlen o = Some L;
    cst_cenc : r_cenc o = Some ce;
    cst_fdt : r_fdt_id o <> None;
    cst_cache : r_cache o = [];
    cst_csz : r_cache_size o = 0;
    cst_al : r_al o = al;
    cst_as : r_as o = as_;
    cst_nal : r_nal o = nal;
    cst_md5 : r_md5 o = md5;
    cst_max : r_max o = max;
    cst_writer : r_writer o = Some (w, WOpened)
  }.

  Record CBwInv (off : N) (bw : bwriter) : Prop := {
    cbw_1 : bw_sbn bw = off;
    cbw_2 : bw_left bw = L - bof off;
    cbw_3 : bw_cenc bw = ce;
    cbw_4 : bw_acc bw = take (bof off) transfer;
    cbw_5 : bw_md5 bw = None;
    cbw_6 : bw_dead bw = false
  }.

  Record CDyn (o : objrecv) (c : ctx) : Prop := {
    cdy_bw : exists bw, r_bw o = Some bw /\ CBwInv (r_off o) bw;
    cdy_off : r_off o < n;
    cdy_nb : 0 < r_off o + N.of_nat (length (r_blocks o));
    cdy_blocks : forall i, BOk (r_off o + N.of_nat i) (nth i (r_blocks o) bdec_new);
    cdy_alloc : r_alloc_size o <= asumT (r_off o) (r_blocks o);
    cdy_log : ShRecv c (DL (r_off o))
  }.
  Definition CFlushed (o : objrecv) : Prop := bd_completed (nth 0 (r_blocks o) bdec_new) = false.
  Definition CPre (o : objrecv) (c : ctx) : Prop := CStatic o /\ CDyn o c.
  Definition CStruct (o : objrecv) (c : ctx) : Prop := CStatic o /\ CDyn o c /\ CFlushed o.

  Lemma cstatic_set_blocks o bl off nb sz bw : CStatic o -> CStatic (set_blocks o bl off nb sz bw).
  Proof. intros []. constructor; unfold set_blocks; prj; assumption. Qed.

  Lemma c_or_push_static o c p : CStatic o -> 0 < nb_block o ->
    or_push E p o c = match push_to_block E p o c with
                      | (ROk o5, c5) => (o5, c5)
                      | (RErr o5, c5) => error o5 false c5
                      end.
  Proof.
    intros [S1 S2 S3 S4 S5 S6 S7 S8 S9 S10 S11 S12 S13] Hnb. destruct o. prj. subst.
    destruct r_fdt_id as [fid|]; [|congruence].
    unfold or_push. prj.
    match goal with |- context [init_partition ?x] => set (o0 := x) end.
    assert (Hnb0 : 0 < nb_block o0) by exact Hnb.
    assert (I1 : init_partition o0 = o0).
    { unfold init_partition. destruct (N.ltb_spec 0 (nb_block o0)) as [_|G]; [reflexivity|lia]. }
    assert (I2 : init_writer E o0 c = (o0, c)) by reflexivity.
    assert (I3 : push_from_cache E o0 c = (o0, c)).
    { unfold push_from_cache, cache_replay_blocked. change (r_oti o0) with (Some oti). cbv iota beta.
      destruct (N.eqb_spec (nb_block o0) 0) as [G|_]; [lia|]. reflexivity. }
    rewrite I1, I2. cbv iota beta. change (r_state o0) with Receiving. cbv iota beta.
    rewrite I3. cbv iota beta. change (r_state o0) with Receiving. cbv iota beta.
    change (r_oti o0) with (Some oti). cbv iota beta. reflexivity.
  Qed.

  (* ---------- log shapes (content may be empty: the lemmas of C02Full that assume 0 < |content| are redone) ---------- *)
  Lemma c_shape_same c off off' : ShRecv c off -> take off content = take off' content -> ShRecv c off'.
  Proof. intros (evs & H1 & H2 & H3) Heq. exists evs. split; [exact H1|]. split; [exact H2|]. rewrite H3. exact Heq. Qed.
  Lemma c_shape_done c c1 : ShRecv c (lenN_ content) -> c_log c1 = c_log c ++ [EvComplete w] -> ShDone c1.
  Proof.
    intros (evs & H1 & H2 & H3) Hl. exists evs. split; [|split; [exact H2|]].
    - rewrite Hl, H1, app_assoc. reflexivity.
    - rewrite H3. apply take_len.
  Qed.

  (* ---------- the block writer, content-encoding branch ---------- *)
  Definition cenc_branch (bw : bwriter) (data : list N) (c : ctx) : bwres * ctx :=
    let acc := bw_acc bw ++ data in
    let left := bw_left bw - lenN_ data in
    let finished := left =? 0 in
    if bw_dead bw && negb (lenN_ data =? 0) then (BwErr, c)
    else
      let dead := bw_dead bw || (negb (bw_inited bw) && (lenN_ data =? 0)) in
      match e_inflate E ce (bw_acc bw) false, e_inflate E ce acc finished with
      | Some before, Some after =>
        let fresh := skipn (length before) after in
        let (ok, c1) := match fresh with [] => (true, c) | _ => do_write E w fresh c end in
        if ok then
          (BwOk (mk_bw (bw_sbn bw + 1) left (bw_clen_left bw) ce true dead acc (bw_md5ctx bw && negb finished)
                       (if finished && bw_md5ctx bw then Some (e_md5 E after) else bw_md5 bw)), c1)
        else (BwErr, c1)
      | _, _ => (BwErr, c)
      end.

  Lemma bw_write_cenc sbn d bw c data0 : bw_sbn bw = sbn -> bw_cenc bw = ce -> bd_data d = Some data0 ->
    bw_write E w sbn d bw c
    = cenc_branch bw (if lenN_ data0 <? bw_left bw then data0 else firstn (N.to_nat (bw_left bw)) data0) c.
  Proof.
    intros H1 H2 H3. unfold bw_write, cenc_branch. rewrite H1, N.eqb_refl, H3, H2. cbn [negb].
    destruct ce; [congruence|reflexivity|reflexivity|reflexivity].
  Qed.

  Lemma c_lenN_blk s : s < n -> lenN_ (blkT s) = bln s /\ bof s + bln s = bof (s + 1) /\ bof (s + 1) <= L /\ 0 < bln s.
  Proof.
    intros Hs. destruct (PF blen_spec s Hs) as (B1 & B2 & B3). pose proof (PF boff_le (s + 1)) as B4.
    unfold C02Full.blk_bytes. rewrite lenN_take, lenN_drop. fold L. fold e. split; [lia|]. split; [lia|]. split; [exact B4|exact B2].
  Qed.
  Lemma c_acc_step s : s < n -> take (bof s) transfer ++ blkT s = take (bof (s + 1)) transfer.
  Proof. intros Hs. destruct (c_lenN_blk s Hs) as (_ & B2 & _). unfold C02Full.blk_bytes. fold e. fold L. rewrite take_add, B2. reflexivity. Qed.

  Definition AllWritesOk : Prop := forall i, e_write_ok E w i = true.

  Lemma c_bw_write_ok off d bw c : CBwInv off bw -> BInit off d -> bd_completed d = true -> ShRecv c (DL off) ->
    exists r c1, bw_write E w off d bw c = (r, c1) /\ ShRecv c1 (DL (off + 1))
      /\ ((exists bw', r = BwOk bw'
            /\ CBwInv (off + 1) (mk_bw (bw_sbn bw') (bw_left bw') (bw_clen_left bw') (bw_cenc bw') (bw_inited bw')
                                       (bw_dead bw') (bw_acc bw') (bw_md5ctx bw') None)
            /\ (bw_md5 bw' = None \/ (off + 1 = n /\ bw_md5 bw' = Some (e_md5 E content))))
          \/ (r = BwErr /\ ~ AllWritesOk)).
  Proof.
    intros [W1 W2 W3 W4 W5 W6] BI Hc Sh. pose proof (C02Full.bi_done _ _ _ _ _ _ _ _ BI Hc) as Hd.
    pose proof (C02Full.bi_lt _ _ _ _ _ _ _ _ BI) as Hs.
    destruct (c_lenN_blk off Hs) as (B1 & B2 & B3 & B4).
    rewrite (bw_write_cenc off d bw c _ W1 W3 Hd).
    set (dat := if lenN_ (blkT off) <? bw_left bw then blkT off else firstn (N.to_nat (bw_left bw)) (blkT off)).
    assert (Hdat : dat = blkT off).
    { unfold dat. destruct (lenN_ (blkT off) <? bw_left bw); [reflexivity|].
      change (firstn (N.to_nat (bw_left bw)) (blkT off)) with (take (bw_left bw) (blkT off)).
      apply take_all. rewrite B1, W2. lia. }
    clearbody dat. subst dat.
    assert (Hacc : bw_acc bw ++ blkT off = take (bof (off + 1)) transfer) by (rewrite W4; apply c_acc_step; exact Hs).
    unfold cenc_branch. rewrite W6, Hacc, W4, B1. cbn [andb orb].
    destruct (N.eqb_spec (bln off) 0) as [Z|_]; [lia|]. rewrite andb_false_r.
    rewrite (Hdlc off Hs).
    assert (Hleft : bw_left bw - bln off = L - bof (off + 1)) by (rewrite W2; lia).
    rewrite Hleft.
    assert (Hfi : (L - bof (off + 1) =? 0) = negb (off + 1 <? n)).
    { destruct (N.ltb_spec (off + 1) n) as [G|G]; cbn [negb].
      - destruct (PF boff_lt (off + 1) G) as [_ G2]. apply N.eqb_neq. lia.
      - rewrite (PF boff_ge (off + 1) G). apply N.eqb_eq. lia. }
    rewrite Hfi.
    assert (Haft : exists aft, e_inflate E ce (take (bof (off + 1)) transfer) (negb (off + 1 <? n)) = Some aft
                   /\ take (DL off) content ++ skipn (length (take (dl (bof off)) content)) aft = take (DL (off + 1)) content
                   /\ (off + 1 <? n = false -> aft = content)).
    { unfold DL. destruct (N.ltb_spec off n) as [_|G]; [|lia].
      destruct (N.ltb_spec (off + 1) n) as [G|G]; cbn [negb].
      - exists (take (dl (bof (off + 1))) content). split; [apply Hdlc; exact G|]. split; [|discriminate].
        apply fresh_prefix. apply Hdlm. apply (PF boff_mono). lia.
      - exists content. rewrite (PF boff_ge (off + 1) G). unfold L. rewrite take_len. split; [exact Hfin|].
        split; [|reflexivity]. rewrite take_len. apply fresh_all. }
    destruct Haft as (aft & Ha1 & Ha2 & Ha3). rewrite Ha1.
    set (fresh := skipn (length (take (dl (bof off)) content)) aft) in *.
    set (bw' := fun ok : bool => mk_bw (bw_sbn bw + 1) (L - bof (off + 1)) (bw_clen_left bw) ce true false
                       (take (bof (off + 1)) transfer) (bw_md5ctx bw && negb (negb (off + 1 <? n)))
                       (if negb (off + 1 <? n) && bw_md5ctx bw then Some (e_md5 E aft) else bw_md5 bw)).
    assert (Good : forall bx, bx = bw' true ->
              CBwInv (off + 1) (mk_bw (bw_sbn bx) (bw_left bx) (bw_clen_left bx) (bw_cenc bx) (bw_inited bx)
                                       (bw_dead bx) (bw_acc bx) (bw_md5ctx bx) None)
              /\ (bw_md5 bx = None \/ (off + 1 = n /\ bw_md5 bx = Some (e_md5 E content)))).
    { intros bx ->. unfold bw'. cbn [bw_sbn bw_left bw_clen_left bw_cenc bw_inited bw_dead bw_acc bw_md5ctx bw_md5]. split.
      - constructor; cbn [bw_sbn bw_left bw_cenc bw_acc bw_md5 bw_dead]; try reflexivity. rewrite W1. reflexivity.
      - destruct (N.ltb_spec (off + 1) n) as [G|G]; cbn [negb andb]; [left; exact W5|].
        destruct (bw_md5ctx bw); [|left; exact W5]. right. split; [lia|]. rewrite Ha3; reflexivity. }
    destruct fresh as [|x fr] eqn:Hfr.
    - (* nothing new: no write call *)
      exists (BwOk (bw' true)), c. split; [reflexivity|]. split.
      + apply (c_shape_same c (DL off)); [exact Sh|]. rewrite <- Ha2, app_nil_r. reflexivity.
      + left. exists (bw' true). split; [reflexivity|]. apply Good. reflexivity.
    - unfold do_write. set (ok := e_write_ok E w (wcount c w)).
      set (c1 := inc_wcount (logc c (EvWrite w (x :: fr) ok)) w).
      assert (Sh1 : ShRecv c1 (DL (off + 1))).
      { eapply C02Full.shape_write; [exact Sh|reflexivity|exact Ha2]. }
      destruct ok eqn:Hok.
      + exists (BwOk (bw' true)), c1. split; [reflexivity|]. split; [exact Sh1|].
        left. exists (bw' true). split; [reflexivity|]. apply Good. reflexivity.
      + exists BwErr, c1. split; [reflexivity|]. split; [exact Sh1|]. right. split; [reflexivity|].
        intros A. unfold ok in Hok. rewrite A in Hok. discriminate.
  Qed.

  (* ---------- outcomes ---------- *)
  Definition c_md5_good : Prop :=
    match md5 with Some want => eqb_bytes want (e_md5 E content) = true | None => True end.
  Definition CNiceEnv : Prop := AllWritesOk /\ c_md5_good.
  Definition CErrPending (o : objrecv) (c : ctx) : Prop :=
    r_writer o = Some (w, WOpened) /\ exists off, ShRecv c off.

  Definition CWOut (nice : Prop) (o : objrecv) (r : res * ctx) : Prop :=
    match r with
    | (ROk o', c') => (CStruct o' c' /\ Mono o o') \/ (r_state o' = Completed /\ ShDone c')
                      \/ (r_state o' = Errored /\ ShErr c' /\ ~ nice)
    | (RErr o', c') => CErrPending o' c' /\ ~ nice
    end.

  Lemma cwout_trans nice o o1 r : Mono o o1 -> CWOut nice o1 r -> CWOut nice o r.
  Proof.
    intros M. destruct r as [[o'|o'] c']; cbn [CWOut]; [|tauto].
    intros [[S1 M1]|H]; [left|right; exact H]. split; [exact S1|]. intros s i H. apply M1, M, H.
  Qed.

  Lemma c_wb_loop : forall fuel o c, CPre o c -> (length (r_blocks o) <= fuel)%nat ->
    CWOut CNiceEnv o (write_blocks E fuel (r_off o) o c).
  Proof.
    induction fuel as [|f IH]; intros o c [St Dy] Hlen.
    - cbn [write_blocks CWOut]. left. split; [|intros s i H; exact H].
      split; [exact St|split; [exact Dy|]]. unfold CFlushed. destruct (r_blocks o); [reflexivity|cbn in Hlen; lia].
    - cbn [write_blocks]. rewrite (cst_writer _ St). destruct (cdy_bw _ _ Dy) as (bw & Hbw & BW). rewrite Hbw.
      destruct (N.leb_spec (r_off o) (r_off o)) as [_|G]; [|lia]. cbn [andb].
      replace (r_off o - r_off o) with 0 by lia. change (N.to_nat 0) with 0%nat.
      destruct (r_blocks o) as [|d l] eqn:Hbl.
      { cbn [length N.of_nat]. destruct (N.ltb_spec 0 0) as [G|_]; [lia|]. cbn [CWOut]. left.
        split; [|intros s i H; exact H]. split; [exact St|split; [exact Dy|]]. unfold CFlushed. rewrite Hbl. reflexivity. }
      destruct (N.ltb_spec 0 (N.of_nat (length (d :: l)))) as [_|G]; [|cbn [length] in G; lia].
      cbn [nth]. destruct (bd_completed d) eqn:Hc; cbn [negb].
      2:{ cbn [CWOut]. left. split; [|intros s i H; exact H]. split; [exact St|split; [exact Dy|]].
          unfold CFlushed. rewrite Hbl. exact Hc. }
      assert (BI : BInit (r_off o) d).
      { pose proof (cdy_blocks _ _ Dy 0%nat) as [B0 B1]. rewrite Hbl in B0, B1. cbn [nth] in B0, B1.
        replace (r_off o + N.of_nat 0) with (r_off o) in * by lia.
        destruct (bd_init d) eqn:Hi; [apply B1; reflexivity|rewrite B0 in Hc; [discriminate|reflexivity]]. }
      pose proof (cdy_off _ _ Dy) as Hoff.
      destruct (c_bw_write_ok (r_off o) d bw c BW BI Hc (cdy_log _ _ Dy)) as (r & c1 & Hw & Sh1 & Hr). rewrite Hw.
      destruct Hr as [(bw' & -> & BW' & Hmd5)|[-> Hn]].
      2:{ cbn [CWOut]. split; [split; [apply (cst_writer _ St)|eexists; exact Sh1]|]. intros [N1 _]. exact (Hn N1). }
      cbn [Nat.eqb tl]. cbv beta iota zeta.
      set (o1 := set_blocks o l (r_off o + 1) (r_nb_alloc o - 1) (r_alloc_size o - bd_size d) (Some bw')).
      assert (St1 : CStatic o1) by (apply cstatic_set_blocks; exact St).
      assert (Hleft : bw_left bw' = L - bof (r_off o + 1)) by (apply (cbw_2 _ _ BW')).
      assert (M1 : Mono o o1).
      { intros s i [H|[H1 H2]]; [left; unfold o1, set_blocks; prj; lia|].
        destruct (N.eq_dec s (r_off o)) as [->|Ne]; [left; unfold o1, set_blocks; prj; lia|].
        right. unfold o1, set_blocks; prj. split; [lia|]. rewrite Hbl in H2.
        replace (N.to_nat (s - r_off o)) with (S (N.to_nat (s - (r_off o + 1)))) in H2 by lia. exact H2. }
      destruct (N.eqb_spec (bw_left bw') 0) as [Z|NZ].
      + (* the last block has been written *)
        assert (Hn : r_off o + 1 = n).
        { destruct (N.lt_ge_cases (r_off o + 1) n) as [G|G]; [|lia].
          destruct (PF boff_lt (r_off o + 1) G) as [_ G2]. lia. }
        assert (ShL : ShRecv c1 (lenN_ content)).
        { unfold DL in Sh1. rewrite Hn in Sh1. destruct (N.ltb_spec n n) as [G|_]; [lia|]. exact Sh1. }
        assert (Hw1 : r_writer o1 = Some (w, WOpened)) by apply (cst_writer _ St1).
        set (valid := match r_md5 o1, bw_md5 bw' with Some want, Some got => eqb_bytes want got | _, _ => true end).
        destruct valid eqn:V.
        * destruct (C02Full.complete_res w o1 c1 _ Hw1) as (o2 & Hcp & Hst). rewrite Hcp. cbn [CWOut]. right; left.
          split; [exact Hst|]. eapply c_shape_done; [exact ShL|reflexivity].
        * destruct (C02Full.error_res w o1 c1 _ false Hw1) as (o2 & Hcp & Hst). rewrite Hcp. cbn [CWOut]. right; right.
          split; [exact Hst|]. split; [eapply C02Full.shape_err; [exact ShL|reflexivity|left; reflexivity]|].
          intros [_ G]. unfold c_md5_good in G. unfold valid in V. rewrite (cst_md5 _ St1) in V.
          destruct md5 as [want|]; [|discriminate].
          destruct Hmd5 as [H|[_ H]]; rewrite H in V; [discriminate|congruence].
      + assert (Hn : r_off o + 1 < n).
        { destruct (N.lt_ge_cases (r_off o + 1) n) as [G|G]; [exact G|].
          rewrite (PF boff_ge (r_off o + 1)) in Hleft by lia. lia. }
        assert (P1 : CPre o1 c1).
        { split; [exact St1|]. constructor; unfold o1, set_blocks; prj.
          - exists bw'. split; [reflexivity|]. destruct Hmd5 as [H|[H _]]; [|lia].
            destruct BW' as [V1 V2 V3 V4 V5 V6]. cbn [bw_sbn bw_left bw_cenc bw_acc bw_md5 bw_dead] in *. constructor; assumption.
          - exact Hn.
          - lia.
          - intros i. pose proof (cdy_blocks _ _ Dy (S i)) as B. rewrite Hbl in B. cbn [nth] in B.
            replace (r_off o + 1 + N.of_nat i) with (r_off o + N.of_nat (S i)) by lia. exact B.
          - pose proof (cdy_alloc _ _ Dy) as A. rewrite Hbl in A. cbn [C02Full.asum] in A.
            rewrite (C02Full.bi_init _ _ _ _ _ _ _ _ BI) in A. rewrite (C02Full.bi_size _ _ _ _ _ _ _ _ BI). lia.
          - exact Sh1. }
        change (r_off o + 1) with (r_off o1).
        apply (cwout_trans _ o o1); [exact M1|]. apply IH; [exact P1|].
        unfold o1, set_blocks; prj. cbn [length] in Hlen. lia.
  Qed.

  Definition cbad (o : objrecv) : Prop := r_state o = Errored \/ r_state o = Interrupted.
  Definition CPOut (nice : Prop) (o : objrecv) (s i : N) (r : res * ctx) : Prop :=
    match r with
    | (ROk o', c') => (CStruct o' c' /\ Mono o o' /\ LiveOne s i o') \/ (r_state o' = Completed /\ ShDone c')
                      \/ (cbad o' /\ ShErr c' /\ ~ nice)
    | (RErr o', c') => (exists ws, r_writer o' = Some (w, ws)) /\ (exists off, ShRecv c' off) /\ ~ nice
    end.
  Lemma cpout_weaken (nice nice' : Prop) o s i r : (nice' -> nice) -> CPOut nice o s i r -> CPOut nice' o s i r.
  Proof. intros H. destruct r as [[o'|o'] c']; cbn [CPOut]; tauto. Qed.
  Lemma cwout_pout nice o o1 s i r : Mono o o1 -> LiveOne s i o1 -> CWOut nice o1 r -> CPOut nice o s i r.
  Proof.
    intros M Lv. destruct r as [[o'|o'] c']; cbn [CWOut CPOut].
    - intros [[S1 M1]|[H|(H1 & H2 & H3)]]; [left|right; left; exact H|right; right].
      + split; [exact S1|]. split; [intros s' i' H; apply M1, M, H|apply M1, Lv].
      + split; [left; exact H1|]. split; assumption.
    - intros [[H1 H2] H3]. split; [eexists; exact H1|]. split; assumption.
  Qed.

  Lemma c_p2b_tail o c sbn esi payload b1 nb sz :
    CStruct o c -> r_off o <= sbn -> sbn < n ->
    let idx := N.to_nat (sbn - r_off o) in
    (idx < length (r_blocks o))%nat ->
    let d := nth idx (r_blocks o) bdec_new in
    bd_completed d = false -> BInit sbn b1 -> bd_completed b1 = false ->
    (bd_init d = true -> b1 = d /\ sz = r_alloc_size o) ->
    (bd_init d = false -> sz = r_alloc_size o + bln sbn) ->
    esi < kof sbn -> payload = symT (sof sbn + esi) ->
    CPOut CNiceEnv o sbn esi
      (let (b2, pan) := bd_push E (r_toi o) oti sbn esi payload b1 in
       let c1 := if pan then panicc c else c in
       let o1 := set_blocks o (upd_nthb idx (fun _ => b2) (r_blocks o)) (r_off o) nb sz (r_bw o) in
       if bd_completed b2 then write_blocks E (S (length (r_blocks o1))) sbn o1 c1 else (ROk o1, c1)).
  Proof.
    intros (St & Dy & Fl) Hge Hlt idx Hidx d Hdc BI1 Hc1 Hinit Hnew Hesi Hpay.
    destruct (C02Full.bd_push_ok E oti transfer al as_ nal n Hfec He Hb HL Hu64 Hpart (r_toi o) sbn esi payload b1 BI1 Hc1 Hesi Hpay)
      as (Q1 & Q2 & Q3 & Q4).
    destruct (bd_push E (r_toi o) oti sbn esi payload b1) as [b2 pan]. cbn [fst snd] in Q1, Q2, Q3, Q4. subst pan.
    cbv zeta.
    set (o1 := set_blocks o (upd_nthb idx (fun _ => b2) (r_blocks o)) (r_off o) nb sz (r_bw o)).
    assert (Hsbn : r_off o + N.of_nat idx = sbn) by (unfold idx; lia).
    pose proof (C02Full.bi_init _ _ _ _ _ _ _ _ Q2) as Q2i.
    assert (P1 : CPre o1 c).
    { split; [apply cstatic_set_blocks; exact St|]. constructor; unfold o1, set_blocks; prj.
      - exact (cdy_bw _ _ Dy).
      - exact (cdy_off _ _ Dy).
      - rewrite C02Full.length_upd. exact (cdy_nb _ _ Dy).
      - intros i. destruct (Nat.eq_dec i idx) as [->|Ne].
        + rewrite nth_upd_eq_l by exact Hidx. rewrite Hsbn. split; [rewrite Q2i; discriminate|intros _; exact Q2].
        + rewrite nth_upd_ne_l by exact Ne. apply (cdy_blocks _ _ Dy).
      - pose proof (cdy_alloc _ _ Dy) as A. destruct (bd_init d) eqn:Hi.
        + destruct (Hinit eq_refl) as [_ ->]. rewrite C02Full.asum_upd_same; [exact A|]. fold d. rewrite Hi. exact Q2i.
        + rewrite (Hnew eq_refl).
          rewrite (C02Full.asum_upd_new oti transfer al as_ nal He Hb HL Hu64); [rewrite Hsbn; fold e; fold L; lia|exact Hidx|exact Hi|exact Q2i].
      - exact (cdy_log _ _ Dy). }
    assert (M1 : Mono o o1).
    { intros s i [H|[H1 H2]]; [left; exact H|]. right. split; [exact H1|]. unfold o1, set_blocks; prj.
      destruct (Nat.eq_dec (N.to_nat (s - r_off o)) idx) as [Eq|Ne].
      - rewrite Eq in *. rewrite nth_upd_eq_l by exact Hidx. fold d in H2. cbv zeta in H2. destruct H2 as [H2 H3].
        split; [exact Q2i|]. right. destruct H3 as [H3|H3]; [congruence|].
        apply Q4. destruct (Hinit H2) as [-> _]. exact H3.
      - rewrite nth_upd_ne_l by exact Ne. exact H2. }
    assert (Lv : LiveOne sbn esi o1).
    { right. split; [exact Hge|]. unfold o1, set_blocks; prj. fold idx. rewrite nth_upd_eq_l by exact Hidx.
      split; [exact Q2i|right; exact Q3]. }
    destruct (bd_completed b2) eqn:Hc2.
    2:{ cbn [CPOut]. left. split; [|split; [exact M1|exact Lv]]. destruct P1 as [S1 D1]. split; [exact S1|split; [exact D1|]].
        unfold CFlushed, o1, set_blocks; prj. destruct (Nat.eq_dec 0 idx) as [Eq|Ne].
        - rewrite <- Eq in *. rewrite nth_upd_eq_l by exact Hidx. exact Hc2.
        - rewrite nth_upd_ne_l by exact Ne. exact Fl. }
    destruct (N.eq_dec sbn (r_off o)) as [Eq|Ne].
    - (* the first block of the window completed: flush *)
      rewrite Eq. change (r_off o) with (r_off o1) at 2.
      apply (cwout_pout _ o o1); [exact M1|rewrite <- Eq; exact Lv|]. apply c_wb_loop; [exact P1|lia].
    - (* a later block completed: nothing can be written yet *)
      cbn [write_blocks]. destruct P1 as [S1 D1]. rewrite (cst_writer _ S1).
      destruct (cdy_bw _ _ D1) as (bw & Hbw & BW). rewrite Hbw.
      assert (R1 : r_off o1 = r_off o) by reflexivity. rewrite R1.
      assert (R2 : length (r_blocks o1) = length (r_blocks o)) by (unfold o1, set_blocks; prj; apply C02Full.length_upd).
      rewrite R2.
      destruct (N.leb_spec (r_off o) sbn) as [_|G]; [|lia].
      destruct (N.ltb_spec (sbn - r_off o) (N.of_nat (length (r_blocks o)))) as [_|G]; [|unfold idx in Hidx; lia].
      cbn [andb]. fold idx.
      assert (R3 : nth idx (r_blocks o1) bdec_new = b2) by (unfold o1, set_blocks; prj; apply nth_upd_eq_l; exact Hidx).
      rewrite R3, Hc2. cbn [negb]. unfold bw_write. rewrite (cbw_1 _ _ BW), R1.
      destruct (N.eqb_spec (r_off o) sbn) as [G|_]; [congruence|]. cbn [negb CPOut].
      left. split; [|split; [exact M1|exact Lv]]. split; [exact S1|split; [exact D1|]].
      unfold CFlushed, o1, set_blocks; prj. rewrite nth_upd_ne_l; [exact Fl|]. unfold idx. lia.
  Qed.

  Lemma cpout_mono nice o o0 s i r : Mono o o0 -> CPOut nice o0 s i r -> CPOut nice o s i r.
  Proof.
    intros M. destruct r as [[o'|o'] c']; cbn [CPOut]; [|tauto].
    intros [(S1 & M1 & L1)|H]; [left|right; exact H]. split; [exact S1|]. split; [|exact L1].
    intros s' i' H. apply M1, M, H.
  Qed.

  (* a packet is genuine for (oti, transfer) at (sbn, esi): C02Full.genuine_at on the transfer-encoded bytes *)
  Notation gen_at := (C02Full.genuine_at oti transfer al as_ nal n).
  Notation gen := (C02Full.genuine oti transfer al as_ nal n).
  Notation cov := (C02Full.covered al as_ nal n).

  Definition CNice2 : Prop := CNiceEnv /\ L <= max /\ n <= 4097.

  Lemma c_p2b o c p sbn esi : CStruct o c -> gen_at p sbn esi ->
    CPOut CNice2 o sbn esi (push_to_block2 E p o c).
  Proof.
    intros S0 (Hpid & Hlt & Hesi & Hpay). pose proof S0 as (St & Dy & Fl).
    unfold push_to_block2. rewrite (cst_oti _ St), (cst_tlen _ St), Hfec, Hpid.
    destruct (N.eqb_spec L 0) as [G|_]; [lia|].
    destruct (N.ltb_spec sbn (r_off o)) as [Hold|Hge].
    { cbn [CPOut]. left. split; [exact S0|]. split; [intros ? ? H; exact H|left; exact Hold]. }
    assert (Hnb : nb_blocks_of oti L = n) by (unfold nb_blocks_of; fold b e; rewrite Hpart; reflexivity).
    rewrite Hnb. destruct (N.leb_spec n sbn) as [G|_]; [lia|].
    set (len := N.of_nat (length (r_blocks o))). set (off := sbn - r_off o).
    destruct ((len <=? off) && (4096 <? off)) eqn:X.
    { cbn [CPOut]. split; [exists WOpened; apply (cst_writer _ St)|]. split; [eexists; apply (cdy_log _ _ Dy)|].
      intros (_ & _ & Hn). apply andb_true_iff in X. destruct X as [_ X]. apply N.ltb_lt in X. unfold off in X. lia. }
    cbv zeta.
    set (bl0 := if len <=? off then r_blocks o ++ repeat bdec_new (N.to_nat off + 1 - length (r_blocks o)) else r_blocks o).
    assert (F : (forall i, nth i bl0 bdec_new = nth i (r_blocks o) bdec_new)
                /\ (forall s, asumT s bl0 = asumT s (r_blocks o))
                /\ (N.to_nat off < length bl0)%nat /\ (length (r_blocks o) <= length bl0)%nat).
    { unfold bl0. destruct (N.leb_spec len off) as [G|G]; unfold len in G.
      - split; [intros i; apply C02Full.nth_app_new|].
        split; [intros s; apply (C02Full.asum_app_new oti transfer al as_ nal He Hb HL Hu64)|].
        rewrite app_length, repeat_length. lia.
      - split; [reflexivity|]. split; [reflexivity|]. lia. }
    destruct F as (F1 & F2 & F3 & F4). clearbody bl0.
    set (o0 := set_blocks o bl0 (r_off o) (r_nb_alloc o) (r_alloc_size o) (r_bw o)).
    assert (S0' : CStruct o0 c).
    { split; [apply cstatic_set_blocks; exact St|]. split.
      - constructor; unfold o0, set_blocks; prj.
        + exact (cdy_bw _ _ Dy).
        + exact (cdy_off _ _ Dy).
        + pose proof (cdy_nb _ _ Dy). lia.
        + intros i. rewrite F1. apply (cdy_blocks _ _ Dy).
        + rewrite F2. exact (cdy_alloc _ _ Dy).
        + exact (cdy_log _ _ Dy).
      - unfold CFlushed, o0, set_blocks; prj. rewrite F1. exact Fl. }
    assert (M0 : Mono o o0).
    { intros s i [H|[H1 H2]]; [left; exact H|right; split; [exact H1|]]. unfold o0, set_blocks; prj. rewrite F1. exact H2. }
    set (d := nth (N.to_nat off) bl0 bdec_new).
    assert (Bd : BOk sbn d).
    { unfold d. rewrite F1. replace sbn with (r_off o + N.of_nat (N.to_nat off)) at 1 by (unfold off; lia).
      apply (cdy_blocks _ _ Dy). }
    destruct (bd_completed d) eqn:Hc.
    { cbn [CPOut]. left. split; [exact S0'|]. split; [exact M0|]. right. split; [exact Hge|].
      unfold o0, set_blocks; prj. fold off. fold d. split; [|left; exact Hc].
      destruct (bd_init d) eqn:Hi; [reflexivity|]. destruct Bd as [B0 _]. rewrite B0 in Hc by exact Hi. discriminate. }
    destruct (bd_init d) eqn:Hi.
    - cbv iota beta.
      apply (cpout_weaken CNiceEnv); [intros H; apply H|]. apply (cpout_mono _ o o0); [exact M0|].
      assert (BId : BInit sbn d) by (destruct Bd as [_ B1]; apply B1; exact Hi).
      refine (c_p2b_tail o0 c sbn esi (a_payload p) d (r_nb_alloc o) (r_alloc_size o) S0' Hge Hlt F3 Hc BId Hc _ _ Hesi Hpay).
      + intros _. split; reflexivity.
      + intros G. change (bd_init d = false) in G. congruence.
    - rewrite (cst_al _ St), (cst_as _ St), (cst_nal _ St).
      change (if sbn <? nal then al else as_) with (kof sbn). fold e.
      rewrite (PF bl64 Hu64 sbn Hlt).
      destruct ((2 <=? r_nb_alloc o) && (r_max o <? r_alloc_size o + bln sbn)) eqn:Y.
      { cbn [CPOut]. split; [exists WOpened; apply (cst_writer _ St)|]. split; [eexists; apply (cdy_log _ _ Dy)|].
        intros (_ & Hm & _). apply andb_true_iff in Y. destruct Y as [_ Y]. apply N.ltb_lt in Y.
        rewrite (cst_max _ St) in Y. pose proof (cdy_alloc _ _ Dy) as A. rewrite <- F2 in A.
        pose proof (C02Full.asum_upd_new oti transfer al as_ nal He Hb HL Hu64 (N.to_nat off) (fun x => mk_bdec false true 0 0 [] None false) bl0 (r_off o) F3 Hi eq_refl) as U.
        pose proof (C02Full.asum_le_L oti transfer al as_ nal n He Hb HL Hu64 Hpart (upd_nthb (N.to_nat off) (fun x => mk_bdec false true 0 0 [] None false) bl0) (r_off o)) as B.
        replace (r_off o + N.of_nat (N.to_nat off)) with sbn in U by (unfold off; lia). fold L in B. fold e in U. fold L in U. lia. }
      unfold bd_init_block. rewrite Hi, Hfec. cbv iota beta.
      apply (cpout_weaken CNiceEnv); [intros H; apply H|]. apply (cpout_mono _ o o0); [exact M0|].
      set (b1 := mk_bdec (bd_completed d) true (bln sbn) (kof sbn) [] None true).
      assert (BI1 : BInit sbn b1).
      { constructor; unfold b1; cbn [bd_init bd_k bd_size bd_alloc bd_shards bd_completed bd_data length map]; try reflexivity; try assumption.
        - constructor.
        - constructor.
        - intros _. split; [reflexivity|]. pose proof (PF k_pos sbn). cbn [N.of_nat]. lia.
        - rewrite Hc. discriminate. }
      refine (c_p2b_tail o0 c sbn esi (a_payload p) b1 (r_nb_alloc o + 1) (r_alloc_size o + bln sbn) S0' Hge Hlt F3 Hc BI1 Hc _ _ Hesi Hpay).
      + intros G. change (bd_init d = true) in G. congruence.
      + intros _. reflexivity.
  Qed.

  Definition CFlagOk (o : objrecv) (p : apkt) (s i : N) : Prop :=
    a_close_obj p = true -> forall o1 c1, CStruct o1 c1 -> Mono o o1 -> LiveOne s i o1 -> False.

  Lemma c_ptb o c p sbn esi : CStruct o c -> gen_at p sbn esi ->
    CPOut (CNice2 /\ CFlagOk o p sbn esi) o sbn esi (push_to_block E p o c).
  Proof.
    intros S0 G. pose proof (c_p2b o c p sbn esi S0 G) as H. unfold push_to_block.
    destruct (push_to_block2 E p o c) as [[o1|o1] c1].
    2:{ apply (cpout_weaken CNice2); [tauto|exact H]. }
    destruct (a_close_obj p) eqn:Hcl; [|apply (cpout_weaken CNice2); [tauto|exact H]].
    cbn [CPOut] in H. destruct H as [(S1 & M1 & L1)|[(H1 & H2)|(H1 & H2 & H3)]].
    - pose proof S1 as (St1 & Dy1 & _). rewrite (cst_state _ St1), (cst_writer _ St1).
      destruct (C02Full.error_res w o1 c1 _ true (cst_writer _ St1)) as (o2 & Hcp & Hst). rewrite Hcp. cbn [CPOut].
      right; right. split; [right; exact Hst|]. split; [|intros [_ G']; exact (G' Hcl o1 c1 S1 M1 L1)].
      eapply C02Full.shape_err; [apply (cdy_log _ _ Dy1)|reflexivity|right; reflexivity].
    - rewrite H1. cbn [CPOut]. right; left. split; assumption.
    - cbn [CPOut]. destruct H1 as [H1|H1]; rewrite H1; right; right; (split; [|split; [exact H2|tauto]]);
        [left|right]; exact H1.
  Qed.

  Definition CStepOut (nice : Prop) (o : objrecv) (s i : N) (r : objrecv * ctx) : Prop :=
    let (o', c') := r in
    (CStruct o' c' /\ Mono o o' /\ LiveOne s i o') \/ (r_state o' = Completed /\ ShDone c')
    \/ (cbad o' /\ ShErr c' /\ ~ nice).

  Lemma c_step o c p sbn esi : CStruct o c -> gen_at p sbn esi ->
    CStepOut (CNice2 /\ CFlagOk o p sbn esi) o sbn esi (or_push E p o c).
  Proof.
    intros S0 G. pose proof S0 as (St & Dy & _).
    rewrite c_or_push_static; [|exact St|unfold nb_block; exact (cdy_nb _ _ Dy)].
    pose proof (c_ptb o c p sbn esi S0 G) as H.
    destruct (push_to_block E p o c) as [[o1|o1] c1]; cbn [CPOut CStepOut] in *; [exact H|].
    destruct H as ((ws & Hw) & (off & Sh) & Hn).
    destruct (C02Full.error_res w o1 c1 _ false Hw) as (o2 & Hcp & Hst). rewrite Hcp.
    right; right. split; [left; exact Hst|]. split; [|exact Hn].
    eapply C02Full.shape_err; [exact Sh|reflexivity|left; reflexivity].
  Qed.

  (* ---------- runs ---------- *)
  Notation run := (C02Full.run E).
  Notation pid_of := C02Full.pid_of.

  (* safety: whatever genuine packets are pushed, in whatever order and multiplicity *)
  Definition CRunOut (r : objrecv * ctx) : Prop :=
    let (o', c') := r in
    CStruct o' c' \/ (r_state o' = Completed /\ ShDone c') \/ (cbad o' /\ ShErr c').

  Lemma c_run_safe pkts : forall o c, CStruct o c -> Forall gen pkts -> CRunOut (run pkts (o, c)).
  Proof.
    induction pkts as [|p pkts IH]; intros o c S0 G; [left; exact S0|].
    inversion G as [|? ? Gp Gr]; subst. unfold C02Full.run. cbn [fold_left fst snd].
    pose proof (c_step o c p _ _ S0 Gp) as H. destruct (or_push E p o c) as [o1 c1]. cbn [CStepOut] in H.
    destruct H as [(S1 & _)|[(H1 & H2)|(H1 & H2 & _)]].
    - apply IH; assumption.
    - fold (run pkts (o1, c1)). rewrite C02Full.run_closed by congruence. right; left. split; assumption.
    - fold (run pkts (o1, c1)). rewrite C02Full.run_closed by (destruct H1; congruence). right; right. split; assumption.
  Qed.

  Lemma c_struct_not_covered o c seen : CStruct o c -> LiveAll seen o -> cov seen -> False.
  Proof.
    intros (St & Dy & Fl) Lv Cov. pose proof (cdy_off _ _ Dy) as Hoff.
    set (d := nth 0 (r_blocks o) bdec_new).
    assert (A : forall i, i < kof (r_off o) -> bd_init d = true /\ has_esi i (bd_shards d) = true).
    { intros i Hi. destruct (Lv _ _ (Cov _ _ Hoff Hi)) as [H|[_ H]]; [lia|].
      replace (N.to_nat (r_off o - r_off o)) with 0%nat in H by lia. fold d in H. cbv zeta in H.
      destruct H as [H1 [H2|H2]]; [|split; assumption]. unfold CFlushed in Fl. fold d in Fl. congruence. }
    pose proof (PF k_pos (r_off o)) as Kp. destruct (A 0 Kp) as [Hi _].
    pose proof (cdy_blocks _ _ Dy 0%nat) as [_ B]. fold d in B. replace (r_off o + N.of_nat 0) with (r_off o) in B by lia.
    specialize (B Hi). destruct (C02Full.bi_open _ _ _ _ _ _ _ _ B Fl) as [_ Hlen].
    assert (kof (r_off o) <= N.of_nat (length (map fst (bd_shards d)))).
    { apply count_all_le. intros j Hj. apply has_esi_in. apply A. exact Hj. }
    rewrite map_length in H. lia.
  Qed.

  Notation close_ok := (C02Full.close_ok al as_ nal n).

  Lemma c_run_live pkts : forall o c seen, CStruct o c -> LiveAll seen o -> CNice2 ->
    Forall gen pkts -> close_ok seen pkts ->
    let (o', c') := run pkts (o, c) in
    (CStruct o' c' /\ LiveAll (List.rev (map pid_of pkts) ++ seen) o') \/ (r_state o' = Completed /\ ShDone c').
  Proof.
    induction pkts as [|p pkts IH]; intros o c seen S0 Lv Nc G Cl; [left; split; assumption|].
    inversion G as [|? ? Gp Gr]; subst. unfold C02Full.run. cbn [fold_left fst snd].
    pose proof (c_step o c p _ _ S0 Gp) as H. destruct (or_push E p o c) as [o1 c1]. cbn [CStepOut] in H.
    assert (LvP : forall o2, Mono o o2 -> LiveOne (fst (pid_of p)) (snd (pid_of p)) o2 -> LiveAll (pid_of p :: seen) o2).
    { intros o2 M2 L2 s i [Eq|Hin]; [rewrite Eq in L2; exact L2|apply M2, Lv, Hin]. }
    destruct H as [(S1 & M1 & L1)|[(H1 & H2)|(_ & _ & H3)]].
    - fold (run pkts (o1, c1)).
      specialize (IH o1 c1 (pid_of p :: seen) S1 (LvP o1 M1 L1) Nc Gr).
      assert (Cl1 : close_ok (pid_of p :: seen) pkts).
      { intros pre q post Eq Hq s i Hs Hi. specialize (Cl (p :: pre) q post). rewrite Eq in Cl.
        specialize (Cl eq_refl Hq s i Hs Hi). cbn [app map] in Cl. destruct Cl as [Cl|Cl].
        - apply in_or_app. right. left. exact Cl.
        - apply in_app_or in Cl. apply in_or_app. destruct Cl as [Cl|Cl]; [left; exact Cl|right; right; exact Cl]. }
      specialize (IH Cl1).
      destruct (run pkts (o1, c1)) as [o' c']. cbn [map List.rev]. rewrite <- app_assoc. exact IH.
    - fold (run pkts (o1, c1)). rewrite C02Full.run_closed by congruence. right. split; assumption.
    - exfalso. apply H3. split; [exact Nc|]. intros Hcl o2 c2 S2 M2 L2.
      apply (c_struct_not_covered o2 c2 (pid_of p :: seen) S2 (LvP o2 M2 L2)).
      intros s i Hs Hi. specialize (Cl [] p pkts eq_refl Hcl s i Hs Hi). exact Cl.
  Qed.

  Theorem c_deliver pkts o c : CStruct o c -> CNice2 -> Forall gen pkts ->
    close_ok [] pkts -> cov (map pid_of pkts) ->
    let (o', c') := run pkts (o, c) in r_state o' = Completed /\ ShDone c'.
  Proof.
    intros S0 Nc G Cl Cov. pose proof (c_run_live pkts o c [] S0 (fun s i H => match H with end) Nc G Cl) as H.
    destruct (run pkts (o, c)) as [o' c']. destruct H as [(S1 & Lv)|H]; [exfalso|exact H].
    apply (c_struct_not_covered o' c' _ S1 Lv). intros s i Hs Hi. rewrite app_nil_r. apply in_rev. rewrite rev_involutive.
    apply Cov; assumption.
  Qed.

  (* ---------- from the shape of the log to the vocabulary of Spec/RecvSpec ---------- *)
  Notation SafeLog := (C02Full.SafeLog content).

  Lemma c_safe_shape evs off T : forallb (C02Full.is_write w) evs = true -> C02Full.wdata evs = take off content ->
    T = [] \/ (T = [EvComplete w] /\ C02Full.wdata evs = content) \/ T = [EvError w] \/ T = [EvInterrupted w] ->
    SafeLog (C02Full.hdr w toi ++ evs ++ T).
  Proof.
    intros H1 H2 HT w'. rewrite !C02Full.calls_of_app.
    destruct (wid_eqb w' w) eqn:Hw.
    - apply C02Full.wid_eqb_eq in Hw. subst w'. destruct (C02Full.calls_writes_mine w evs H1) as (I1 & I2 & I3).
      unfold C02Full.hdr. cbn [calls_of flat_map]. rewrite C02Full.wid_eqb_refl. cbn [app].
      change (CallOpen true :: calls_of w evs ++ calls_of w T) with ([CallOpen true] ++ calls_of w evs ++ calls_of w T).
      unfold P_C03_writer. rewrite !C02Full.written_app, !C02Full.completed_app, !C02Full.failed_app, I1, I2, I3.
      cbn [written completed failed flat_map existsb app orb].
      destruct HT as [->|[[-> Hc]|[->| ->]]]; cbn [calls_of flat_map]; rewrite ?C02Full.wid_eqb_refl;
        cbn [app written completed failed flat_map existsb orb negb andb]; rewrite ?app_nil_r.
      + rewrite H2. split; [apply is_prefix_take|reflexivity].
      + rewrite Hc. rewrite eqb_bytes_refl. split; [|reflexivity].
        rewrite <- (take_len content) at 1. apply is_prefix_take.
      + rewrite H2. split; [apply is_prefix_take|reflexivity].
      + rewrite H2. split; [apply is_prefix_take|reflexivity].
    - rewrite (C02Full.calls_writes_other w w' evs H1 Hw).
      assert (Hh : calls_of w' (C02Full.hdr w toi) = []) by (unfold C02Full.hdr; cbn [calls_of flat_map]; rewrite Hw; reflexivity).
      assert (Ht : calls_of w' T = []).
      { destruct HT as [->|[[-> _]|[->| ->]]]; cbn [calls_of flat_map]; rewrite ?Hw; reflexivity. }
      rewrite Hh, Ht. cbn [app]. split; reflexivity.
  Qed.

  Lemma c_runout_safe r : CRunOut r -> SafeLog (c_log (snd r)).
  Proof.
    destruct r as [o' c']. cbn [CRunOut snd].
    intros [(_ & Dy & _)|[(_ & evs & H1 & H2 & H3)|(_ & evs & off & t & H1 & Ht & H2 & H3)]].
    - destruct (cdy_log _ _ Dy) as (evs & H1 & H2 & H3). rewrite H1, <- (app_nil_r evs).
      eapply c_safe_shape; [exact H2|exact H3|left; reflexivity].
    - rewrite H1. apply (c_safe_shape evs (lenN_ content)); [exact H2|rewrite H3; symmetry; apply take_len|].
      right; left. split; [reflexivity|exact H3].
    - rewrite H1. apply (c_safe_shape evs off); [exact H2|exact H3|]. right; right. destruct Ht as [->| ->]; [left|right]; reflexivity.
  Qed.

  (* ---------- the state right after the FDT entry has been attached (any context with an empty log) ---------- *)
  Lemma c_attach_struct fid files inst f c :
    w = (toi, 0%nat) -> Blank c ->
    find (fun f => ff_toi f =? toi) files = Some f ->
    ff_cenc f = ce -> match ff_oti f with Some x => Some x | None => inst end = Some oti ->
    ff_tlen f = L -> ff_md5 f = md5 ->
    e_builder E toi 0%nat = WStore -> e_open_ok E w = true ->
    exists o0 c0, or_attach E fid files inst (or_new toi max) c = (true, o0, c0) /\ CStruct o0 c0
                  /\ r_nocache o0 = ff_nocache f /\ r_clen o0 = ff_clen f.
  Proof.
    intros Hw [Hnx Hlg] Hfind Hcf Hoti Htl Hmd5 Hbld Hopen.
    assert (Hnc : ncalls c toi = 0%nat) by (unfold ncalls; rewrite Hnx; reflexivity).
    unfold or_attach, or_new. prj. rewrite Hfind, Hoti, Htl, Hcf, Hmd5. cbv iota beta.
    unfold init_partition at 1. unfold nb_block at 1. prj.
    change (0 <? 0 + N.of_nat (length (@nil bdec))) with false. cbv iota beta. fold b e. rewrite Hpart. cbv iota beta.
    unfold init_writer. prj. rewrite Hnc, Hbld. cbv iota beta zeta.
    rewrite <- Hw, Hopen. cbn [negb]. destruct (N.eqb_spec L 0) as [G|HL0]; [lia|]. prj.
    try (d48_skip HL0).
    match goal with |- context [push_from_cache E ?x ?y] => set (o3 := x); set (c3 := y) end.
    pose proof (PF n_pos) as Hn.
    set (m := N.to_nat (N.min n 2048)) in *.
    assert (Hm : (0 < m)%nat) by (unfold m; lia).
    assert (Hlen : length (r_blocks o3) = m) by (unfold o3; prj; apply repeat_length).
    assert (Hnb : 0 < nb_block o3) by (unfold nb_block; rewrite Hlen; unfold o3; prj; lia).
    assert (I3 : push_from_cache E o3 c3 = (o3, c3)).
    { unfold push_from_cache, cache_replay_blocked. change (r_oti o3) with (Some oti). cbv iota beta.
      destruct (N.eqb_spec (nb_block o3) 0) as [G|_]; [lia|]. reflexivity. }
    assert (Hn0 : nth 0 (r_blocks o3) bdec_new = bdec_new) by (unfold o3; prj; apply nth_repeat).
    assert (I4 : write_blocks E (S (length (r_blocks o3))) 0 o3 c3 = (ROk o3, c3)).
    { cbn [write_blocks]. change (r_writer o3) with (Some (w, WOpened)). cbv iota beta.
      change (r_bw o3) with (Some (bw_new L (ff_clen f) ce (match md5 with Some _ => e_md5_enabled E | None => false end))).
      cbv iota beta. change (r_off o3) with 0.
      destruct (N.leb_spec 0 0) as [_|G]; [|lia]. replace (0 - 0) with 0 by lia.
      destruct (N.ltb_spec 0 (N.of_nat (length (r_blocks o3)))) as [_|G]; [|lia]. cbn [andb].
      change (N.to_nat 0) with 0%nat. rewrite Hn0. reflexivity. }
    rewrite I3, I4. cbv iota beta. rewrite I3. exists o3, c3. split; [reflexivity|].
    split; [|split; reflexivity].
    split; [|split].
    - constructor; unfold o3; prj; try reflexivity. discriminate.
    - constructor; unfold o3; prj.
      + eexists. split; [reflexivity|]. constructor; cbn [bw_new bw_sbn bw_left bw_cenc bw_acc bw_md5 bw_dead]; try reflexivity.
        * rewrite (PF boff_0). lia.
        * rewrite (PF boff_0). reflexivity.
      + exact Hn.
      + rewrite repeat_length. fold m. lia.
      + intros i. rewrite nth_repeat. apply C02Full.blockok_new.
      + lia.
      + exists []. split; [unfold c3, C02Full.hdr; cbn [logc inc_calls c_log]; rewrite Hlg, Hw; reflexivity|]. split; [reflexivity|].
        rewrite DL_0. reflexivity.
    - unfold CFlushed. rewrite Hn0. reflexivity.
  Qed.
End CencDelivery.
Unset Default Proof Using.

(* ================= the object-level statements ================= *)
(* the FDT instance lists the object with this OTI, transfer length, content encoding, MD5 (of the CONTENT) and
   Content-Length attribute [clen] (unconstrained: the block writer of the model carries it and never reads it) *)
Definition cenc_entry_for (files : list fdtfile) (inst : option roti) (toi : N) (oti : roti) (L : N) (ce : cenc)
  (md5 : option (list N)) (clen : option N) : Prop :=
  exists f, find (fun f => ff_toi f =? toi) files = Some f /\ ff_cenc f = ce
            /\ match ff_oti f with Some x => Some x | None => inst end = Some oti
            /\ ff_tlen f = L /\ ff_md5 f = md5 /\ ff_clen f = clen.

Lemma oracle_blocks_section E ce oti transfer content al as_ nal n :
  0 < ro_b oti -> 0 < ro_e oti -> 0 < lenN_ transfer ->
  block_partitioning (ro_b oti) (lenN_ transfer) (ro_e oti) = (al, as_, nal, n) ->
  inflate_oracle_blocks E ce oti transfer content ->
  exists dl : N -> N, dl 0 = 0 /\ (forall x y, x <= y -> dl x <= dl y)
    /\ (forall s, s < n -> e_inflate E ce (take (boff (ro_e oti) (lenN_ transfer) al as_ nal s) transfer) false
                           = Some (take (dl (boff (ro_e oti) (lenN_ transfer) al as_ nal s)) content))
    /\ e_inflate E ce transfer true = Some content.
Proof.
  intros Hb He HL Hpart (dl & H0 & Hm & Hc & Hf). exists dl. split; [exact H0|]. split; [exact Hm|]. split; [|exact Hf].
  intros s Hs. apply Hc.
  - unfold block_cut, partition_of. rewrite Hpart. exists s. split; [exact Hs|reflexivity].
  - apply (boff_lt _ _ _ _ _ _ _ Hb He HL Hpart s Hs).
Qed.

(* G2 - delivery: every recoverable reception of the transfer-encoded bytes delivers the CONTENT byte-exact *)
Theorem cenc_recoverable_delivers E oti transfer content ce toi max fid files inst md5 clen pkts :
  let L := lenN_ transfer in
  nocode_ok oti L -> ce <> CNull -> cenc_entry_for files inst toi oti L ce md5 clen ->
  inflate_oracle_blocks E ce oti transfer content ->
  writer_accepts E toi -> writes_succeed E toi -> md5_good E content md5 ->
  L <= max -> nb_blocks_of oti L <= 4097 ->
  Forall (fun p => genuine_pkt oti transfer p = true) pkts ->
  close_flag_ok oti L pkts ->
  recoverable oti L pkts = true ->
  let (o, c) := receive E fid files inst toi max pkts in
  r_state o = Completed
  /\ ShapeDone content (toi, 0%nat) toi c
  /\ forall m, complete_exact content (m, calls_of (toi, 0%nat) (c_log c)) = true
                /\ P_C02_object (recoverable oti L pkts) content [(m, calls_of (toi, 0%nat) (c_log c))] = true.
Proof.
  intros L (Hfec & He & Hb & HL & Hu) Hce (f & F1 & F2 & F3 & F4 & F5 & F6) Horc (A1 & A2) Hwr Hmd5 Hmax Hn G Cl Rec.
  destruct (partition_of oti L) as [[[al as_] nal] n] eqn:Hpart. unfold partition_of in Hpart.
  destruct (oracle_blocks_section E ce oti transfer content al as_ nal n Hb He HL Hpart Horc) as (dl & D0 & Dm & Dc & Df).
  destruct (c_attach_struct E oti transfer content ce (toi, 0%nat) toi md5 max al as_ nal n Hfec He Hb HL Hu Hpart Hce dl D0 Dm Dc Df fid files inst f ctx0
              eq_refl (conj eq_refl eq_refl) F1 F2 F3 F4 F5 A1 A2) as (o0 & c0 & Hat & S0 & _).
  unfold receive. rewrite Hat.
  assert (Hnb : nb_blocks_of oti L = n) by (unfold nb_blocks_of; rewrite Hpart; reflexivity).
  assert (Cov : forall l, recoverable oti L l = true -> covered al as_ nal n (map pid_of l)).
  { intros l H. apply recoverable_covered. unfold recoverable, source_ks, partition_of in H. rewrite Hpart in H. exact H. }
  pose proof (c_deliver E oti transfer content ce (toi, 0%nat) toi md5 max al as_ nal n Hfec He Hb HL Hu Hpart Hce dl D0 Dm Dc Df pkts o0 c0 S0) as D.
  assert (D' : let (o', c') := run E pkts (o0, c0) in r_state o' = Completed /\ ShapeDone content (toi, 0%nat) toi c').
  { apply D.
    - split; [split; [exact Hwr|exact Hmd5]|]. split; [exact Hmax|]. rewrite <- Hnb. exact Hn.
    - apply genuine_pkt_spec; [exact Hpart|exact G].
    - intros pre p post Eq Hp. rewrite app_nil_r. apply Cov. apply (Cl pre p post Eq Hp).
    - apply Cov. exact Rec. }
  destruct (run E pkts (o0, c0)) as [o c]. destruct D' as [D1 D2].
  split; [exact D1|]. split; [exact D2|]. intros m.
  pose proof (done_exact content (toi, 0%nat) toi c m D2) as Ex. split; [exact Ex|].
  unfold P_C02_object. cbn [existsb]. rewrite Ex. cbn [orb]. apply orb_true_r.
Qed.

(* G3 - safety: any genuine packets of the transfer-encoded bytes, any order, multiplicity, subset, with or without the
   close-object flag, whatever write() answers and whatever the MD5, the memory limit and the number of blocks are *)
Theorem cenc_safety E oti transfer content ce toi max fid files inst md5 clen pkts :
  let L := lenN_ transfer in
  nocode_ok oti L -> ce <> CNull -> cenc_entry_for files inst toi oti L ce md5 clen ->
  inflate_oracle_blocks E ce oti transfer content -> writer_accepts E toi ->
  Forall (fun p => genuine_pkt oti transfer p = true) pkts ->
  let (o, c) := receive E fid files inst toi max pkts in
  forall w, is_prefix (written (calls_of w (c_log c))) content = true
            /\ P_C03_writer content true (calls_of w (c_log c)) = true.
Proof.
  intros L (Hfec & He & Hb & HL & Hu) Hce (f & F1 & F2 & F3 & F4 & F5 & F6) Horc (A1 & A2) G.
  destruct (partition_of oti L) as [[[al as_] nal] n] eqn:Hpart. unfold partition_of in Hpart.
  destruct (oracle_blocks_section E ce oti transfer content al as_ nal n Hb He HL Hpart Horc) as (dl & D0 & Dm & Dc & Df).
  destruct (c_attach_struct E oti transfer content ce (toi, 0%nat) toi md5 max al as_ nal n Hfec He Hb HL Hu Hpart Hce dl D0 Dm Dc Df fid files inst f ctx0
              eq_refl (conj eq_refl eq_refl) F1 F2 F3 F4 F5 A1 A2) as (o0 & c0 & Hat & S0 & _).
  unfold receive. rewrite Hat.
  pose proof (c_run_safe E oti transfer content ce (toi, 0%nat) toi md5 max al as_ nal n Hfec He Hb HL Hu Hpart Hce dl D0 Dm Dc Df pkts o0 c0 S0
                (genuine_pkt_spec _ _ _ _ _ _ _ Hpart G)) as R.
  apply (c_runout_safe E oti transfer content ce (toi, 0%nat) toi md5 max al as_ nal n Hfec He Hb HL Hu Hpart Hce dl D0 Dm Dc Df) in R.
  destruct (run E pkts (o0, c0)) as [o c]. exact R.
Qed.

Print Assumptions cenc_recoverable_delivers.
Print Assumptions cenc_safety.

(* ================= S. the receiver level (Model/Recv.v), through the interface of Proofs/C02SessionRS.v ================= *)
Section CencSession.
  Variable E : env.
  Variable parse_fdt : list N -> option fdtinst.
  Variable cfg : rconfig.
  Variable oti : roti.
  Variable transfer content : list N.
  Variable ce : cenc.
  Variable toi : N.
  Variable md5 : option (list N).
  Variables al as_ nal n : N.
  Variable now : Z.
  Hypothesis Hfec : ro_fec oti = FNoCode.
  Hypothesis He : 0 < ro_e oti.
  Hypothesis Hb : 0 < ro_b oti.
  Hypothesis HL : 0 < lenN_ transfer.
  Hypothesis Hu64 : lenN_ transfer + ro_e oti < U64.
  Hypothesis Hpart : block_partitioning (ro_b oti) (lenN_ transfer) (ro_e oti) = (al, as_, nal, n).
  Hypothesis Hce : ce <> CNull.
  Variable dl : N -> N.
  Hypothesis Hdl0 : dl 0 = 0.
  Hypothesis Hdlm : forall x y, x <= y -> dl x <= dl y.
  Hypothesis Hdlc : forall s, s < n ->
    e_inflate E ce (take (boff (ro_e oti) (lenN_ transfer) al as_ nal s) transfer) false
    = Some (take (dl (boff (ro_e oti) (lenN_ transfer) al as_ nal s)) content).
  Hypothesis Hfin : e_inflate E ce transfer true = Some content.
  Hypothesis Htoi : toi <> 0.
  Notation max := (cf_max_cache cfg).
  Notation w := (toi, 0%nat).
  Hypothesis Hnice : CNice2 E transfer content w md5 max n.
  Hypothesis Hacc : writer_accepts E toi.
  Variables (id : N) (inst : fdtinst) (f : fdtfile).
  Hypothesis Hfind : find (fun f => ff_toi f =? toi) (fi_files inst) = Some f.
  Hypothesis Hcf : ff_cenc f = ce.
  Hypothesis Hfo : match ff_oti f with Some x => Some x | None => fi_oti inst end = Some oti.
  Hypothesis Htl : ff_tlen f = lenN_ transfer.
  Hypothesis Hmd5 : ff_md5 f = md5.

  Notation CA lem := (lem E oti transfer content ce w toi md5 max al as_ nal n Hfec He Hb HL Hu64 Hpart Hce dl Hdl0 Hdlm Hdlc Hfin)
    (only parsing).
  Notation SPc := (CStruct oti transfer content ce w toi md5 max al as_ nal n dl).
  Notation genc := (C02Full.genuine oti transfer al as_ nal n).
  Notation covc := (C02Full.covered al as_ nal n).

  Lemma cci_state o c : SPc o c -> r_state o = Receiving.
  Proof. intros (St & _). exact (cst_state _ _ _ _ _ _ _ _ _ _ St). Qed.
  Lemma cci_writer o c : SPc o c -> r_writer o = Some (w, WOpened).
  Proof. intros (St & _). exact (cst_writer _ _ _ _ _ _ _ _ _ _ St). Qed.
  Lemma cci_nc o c p : SPc o c -> r_nocache (fst (or_push E p o c)) = r_nocache o.
  Proof.
    intros (St & Dy & _).
    rewrite (CA c_or_push_static o c p St (cdy_nb _ _ _ _ _ _ _ _ _ _ _ _ _ Dy)).
    pose proof (nc_push_to_block E p o c) as K. destruct (push_to_block E p o c) as [[o1|o1] c1]; cbn [fst res_obj] in *; [exact K|].
    rewrite nc_error. exact K.
  Qed.

  Lemma cci_step o c seen p : SPc o c -> C02Full.LiveAll seen o -> genc p ->
    (a_close_obj p = true -> covc (pid_of p :: seen)) ->
    let (o2, c2) := or_push E p o c in
    (SPc o2 c2 /\ C02Full.LiveAll (pid_of p :: seen) o2) \/ (r_state o2 = Completed /\ ShapeDone content w toi c2).
  Proof.
    intros HS Lv Gp Cl.
    pose proof (CA c_step o c p _ _ HS Gp) as H.
    destruct (or_push E p o c) as [o2 c2]. cbn [CStepOut] in H.
    assert (LvP : forall o', C02Full.Mono o o' -> C02Full.LiveOne (fst (pid_of p)) (snd (pid_of p)) o' ->
                             C02Full.LiveAll (pid_of p :: seen) o').
    { intros o' M2 L2 s i [Eq|Hin]; [rewrite Eq in L2; exact L2|apply M2, Lv, Hin]. }
    destruct H as [(S1 & M1 & L1)|[(H1 & H2)|(_ & _ & H3)]].
    - left. split; [exact S1|apply LvP; assumption].
    - right. split; assumption.
    - exfalso. apply H3. split; [exact Hnice|]. intros Hcl o' c' S2 M2 L2.
      apply (CA c_struct_not_covered o' c' (pid_of p :: seen) S2 (LvP o' M2 L2)).
      exact (Cl Hcl).
  Qed.

  Lemma cci_notcov o c seen : SPc o c -> C02Full.LiveAll seen o -> covc seen -> False.
  Proof. apply (CA c_struct_not_covered). Qed.

  Lemma cci_attach fid c : Blank c ->
    exists o0 c0, or_attach E fid (fi_files inst) (fi_oti inst) (or_new toi max) c = (true, o0, c0)
                  /\ SPc o0 c0 /\ C02Full.LiveAll [] o0 /\ r_nocache o0 = ff_nocache f.
  Proof.
    intros Bl. destruct Hacc as [A1 A2].
    destruct (CA c_attach_struct fid (fi_files inst) (fi_oti inst) f c eq_refl Bl Hfind Hcf Hfo Htl Hmd5 A1 A2)
      as (o0 & c0 & Hat & S0 & Hnc & _).
    exists o0, c0. split; [exact Hat|]. split; [exact S0|]. split; [intros s i []|exact Hnc].
  Qed.

  Variables (pf : apkt) (foti : roti) (d : list N).
  Hypothesis Hpf : fdt_pkt_ok pf id foti d.
  Hypothesis Hparse : parse_fdt d = Some inst.
  Hypothesis Hlive : fdt_live cfg inst pf now.

  Lemma cenc_first_via_iface pkts :
    Forall genc pkts -> Forall (fun p => a_toi p = toi) pkts ->
    C02Full.close_ok al as_ nal n [] pkts -> covc (map pid_of pkts) ->
    let '(_, r, c) := recv_run E parse_fdt cfg recv0 (map (fun p => RvPush p now) (pf :: pkts)) ctx0 in
    SessDone cfg content toi f r c.
  Proof.
    intros G T Cl Cv.
    exact (g_fdt_first_delivers E parse_fdt cfg content toi now Htoi id inst f Hfind SPc C02Full.LiveAll genc pid_of covc
             cci_state cci_writer cci_nc cci_step cci_notcov (covered_incl' al as_ nal n) cci_attach
             pf foti d Hpf Hparse Hlive pkts G T Cl Cv).
  Qed.
End CencSession.

(* G4 - the receiver as a whole: the FDT instance (one packet of TOI 0) first, then the packets of the content-encoded
   object in any order with any duplication.  The packets' own EXT_CENC is unconstrained: the object is created from the
   FDT entry, whose Content-Encoding is the one that is applied. *)
Theorem cenc_session_fdt_first_delivers E parse_fdt cfg oti transfer content ce toi md5 clen now pf id foti d inst pkts :
  let L := lenN_ transfer in
  nocode_ok oti L -> ce <> CNull -> toi <> 0 ->
  fdt_pkt_ok pf id foti d -> parse_fdt d = Some inst -> fdt_live cfg inst pf now ->
  cenc_entry_for (fi_files inst) (fi_oti inst) toi oti L ce md5 clen ->
  inflate_oracle_blocks E ce oti transfer content ->
  writer_accepts E toi -> writes_succeed E toi -> md5_good E content md5 ->
  L <= cf_max_cache cfg -> nb_blocks_of oti L <= 4097 ->
  Forall (fun p => a_toi p = toi) pkts ->
  Forall (fun p => genuine_pkt oti transfer p = true) pkts ->
  close_flag_ok oti L pkts ->
  recoverable oti L pkts = true ->
  let '(_, r, c) := recv_run E parse_fdt cfg recv0 (map (fun p => RvPush p now) (pf :: pkts)) ctx0 in
  session_delivered cfg inst content toi r c.
Proof.
  intros L (Hfec & He & Hb & HL & Hu) Hce Htoi Hpf Hparse Hlive (f & F1 & F2 & F3 & F4 & F5 & F6) Horc Hacc Hwr Hmd5 Hmax Hn T G Cl Rec.
  destruct (partition_of oti L) as [[[al as_] nal] n] eqn:Hpart. unfold partition_of in Hpart.
  destruct (oracle_blocks_section E ce oti transfer content al as_ nal n Hb He HL Hpart Horc) as (dl & D0 & Dm & Dc & Df).
  assert (Hnb : nb_blocks_of oti L = n) by (unfold nb_blocks_of; rewrite Hpart; reflexivity).
  assert (Cov : forall l, recoverable oti L l = true -> covered al as_ nal n (map pid_of l)).
  { intros l H. apply recoverable_covered. unfold recoverable, source_ks, partition_of in H. rewrite Hpart in H. exact H. }
  assert (Nc : CNice2 E transfer content (toi, 0%nat) md5 (cf_max_cache cfg) n).
  { split; [split; [exact Hwr|exact Hmd5]|]. split; [exact Hmax|]. rewrite <- Hnb. exact Hn. }
  pose proof (cenc_first_via_iface E parse_fdt cfg oti transfer content ce toi md5 al as_ nal n now Hfec He Hb HL Hu Hpart Hce
                dl D0 Dm Dc Df Htoi Nc Hacc id inst f F1 F2 F3 F4 F5 pf foti d Hpf Hparse Hlive pkts
                (genuine_pkt_spec _ _ _ _ _ _ _ Hpart G) T) as D.
  assert (D' : let '(_, r, c) := recv_run E parse_fdt cfg recv0 (map (fun p => RvPush p now) (pf :: pkts)) ctx0 in
               SessDone cfg content toi f r c).
  { apply D.
    - intros pre p post Eq Hp. rewrite app_nil_r. apply Cov. apply (Cl pre p post Eq Hp).
    - apply Cov. exact Rec. }
  destruct (recv_run E parse_fdt cfg recv0 (map (fun p => RvPush p now) (pf :: pkts)) ctx0) as [[xs r] c].
  eapply sess_done_delivered; eassumption.
Qed.
Print Assumptions cenc_session_fdt_first_delivers.

(* ---------- packets of the object BEFORE the FDT instance (EXT_FTI in band, EXT_CENC = cx in band or absent) ---------- *)
Section CencLate.
  Variable E : env.
  Variable parse_fdt : list N -> option fdtinst.
  Variable cfg : rconfig.
  Variable oti : roti.
  Variable transfer content : list N.
  Variable ce : cenc.
  Variable toi : N.
  Variable md5 : option (list N).
  Variables al as_ nal n : N.
  Variable now : Z.
  Hypothesis Hfec : ro_fec oti = FNoCode.
  Hypothesis He : 0 < ro_e oti.
  Hypothesis Hb : 0 < ro_b oti.
  Hypothesis HL : 0 < lenN_ transfer.
  Hypothesis Hu64 : lenN_ transfer + ro_e oti < U64.
  Hypothesis Hpart : block_partitioning (ro_b oti) (lenN_ transfer) (ro_e oti) = (al, as_, nal, n).
  Hypothesis Hce : ce <> CNull.
  Variable dl : N -> N.
  Hypothesis Hdl0 : dl 0 = 0.
  Hypothesis Hdlm : forall x y, x <= y -> dl x <= dl y.
  Hypothesis Hdlc : forall s, s < n ->
    e_inflate E ce (take (boff (ro_e oti) (lenN_ transfer) al as_ nal s) transfer) false
    = Some (take (dl (boff (ro_e oti) (lenN_ transfer) al as_ nal s)) content).
  Hypothesis Hfin : e_inflate E ce transfer true = Some content.
  Hypothesis Htoi : toi <> 0.
  Notation max := (cf_max_cache cfg).
  Notation w := (toi, 0%nat).
  Hypothesis Hnice : CNice2 E transfer content w md5 max n.
  Hypothesis Hacc : writer_accepts E toi.
  Variables (id : N) (inst : fdtinst) (f : fdtfile).
  Hypothesis Hfind : find (fun f => ff_toi f =? toi) (fi_files inst) = Some f.
  (* EXT_CENC of the early packets, and what is applied: the in-band one if any, else the FDT entry's *)
  Variable cx : option cenc.
  Hypothesis Hcx : match cx with Some x => x | None => ff_cenc f end = ce.
  Hypothesis Hfo : match ff_oti f with Some x => Some x | None => fi_oti inst end = Some oti.
  Hypothesis Htl : ff_tlen f = lenN_ transfer.
  Hypothesis Hmd5 : ff_md5 f = md5.

  Notation CA lem := (lem E oti transfer content ce w toi md5 max al as_ nal n Hfec He Hb HL Hu64 Hpart Hce dl Hdl0 Hdlm Hdlc Hfin)
    (only parsing).
  Notation SPc := (CStruct oti transfer content ce w toi md5 max al as_ nal n dl).
  Notation genc := (C02Full.genuine oti transfer al as_ nal n).
  Notation covc := (C02Full.covered al as_ nal n).
  Notation Lc := (lenN_ transfer).
  Notation kof := (k_of al as_ nal).
  Notation sof := (soff al as_ nal).
  Notation bln := (blen (ro_e oti) Lc al as_ nal).
  Notation BOk := (C02Full.BlockOk oti transfer al as_ nal n).
  Notation BInit := (C02Full.BlockInit oti transfer al as_ nal n).
  Notation asumT := (C02Full.asum oti transfer al as_ nal).
  Notation LiveOne := C02Full.LiveOne.
  Notation Mono := C02Full.Mono.
  Notation LiveAll := C02Full.LiveAll.

  Record CPreS (o : objrecv) : Prop := {
    cps_state : r_state o = Receiving;
    cps_toi : r_toi o = toi;
    cps_oti : r_oti o = Some oti;
    cps_tlen : r_tlen o = Some Lc;
    cps_cenc : r_cenc o = cx;
    cps_fdt : r_fdt_id o = None;
    cps_cache : r_cache o = [];
    cps_csz : r_cache_size o = 0;
    cps_al : r_al o = al;
    cps_as : r_as o = as_;
    cps_nal : r_nal o = nal;
    cps_max : r_max o = max;
    cps_writer : r_writer o = None;
    cps_off : r_off o = 0;
    cps_nb : (0 < length (r_blocks o))%nat;
    cps_blocks : forall i, BOk (N.of_nat i) (nth i (r_blocks o) bdec_new);
    cps_alloc : r_alloc_size o <= asumT 0 (r_blocks o)
  }.

  Lemma cpres_set_blocks o bl nb sz bw : CPreS o -> (0 < length bl)%nat ->
    (forall i, BOk (N.of_nat i) (nth i bl bdec_new)) -> sz <= asumT 0 bl -> CPreS (set_blocks o bl 0 nb sz bw).
  Proof. intros [] H1 H2 H3. constructor; unfold set_blocks; prj; first [assumption|reflexivity]. Qed.

  Lemma c_pre_tail o c sbn esi payload b1 nb sz :
    CPreS o -> sbn < n ->
    let idx := N.to_nat sbn in
    (idx < length (r_blocks o))%nat ->
    let dd := nth idx (r_blocks o) bdec_new in
    bd_completed dd = false -> BInit sbn b1 -> bd_completed b1 = false ->
    (bd_init dd = true -> b1 = dd /\ sz = r_alloc_size o) ->
    (bd_init dd = false -> sz = r_alloc_size o + bln sbn) ->
    esi < kof sbn -> payload = C02Full.sym_bytes oti transfer (sof sbn + esi) ->
    exists o1,
      (let (b2, pan) := bd_push E (r_toi o) oti sbn esi payload b1 in
       let c1 := if pan then panicc c else c in
       let o1 := set_blocks o (upd_nthb idx (fun _ => b2) (r_blocks o)) 0 nb sz (r_bw o) in
       if bd_completed b2 then write_blocks E (S (length (r_blocks o1))) sbn o1 c1 else (ROk o1, c1))
      = (ROk o1, c) /\ CPreS o1 /\ Mono o o1 /\ LiveOne sbn esi o1.
  Proof.
    intros PS Hlt idx Hidx dd Hdc BI1 Hc1 Hinit Hnew Hesi Hpay.
    destruct (C02Full.bd_push_ok E oti transfer al as_ nal n Hfec He Hb HL Hu64 Hpart (r_toi o) sbn esi payload b1 BI1 Hc1 Hesi Hpay)
      as (Q1 & Q2 & Q3 & Q4).
    destruct (bd_push E (r_toi o) oti sbn esi payload b1) as [b2 pan]. cbn [fst snd] in Q1, Q2, Q3, Q4. subst pan.
    cbv zeta.
    set (o1 := set_blocks o (upd_nthb idx (fun _ => b2) (r_blocks o)) 0 nb sz (r_bw o)).
    assert (Hsbn : N.of_nat idx = sbn) by (unfold idx; lia).
    pose proof (C02Full.bi_init _ _ _ _ _ _ _ _ Q2) as Q2i.
    assert (P1 : CPreS o1).
    { apply cpres_set_blocks; [exact PS|rewrite C02Full.length_upd; lia| |].
      - intros i. destruct (Nat.eq_dec i idx) as [->|Ne].
        + rewrite nth_upd_eq_l by exact Hidx. rewrite Hsbn.
          split; [rewrite Q2i; discriminate|intros _; exact Q2].
        + rewrite nth_upd_ne_l by exact Ne. apply (cps_blocks _ PS).
      - pose proof (cps_alloc _ PS) as A. destruct (bd_init dd) eqn:Hi.
        + destruct (Hinit eq_refl) as [_ ->]. rewrite C02Full.asum_upd_same; [exact A|]. fold dd. rewrite Hi. exact Q2i.
        + rewrite (Hnew eq_refl).
          rewrite (C02Full.asum_upd_new oti transfer al as_ nal He Hb HL Hu64); [|exact Hidx|exact Hi|exact Q2i].
          replace (0 + N.of_nat idx) with sbn by lia. lia. }
    assert (M1 : Mono o o1).
    { intros s i [H|[H1 H2]]; [left; unfold o1, set_blocks; prj; rewrite (cps_off _ PS) in H; exact H|].
      right. unfold o1, set_blocks; prj. rewrite (cps_off _ PS) in *. split; [exact H1|].
      destruct (Nat.eq_dec (N.to_nat (s - 0)) idx) as [Eq|Ne].
      - rewrite Eq in *. rewrite nth_upd_eq_l by exact Hidx. fold dd in H2. cbv zeta in H2. destruct H2 as [H2 H3].
        split; [exact Q2i|]. right. destruct H3 as [H3|H3]; [congruence|].
        apply Q4. destruct (Hinit H2) as [-> _]. exact H3.
      - rewrite nth_upd_ne_l by exact Ne. exact H2. }
    assert (Lv : LiveOne sbn esi o1).
    { right. unfold o1, set_blocks; prj. split; [lia|]. replace (N.to_nat (sbn - 0)) with idx by (unfold idx; lia).
      rewrite nth_upd_eq_l by exact Hidx.
      split; [exact Q2i|right; exact Q3]. }
    exists o1. split; [|split; [exact P1|split; [exact M1|exact Lv]]].
    destruct (bd_completed b2); [|reflexivity].
    cbn [write_blocks]. rewrite (cps_writer _ P1). reflexivity.
  Qed.

  Lemma c_pre_p2b o c p sbn esi : CPreS o -> C02Full.genuine_at oti transfer al as_ nal n p sbn esi ->
    exists o1, push_to_block2 E p o c = (ROk o1, c) /\ CPreS o1 /\ Mono o o1 /\ LiveOne sbn esi o1.
  Proof.
    intros PS (Hpid & Hlt & Hesi & Hpay). destruct Hnice as (_ & Hmax & Hn97).
    unfold push_to_block2. rewrite (cps_oti _ PS), (cps_tlen _ PS), Hfec, Hpid.
    destruct (N.eqb_spec Lc 0) as [G|_]; [lia|]. rewrite (cps_off _ PS).
    destruct (N.ltb_spec sbn 0) as [G|_]; [lia|].
    assert (Hnb : nb_blocks_of oti Lc = n) by (unfold nb_blocks_of; rewrite Hpart; reflexivity).
    rewrite Hnb. destruct (N.leb_spec n sbn) as [G|_]; [lia|].
    replace (sbn - 0) with sbn by lia.
    set (len := N.of_nat (length (r_blocks o))).
    destruct ((len <=? sbn) && (4096 <? sbn)) eqn:X.
    { exfalso. apply andb_true_iff in X. destruct X as [_ X]. apply N.ltb_lt in X. lia. }
    cbv zeta.
    set (bl0 := if len <=? sbn then r_blocks o ++ repeat bdec_new (N.to_nat sbn + 1 - length (r_blocks o)) else r_blocks o).
    assert (F : (forall i, nth i bl0 bdec_new = nth i (r_blocks o) bdec_new)
                /\ (forall s, asumT s bl0 = asumT s (r_blocks o))
                /\ (N.to_nat sbn < length bl0)%nat /\ (length (r_blocks o) <= length bl0)%nat).
    { unfold bl0. destruct (N.leb_spec len sbn) as [G|G]; unfold len in G.
      - split; [intros i; apply C02Full.nth_app_new|].
        split; [intros s; apply (C02Full.asum_app_new oti transfer al as_ nal He Hb HL Hu64)|].
        rewrite app_length, repeat_length. lia.
      - split; [reflexivity|]. split; [reflexivity|]. lia. }
    destruct F as (F1 & F2 & F3 & F4). clearbody bl0.
    set (o0 := set_blocks o bl0 0 (r_nb_alloc o) (r_alloc_size o) (r_bw o)).
    assert (PS0 : CPreS o0).
    { apply cpres_set_blocks; [exact PS|pose proof (cps_nb _ PS); lia| |].
      - intros i. rewrite F1. apply (cps_blocks _ PS).
      - rewrite F2. exact (cps_alloc _ PS). }
    assert (M0 : Mono o o0).
    { intros s i [H|[H1 H2]]; [left; unfold o0, set_blocks; prj; rewrite (cps_off _ PS) in H; exact H|right].
      unfold o0, set_blocks; prj. rewrite (cps_off _ PS) in *. split; [exact H1|]. rewrite F1. exact H2. }
    set (dd := nth (N.to_nat sbn) bl0 bdec_new).
    assert (Bd : BOk sbn dd).
    { unfold dd. rewrite F1. replace sbn with (N.of_nat (N.to_nat sbn)) at 1 by lia. apply (cps_blocks _ PS). }
    destruct (bd_completed dd) eqn:Hc.
    { exists o0. split; [reflexivity|]. split; [exact PS0|]. split; [exact M0|]. right.
      unfold o0, set_blocks; prj. split; [lia|]. replace (N.to_nat (sbn - 0)) with (N.to_nat sbn) by lia. fold dd.
      split; [|left; exact Hc].
      destruct (bd_init dd) eqn:Hi; [reflexivity|]. destruct Bd as [B0 _]. rewrite B0 in Hc by exact Hi. discriminate. }
    assert (Tl : forall b1 nb sz, BInit sbn b1 -> bd_completed b1 = false ->
      (bd_init dd = true -> b1 = dd /\ sz = r_alloc_size o) -> (bd_init dd = false -> sz = r_alloc_size o + bln sbn) ->
      exists o1,
        (let (b2, pan) := bd_push E (r_toi o) oti sbn esi (a_payload p) b1 in
         let c1 := if pan then panicc c else c in
         let o1 := set_blocks o0 (upd_nthb (N.to_nat sbn) (fun _ => b2) bl0) 0 nb sz (r_bw o) in
         if bd_completed b2 then write_blocks E (S (length (r_blocks o1))) sbn o1 c1 else (ROk o1, c1))
        = (ROk o1, c) /\ CPreS o1 /\ Mono o o1 /\ LiveOne sbn esi o1).
    { intros b1 nb sz BI1 Hc1 Hi1 Hi2.
      destruct (c_pre_tail o0 c sbn esi (a_payload p) b1 nb sz PS0 Hlt F3 Hc BI1 Hc1 Hi1 Hi2 Hesi Hpay) as (o1 & Eq & P1 & M1 & L1).
      exists o1. split; [exact Eq|]. split; [exact P1|]. split; [|exact L1].
      intros s i H. apply M1, M0, H. }
    destruct (bd_init dd) eqn:Hi.
    - cbv iota beta.
      assert (BId : BInit sbn dd) by (destruct Bd as [_ B1]; apply B1; exact Hi).
      apply (Tl dd (r_nb_alloc o) (r_alloc_size o) BId Hc).
      + intros _. split; reflexivity.
      + intros G. congruence.
    - rewrite (cps_al _ PS), (cps_as _ PS), (cps_nal _ PS).
      change (if sbn <? nal then al else as_) with (kof sbn).
      rewrite (bl64 _ _ _ _ _ _ _ Hb He HL Hpart Hu64 sbn Hlt).
      destruct ((2 <=? r_nb_alloc o) && (r_max o <? r_alloc_size o + bln sbn)) eqn:Y.
      { exfalso. apply andb_true_iff in Y. destruct Y as [_ Y]. apply N.ltb_lt in Y.
        rewrite (cps_max _ PS) in Y. pose proof (cps_alloc _ PS) as A. rewrite <- F2 in A.
        pose proof (C02Full.asum_upd_new oti transfer al as_ nal He Hb HL Hu64 (N.to_nat sbn) (fun x => mk_bdec false true 0 0 [] None false) bl0 0 F3 Hi eq_refl) as U.
        pose proof (C02Full.asum_le_L oti transfer al as_ nal n He Hb HL Hu64 Hpart (upd_nthb (N.to_nat sbn) (fun x => mk_bdec false true 0 0 [] None false) bl0) 0) as B.
        replace (0 + N.of_nat (N.to_nat sbn)) with sbn in U by lia. lia. }
      unfold bd_init_block. rewrite Hi, Hfec. cbv iota beta.
      set (b1 := mk_bdec (bd_completed dd) true (bln sbn) (kof sbn) [] None true).
      assert (BI1 : BInit sbn b1).
      { constructor; unfold b1; cbn [bd_init bd_k bd_size bd_alloc bd_shards bd_completed bd_data length map]; try reflexivity; try assumption.
        - constructor.
        - constructor.
        - intros _. split; [reflexivity|]. pose proof (k_pos _ _ _ _ _ _ _ Hb He HL Hpart sbn). cbn [N.of_nat]. lia.
        - rewrite Hc. discriminate. }
      apply (Tl b1 (r_nb_alloc o + 1) (r_alloc_size o + bln sbn) BI1 Hc).
      + intros G. congruence.
      + intros _. reflexivity.
  Qed.

  Lemma c_pre_or_push_static o c p : CPreS o -> a_toi p = toi -> a_cenc p = cx ->
    or_push E p o c = match push_to_block E p o c with
                      | (ROk o5, c5) => (o5, c5)
                      | (RErr o5, c5) => error o5 false c5
                      end.
  Proof.
    intros [P1 P2 P3 P4 P5 P6 P7 P8 P9 P10 P11 P12 P13 P14 P15 P16 P17] Ht Hcp.
    destruct o as [st ti ot ca cs mx bl of tl cn m5 mc a1 a2 a3 wr bw fi na az cl nc]. prj.
    subst st ti ot ca cs wr of tl cn fi.
    unfold or_push. prj. rewrite Ht, Hcp. destruct (N.eqb_spec toi 0) as [G|_]; [contradiction|]. cbv iota beta.
    assert (Hsame : match cx with Some x => Some x | None => match cx with Some x => Some x | None => None end end = cx)
      by (destruct cx; reflexivity).
    rewrite Hsame.
    match goal with |- context [init_partition ?x] => set (o0 := x) end.
    assert (Hnb0 : 0 < nb_block o0) by (unfold nb_block, o0; prj; lia).
    assert (I1 : init_partition o0 = o0).
    { unfold init_partition. destruct (N.ltb_spec 0 (nb_block o0)) as [_|G]; [reflexivity|lia]. }
    assert (I2 : init_writer E o0 c = (o0, c)) by reflexivity.
    assert (I3 : push_from_cache E o0 c = (o0, c)).
    { unfold push_from_cache, cache_replay_blocked. change (r_oti o0) with (Some oti). cbv iota beta.
      destruct (N.eqb_spec (nb_block o0) 0) as [G|_]; [lia|]. reflexivity. }
    rewrite I1, I2. cbv iota beta. change (r_state o0) with Receiving. cbv iota beta.
    rewrite I3. cbv iota beta. change (r_state o0) with Receiving. cbv iota beta.
    change (r_oti o0) with (Some oti). cbv iota beta. reflexivity.
  Qed.

  Lemma c_pre_or_push o c p sbn esi : CPreS o -> a_toi p = toi -> a_cenc p = cx ->
    C02Full.genuine_at oti transfer al as_ nal n p sbn esi ->
    exists o1, or_push E p o c = (o1, c) /\ CPreS o1 /\ Mono o o1 /\ LiveOne sbn esi o1.
  Proof.
    intros PS Ht Hcp G. rewrite (c_pre_or_push_static o c p PS Ht Hcp).
    destruct (c_pre_p2b o c p sbn esi PS G) as (o1 & Eq & P1 & M1 & L1).
    unfold push_to_block. rewrite Eq, (cps_state _ P1), (cps_writer _ P1).
    exists o1. split; [destruct (a_close_obj p); reflexivity|]. split; [exact P1|split; assumption].
  Qed.

  Definition c_pre_init : objrecv :=
    mk_or Receiving toi (Some oti) [] 0 max (repeat bdec_new (N.to_nat (N.min n 2048))) 0 (Some Lc) cx None false
          al as_ nal None None None 0 0 None false.

  Lemma c_pre_init_ok : CPreS c_pre_init.
  Proof.
    pose proof (n_pos _ _ _ _ _ _ _ Hb He HL Hpart) as Hn.
    constructor; unfold c_pre_init; prj; try reflexivity.
    - rewrite repeat_length. lia.
    - intros i. rewrite nth_repeat. apply C02Full.blockok_new.
    - lia.
  Qed.

  Lemma c_pre_first c p sbn esi : a_toi p = toi -> a_oti p = Some (oti, Lc) -> a_cenc p = cx ->
    C02Full.genuine_at oti transfer al as_ nal n p sbn esi ->
    exists o1, or_push E p (or_new toi max) c = (o1, c) /\ CPreS o1 /\ LiveOne sbn esi o1.
  Proof.
    intros Ht Ho Hcp G.
    assert (Eq : or_push E p (or_new toi max) c = or_push E p c_pre_init c).
    { rewrite (c_pre_or_push_static c_pre_init c p c_pre_init_ok Ht Hcp).
      unfold or_push, or_new. prj. rewrite Ht, Hcp, Ho. destruct (N.eqb_spec toi 0) as [G0|_]; [contradiction|]. cbv iota beta.
      assert (Hsame : match cx with Some x => Some x | None => None end = cx) by (destruct cx; reflexivity).
      rewrite Hsame.
      unfold init_partition at 1. unfold nb_block at 1. prj.
      change (0 <? 0 + N.of_nat (length (@nil bdec))) with false. cbv iota beta. rewrite Hpart. cbv iota beta.
      fold c_pre_init.
      assert (Hnb0 : 0 < nb_block c_pre_init).
      { unfold nb_block, c_pre_init; prj. rewrite repeat_length. pose proof (n_pos _ _ _ _ _ _ _ Hb He HL Hpart). lia. }
      assert (I2 : init_writer E c_pre_init c = (c_pre_init, c)) by reflexivity.
      assert (I3 : push_from_cache E c_pre_init c = (c_pre_init, c)).
      { unfold push_from_cache, cache_replay_blocked. change (r_oti c_pre_init) with (Some oti). cbv iota beta.
        destruct (N.eqb_spec (nb_block c_pre_init) 0) as [G0|_]; [lia|]. reflexivity. }
      rewrite I2. cbv iota beta. change (r_state c_pre_init) with Receiving. cbv iota beta.
      rewrite I3. cbv iota beta. change (r_state c_pre_init) with Receiving. cbv iota beta.
      change (r_oti c_pre_init) with (Some oti). cbv iota beta. reflexivity. }
    rewrite Eq. destruct (c_pre_or_push c_pre_init c p sbn esi c_pre_init_ok Ht Hcp G) as (o1 & E1 & P1 & _ & L1).
    exists o1. split; [exact E1|split; assumption].
  Qed.

  Lemma c_struct_push_from_cache o c : SPc o c -> push_from_cache E o c = (o, c).
  Proof.
    intros (St & Dy & _). pose proof (cdy_nb _ _ _ _ _ _ _ _ _ _ _ _ _ Dy) as Hnb.
    pose proof (cst_cache _ _ _ _ _ _ _ _ _ _ St) as H1. pose proof (cst_csz _ _ _ _ _ _ _ _ _ _ St) as H2.
    unfold push_from_cache, cache_replay_blocked. rewrite (cst_oti _ _ _ _ _ _ _ _ _ _ St). fold (nb_block o) in Hnb.
    destruct (N.eqb_spec (nb_block o) 0) as [G|_]; [lia|]. cbv iota beta. cbn [andb].
    rewrite H1. cbn [List.rev drain_cache]. destruct o. prj. subst. reflexivity.
  Qed.

  (* the FDT instance reaches an object that has decoded without it: the writer is opened - with the in-band
     Content-Encoding if there was one, else the entry's - and the completed blocks at the front are flushed *)
  Lemma c_attach_pre fid o c seen :
    CPreS o -> LiveAll seen o -> Blank c ->
    exists o' c', or_attach E fid (fi_files inst) (fi_oti inst) o c = (true, o', c')
      /\ r_nocache o' = ff_nocache f
      /\ ((SPc o' c' /\ LiveAll seen o') \/ (r_state o' = Completed /\ ShapeDone content w toi c')).
  Proof.
    intros [P1 P2 P3 P4 P5 P6 P7 P8 P9 P10 P11 P12 P13 P14 P15 P16 P17] Lv [Hnx Hlg].
    destruct o as [st ti ot ca cs mx bl of tl cn m5 mc a1 a2 a3 wr bw fi na az cl nc]. prj.
    subst st ti ot ca cs wr of tl cn fi.
    destruct Hacc as [A1 A2]. destruct Hnice as ((Hwr & Hmd) & Hmax & Hn97).
    assert (Hnc : ncalls c toi = 0%nat) by (unfold ncalls; rewrite Hnx; reflexivity).
    pose proof (n_pos _ _ _ _ _ _ _ Hb He HL Hpart) as Hn.
    unfold or_attach. prj. rewrite Hfind, Hmd5. cbv iota beta.
    assert (Heff : match cx with Some x => Some x | None => Some (ff_cenc f) end = Some ce)
      by (destruct cx; rewrite <- Hcx; reflexivity).
    rewrite Heff.
    unfold init_partition at 1. unfold nb_block at 1. prj.
    destruct (N.ltb_spec 0 (0 + N.of_nat (length bl))) as [_|G]; [|lia].
    unfold init_writer. prj. rewrite Hnc, A1. cbv iota beta zeta.
    rewrite A2. cbn [negb]. destruct (N.eqb_spec Lc 0) as [G|HL0]; [lia|]. prj.
    try (d48_skip HL0).
    match goal with |- context [push_from_cache E ?x ?y] => set (o3 := x); set (c3 := y) end.
    assert (Hnb : 0 < nb_block o3) by (unfold nb_block, o3; prj; lia).
    assert (I3 : push_from_cache E o3 c3 = (o3, c3)).
    { unfold push_from_cache, cache_replay_blocked. change (r_oti o3) with (Some oti). cbv iota beta.
      destruct (N.eqb_spec (nb_block o3) 0) as [G|_]; [lia|]. reflexivity. }
    rewrite I3.
    assert (Pre3 : CPre oti transfer content ce w toi md5 max al as_ nal n dl o3 c3).
    { split.
      - constructor; unfold o3; prj; try reflexivity; try assumption. discriminate.
      - constructor; unfold o3; prj.
        + eexists. split; [reflexivity|]. constructor; cbn [bw_new bw_sbn bw_left bw_cenc bw_acc bw_md5 bw_dead]; try reflexivity.
          * rewrite (boff_0 _ _ _ _ _ _ _ Hb He HL Hpart). lia.
          * rewrite (boff_0 _ _ _ _ _ _ _ Hb He HL Hpart). reflexivity.
        + exact Hn.
        + lia.
        + intros i. replace (0 + N.of_nat i) with (N.of_nat i) by lia. apply P16.
        + exact P17.
        + exists []. split; [unfold c3, C02Full.hdr; cbn [logc inc_calls c_log]; rewrite Hlg; reflexivity|]. split; [reflexivity|].
          rewrite (CA DL_0). reflexivity. }
    pose proof (CA c_wb_loop (S (length (r_blocks o3))) o3 c3 Pre3 ltac:(lia)) as W.
    change (r_off o3) with 0 in W.
    pose proof (nc_write_blocks E (S (length (r_blocks o3))) 0 o3 c3) as NC.
    pose proof (ckc_write_blocks E (S (length (r_blocks o3))) 0 o3 c3) as CK.
    destruct (write_blocks E (S (length (r_blocks o3))) 0 o3 c3) as [[o5|o5] c5]; cbn [CWOut fst res_obj] in *.
    2:{ exfalso. destruct W as [_ W]. apply W. split; assumption. }
    change (r_nocache o3) with (ff_nocache f) in NC.
    destruct W as [[S5 M5]|[[H1 H2]|(_ & _ & H3)]].
    - rewrite (c_struct_push_from_cache o5 c5 S5). exists o5, c5. split; [reflexivity|]. split; [exact NC|]. left.
      split; [exact S5|]. intros s i H. apply M5. exact (Lv s i H).
    - assert (Hca : r_cache o5 = []).
      { destruct CK as [_ [[K1 _]|[K1 _]]]; [rewrite K1; reflexivity|exact K1]. }
      unfold push_from_cache. destruct (cache_replay_blocked o5).
      + exists o5, c5. split; [reflexivity|]. split; [exact NC|]. right. split; assumption.
      + rewrite Hca. cbn [List.rev drain_cache]. eexists _, c5. split; [reflexivity|]. prj. split; [exact NC|].
        right. split; assumption.
    - exfalso. apply H3. split; assumption.
  Qed.

  Definition CPktPre (p : apkt) : Prop :=
    a_toi p = toi /\ a_oti p = Some (oti, Lc) /\ a_cenc p = cx /\ genc p.

  Lemma ccj_first c p : CPktPre p ->
    exists o1, or_push E p (or_new toi max) c = (o1, c) /\ CPreS o1 /\ LiveAll [pid_of p] o1.
  Proof.
    intros (Ht & Ho & Hcp & Gp).
    destruct (c_pre_first c p _ _ Ht Ho Hcp Gp) as (o1 & Eq & P1 & L1).
    exists o1. split; [exact Eq|]. split; [exact P1|]. intros s i [H|[]]. rewrite H in L1. exact L1.
  Qed.

  Lemma ccj_push o c seen p : CPreS o -> LiveAll seen o -> CPktPre p ->
    exists o1, or_push E p o c = (o1, c) /\ CPreS o1 /\ LiveAll (pid_of p :: seen) o1.
  Proof.
    intros PS0 Lv (Ht & _ & Hcp & Gp).
    destruct (c_pre_or_push o c p _ _ PS0 Ht Hcp Gp) as (o1 & Eq & P1 & M1 & L1).
    exists o1. split; [exact Eq|]. split; [exact P1|]. intros s i [H|H]; [rewrite H in L1; exact L1|apply M1, Lv, H].
  Qed.

  (* the interface lemmas of the attached object, with the effective encoding ce (as in section CencSession, whose
     hypothesis ff_cenc f = ce is replaced by Hcx) *)
  Lemma ccl_nc o c p : SPc o c -> r_nocache (fst (or_push E p o c)) = r_nocache o.
  Proof.
    intros (St & Dy & _).
    rewrite (CA c_or_push_static o c p St (cdy_nb _ _ _ _ _ _ _ _ _ _ _ _ _ Dy)).
    pose proof (nc_push_to_block E p o c) as K. destruct (push_to_block E p o c) as [[o1|o1] c1]; cbn [fst res_obj] in *; [exact K|].
    rewrite nc_error. exact K.
  Qed.
  Lemma ccl_step o c seen p : SPc o c -> LiveAll seen o -> genc p ->
    (a_close_obj p = true -> covc (pid_of p :: seen)) ->
    let (o2, c2) := or_push E p o c in
    (SPc o2 c2 /\ LiveAll (pid_of p :: seen) o2) \/ (r_state o2 = Completed /\ ShapeDone content w toi c2).
  Proof.
    intros HS Lv Gp Cl.
    pose proof (CA c_step o c p _ _ HS Gp) as H.
    destruct (or_push E p o c) as [o2 c2]. cbn [CStepOut] in H.
    assert (LvP : forall o', Mono o o' -> LiveOne (fst (pid_of p)) (snd (pid_of p)) o' -> LiveAll (pid_of p :: seen) o').
    { intros o' M2 L2 s i [Eq|Hin]; [rewrite Eq in L2; exact L2|apply M2, Lv, Hin]. }
    destruct H as [(S1 & M1 & L1)|[(H1 & H2)|(_ & _ & H3)]].
    - left. split; [exact S1|apply LvP; assumption].
    - right. split; assumption.
    - exfalso. apply H3. split; [exact Hnice|]. intros Hcl o' c' S2 M2 L2.
      apply (CA c_struct_not_covered o' c' (pid_of p :: seen) S2 (LvP o' M2 L2)).
      exact (Cl Hcl).
  Qed.

  Variables (pf : apkt) (foti : roti) (d : list N).
  Hypothesis Hpf : fdt_pkt_ok pf id foti d.
  Hypothesis Hparse : parse_fdt d = Some inst.
  Hypothesis Hlive : fdt_live cfg inst pf now.

  (* at least one packet precedes the FDT instance (pkts1 = [] is cenc_first_via_iface): the object is never created
     from the FDT entry, so the interface's attach-at-creation lemma is not needed; it is discharged from the first
     early packet *)
  Lemma cenc_late_via_iface p1 pkts1 pkts2 :
    Forall CPktPre (p1 :: pkts1) -> Forall genc pkts2 -> Forall (fun p => a_toi p = toi) pkts2 ->
    (forall pre p post, pkts2 = pre ++ p :: post -> a_close_obj p = true -> covc (map pid_of ((p1 :: pkts1) ++ pre ++ [p]))) ->
    covc (map pid_of ((p1 :: pkts1) ++ pkts2)) ->
    (ff_cenc f = ce) ->
    let '(_, r, c) := recv_run E parse_fdt cfg recv0 (map (fun p => RvPush p now) ((p1 :: pkts1) ++ pf :: pkts2)) ctx0 in
    SessDone cfg content toi f r c.
  Proof.
    intros F1 G2 T2 Cl Cv Hcf.
    assert (Att : forall fid c, Blank c ->
      exists o0 c0, or_attach E fid (fi_files inst) (fi_oti inst) (or_new toi max) c = (true, o0, c0)
                    /\ SPc o0 c0 /\ LiveAll [] o0 /\ r_nocache o0 = ff_nocache f).
    { intros fid c Bl. destruct Hacc as [A1 A2].
      destruct (CA c_attach_struct fid (fi_files inst) (fi_oti inst) f c eq_refl Bl Hfind Hcf Hfo Htl Hmd5 A1 A2)
        as (o0 & c0 & Hat & S0 & Hnc & _).
      exists o0, c0. split; [exact Hat|]. split; [exact S0|]. split; [intros s i []|exact Hnc]. }
    exact (g_fdt_late_delivers E parse_fdt cfg content toi now Htoi id inst f Hfind SPc LiveAll genc pid_of covc
             (fun o c S => cst_state _ _ _ _ _ _ _ _ _ _ (proj1 S)) (fun o c S => cst_writer _ _ _ _ _ _ _ _ _ _ (proj1 S))
             ccl_nc ccl_step (CA c_struct_not_covered) (covered_incl' al as_ nal n) Att
             pf foti d Hpf Hparse Hlive CPreS CPktPre
             (fun o P => cps_state o P) (fun p P => proj1 P) ccj_first ccj_push c_attach_pre
             (p1 :: pkts1) pkts2 F1 G2 T2 Cl Cv).
  Qed.
End CencLate.

(* G4, FDT late: the packets pkts1 arrive BEFORE the FDT instance and carry EXT_FTI = (oti, L) and either no EXT_CENC or
   EXT_CENC = ce (cx); they are decoded without writer; the instance (whose entry announces the same Content-Encoding)
   opens the writer and flushes the completed blocks through the inflater; pkts2 follow (their EXT_CENC is unconstrained).
   When the in-band EXT_CENC and the FDT entry DISAGREE the in-band one wins (cenc_ext_cenc_before_fdt_wins below). *)
Theorem cenc_session_fdt_late_delivers E parse_fdt cfg oti transfer content ce cx toi md5 clen now pf id foti d inst pkts1 pkts2 :
  let L := lenN_ transfer in
  nocode_ok oti L -> ce <> CNull -> toi <> 0 ->
  fdt_pkt_ok pf id foti d -> parse_fdt d = Some inst -> fdt_live cfg inst pf now ->
  cenc_entry_for (fi_files inst) (fi_oti inst) toi oti L ce md5 clen ->
  cx = None \/ cx = Some ce ->
  inflate_oracle_blocks E ce oti transfer content ->
  writer_accepts E toi -> writes_succeed E toi -> md5_good E content md5 ->
  L <= cf_max_cache cfg -> nb_blocks_of oti L <= 4097 ->
  Forall (fun p => a_toi p = toi) (pkts1 ++ pkts2) ->
  Forall (fun p => genuine_pkt oti transfer p = true) (pkts1 ++ pkts2) ->
  Forall (fun p => a_oti p = Some (oti, L) /\ a_cenc p = cx) pkts1 ->
  close_flag_ok_after (recoverable oti L) pkts1 pkts2 ->
  recoverable oti L (pkts1 ++ pkts2) = true ->
  let '(_, r, c) := recv_run E parse_fdt cfg recv0 (map (fun p => RvPush p now) (pkts1 ++ pf :: pkts2)) ctx0 in
  session_delivered cfg inst content toi r c.
Proof.
  intros L Hok Hce Htoi Hpf Hparse Hlive Hent Hcx Horc Hacc Hwr Hmd5 Hmax Hn T G Pre1 Cl Rec.
  destruct pkts1 as [|p1 pkts1].
  { cbn [app] in *. apply (cenc_session_fdt_first_delivers E parse_fdt cfg oti transfer content ce toi md5 clen now pf id foti d inst pkts2);
      assumption. }
  destruct Hok as (Hfec & He & Hb & HL & Hu). destruct Hent as (f & F1 & F2 & F3 & F4 & F5 & F6).
  destruct (partition_of oti L) as [[[al as_] nal] n] eqn:Hpart. unfold partition_of in Hpart.
  destruct (oracle_blocks_section E ce oti transfer content al as_ nal n Hb He HL Hpart Horc) as (dl & D0 & Dm & Dc & Df).
  assert (Hnb : nb_blocks_of oti L = n) by (unfold nb_blocks_of; rewrite Hpart; reflexivity).
  assert (Cov : forall l, recoverable oti L l = true -> covered al as_ nal n (map pid_of l)).
  { intros l H. apply recoverable_covered. unfold recoverable, source_ks, partition_of in H. rewrite Hpart in H. exact H. }
  assert (Nc : CNice2 E transfer content (toi, 0%nat) md5 (cf_max_cache cfg) n).
  { split; [split; [exact Hwr|exact Hmd5]|]. split; [exact Hmax|]. rewrite <- Hnb. exact Hn. }
  assert (Hcx' : match cx with Some x => x | None => ff_cenc f end = ce) by (destruct Hcx as [-> | ->]; [exact F2|reflexivity]).
  apply Forall_app in T. destruct T as [T1 T2]. apply Forall_app in G. destruct G as [G1 G2].
  pose proof (genuine_pkt_spec _ _ _ _ _ _ _ Hpart G1) as G1'. pose proof (genuine_pkt_spec _ _ _ _ _ _ _ Hpart G2) as G2'.
  assert (P1 : Forall (CPktPre oti transfer toi al as_ nal n cx) (p1 :: pkts1)).
  { rewrite Forall_forall in *. intros p Hp. destruct (Pre1 p Hp) as (A1 & A2).
    split; [exact (T1 p Hp)|]. split; [exact A1|]. split; [exact A2|exact (G1' p Hp)]. }
  pose proof (cenc_late_via_iface E parse_fdt cfg oti transfer content ce toi md5 al as_ nal n now Hfec He Hb HL Hu Hpart Hce
                dl D0 Dm Dc Df Htoi Nc Hacc id inst f F1 cx Hcx' F3 F4 F5 pf foti d Hpf Hparse Hlive p1 pkts1 pkts2 P1 G2' T2) as D.
  assert (D' : let '(_, r, c) := recv_run E parse_fdt cfg recv0 (map (fun p => RvPush p now) ((p1 :: pkts1) ++ pf :: pkts2)) ctx0 in
               SessDone cfg content toi f r c).
  { apply D.
    - intros pre p post Eq Hp. apply Cov. exact (Cl pre p post Eq Hp).
    - apply Cov. exact Rec.
    - exact F2. }
  destruct (recv_run E parse_fdt cfg recv0 (map (fun p => RvPush p now) ((p1 :: pkts1) ++ pf :: pkts2)) ctx0) as [[xs r] c].
  eapply sess_done_delivered; eassumption.
Qed.
Print Assumptions cenc_session_fdt_late_delivers.

(* ================= G1: the oracle hypothesis is satisfiable; non-vacuity ================= *)
(* a toy content encoding: a 2-byte header followed by the content; its streaming decoder drops the header *)
Definition toy_inflate (ce : cenc) (acc : list N) (finished : bool) : option (list N) := Some (skipn 2 acc).
Definition env_toy : env :=
  mk_env false true (fun _ _ => WStore) (fun _ => true) (fun _ _ => true)
         (fun _ _ _ _ _ _ _ => None) (fun x => x) toy_inflate.

Lemma toy_oracle_ok ce h1 h2 content : inflate_oracle_ok env_toy ce (h1 :: h2 :: content) content.
Proof.
  exists (fun a => a - 2). split; [reflexivity|]. split; [intros x y H; lia|]. split; [|reflexivity].
  intros a _ _. cbn [e_inflate env_toy]. unfold toy_inflate, take. f_equal.
  replace (N.to_nat (a - 2)) with (N.to_nat a - 2)%nat by lia.
  destruct (N.to_nat a) as [|[|k]]; cbn [firstn skipn Nat.sub]; try reflexivity.
  rewrite Nat.sub_0_r. reflexivity.
Qed.

(* the 5-byte object of C02Full behind the header [31; 139]: 7 transfer bytes, E = 2, B = 2: block 0 = symbols
   [31;139] [1;2], block 1 = [3;4] [5] *)
Definition exc_content : list N := [1; 2; 3; 4; 5].
Definition exc_transfer : list N := [31; 139; 1; 2; 3; 4; 5].
Definition exc_files (ce : cenc) (md5 : option (list N)) (clen : option N) : list fdtfile :=
  [mk_ff 7 ce (Some ex_oti) 7 md5 clen false].
Definition exc_pkts : list apkt :=
  [src_pkt 7 1 1 false [5]; src_pkt 7 0 1 false [1; 2]; src_pkt 7 1 0 false [3; 4];
   src_pkt 7 0 0 false [31; 139]; src_pkt 7 0 1 false [1; 2]].

Example exc_premises :
  partition_of ex_oti 7 = (2, 2, 0, 2)
  /\ forallb (genuine_pkt ex_oti exc_transfer) exc_pkts = true
  /\ recoverable ex_oti 7 exc_pkts = true
  /\ recoverable ex_oti 7 (firstn 3 exc_pkts) = false.
Proof. vm_compute. repeat split. Qed.

(* delivered: the header is never written; the MD5 (toy digest = identity) is that of the CONTENT; the Content-Length
   attribute - right, absent or wrong - changes nothing in the model *)
Example exc_delivery_computed :
  summary 7 (receive env_toy 1 (exc_files CGzip (Some exc_content) (Some 5)) None 7 1000 exc_pkts)
  = (Completed, [CallOpen true; CallWrite [1; 2] true; CallWrite [3; 4; 5] true; CallComplete])
  /\ summary 7 (receive env_toy 1 (exc_files CZlib None None) None 7 1000 exc_pkts)
     = (Completed, [CallOpen true; CallWrite [1; 2] true; CallWrite [3; 4; 5] true; CallComplete])
  /\ summary 7 (receive env_toy 1 (exc_files CDeflate None (Some 1)) None 7 1000 exc_pkts)
     = (Completed, [CallOpen true; CallWrite [1; 2] true; CallWrite [3; 4; 5] true; CallComplete]).
Proof. vm_compute. repeat split. Qed.

(* the MD5 of the TRANSFER bytes in the FDT entry is a mismatch: everything is written, then error() *)
Example exc_md5_is_of_content :
  summary 7 (receive env_toy 1 (exc_files CGzip (Some exc_transfer) (Some 5)) None 7 1000 exc_pkts)
  = (Errored, [CallOpen true; CallWrite [1; 2] true; CallWrite [3; 4; 5] true; CallError]).
Proof. vm_compute. reflexivity. Qed.

(* E = 1, B = 2: four blocks [31;139] [1;2] [3;4] [5]; the first one decodes to nothing and no write() call is made *)
Definition exc1_oti : roti := mk_roti FNoCode 1 2 0 None.
Definition exc1_pkts : list apkt :=
  [src_pkt 7 0 0 false [31]; src_pkt 7 0 1 false [139]; src_pkt 7 1 0 false [1]; src_pkt 7 1 1 false [2];
   src_pkt 7 2 0 false [3]; src_pkt 7 2 1 false [4]; src_pkt 7 3 0 true [5]].
Example exc_empty_chunk_not_written :
  forallb (genuine_pkt exc1_oti exc_transfer) exc1_pkts = true
  /\ summary 7 (receive env_toy 1 [mk_ff 7 CGzip (Some exc1_oti) 7 None (Some 5) false] None 7 1000 exc1_pkts)
     = (Completed, [CallOpen true; CallWrite [1; 2] true; CallWrite [3; 4] true; CallWrite [5] true; CallComplete]).
Proof. vm_compute. repeat split. Qed.

Example exc_delivery_by_theorem :
  let (o, c) := receive env_toy 1 (exc_files CGzip (Some exc_content) None) None 7 1000 exc_pkts in
  r_state o = Completed /\ ShapeDone exc_content (7, 0%nat) 7 c.
Proof.
  pose proof (cenc_recoverable_delivers env_toy ex_oti exc_transfer exc_content CGzip 7 1000 1
                (exc_files CGzip (Some exc_content) None) None (Some exc_content) None exc_pkts) as T.
  cbv zeta in T.
  assert (G : Forall (fun p => genuine_pkt ex_oti exc_transfer p = true) exc_pkts).
  { apply Forall_forall. apply forallb_forall. vm_compute. reflexivity. }
  assert (Cl : close_flag_ok ex_oti (lenN_ exc_transfer) exc_pkts).
  { apply close_flag_ok_noflag. apply Forall_forall. intros p Hp. repeat (destruct Hp as [<-|Hp]; [reflexivity|]). destruct Hp. }
  specialize (T ltac:(repeat split; vm_compute; reflexivity) ltac:(discriminate)
                ltac:(eexists; repeat split; reflexivity)
                (inflate_oracle_ok_blocks _ _ _ _ _ (toy_oracle_ok CGzip 31 139 exc_content))
                ltac:(split; reflexivity) ltac:(intros i; reflexivity) ltac:(vm_compute; reflexivity)
                ltac:(vm_compute; discriminate) ltac:(vm_compute; discriminate) G Cl ltac:(vm_compute; reflexivity)).
  destruct (receive env_toy 1 (exc_files CGzip (Some exc_content) None) None 7 1000 exc_pkts) as [o c].
  destruct T as (T1 & T2 & _). split; assumption.
Qed.

(* the oracle hypothesis is needed: genuine packets, a decoder that answers other bytes (c3_env of Proofs/C03Session.v
   answers 9 9 9 ...), no MD5: wrong bytes, Completed *)
Definition env_wrong : env :=
  mk_env false true (fun _ _ => WStore) (fun _ => true) (fun _ _ => true)
         (fun _ _ _ _ _ _ _ => None) (fun x => x) (fun _ acc _ => Some (repeat 9 (length acc - 2))).
Example cenc_wrong_inflater_corrupts :
  summary 7 (receive env_wrong 1 (exc_files CGzip None (Some 5)) None 7 1000 exc_pkts)
  = (Completed, [CallOpen true; CallWrite [9; 9] true; CallWrite [9; 9; 9] true; CallComplete]).
Proof. vm_compute. reflexivity. Qed.

(* ---------- the receiver level: which Content-Encoding wins ---------- *)
Definition txc_inst (ce : cenc) (md5 : option (list N)) : fdtinst := mk_fi (exc_files ce md5 (Some 5)) None None.
Definition txc_parse (ce : cenc) (md5 : option (list N)) (d : list N) : option fdtinst :=
  if eqb_bytes d tx_doc then Some (txc_inst ce md5) else None.
Definition with_ext (oti : option (roti * N)) (ce : option cenc) (p : apkt) : apkt :=
  mk_apkt (a_toi p) (a_close_obj p) (a_close_sess p) (a_fdt_id p) oti ce (a_sct p) (a_cp p)
          (a_pidbytes p) (a_payload p) (a_datalen p).
Definition cenc_log : list wev :=
  [EvBuilder 7 WStore; EvOpen (7, 0%nat) true; EvWrite (7, 0%nat) [1; 2] true; EvWrite (7, 0%nat) [3; 4; 5] true;
   EvComplete (7, 0%nat)].

(* FDT first: Content-Encoding from the FDT entry only; the same with EXT_CENC = gzip on every packet; and with a
   DISAGREEING EXT_CENC = null on every packet: the FDT entry wins, the object is inflated and delivered *)
Example cenc_session_fdt_first_example :
  sess_env env_toy (txc_parse CGzip (Some exc_content)) (tx_cfg true false) (tx_fdt None :: exc_pkts)
  = ([POk; POk; POk; POk; POk; POk], [], [7], [], cenc_log)
  /\ sess_env env_toy (txc_parse CGzip (Some exc_content)) (tx_cfg true false)
       (tx_fdt None :: map (with_ext None (Some CGzip)) exc_pkts)
     = ([POk; POk; POk; POk; POk; POk], [], [7], [], cenc_log)
  /\ sess_env env_toy (txc_parse CGzip (Some exc_content)) (tx_cfg true false)
       (tx_fdt None :: map (with_ext None (Some CNull)) exc_pkts)
     = ([POk; POk; POk; POk; POk; POk], [], [7], [], cenc_log).
Proof. vm_compute. repeat split. Qed.

(* a packet BEFORE the FDT instance: its EXT_CENC wins over the FDT entry.  EXT_CENC = null against Content-Encoding
   gzip: the transfer-encoded bytes are written as they are - with the MD5 of the content the writer ends with error(),
   without MD5 the object is COMPLETED with the header in front.  EXT_CENC = gzip against an FDT entry without
   Content-Encoding: the object is inflated *)
Example cenc_ext_cenc_before_fdt_wins :
  sess_env env_toy (txc_parse CGzip (Some exc_content)) (tx_cfg true false)
    (with_ext (Some (ex_oti, 7)) (Some CNull) (src_pkt 7 1 1 false [5]) :: tx_fdt None :: exc_pkts)
  = ([POk; POk; POk; POk; POk; POk; POk], [], [], [7],
     [EvBuilder 7 WStore; EvOpen (7, 0%nat) true; EvWrite (7, 0%nat) [31; 139; 1; 2] true; EvWrite (7, 0%nat) [3; 4; 5] true;
      EvError (7, 0%nat)])
  /\ sess_env env_toy (txc_parse CGzip None) (tx_cfg true false)
       (with_ext (Some (ex_oti, 7)) (Some CNull) (src_pkt 7 1 1 false [5]) :: tx_fdt None :: exc_pkts)
     = ([POk; POk; POk; POk; POk; POk; POk], [], [7], [],
        [EvBuilder 7 WStore; EvOpen (7, 0%nat) true; EvWrite (7, 0%nat) [31; 139; 1; 2] true; EvWrite (7, 0%nat) [3; 4; 5] true;
         EvComplete (7, 0%nat)])
  /\ sess_env env_toy (txc_parse CNull (Some exc_content)) (tx_cfg true false)
       (with_ext (Some (ex_oti, 7)) (Some CGzip) (src_pkt 7 1 1 false [5]) :: tx_fdt None :: exc_pkts)
     = ([POk; POk; POk; POk; POk; POk; POk], [], [7], [], cenc_log).
Proof. vm_compute. repeat split. Qed.

(* FDT late: three packets with EXT_FTI and EXT_CENC = gzip (or without EXT_CENC) before the FDT instance, whose entry
   says gzip; the whole transfer before the instance *)
Example cenc_session_fdt_late_example :
  sess_env env_toy (txc_parse CGzip (Some exc_content)) (tx_cfg true false)
    (map (with_ext (Some (ex_oti, 7)) (Some CGzip)) (firstn 3 exc_pkts) ++ tx_fdt None :: skipn 3 exc_pkts)
  = ([POk; POk; POk; POk; POk; POk], [], [7], [], cenc_log)
  /\ sess_env env_toy (txc_parse CGzip (Some exc_content)) (tx_cfg true false)
       (map (with_ext (Some (ex_oti, 7)) None) (firstn 3 exc_pkts) ++ tx_fdt None :: skipn 3 exc_pkts)
     = ([POk; POk; POk; POk; POk; POk], [], [7], [], cenc_log)
  /\ sess_env env_toy (txc_parse CGzip (Some exc_content)) (tx_cfg true false)
       (map (with_ext (Some (ex_oti, 7)) (Some CGzip)) exc_pkts ++ [tx_fdt None])
     = ([POk; POk; POk; POk; POk; POk], [], [7], [], cenc_log).
Proof. vm_compute. repeat split. Qed.

(* the premises of the two receiver-level theorems are satisfiable *)
Example cenc_session_by_theorem :
  (let '(_, r, c) := recv_run env_toy (txc_parse CGzip (Some exc_content)) (tx_cfg true false) recv0
                              (map (fun p => RvPush p 100%Z) (tx_fdt None :: exc_pkts)) ctx0 in
   session_delivered (tx_cfg true false) (txc_inst CGzip (Some exc_content)) exc_content 7 r c)
  /\ (let '(_, r, c) := recv_run env_toy (txc_parse CGzip (Some exc_content)) (tx_cfg true false) recv0
                              (map (fun p => RvPush p 100%Z)
                                   (map (with_ext (Some (ex_oti, 7)) (Some CGzip)) (firstn 3 exc_pkts) ++ tx_fdt None :: skipn 3 exc_pkts)) ctx0 in
      session_delivered (tx_cfg true false) (txc_inst CGzip (Some exc_content)) exc_content 7 r c).
Proof.
  split.
  - apply (cenc_session_fdt_first_delivers env_toy (txc_parse CGzip (Some exc_content)) (tx_cfg true false) ex_oti exc_transfer
             exc_content CGzip 7 (Some exc_content) (Some 5) 100%Z (tx_fdt None) 1 tx_foti tx_doc (txc_inst CGzip (Some exc_content)) exc_pkts).
    + repeat split; vm_compute; reflexivity.
    + discriminate.
    + discriminate.
    + apply tx_fdt_ok.
    + reflexivity.
    + left. reflexivity.
    + eexists. repeat split; reflexivity.
    + exact (inflate_oracle_ok_blocks _ _ _ _ _ (toy_oracle_ok CGzip 31 139 exc_content)).
    + split; reflexivity.
    + intros i. reflexivity.
    + vm_compute. reflexivity.
    + vm_compute. discriminate.
    + vm_compute. discriminate.
    + repeat constructor.
    + repeat constructor.
    + apply close_flag_ok_noflag. repeat constructor.
    + vm_compute. reflexivity.
  - apply (cenc_session_fdt_late_delivers env_toy (txc_parse CGzip (Some exc_content)) (tx_cfg true false) ex_oti exc_transfer
             exc_content CGzip (Some CGzip) 7 (Some exc_content) (Some 5) 100%Z (tx_fdt None) 1 tx_foti tx_doc
             (txc_inst CGzip (Some exc_content))
             (map (with_ext (Some (ex_oti, 7)) (Some CGzip)) (firstn 3 exc_pkts)) (skipn 3 exc_pkts)).
    + repeat split; vm_compute; reflexivity.
    + discriminate.
    + discriminate.
    + apply tx_fdt_ok.
    + reflexivity.
    + left. reflexivity.
    + eexists. repeat split; reflexivity.
    + right. reflexivity.
    + exact (inflate_oracle_ok_blocks _ _ _ _ _ (toy_oracle_ok CGzip 31 139 exc_content)).
    + split; reflexivity.
    + intros i. reflexivity.
    + vm_compute. reflexivity.
    + vm_compute. discriminate.
    + vm_compute. discriminate.
    + repeat constructor.
    + repeat constructor.
    + repeat constructor.
    + apply close_flag_ok_after_noflag. repeat constructor.
    + vm_compute. reflexivity.
Qed.

(* ================= G5: the C01 corollary ================= *)
(* Compression is outside the sender model: the model is handed the transfer-encoded bytes [transfer] (what
   compress(content) returned - this is the hypothesis, through inflate_oracle_blocks) and sends them as it sends any
   buffer.  One uninterrupted transfer on the identity channel (Proofs/C01Full.v wire_pkts), preceded by any genuine
   flag-free packets, into a receiver whose FDT entry carries the Content-Encoding: the CONTENT is delivered. *)
From FluteV Require Import Model.BlockEnc Proofs.C08Full Proofs.C01Full Proofs.C01Esi.

Theorem cenc_clean_channel rep raptor_src c transfer content ce oti E toi max fid files inst md5 clen pre :
  c_fec c = NoCode -> filedesc_accepts c = true -> c_tlen c = lenN transfer -> 0 < c_tlen c ->
  (1 <= c_window c)%nat -> c_e c < 65536 ->
  oti_matches c oti -> ce <> CNull -> cenc_entry_for files inst toi oti (c_tlen c) ce md5 clen ->
  inflate_oracle_blocks E ce oti transfer content ->
  writer_accepts E toi -> writes_succeed E toi -> md5_good E content md5 ->
  c_tlen c <= max -> nb_blocks_of oti (c_tlen c) <= 4097 ->
  Forall (fun q => genuine_pkt oti transfer q = true) pre ->
  Forall (fun q => a_close_obj q = false) pre ->
  delivered E fid files inst toi max content (pre ++ wire_pkts rep raptor_src c transfer toi).
Proof.
  intros Hfec Hacc Hlen Hl Hw He16 Hoti Hce Hfdt Horc Hwa Hws Hmd5 Hmax Hnb Gpre Fpre.
  pose proof (accepts_esi_fits c Hfec Hacc Hl) as Hesi.
  destruct (wire_facts rep raptor_src c transfer oti toi Hfec Hacc Hlen Hl Hw Hesi Hoti) as (G & Rec & body & lst & Ew & Fb & _).
  assert (HLL : lenN_ transfer = c_tlen c) by (rewrite Hlen; reflexivity).
  assert (Hok : nocode_ok oti (lenN_ transfer)).
  { destruct Hoti as (F & E1 & E2). destruct (accepts_pos c Hacc Hl) as [He Hb].
    rewrite HLL. unfold nocode_ok. rewrite F, E1, E2. repeat split; try assumption.
    unfold filedesc_accepts in Hacc. apply andb_true_iff in Hacc. destruct Hacc as [A _].
    apply andb_true_iff in A. destruct A as [A _]. apply N.leb_le in A.
    unfold max_transfer_length in A. rewrite Hfec in A. unfold U64. lia. }
  assert (RecAll : recoverable oti (lenN_ transfer) (pre ++ wire_pkts rep raptor_src c transfer toi) = true)
    by (apply Rec; apply incl_appr, incl_refl).
  pose proof (cenc_recoverable_delivers E oti transfer content ce toi max fid files inst md5 clen
                (pre ++ wire_pkts rep raptor_src c transfer toi)) as D.
  cbv zeta in D. rewrite HLL in D. rewrite HLL in RecAll, Hok.
  specialize (D Hok Hce Hfdt Horc Hwa Hws Hmd5 Hmax Hnb (proj2 (Forall_app _ _ _) (conj Gpre G))).
  assert (Cl : close_flag_ok oti (c_tlen c) (pre ++ wire_pkts rep raptor_src c transfer toi)).
  { rewrite Ew, app_assoc. apply close_flag_ok_last.
    - apply Forall_app. split; assumption.
    - rewrite <- app_assoc, <- Ew. exact RecAll. }
  specialize (D Cl RecAll). unfold delivered.
  destruct (receive E fid files inst toi max (pre ++ wire_pkts rep raptor_src c transfer toi)) as [o cx].
  destruct D as (D1 & D2 & D3). split; [exact D1|]. split; [exact D2|]. intros m.
  destruct (D3 m) as [X Y]. split; [exact X|]. split; [apply exact_once; exact X|].
  rewrite RecAll in Y. exact Y.
Qed.
Print Assumptions cenc_clean_channel.

(* non-vacuity: the sender model sends the 7 transfer bytes (E = 2, B = 2, two interleaved blocks, last transfer);
   the receiver delivers the 5 content bytes *)
Definition exc_cfg : ecfg := mk_ecfg NoCode 2 2 0 2 true 7 true.
Example cenc_clean_channel_example :
  map (fun p => (p_sbn p, p_esi p, p_payload p, p_close p)) (transfer_pkts no_rep no_rsrc exc_cfg exc_transfer)
  = [(0, 0, [31; 139], false); (1, 0, [3; 4], false); (0, 1, [1; 2], false); (1, 1, [5], true)]
  /\ summary 7 (receive env_toy 1 (exc_files CGzip (Some exc_content) (Some 5)) None 7 1000
                  (wire_pkts no_rep no_rsrc exc_cfg exc_transfer 7))
     = (Completed, [CallOpen true; CallWrite [1; 2] true; CallWrite [3; 4; 5] true; CallComplete]).
Proof. vm_compute. repeat split. Qed.
