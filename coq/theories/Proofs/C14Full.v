(* C14, history level: every object packet the sender model emits respects the start time,
   the pacing schedule and (outside the recorded class D23) the carousel gap, judged on the
   model state before the read.  Premises: globally distinct TOIs of the accepted adds and
   monotone read instants (both shown necessary in Properties/C14.v). *)
From FluteV Require Import Model.SenderCtl Spec.SenderSpec Proofs.SenderProofs.
From Coq Require Import Lia Permutation Sorted.
Open Scope N_scope.

Arguments N.add : simpl never. Arguments N.mul : simpl never. Arguments N.sub : simpl never.
Arguments N.eqb : simpl never. Arguments N.ltb : simpl never. Arguments N.leb : simpl never.
Arguments Z.add : simpl never. Arguments Z.sub : simpl never. Arguments Z.mul : simpl never.
Arguments Z.ltb : simpl never. Arguments Z.leb : simpl never. Arguments Z.max : simpl never.

(* ---------- lists ---------- *)
Lemma nth_upd_nth_eq {A} (f : A -> A) d : forall l i, (i < length l)%nat ->
  nth i (upd_nth i f l) d = f (nth i l d).
Proof. induction l as [|x l IH]; intros [|i] H; cbn in *; try lia; auto. apply IH. lia. Qed.

Lemma nth_upd_nth_neq {A} (f : A -> A) d : forall l i j, i <> j ->
  nth j (upd_nth i f l) d = nth j l d.
Proof. induction l as [|x l IH]; intros [|i] [|j] H; cbn; auto; try congruence. Qed.

Lemma upd_nth_len {A} i (f : A -> A) l : length (upd_nth i f l) = length l.
Proof. revert i; induction l as [|x l IH]; intros [|i]; cbn; auto. Qed.

Lemma upd_nth_split {A} (f : A -> A) : forall l i x, nth_error l i = Some x ->
  exists a b, l = a ++ x :: b /\ upd_nth i f l = a ++ f x :: b.
Proof.
  induction l as [|y l IH]; intros [|i] x H; cbn in H; try discriminate.
  - inversion H; subst. exists [], l. auto.
  - destruct (IH _ _ H) as (a & b & -> & E). exists (y :: a), b. cbn. rewrite E. auto.
Qed.

Lemma nodup_app {A} (l1 l2 : list A) :
  NoDup (l1 ++ l2) <-> NoDup l1 /\ NoDup l2 /\ (forall x, In x l1 -> In x l2 -> False).
Proof.
  induction l1 as [|a l1 IH]; cbn.
  - split; [intros H; repeat split; [constructor|assumption|intros x []]|intros (_ & H & _); assumption].
  - split.
    + intros H. inversion H as [|? ? Hn Hd]; subst. apply IH in Hd. destruct Hd as (H1 & H2 & H3).
      repeat split; [constructor; [intros Hi; apply Hn, in_or_app; left; assumption|assumption]|assumption|].
      intros x [<-|Hx] Hy; [apply Hn, in_or_app; right; assumption|eapply H3; eassumption].
    + intros (H1 & H2 & H3). inversion H1 as [|? ? Hn Hd]; subst. constructor.
      * intros Hi. apply in_app_or in Hi. destruct Hi as [Hi|Hi]; [auto|eapply H3; [left; reflexivity|assumption]].
      * apply IH. repeat split; [assumption|assumption|]. intros x Hx Hy. eapply H3; [right; eassumption|assumption].
Qed.

(* ---------- objects ---------- *)
Lemma objs_upd_t s id g : length (objs (upd_t s id g)) = length (objs s).
Proof. unfold upd_t; cbn. apply upd_nth_len. Qed.

Lemma obj_upd_t_same s id g : (id < length (objs s))%nat ->
  obj (upd_t s id g) id = mk_fdesc (f_o (obj s id)) (f_pub (obj s id)) (g (f_t (obj s id))).
Proof. intros H. unfold obj, upd_t; cbn [objs set_objs]. rewrite nth_upd_nth_eq by assumption. reflexivity. Qed.

Lemma obj_upd_t_other s id g id' : id' <> id -> obj (upd_t s id g) id' = obj s id'.
Proof. intros H. unfold obj, upd_t; cbn [objs set_objs]. apply nth_upd_nth_neq. congruence. Qed.

Lemma obj_upd_t_o s id g id' : f_o (obj (upd_t s id g) id') = f_o (obj s id').
Proof.
  destruct (Nat.eq_dec id' id) as [->|N]; [|rewrite obj_upd_t_other by assumption; reflexivity].
  destruct (Nat.lt_ge_cases id (length (objs s))) as [L|L].
  - rewrite obj_upd_t_same by assumption. reflexivity.
  - unfold obj, upd_t; cbn [objs set_objs]. rewrite !nth_overflow; [reflexivity|assumption|rewrite upd_nth_len; assumption].
Qed.

(* ---------- vocabulary of the invariant ---------- *)
Definition flat (qs : list squeue) : list session := flat_map q_sessions qs.
Definition hfile (ss : session) : list nat := match ss_file ss with Some i => [i] | None => [] end.
Definition held (L : list session) : list nat := flat_map hfile L.

Definition wf_ss (ss : session) : Prop :=
  ss_fdt_only ss = false /\
  match ss_file ss, ss_enc ss with Some _, Some _ | None, None => True | _, _ => False end.

(* [isU id] tells the objects created by add (true) from the FDT instances created by publish
   (false); it is a ghost classification, fixed between two adds (see trace_ok) *)
Section Classify.
Variable isU : nat -> bool.

Definition user (s : st) (id : nat) : Prop :=
  (id < length (objs s))%nat /\ isU id = true.
Definition fdtobj (s : st) (id : nat) : Prop :=
  (id < length (objs s))%nat /\ (isU id = false /\ o_fdtid (f_o (obj s id)) <> None) /\ o_toi (f_o (obj s id)) = 0.
Definition Ubound (s : st) : Prop := forall id, (length (objs s) <= id)%nat -> isU id = false.
Definition toi_uniq (s : st) : Prop :=
  forall i j, user s i -> user s j -> toi_of s i = toi_of s j -> i = j.

Definition wf_t (T : Z) (t : tinfo) : Prop :=
  (forall le, t_last_end t = Some le -> (le <= T)%Z) /\
  (forall ls, t_last_start t = Some ls -> (ls <= T)%Z) /\
  (t_last_end t = None \/ t_transferring t = true \/ 1 <= t_count t) /\
  (t_transferring t = true ->
     t_last_start t <> None /\ forall stt, t_start_time t = Some stt -> (stt <= T)%Z).

Definition pace_ok (t : tinfo) (e : enc) : Prop :=
  forall k, t_tick t = Some k ->
    exists ls, t_last_start t = Some ls /\ t_next_ts t = Some (ls + Z.of_N (e_sent e) * k)%Z.

Record InvL (T : Z) (L : list session) (s : st) : Prop := mkInvL {
  iv_wf : Forall wf_ss L;
  iv_nodup : NoDup (held L ++ queue s);
  iv_user : forall id, In id (held L ++ queue s) -> user s id;
  iv_uniq : toi_uniq s;
  iv_queue : forall id, In id (queue s) ->
     t_transferring (f_t (obj s id)) = false /\ wf_t T (f_t (obj s id));
  iv_held : forall ss id e, In ss L -> ss_file ss = Some id -> ss_enc ss = Some e ->
     t_transferring (f_t (obj s id)) = true /\ wf_t T (f_t (obj s id)) /\ pace_ok (f_t (obj s id)) e
}.

Definition GF (ssf : session) (s : st) : Prop :=
  ss_fdt_only ssf = true /\
  (forall c, ss_file ssf = Some c -> fdtobj s c) /\
  (forall c, cur_fdt s = Some c -> fdtobj s c) /\
  (forall c, In c (fdtq s) -> fdtobj s c).

Lemma wf_t_mono T T' t : (T <= T')%Z -> wf_t T t -> wf_t T' t.
Proof.
  intros H (a & b & c & d). repeat split; auto.
  - intros le E. specialize (a _ E). lia.
  - intros ls E. specialize (b _ E). lia.
  - apply d; assumption.
  - intros stt E. destruct (d H0) as [_ d2]. specialize (d2 _ E). lia.
Qed.

Lemma InvL_mono T T' L s : (T <= T')%Z -> InvL T L s -> InvL T' L s.
Proof.
  intros H [a b c d e f]. constructor; auto.
  - intros id Hi. destruct (e id Hi). split; [assumption|eapply wf_t_mono; eassumption].
  - intros ss id en H1 H2 H3. destruct (f ss id en H1 H2 H3) as (x & y & z).
    split; [assumption|]. split; [eapply wf_t_mono; eassumption|assumption].
Qed.

(* ---------- held sessions ---------- *)
Lemma held_app L1 L2 : held (L1 ++ L2) = held L1 ++ held L2.
Proof. unfold held. apply flat_map_app. Qed.

Lemma in_held L id : In id (held L) <-> exists ss, In ss L /\ ss_file ss = Some id.
Proof.
  unfold held. rewrite in_flat_map. split.
  - intros (ss & H1 & H2). exists ss. split; [assumption|]. unfold hfile in H2.
    destruct (ss_file ss); cbn in H2; [destruct H2 as [->|[]]; reflexivity|destruct H2].
  - intros (ss & H1 & H2). exists ss. split; [assumption|]. unfold hfile. rewrite H2. left; reflexivity.
Qed.

Lemma held_unique : forall L ss1 ss2 id, NoDup (held L) ->
  In ss1 L -> In ss2 L -> ss_file ss1 = Some id -> ss_file ss2 = Some id -> ss1 = ss2.
Proof.
  induction L as [|a L IH]; intros ss1 ss2 id ND H1 H2 F1 F2; [destruct H1|].
  change (held (a :: L)) with (hfile a ++ held L) in ND.
  assert (NDL : NoDup (held L)) by (apply nodup_app in ND; tauto).
  assert (Hx : forall ss, In ss L -> ss_file ss = Some id -> ss_file a = Some id -> False).
  { intros ss Hs Fs Fa. unfold hfile in ND. rewrite Fa in ND. cbn in ND. inversion ND; subst.
    apply H3. apply in_held. exists ss. auto. }
  destruct H1 as [<-|H1], H2 as [<-|H2]; auto.
  - exfalso. eapply Hx; eauto.
  - exfalso. eapply Hx; eauto.
  - eapply IH; eauto.
Qed.

Lemma iv_nodup_held T L s : InvL T L s -> NoDup (held L).
Proof. intros I. pose proof (iv_nodup _ _ _ I) as H. apply nodup_app in H. tauto. Qed.

Lemma iv_disj T L s id : InvL T L s -> In id (held L) -> In id (queue s) -> False.
Proof. intros I. pose proof (iv_nodup _ _ _ I) as H. apply nodup_app in H. destruct H as (_ & _ & H). apply H. Qed.

Lemma iv_user_held T L s ss id : InvL T L s -> In ss L -> ss_file ss = Some id -> user s id.
Proof. intros I H1 H2. apply (iv_user _ _ _ I), in_or_app. left. apply in_held. exists ss. auto. Qed.

Lemma iv_user_queue T L s id : InvL T L s -> In id (queue s) -> user s id.
Proof. intros I H1. apply (iv_user _ _ _ I), in_or_app. right. assumption. Qed.

(* ---------- what live_fdesc finds, under the invariant ---------- *)
Lemma live_held T s ss id e : InvL T (flat (squeues s)) s ->
  In ss (flat (squeues s)) -> ss_file ss = Some id -> ss_enc ss = Some e ->
  live_fdesc s (toi_of s id) = Some (obj s id, Some e).
Proof.
  intros I Hin Hf He. unfold live_fdesc. fold (flat (squeues s)).
  destruct (find _ (flat (squeues s))) as [ss'|] eqn:F.
  - apply find_some in F. destruct F as [Hin' P].
    destruct (ss_file ss') as [i|] eqn:Fi; [|discriminate].
    apply N.eqb_eq in P.
    assert (i = id).
    { apply (iv_uniq _ _ _ I); [exact (iv_user_held _ _ _ _ _ I Hin' Fi)|exact (iv_user_held _ _ _ _ _ I Hin Hf)|exact P]. }
    subst i. assert (ss' = ss) by (exact (held_unique _ _ _ _ (iv_nodup_held _ _ _ I) Hin' Hin Fi Hf)).
    subst ss'. rewrite He. reflexivity.
  - eapply find_none in F; [|exact Hin]. cbv beta in F. rewrite Hf in F. unfold toi_of in F.
    rewrite N.eqb_refl in F. discriminate.
Qed.

Lemma live_queue T s id : InvL T (flat (squeues s)) s -> In id (queue s) ->
  live_fdesc s (toi_of s id) = Some (obj s id, None).
Proof.
  intros I Hin. unfold live_fdesc. fold (flat (squeues s)).
  destruct (find _ (flat (squeues s))) as [ss'|] eqn:F.
  - exfalso. apply find_some in F. destruct F as [Hin' P].
    destruct (ss_file ss') as [i|] eqn:Fi; [|discriminate].
    apply N.eqb_eq in P.
    assert (i = id).
    { apply (iv_uniq _ _ _ I); [exact (iv_user_held _ _ _ _ _ I Hin' Fi)|exact (iv_user_queue _ _ _ _ I Hin)|exact P]. }
    subst i. apply (iv_disj _ _ _ id I); [apply in_held; exists ss'; auto|assumption].
  - destruct (find _ (queue s)) as [id'|] eqn:F2.
    + apply find_some in F2. destruct F2 as [Hin' P]. apply N.eqb_eq in P.
      assert (id' = id).
      { apply (iv_uniq _ _ _ I); [exact (iv_user_queue _ _ _ _ I Hin')|exact (iv_user_queue _ _ _ _ I Hin)|exact P]. }
      subst id'. reflexivity.
    + eapply find_none in F2; [|exact Hin]. cbv beta in F2. unfold toi_of in F2.
      rewrite N.eqb_refl in F2. discriminate.
Qed.

(* ---------- the three clauses, from local facts about the object found ---------- *)
Definition elig (now : Z) (o : odesc) (t : tinfo) : Prop :=
  exists pub prio full, should_transfer_now (mk_fdesc o pub t) prio full now = true.

Lemma elig_facts now o t : elig now o t ->
  (forall stt, t_start_time t = Some stt -> (stt <= now)%Z) /\ t_transferring t = false /\
  (t_count t < o_max o \/
   match o_car o, t_last_end t, t_last_start t with
   | CDelay d, Some le, Some _ => (d < Z.max 0 (now - le))%Z
   | CInterval d, Some _, Some ls => (d < Z.max 0 (now - ls))%Z
   | _, _, _ => True
   end).
Proof.
  intros (pub & prio & full & H). unfold should_transfer_now in H. cbn [f_o f_t f_pub] in H.
  destruct (negb (o_prio o =? prio)); [discriminate|].
  destruct (full && negb pub); [discriminate|].
  split.
  { intros stt E. rewrite E in H. destruct (Z.ltb_spec now stt); [discriminate|lia]. }
  destruct (match t_start_time t with Some stt => (now <? stt)%Z | None => false end); [discriminate|].
  destruct (t_transferring t); [discriminate|]. split; [reflexivity|].
  destruct (N.ltb_spec (t_count t) (o_max o)); [left; assumption|right].
  destruct (o_car o); destruct (t_last_end t); destruct (t_last_start t); try exact I;
    apply Z.ltb_lt in H; exact H.
Qed.

Definition clauses (s : st) (now : Z) (r : rout) : Prop :=
  P_C14_start_time s now r = true /\ P_C14_pacing s now r = true /\
  (in_D23 s now r = false -> P_C14_carousel_gap s now r = true).

Lemma clause_held s now toi c f e T :
  live_fdesc s toi = Some (f, Some e) ->
  t_transferring (f_t f) = true -> enc_has_packet e = true ->
  wf_t T (f_t f) -> (T <= now)%Z -> pace_ok (f_t f) e ->
  match t_next_ts (f_t f) with Some ts => (ts <= now)%Z | None => True end ->
  clauses s now (RObj toi c).
Proof.
  intros Hl Ht Hp (_ & _ & _ & Wd) HT Hpace Hgate. destruct (Wd Ht) as [Wls Wst].
  unfold clauses, P_C14_start_time, P_C14_pacing, P_C14_carousel_gap, in_D23, starts_new_transfer.
  rewrite Hl, Ht, Hp. cbn [andb]. split; [|split].
  - destruct (t_start_time (f_t f)) as [stt|]; [|reflexivity]. apply Z.leb_le. specialize (Wst _ eq_refl). lia.
  - destruct (t_tick (f_t f)) as [k|] eqn:Ek; [|reflexivity].
    destruct (Hpace k Ek) as (ls & E1 & E2). rewrite E1. rewrite E2 in Hgate. apply Z.leb_le. exact Hgate.
  - reflexivity.
Qed.

Lemma known_D23_false f : known_D23 f = false -> o_car (f_o f) = CNone \/ o_max (f_o f) < 2.
Proof.
  unfold known_D23. destruct (o_car (f_o f)); cbn [car_some andb]; auto;
    intros H; right; apply N.leb_gt in H; exact H.
Qed.

Lemma clause_queue s now toi c f T :
  live_fdesc s toi = Some (f, None) ->
  elig now (f_o f) (f_t f) -> wf_t T (f_t f) -> (T <= now)%Z ->
  clauses s now (RObj toi c).
Proof.
  intros Hl He (Wa & Wb & Wc & _) HT. apply elig_facts in He. destruct He as (Es & Et & Eg).
  unfold clauses, P_C14_start_time, P_C14_pacing, P_C14_carousel_gap, in_D23, starts_new_transfer.
  rewrite Hl. split; [|split].
  - destruct (t_start_time (f_t f)) as [stt|]; [|reflexivity]. apply Z.leb_le. auto.
  - reflexivity.
  - intros HD. apply known_D23_false in HD.
    destruct (o_car (f_o f)) as [|d|d] eqn:Ec; [reflexivity| |];
      (destruct (t_last_end (f_t f)) as [le|] eqn:Ele; [|reflexivity]);
      (destruct (t_last_start (f_t f)) as [ls|] eqn:Els; [|reflexivity]);
      apply Z.ltb_lt; specialize (Wa _ eq_refl); specialize (Wb _ eq_refl);
      (destruct HD as [HD|HD]; [discriminate|]);
      (destruct Eg as [Eg|Eg]; [|lia]);
      (destruct Wc as [Wc|[Wc|Wc]]; [discriminate|congruence|lia]).
Qed.

Lemma clause_done s now toi c f e T :
  live_fdesc s toi = Some (f, Some e) ->
  t_transferring (f_t f) = true -> enc_has_packet e = false ->
  elig now (f_o f) (t_done now (f_t f)) -> wf_t T (f_t f) -> (T <= now)%Z ->
  clauses s now (RObj toi c).
Proof.
  intros Hl Ht Hp He (Wa & Wb & Wc & _) HT. apply elig_facts in He. destruct He as (Es & _ & Eg).
  cbn [t_done t_start_time t_count t_last_end t_last_start] in Es, Eg.
  unfold clauses, P_C14_start_time, P_C14_pacing, P_C14_carousel_gap, in_D23, starts_new_transfer.
  rewrite Hl, Ht, Hp. cbn [andb negb]. split; [|split].
  - destruct (t_start_time (f_t f)) as [stt|]; [|reflexivity]. apply Z.leb_le. auto.
  - reflexivity.
  - intros HD. apply known_D23_false in HD.
    destruct (o_car (f_o f)) as [|d|d] eqn:Ec; [reflexivity| |];
      (destruct (t_last_start (f_t f)) as [ls|] eqn:Els; [|reflexivity]);
      apply Z.ltb_lt; specialize (Wb _ eq_refl);
      (destruct HD as [HD|HD]; [discriminate|]);
      (destruct Eg as [Eg|Eg]; [lia|lia]).
Qed.

(* ---------- frames ---------- *)
Definition same_o (s s' : st) : Prop :=
  (length (objs s) <= length (objs s'))%nat /\
  forall id, (id < length (objs s))%nat -> f_o (obj s' id) = f_o (obj s id).

(* nothing a file session looks at has changed *)
Definition same_user (s s' : st) : Prop :=
  queue s' = queue s /\ same_o s s' /\
  (forall id, (id < length (objs s))%nat -> isU id = true ->
     f_t (obj s' id) = f_t (obj s id)) /\
  (forall id, (length (objs s) <= id < length (objs s'))%nat -> isU id = false).

Lemma same_o_refl s : same_o s s.
Proof. split; auto. Qed.

Lemma same_o_trans s1 s2 s3 : same_o s1 s2 -> same_o s2 s3 -> same_o s1 s3.
Proof.
  intros [a b] [c d]. split; [lia|]. intros id H. rewrite d by lia. apply b. assumption.
Qed.

Lemma same_user_refl s : same_user s s.
Proof. repeat split; auto. intros id H. lia. Qed.

Lemma same_user_trans s1 s2 s3 : same_user s1 s2 -> same_user s2 s3 -> same_user s1 s3.
Proof.
  intros (a & b & c & d) (a' & b' & c' & d'). split; [congruence|]. split; [eapply same_o_trans; eassumption|].
  destruct b as [bl bo], b' as [bl' bo']. split.
  - intros id H Hn. rewrite c' by (try lia; assumption). apply c; assumption.
  - intros id H. destruct (Nat.lt_ge_cases id (length (objs s2))) as [Hl|Hl].
    + apply d. lia.
    + apply d'. lia.
Qed.

Lemma same_o_user_fwd s s' id : same_o s s' -> fdtobj s id -> fdtobj s' id.
Proof.
  intros [a b] (H1 & H2 & H3). unfold fdtobj. rewrite b by assumption. split; [lia|]. split; assumption.
Qed.

Lemma same_user_user s s' id : same_user s s' -> (user s id <-> user s' id).
Proof.
  intros (_ & [a b] & _ & d). unfold user. split.
  - intros [H1 H2]. split; [lia|assumption].
  - intros [H1 H2]. destruct (Nat.lt_ge_cases id (length (objs s))) as [Hl|Hl].
    + auto.
    + exfalso. rewrite (d id) in H2 by lia. discriminate.
Qed.

Lemma same_user_uniq s s' : same_user s s' -> toi_uniq s -> toi_uniq s'.
Proof.
  intros SU U i j Hi Hj E. pose proof SU as (_ & [a b] & _ & _).
  apply (same_user_user _ _ _ SU) in Hi. apply (same_user_user _ _ _ SU) in Hj.
  apply U; [assumption|assumption|]. unfold toi_of in *. destruct Hi, Hj.
  rewrite !b in E by assumption. exact E.
Qed.

Lemma same_user_InvL T L s s' : same_user s s' -> InvL T L s -> InvL T L s'.
Proof.
  intros SU [a b c d e f]. pose proof SU as (q & [sl so] & st & _).
  constructor; auto.
  - rewrite q. assumption.
  - intros id Hi. rewrite q in Hi. apply (same_user_user _ _ _ SU). auto.
  - eapply same_user_uniq; eassumption.
  - intros id Hi. rewrite q in Hi. destruct (c id (in_or_app _ _ _ (or_intror Hi))) as [u1 u2].
    rewrite st by assumption. auto.
  - intros ss id en H1 H2 H3.
    assert (Hu : user s id) by (apply c, in_or_app; left; apply in_held; exists ss; auto).
    destruct Hu as [u1 u2]. rewrite st by assumption. eauto.
Qed.

Lemma obj_ext s s' : objs s' = objs s -> forall id, obj s' id = obj s id.
Proof. intros H id. unfold obj. rewrite H. reflexivity. Qed.

Lemma same_user_ext s s' : objs s' = objs s -> queue s' = queue s -> same_user s s'.
Proof.
  intros Ho Hq. split; [assumption|]. split; [split; [rewrite Ho; lia|intros; rewrite (obj_ext _ _ Ho); reflexivity]|].
  split; [intros; rewrite (obj_ext _ _ Ho); reflexivity|]. intros id H. rewrite Ho in H. lia.
Qed.

(* an update of the TransferInfo of an FDT object is invisible to file sessions *)
Lemma same_user_upd_fdt s c g : fdtobj s c -> same_user s (upd_t s c g).
Proof.
  intros (H1 & (H2 & H2') & H3). split; [reflexivity|]. split; [split; [rewrite objs_upd_t; lia|intros; apply obj_upd_t_o]|].
  split.
  - intros id Hl Hn. destruct (Nat.eq_dec id c) as [->|N]; [congruence|]. rewrite obj_upd_t_other by assumption. reflexivity.
  - intros id H. rewrite objs_upd_t in H. lia.
Qed.

(* ---------- publish ---------- *)
Lemma fold_setpub : forall fl l,
  length (fold_left (fun ob fid => upd_nth fid set_pub ob) fl l) = length l /\
  forall id, f_o (nth id (fold_left (fun ob fid => upd_nth fid set_pub ob) fl l) dummy_f) = f_o (nth id l dummy_f)
          /\ f_t (nth id (fold_left (fun ob fid => upd_nth fid set_pub ob) fl l) dummy_f) = f_t (nth id l dummy_f).
Proof.
  induction fl as [|a fl IH]; intros l; cbn [fold_left]; [auto|].
  destruct (IH (upd_nth a set_pub l)) as [Hl Hn]. split; [rewrite Hl; apply upd_nth_len|].
  intros id. destruct (Hn id) as [-> ->].
  destruct (Nat.eq_dec id a) as [->|N]; [|rewrite nth_upd_nth_neq by congruence; auto].
  destruct (Nat.lt_ge_cases a (length l)) as [L|L].
  - rewrite nth_upd_nth_eq by assumption. auto.
  - rewrite !nth_overflow; auto. rewrite upd_nth_len. assumption.
Qed.

Section Oracles.
  Variable fdt_npk : N -> nat.
  Variable fdt_ok : N -> bool.
  Variable divf : Z -> N -> option Z.

  Notation publish := (publish fdt_npk fdt_ok).

  Lemma publish_fields now s :
    queue (snd (publish now s)) = queue s /\ cur_fdt (snd (publish now s)) = cur_fdt s /\
    fdt_session (snd (publish now s)) = fdt_session s /\ squeues (snd (publish now s)) = squeues s /\
    full_fdt (snd (publish now s)) = full_fdt s /\ files (snd (publish now s)) = files s.
  Proof. unfold SenderCtl.publish. destruct (fdt_ok (fdtid s)); cbn; auto 10. Qed.

  Lemma Ubound_mono s s' : Ubound s -> (length (objs s) <= length (objs s'))%nat -> Ubound s'.
  Proof. intros B H id Hi. apply B. lia. Qed.

  Lemma publish_same_user now s : Ubound s -> same_user s (snd (publish now s)).
  Proof.
    intros UB.
    unfold SenderCtl.publish. destruct (fdt_ok (fdtid s)); cbn [snd]; [|apply same_user_refl].
    set (fo := mk_fdesc _ true dummy_t).
    destruct (fold_setpub (files s) (objs s ++ [fo])) as [Hl Hn].
    unfold same_user, same_o, obj. cbn [queue objs]. rewrite Hl, app_length. cbn [length].
    split; [reflexivity|]. split; [split; [lia|]|split].
    - intros id H. destruct (Hn id) as [-> _]. rewrite app_nth1 by assumption. reflexivity.
    - intros id H _. destruct (Hn id) as [_ ->]. rewrite app_nth1 by assumption. reflexivity.
    - intros id H. apply UB. lia.
  Qed.

  Lemma publish_fdtq now s : Ubound s ->
    fdtq (snd (publish now s)) = fdtq s \/
    (fdtq (snd (publish now s)) = fdtq s ++ [length (objs s)] /\ fdtobj (snd (publish now s)) (length (objs s))).
  Proof.
    intros UB. unfold SenderCtl.publish. destruct (fdt_ok (fdtid s)); cbn [snd]; [right|left; reflexivity].
    set (fo := mk_fdesc _ true dummy_t).
    destruct (fold_setpub (files s) (objs s ++ [fo])) as [Hl Hn].
    split; [reflexivity|]. unfold fdtobj, obj. cbn [objs]. rewrite Hl, app_length. cbn [length].
    destruct (Hn (length (objs s))) as [-> _]. rewrite app_nth2 by lia. rewrite Nat.sub_diag. cbn.
    split; [lia|]. split; [|reflexivity]. split; [apply UB; lia|discriminate].
  Qed.
End Oracles.

Lemma fdtobj_ext s s' c : objs s' = objs s -> fdtobj s c -> fdtobj s' c.
Proof. intros H. unfold fdtobj. rewrite (obj_ext _ _ H), H. auto. Qed.

Lemma same_user_fdtobj s s' c : same_user s s' -> fdtobj s c -> fdtobj s' c.
Proof. intros (_ & H & _). apply same_o_user_fwd. assumption. Qed.

(* ---------- the FDT session is invisible to the file sessions ---------- *)
Section FdtSession.
  Variable fdt_npk : N -> nat.
  Variable fdt_ok : N -> bool.
  Variable divf : Z -> N -> option Z.

  Notation publish := (publish fdt_npk fdt_ok).
  Notation session_run := (session_run fdt_npk fdt_ok divf).
  Notation get_next_fdt_transfer := (get_next_fdt_transfer fdt_npk fdt_ok divf).

  Lemma transfer_done_fdt id now s : fdtobj s id ->
    same_user s (transfer_done id now s) /\ fdtq (transfer_done id now s) = fdtq s /\
    (cur_fdt (transfer_done id now s) = cur_fdt s \/ cur_fdt (transfer_done id now s) = None) /\
    fdt_session (transfer_done id now s) = fdt_session s /\ squeues (transfer_done id now s) = squeues s.
  Proof.
    intros F. pose proof F as (F1 & F2 & F3). unfold transfer_done.
    rewrite obj_upd_t_o, F3. change (0 =? 0) with true. cbv iota.
    pose proof (same_user_upd_fdt s id (t_done now) F) as SU.
    destruct (is_expired _).
    - split; [|cbn; auto]. eapply same_user_trans; [exact SU|]. apply same_user_ext; reflexivity.
    - split; [exact SU|cbn; auto].
  Qed.

  Lemma gnfdt_frame now s oc s' : Ubound s ->
    (forall c, cur_fdt s = Some c -> fdtobj s c) -> (forall c, In c (fdtq s) -> fdtobj s c) ->
    get_next_fdt_transfer now s = ROk _ (oc, s') ->
    same_user s s' /\ (forall c, cur_fdt s' = Some c -> fdtobj s' c) /\
    (forall c, In c (fdtq s') -> fdtobj s' c) /\ (forall c, oc = Some c -> fdtobj s' c) /\
    fdt_session s' = fdt_session s /\ squeues s' = squeues s.
  Proof.
    intros UB Hc Hq. unfold SenderCtl.get_next_fdt_transfer.
    destruct (match cur_fdt s with Some c => t_transferring (f_t (obj s c)) | None => false end).
    { intros E; inversion E; subst. split; [apply same_user_refl|].
      split; [assumption|]. split; [assumption|]. split; [discriminate|]. split; reflexivity. }
    set (s1 := if current_fdt_will_expire now s then snd (publish now s) else s).
    assert (S1 : same_user s s1 /\ (forall c, cur_fdt s1 = Some c -> fdtobj s1 c) /\
                 (forall c, In c (fdtq s1) -> fdtobj s1 c) /\ fdt_session s1 = fdt_session s /\ squeues s1 = squeues s).
    { unfold s1. destruct (current_fdt_will_expire now s); [|split; [apply same_user_refl|auto]].
      pose proof (publish_same_user fdt_npk fdt_ok now s UB) as SU.
      destruct (publish_fields fdt_npk fdt_ok now s) as (_ & Ec & Ef & Es & _).
      split; [exact SU|]. split; [|split; [|auto]].
      - intros c E. rewrite Ec in E. eapply same_user_fdtobj; eauto.
      - intros c Hi. destruct (publish_fdtq fdt_npk fdt_ok now s UB) as [E|[E F]]; rewrite E in Hi.
        + eapply same_user_fdtobj; eauto.
        + apply in_app_or in Hi. destruct Hi as [Hi|[<-|[]]]; [eapply same_user_fdtobj; eauto|exact F]. }
    clearbody s1. destruct S1 as (SU1 & C1 & Q1 & F1 & X1).
    set (s2 := match fdtq s1 with [] => s1 | x :: r => set_cur_fdt (set_fdtq s1 r) (Some x) end).
    assert (S2 : objs s2 = objs s1 /\ queue s2 = queue s1 /\ (forall c, cur_fdt s2 = Some c -> fdtobj s1 c) /\
                 (forall c, In c (fdtq s2) -> fdtobj s1 c) /\ fdt_session s2 = fdt_session s1 /\ squeues s2 = squeues s1).
    { unfold s2. destruct (fdtq s1) as [|x r] eqn:Eq.
      { split; [reflexivity|]. split; [reflexivity|]. split; [assumption|]. split; [|auto]. rewrite Eq. intros c []. }
      cbn. split; [reflexivity|]. split; [reflexivity|]. split; [|split; [|auto]].
      - intros c E. inversion E; subst. apply Q1. left; reflexivity.
      - intros c Hi. apply Q1. right; assumption. }
    clearbody s2. destruct S2 as (O2 & QQ2 & C2 & Q2 & F2 & X2).
    assert (SU2 : same_user s s2) by (eapply same_user_trans; [exact SU1|apply same_user_ext; assumption]).
    assert (C2' : forall c, cur_fdt s2 = Some c -> fdtobj s2 c) by (intros c E; eapply fdtobj_ext; eauto).
    assert (Q2' : forall c, In c (fdtq s2) -> fdtobj s2 c) by (intros c E; eapply fdtobj_ext; eauto).
    assert (Done : forall oc', oc' = None -> ROk _ (oc', s2) = ROk _ (oc, s') -> 
       same_user s s' /\ (forall c, cur_fdt s' = Some c -> fdtobj s' c) /\
       (forall c, In c (fdtq s') -> fdtobj s' c) /\ (forall c, oc = Some c -> fdtobj s' c) /\
       fdt_session s' = fdt_session s /\ squeues s' = squeues s).
    { intros oc' -> E. inversion E; subst. split; [assumption|].
      split; [assumption|]. split; [assumption|]. split; [discriminate|]. split; congruence. }
    destruct (cur_fdt s2) as [c|] eqn:Ec; [|apply Done; reflexivity].
    destruct (should_transfer_now _ _ _ _); [|apply Done; reflexivity].
    unfold transfer_started. destruct (t_init _ _ _ _) as [t'|]; [|discriminate].
    intros E; inversion E; subst.
    pose proof (same_user_upd_fdt s2 c (fun _ => t') (C2' c eq_refl)) as SU3.
    split; [eapply same_user_trans; eassumption|].
    pose proof (C2' c eq_refl) as Fc.
    split; [intros x E'; cbn in E'; rewrite Ec in E'; inversion E'; subst; eapply same_user_fdtobj; eauto|].
    split; [intros x E'; cbn in E'; eapply same_user_fdtobj; eauto|].
    split; [intros x E'; inversion E'; subst; eapply same_user_fdtobj; eauto|].
    cbn. split; congruence.
  Qed.
End FdtSession.

Section FdtRun.
  Variable fdt_npk : N -> nat.
  Variable fdt_ok : N -> bool.
  Variable divf : Z -> N -> option Z.
  Notation session_run := (session_run fdt_npk fdt_ok divf).

  Lemma same_user_Ubound s s' : same_user s s' -> Ubound s -> Ubound s'.
  Proof. intros (_ & [a _] & _) B. eapply Ubound_mono; eassumption. Qed.

  Lemma fdt_run_frame : forall fuel ssf now s o ssf' s', Ubound s ->
    GF ssf s -> session_run fuel ssf now s = (o, ssf', s') ->
    same_user s s' /\ GF ssf' s' /\ (forall toi c, o <> RObj toi c) /\
    fdt_session s' = fdt_session s /\ squeues s' = squeues s.
  Proof.
    induction fuel as [|f IH]; intros ssf now s o ssf' s' UB G H; cbn [SenderCtl.session_run] in H.
    { inversion H; subst. split; [apply same_user_refl|]. split; [assumption|]. split; [discriminate|auto]. }
    set (r := match ss_enc ssf with None => get_next fdt_npk fdt_ok divf ssf now s | Some _ => ROk _ (ssf, s) end) in H.
    assert (Stop : forall o1, (forall toi c, o1 <> RObj toi c) -> (o1, ssf, s) = (o, ssf', s') ->
       same_user s s' /\ GF ssf' s' /\ (forall toi c, o <> RObj toi c) /\
       fdt_session s' = fdt_session s /\ squeues s' = squeues s).
    { intros o1 Ho E. inversion E; subst. split; [apply same_user_refl|]. split; [assumption|]. split; [assumption|auto]. }
    assert (R : forall ss1 s1, r = ROk _ (ss1, s1) ->
              same_user s s1 /\ GF ss1 s1 /\ fdt_session s1 = fdt_session s /\ squeues s1 = squeues s).
    { intros ss1 s1 E. unfold r in E. destruct G as (G1 & G2 & G3 & G4). destruct (ss_enc ssf).
      - inversion E; subst. split; [apply same_user_refl|]. split; [exact (conj G1 (conj G2 (conj G3 G4)))|auto].
      - unfold get_next in E. rewrite G1 in E.
        destruct (get_next_fdt_transfer fdt_npk fdt_ok divf now s) as [[oc s2]|] eqn:En; [|discriminate].
        apply gnfdt_frame in En; [|assumption|assumption|assumption]. destruct En as (SU & C & Q & O & F & X).
        destruct oc as [c|]; inversion E; subst; (split; [assumption|]); (split; [|auto]);
          (split; [reflexivity|]); (split; [|split; assumption]); cbn [ss_file]; intros x Ex; inversion Ex; subst.
        apply O. reflexivity. }
    destruct r as [[ss1 s1]|]; [|apply (Stop RPanic); [discriminate|assumption]].
    destruct (R ss1 s1 eq_refl) as (SU1 & G1 & F1 & X1). clear R Stop.
    assert (Stop : forall o1, (forall toi c, o1 <> RObj toi c) -> (o1, ss1, s1) = (o, ssf', s') ->
       same_user s s' /\ GF ssf' s' /\ (forall toi c, o <> RObj toi c) /\
       fdt_session s' = fdt_session s /\ squeues s' = squeues s).
    { intros o1 Ho E. inversion E; subst. split; [assumption|]. split; [assumption|]. split; [assumption|auto]. }
    pose proof G1 as (Gf & Gfile & Gc & Gq). rewrite Gf in H. cbn [negb andb] in H.
    destruct (ss_enc ss1) as [e|]; [|apply (Stop RNothing); [discriminate|assumption]].
    destruct (ss_file ss1) as [id|]; [|apply (Stop RNothing); [discriminate|assumption]].
    pose proof (Gfile id eq_refl) as Fid.
    destruct (match t_next_ts (f_t (obj s1 id)) with Some ts => (now <? ts)%Z | None => false end);
      [apply (Stop RNothing); [discriminate|assumption]|].
    destruct (enc_read _ e) as [[close|] e'].
    - inversion H; subst. pose proof (same_user_upd_fdt s1 id t_tickf Fid) as SU2.
      split; [eapply same_user_trans; eassumption|].
      split; [|split; [|cbn; auto]].
      + split; [reflexivity|]. split; [|split].
        * cbn [ss_file]. intros x Ex; inversion Ex; subst. eapply same_user_fdtobj; eauto.
        * intros x Ex. cbn in Ex. eapply same_user_fdtobj; eauto.
        * intros x Ex. cbn in Ex. eapply same_user_fdtobj; eauto.
      + destruct Fid as (_ & (_ & Fn) & _). destruct (o_fdtid (f_o (obj s1 id))); [discriminate|congruence].
    - destruct (transfer_done_fdt id now s1 Fid) as (SU2 & Q2 & C2 & F2 & X2).
      apply IH in H; [| |].
      + destruct H as (SU3 & G3 & O3 & F3 & X3).
        split; [eapply same_user_trans; [exact SU1|eapply same_user_trans; eassumption]|].
        split; [assumption|]. split; [assumption|]. split; congruence.
      + eapply same_user_Ubound; [exact SU2|]. eapply same_user_Ubound; eassumption.
      + split; [reflexivity|]. split; [cbn; discriminate|]. split.
        * intros x Ex. destruct C2 as [C2|C2]; rewrite C2 in Ex; [|discriminate]. eapply same_user_fdtobj; eauto.
        * intros x Ex. rewrite Q2 in Ex. eapply same_user_fdtobj; eauto.
  Qed.
End FdtRun.

(* ---------- TransferInfo transitions ---------- *)
Lemma wf_t_done now t : wf_t now t -> wf_t now (t_done now t).
Proof.
  intros (a & b & c & d). unfold wf_t. cbn [t_done t_last_end t_last_start t_count t_transferring t_start_time].
  split; [intros le E; inversion E; lia|]. split; [assumption|]. split; [right; right; lia|discriminate].
Qed.

Lemma t_init_spec divf o now t t' : t_init divf o now t = Some t' ->
  exists cnt nx tk, t' = mk_tinfo true cnt (t_total t) (t_last_end t) (Some now) nx tk (t_start_time t)
                    /\ (forall k, tk = Some k -> nx = Some now).
Proof.
  unfold t_init. intros H.
  destruct (match o_target o with
            | TNone | TFast => Some None
            | TDuration d => match divf d (N.max 1 (o_nsrc o)) with Some k => Some (Some k) | None => None end
            | TTime tm => match divf (Z.max 0 (tm - now)) (N.max 1 (o_nsrc o)) with Some k => Some (Some k) | None => None end
            end) as [tk|]; [|discriminate].
  inversion H; subst. do 3 eexists. split; [reflexivity|]. intros k ->. reflexivity.
Qed.

Lemma wf_t_init divf o now t t' e :
  wf_t now t -> (forall stt, t_start_time t = Some stt -> (stt <= now)%Z) ->
  t_init divf o now t = Some t' -> e_sent e = 0 ->
  t_transferring t' = true /\ wf_t now t' /\ pace_ok t' e.
Proof.
  intros (a & b & c & d) Hs H He. apply t_init_spec in H. destruct H as (cnt & nx & tk & -> & Hk).
  split; [reflexivity|]. split.
  - unfold wf_t. cbn [t_last_end t_last_start t_count t_transferring t_start_time].
    split; [assumption|]. split; [intros ls E; inversion E; lia|]. split; [right; left; reflexivity|].
    intros _. split; [discriminate|assumption].
  - intros k Ek. cbn [t_tick] in Ek. exists now. cbn [t_last_start t_next_ts]. split; [reflexivity|].
    rewrite (Hk k Ek), He. f_equal. change (Z.of_N 0) with 0%Z. lia.
Qed.

Lemma wf_t_tick T t : wf_t T t -> wf_t T (t_tickf t).
Proof. unfold t_tickf. destruct (t_tick t); [|auto]. destruct (t_next_ts t); auto. Qed.

Lemma transferring_tick t : t_transferring (t_tickf t) = t_transferring t.
Proof. unfold t_tickf. destruct (t_tick t); [|auto]. destruct (t_next_ts t); auto. Qed.

Lemma pace_ok_tick t e e' : pace_ok t e -> e_sent e' = e_sent e + 1 -> pace_ok (t_tickf t) e'.
Proof.
  intros P He k Ek. unfold t_tickf in *. destruct (t_tick t) as [k0|] eqn:E0.
  - destruct (P k0 E0) as (ls & E1 & E2). rewrite E2 in Ek |- *. cbn [t_tick t_last_start t_next_ts] in *.
    inversion Ek; subst k0. exists ls. split; [assumption|]. f_equal. rewrite He, N2Z.inj_add. change (Z.of_N 1) with 1%Z. lia.
  - rewrite E0 in Ek. discriminate.
Qed.

Lemma enc_read_some f e c e' : enc_read f e = (Some c, e') ->
  enc_has_packet e = true /\ e_sent e' = e_sent e + 1.
Proof.
  unfold enc_read, enc_has_packet. destruct (e_stopped e); [discriminate|]. cbn [negb andb].
  destruct (e_left e) as [|l].
  - destruct (N.eqb_spec (e_sent e) 0) as [E|E]; intros H; inversion H; subst. cbn. rewrite E. split; reflexivity.
  - intros H; inversion H; subst. cbn. split; reflexivity.
Qed.

Lemma enc_read_none f e e' : enc_read f e = (None, e') -> enc_has_packet e = false.
Proof.
  unfold enc_read, enc_has_packet. destruct (e_stopped e); [reflexivity|]. cbn [negb andb].
  destruct (e_left e) as [|l]; [|discriminate].
  destruct (N.eqb_spec (e_sent e) 0) as [E|E]; intros H; inversion H; subst. reflexivity.
Qed.

(* ---------- list surgery ---------- *)
Lemma in_replace {A} (L1 L2 : list A) a b x : In x (L1 ++ a :: L2) -> x = a \/ In x (L1 ++ b :: L2).
Proof.
  intros H. apply in_app_or in H. destruct H as [H|[H|H]]; [right|left; auto|right]; apply in_or_app; cbn; auto.
Qed.

Lemma in_replace_side {A} (L1 L2 : list A) a x : In x L1 \/ In x L2 -> In x (L1 ++ a :: L2).
Proof. intros [H|H]; apply in_or_app; cbn; auto. Qed.

Lemma in_replace_cases {A} (L1 L2 : list A) a x : In x (L1 ++ a :: L2) -> x = a \/ In x L1 \/ In x L2.
Proof. intros H. apply in_app_or in H. destruct H as [H|[H|H]]; auto. Qed.

Lemma held_replace L1 ss L2 : held (L1 ++ ss :: L2) = held L1 ++ hfile ss ++ held L2.
Proof. rewrite held_app. reflexivity. Qed.

Lemma objs_upd_facts s s' i g : objs s' = objs (upd_t s i g) ->
  length (objs s') = length (objs s) /\ (forall x, f_o (obj s' x) = f_o (obj s x)) /\
  (forall x, x <> i -> obj s' x = obj s x) /\
  ((i < length (objs s))%nat -> obj s' i = mk_fdesc (f_o (obj s i)) (f_pub (obj s i)) (g (f_t (obj s i)))).
Proof.
  intros H. split; [rewrite H; apply objs_upd_t|]. split; [intros x; rewrite (obj_ext _ _ H); apply obj_upd_t_o|].
  split; [intros x N; rewrite (obj_ext _ _ H); apply obj_upd_t_other; assumption|].
  intros L. rewrite (obj_ext _ _ H). apply obj_upd_t_same. assumption.
Qed.

Lemma upd_user s s' i g x : objs s' = objs (upd_t s i g) -> (user s x <-> user s' x).
Proof. intros H. destruct (objs_upd_facts _ _ _ _ H) as (a & b & _). unfold user. rewrite a. tauto. Qed.

Lemma upd_fdtobj s s' i g x : objs s' = objs (upd_t s i g) -> fdtobj s x -> fdtobj s' x.
Proof. intros H. destruct (objs_upd_facts _ _ _ _ H) as (a & b & _). unfold fdtobj. rewrite a, b. tauto. Qed.

Lemma upd_uniq s s' i g : objs s' = objs (upd_t s i g) -> toi_uniq s -> toi_uniq s'.
Proof.
  intros H U x y Hx Hy E. apply (upd_user _ _ _ _ _ H) in Hx. apply (upd_user _ _ _ _ _ H) in Hy.
  destruct (objs_upd_facts _ _ _ _ H) as (_ & b & _). unfold toi_of in E. rewrite !b in E. apply U; assumption.
Qed.

Lemma upd_same_o s s' i g : objs s' = objs (upd_t s i g) -> same_o s s'.
Proof. intros H. destruct (objs_upd_facts _ _ _ _ H) as (a & b & _). split; [lia|intros; apply b]. Qed.

(* objects are only appended, never re-described, and what a read or a publish appends are FDT instances *)
Definition ext_o (s s' : st) : Prop :=
  same_o s s' /\
  forall id, (length (objs s) <= id < length (objs s'))%nat -> isU id = false.

Lemma ext_o_refl s : ext_o s s.
Proof. split; [apply same_o_refl|intros id H; lia]. Qed.

Lemma ext_o_trans s1 s2 s3 : ext_o s1 s2 -> ext_o s2 s3 -> ext_o s1 s3.
Proof.
  intros [a b] [c d]. split; [eapply same_o_trans; eassumption|].
  intros id H. destruct (Nat.lt_ge_cases id (length (objs s2))) as [Hl|Hl].
  - apply b. lia.
  - apply d. lia.
Qed.

Lemma same_user_ext_o s s' : same_user s s' -> ext_o s s'.
Proof. intros (_ & a & _ & b). split; assumption. Qed.

Lemma upd_ext_o s s' i g : objs s' = objs (upd_t s i g) -> ext_o s s'.
Proof.
  intros H. split; [eapply upd_same_o; eassumption|]. destruct (objs_upd_facts _ _ _ _ H) as (a & _).
  intros id Hi. lia.
Qed.

Lemma ext_o_user s s' id : ext_o s s' -> (user s id <-> user s' id).
Proof.
  intros [[a b] d]. unfold user. split.
  - intros [H1 H2]. split; [lia|assumption].
  - intros [H1 H2]. destruct (Nat.lt_ge_cases id (length (objs s))) as [Hl|Hl].
    + auto.
    + exfalso. rewrite (d id) in H2 by lia. discriminate.
Qed.

(* ---------- one read, seen from the state before it ---------- *)
Section ReadStep.
  Variable fdt_npk : N -> nat.
  Variable fdt_ok : N -> bool.
  Variable divf : Z -> N -> option Z.
  Variables now T0 : Z.
  Variable s0 : st.
  Hypothesis HT : (T0 <= now)%Z.
  Hypothesis I0 : InvL T0 (flat (squeues s0)) s0.
  Hypothesis B0 : Ubound s0.
  Let L0 := flat (squeues s0).

  (* the object is started in this read, from what it was before the read *)
  Definition Pre (id : nat) : Prop :=
    (In id (queue s0) /\ elig now (f_o (obj s0 id)) (f_t (obj s0 id))) \/
    (exists ss0 e0, In ss0 L0 /\ ss_file ss0 = Some id /\ ss_enc ss0 = Some e0 /\ enc_has_packet e0 = false
       /\ elig now (f_o (obj s0 id)) (t_done now (f_t (obj s0 id)))).

  Inductive St (L : list session) (s : st) (id : nat) : Prop :=
  | St_Uq : In id (queue s0) -> In id (queue s) -> f_t (obj s id) = f_t (obj s0 id) -> St L s id
  | St_Uh ss : In ss L -> In ss L0 -> ss_file ss = Some id -> f_t (obj s id) = f_t (obj s0 id) -> St L s id
  | St_D ss0 e0 : In id (queue s) -> In ss0 L0 -> ss_file ss0 = Some id -> ss_enc ss0 = Some e0 ->
                  enc_has_packet e0 = false -> f_t (obj s id) = t_done now (f_t (obj s0 id)) -> St L s id
  | St_S ss e : In ss L -> ss_file ss = Some id -> ss_enc ss = Some e -> enc_has_packet e = true ->
                Pre id -> St L s id.

  Record M (L : list session) (s : st) : Prop := mkM {
    m_inv : InvL now L s;
    m_gf : GF (fdt_session s) s;
    m_o : ext_o s0 s;
    m_bound : Ubound s;
    m_st : forall id, In id (held L ++ queue s) -> St L s id
  }.

  Lemma St_frame L s L' s' id : St L s id ->
    f_t (obj s' id) = f_t (obj s id) -> (In id (queue s) -> In id (queue s')) ->
    (forall ss, In ss L -> ss_file ss = Some id -> In ss L') -> St L' s' id.
  Proof.
    intros H Ht Hq Hs. destruct H as [a b c|ss a b c d|ss0 e0 a b c d e f|ss e a b c d p].
    - apply St_Uq; auto. congruence.
    - apply (St_Uh _ _ _ ss); auto. congruence.
    - apply (St_D _ _ _ ss0 e0); auto. congruence.
    - apply (St_S _ _ _ ss e); auto.
  Qed.

  Lemma M_same_user L s s' : M L s -> same_user s s' -> GF (fdt_session s') s' -> M L s'.
  Proof.
    intros [a b c bd d] SU G. constructor; [eapply same_user_InvL; eassumption|assumption| | |].
    - eapply ext_o_trans; [eassumption|apply same_user_ext_o; assumption].
    - eapply same_user_Ubound; eassumption.
    - intros id Hi. pose proof SU as (q & _ & st & _). rewrite q in Hi.
      destruct (iv_user _ _ _ a id Hi) as [u1 u2].
      apply (St_frame L s); [apply d; assumption|apply st; assumption|rewrite q; auto|auto].
  Qed.

  Lemma M_start : GF (fdt_session s0) s0 -> M L0 s0.
  Proof.
    intros G. constructor; [eapply InvL_mono; eassumption|assumption|apply ext_o_refl|exact B0|].
    intros id Hi. apply in_app_or in Hi. destruct Hi as [Hi|Hi].
    - apply in_held in Hi. destruct Hi as (ss & H1 & H2). apply (St_Uh _ _ _ ss); auto.
    - apply St_Uq; auto.
  Qed.

  (* ----- a session releases its object: transfer_done ----- *)
  Lemma transfer_done_fields id s :
    objs (transfer_done id now s) = objs (upd_t s id (t_done now)) /\
    (queue (transfer_done id now s) = queue s \/ queue (transfer_done id now s) = queue s ++ [id]) /\
    fdtq (transfer_done id now s) = fdtq s /\
    (cur_fdt (transfer_done id now s) = cur_fdt s \/ cur_fdt (transfer_done id now s) = None) /\
    fdt_session (transfer_done id now s) = fdt_session s /\
    squeues (transfer_done id now s) = squeues s.
  Proof.
    unfold transfer_done. destruct (o_toi _ =? 0).
    - destruct (is_expired _); cbn; auto 10.
    - destruct (negb (is_added _ _)); [cbn; auto 10|]. destruct (negb (is_expired _)); cbn; auto 10.
  Qed.

  Lemma M_done L1 ss L2 s id e :
    M (L1 ++ ss :: L2) s -> ss_file ss = Some id -> ss_enc ss = Some e -> enc_has_packet e = false ->
    M (L1 ++ mk_session (ss_prio ss) (ss_fdt_only ss) None None :: L2) (transfer_done id now s).
  Proof.
    intros [Iv G So Bd Sts] Hf He Hp.
    destruct (transfer_done_fields id s) as (Ho & Hq & Hfq & Hc & Hfs & _).
    set (s' := transfer_done id now s) in *. clearbody s'.
    set (ss' := mk_session _ _ None None).
    assert (Hin : In ss (L1 ++ ss :: L2)) by (apply in_or_app; right; left; reflexivity).
    destruct (iv_held _ _ _ Iv ss id e Hin Hf He) as (Htr & Hwf & Hpace).
    pose proof (iv_user_held _ _ _ _ _ Iv Hin Hf) as Hu.
    destruct (objs_upd_facts _ _ _ _ Ho) as (Ol & Oo & Oother & Osame). specialize (Osame (proj1 Hu)).
    pose proof (iv_nodup _ _ _ Iv) as ND. rewrite held_replace in ND. unfold hfile in ND. rewrite Hf in ND.
    rewrite <- app_assoc in ND. cbn [app] in ND.
    assert (Hnid : ~ In id (held L1 ++ held L2 ++ queue s)) by (apply NoDup_remove_2 in ND; exact ND).
    assert (ND' : NoDup (held L1 ++ held L2 ++ queue s)) by (apply NoDup_remove_1 in ND; exact ND).
    assert (Hheld' : held (L1 ++ ss' :: L2) = held L1 ++ held L2) by (rewrite held_replace; reflexivity).
    assert (Hheld : forall x, In x (held (L1 ++ ss :: L2) ++ queue s) <-> x = id \/ In x (held L1 ++ held L2 ++ queue s)).
    { intros x. rewrite held_replace. unfold hfile. rewrite Hf. rewrite !in_app_iff. cbn [In]. intuition. }
    assert (Hlive : forall x, In x (held (L1 ++ ss' :: L2) ++ queue s') ->
              (x <> id /\ In x (held L1 ++ held L2 ++ queue s)) \/ (x = id /\ queue s' = queue s ++ [id])).
    { intros x Hx. rewrite Hheld' in Hx. destruct Hq as [Hq|Hq]; rewrite Hq in Hx.
      - left. rewrite <- app_assoc in Hx. split; [intros ->; auto|assumption].
      - rewrite !in_app_iff in Hx. cbn [In] in Hx.
        destruct (Nat.eq_dec x id) as [->|N]; [right; auto|left]. split; [assumption|].
        rewrite !in_app_iff. intuition congruence. }
    assert (Hss : forall ss2 x, In ss2 (L1 ++ ss' :: L2) -> ss_file ss2 = Some x -> (In ss2 L1 \/ In ss2 L2) /\ x <> id).
    { intros ss2 x H2 F2. apply in_replace_cases in H2. destruct H2 as [->|H2]; [discriminate|].
      split; [assumption|]. intros ->. apply Hnid. rewrite !in_app_iff.
      destruct H2 as [H2|H2]; [left|right; left]; apply in_held; exists ss2; auto. }
    constructor.
    - constructor.
      + pose proof (iv_wf _ _ _ Iv) as W. apply Forall_app in W. destruct W as [W1 W2]. inversion W2; subst.
        apply Forall_app. split; [assumption|]. constructor; [|assumption].
        destruct H1 as [w1 _]. split; [exact w1|exact I].
      + rewrite Hheld'. destruct Hq as [Hq|Hq]; rewrite Hq; rewrite <- app_assoc; [exact ND'|].
        eapply Permutation_NoDup; [|exact ND]. apply Permutation_app_head.
        rewrite (app_assoc (held L2)). apply Permutation_cons_append.
      + intros x Hx. apply (upd_user _ _ _ _ _ Ho). destruct (Hlive x Hx) as [[_ H]|[-> _]]; [|exact Hu].
        apply (iv_user _ _ _ Iv). apply Hheld. right; assumption.
      + eapply upd_uniq; [exact Ho|]. apply (iv_uniq _ _ _ Iv).
      + intros x Hx.
        assert (Hc2 : In x (queue s) \/ (x = id /\ queue s' = queue s ++ [id])).
        { destruct Hq as [Hq|Hq]; rewrite Hq in Hx; [left; assumption|]. apply in_app_or in Hx.
          destruct Hx as [Hx|[<-|[]]]; auto. }
        destruct Hc2 as [Hx'|[-> _]].
        * assert (x <> id) by (intros ->; apply Hnid; rewrite !in_app_iff; auto).
          rewrite Oother by assumption. apply (iv_queue _ _ _ Iv). assumption.
        * rewrite Osame. cbn [f_t]. split; [reflexivity|apply wf_t_done; assumption].
      + intros ss2 x e2 H2 F2 E2. destruct (Hss ss2 x H2 F2) as [Hside Hne]. rewrite Oother by assumption.
        apply (iv_held _ _ _ Iv ss2 x e2); [apply in_replace_side; assumption|assumption|assumption].
    - rewrite Hfs. destruct G as (g1 & g2 & g3 & g4). split; [assumption|].
      split; [intros c E; eapply upd_fdtobj; eauto|]. split.
      + intros c E. destruct Hc as [Hc|Hc]; rewrite Hc in E; [eapply upd_fdtobj; eauto|discriminate].
      + intros c E. rewrite Hfq in E. eapply upd_fdtobj; eauto.
    - eapply ext_o_trans; [exact So|eapply upd_ext_o; exact Ho].
    - eapply Ubound_mono; [exact Bd|rewrite Ol; lia].
    - intros x Hx. destruct (Hlive x Hx) as [[Hne Hold]|[-> Hq2]].
      + apply (St_frame (L1 ++ ss :: L2) s).
        * apply Sts. apply Hheld. right; assumption.
        * rewrite Oother by assumption. reflexivity.
        * intros Hi. destruct Hq as [Hq|Hq]; rewrite Hq; [assumption|apply in_or_app; left; assumption].
        * intros ss2 H2 F2. apply in_replace_cases in H2. destruct H2 as [->|H2]; [congruence|].
          apply in_replace_side. assumption.
      + assert (Hnq : ~ In id (queue s)) by (intros Hi; apply Hnid; rewrite !in_app_iff; auto).
        specialize (Sts id (proj2 (Hheld id) (or_introl eq_refl))).
        destruct Sts as [a b c|ss3 a b c d|ss3 e3 a b c d e' f|ss3 e3 a b c d p].
        * contradiction.
        * assert (ss3 = ss) by (exact (held_unique _ _ _ _ (iv_nodup_held _ _ _ Iv) a Hin c Hf)). subst ss3.
          apply (St_D _ _ _ ss e); try assumption.
          -- rewrite Hq2. apply in_or_app. right. left. reflexivity.
          -- rewrite Osame. cbn [f_t]. rewrite d. reflexivity.
        * contradiction.
        * assert (ss3 = ss) by (exact (held_unique _ _ _ _ (iv_nodup_held _ _ _ Iv) a Hin b Hf)). subst ss3.
          congruence.
  Qed.

  (* ----- a free session takes the first ready object of the waiting list ----- *)
  Lemma elig_of_should f prio full : should_transfer_now f prio full now = true -> elig now (f_o f) (f_t f).
  Proof. intros H. exists (f_pub f), prio, full. destruct f; exact H. Qed.

  Lemma fresh_has_packet n c : enc_has_packet (mk_enc n 0 false c) = true.
  Proof. unfold enc_has_packet. cbn [e_stopped e_left e_sent negb andb]. change (0 =? 0) with true. apply orb_true_r. Qed.

  Lemma gnft_shape prio s oid s' :
    get_next_file_transfer fdt_npk fdt_ok divf prio now s = ROk _ (oid, s') ->
    (oid = None /\ s' = s) \/
    (exists id ahead rest t' sa, oid = Some id /\ queue s = ahead ++ id :: rest /\
        should_transfer_now (obj s id) prio (full_fdt s) now = true /\
        t_init divf (f_o (obj s id)) now (f_t (obj s id)) = Some t' /\
        objs sa = objs (upd_t s id (fun _ => t')) /\ queue sa = ahead ++ rest /\
        fdtq sa = fdtq s /\ cur_fdt sa = cur_fdt s /\ fdt_session sa = fdt_session s /\
        squeues sa = squeues s /\
        (s' = sa \/ s' = snd (publish fdt_npk fdt_ok now sa))).
  Proof.
    unfold get_next_file_transfer. intros H.
    destruct (find_remove _ (queue s)) as [[x q']|] eqn:E; [|inversion H; left; auto].
    right. apply find_remove_first in E. destruct E as (a & b & Ea & Eb & Px & _).
    unfold transfer_started in H.
    set (s1 := log_ev (set_queue s q') (EvStart (toi_of s x))) in *.
    change (obj s1 x) with (obj s x) in H.
    destruct (t_init divf (f_o (obj s x)) now (f_t (obj s x))) as [t'|] eqn:Ti; [|discriminate].
    inversion H; subst oid. exists x, a, b, t', (upd_t s1 x (fun _ => t')).
    split; [reflexivity|]. split; [assumption|]. split; [assumption|]. split; [exact Ti|].
    split; [reflexivity|]. split; [exact Eb|]. split; [reflexivity|]. split; [reflexivity|].
    split; [reflexivity|]. split; [reflexivity|].
    destruct (full_fdt s); auto.
  Qed.

  Lemma M_take L1 ss L2 s id ahead rest t' sa prio n c :
    M (L1 ++ ss :: L2) s -> ss_file ss = None ->
    queue s = ahead ++ id :: rest ->
    should_transfer_now (obj s id) prio (full_fdt s) now = true ->
    t_init divf (f_o (obj s id)) now (f_t (obj s id)) = Some t' ->
    objs sa = objs (upd_t s id (fun _ => t')) -> queue sa = ahead ++ rest ->
    fdtq sa = fdtq s -> cur_fdt sa = cur_fdt s -> fdt_session sa = fdt_session s ->
    M (L1 ++ mk_session (ss_prio ss) false (Some id) (Some (mk_enc n 0 false c)) :: L2) sa.
  Proof.
    intros [Iv G So Bd Sts] Hfl Eq Hsh Hti Ho Hqa Hfq Hcf Hfs.
    set (e0 := mk_enc n 0 false c). set (ssn := mk_session _ false (Some id) (Some e0)).
    assert (Hq_in : In id (queue s)) by (rewrite Eq; apply in_or_app; right; left; reflexivity).
    destruct (iv_queue _ _ _ Iv id Hq_in) as [Htr Hwf].
    pose proof (iv_user_queue _ _ _ _ Iv Hq_in) as Hu.
    destruct (objs_upd_facts _ _ _ _ Ho) as (Ol & Oo & Oother & Osame). specialize (Osame (proj1 Hu)).
    assert (heldL : held (L1 ++ ss :: L2) = held L1 ++ held L2)
      by (rewrite held_replace; unfold hfile; rewrite Hfl; reflexivity).
    assert (heldL' : held (L1 ++ ssn :: L2) = held L1 ++ id :: held L2) by (rewrite held_replace; reflexivity).
    pose proof (iv_nodup _ _ _ Iv) as ND. rewrite heldL, Eq in ND.
    assert (Hset : forall x, In x (held (L1 ++ ssn :: L2) ++ queue sa) <-> In x (held (L1 ++ ss :: L2) ++ queue s)).
    { intros x. rewrite heldL, heldL', Hqa, Eq. rewrite !in_app_iff. cbn [In]. rewrite ?in_app_iff. cbn [In]. tauto. }
    assert (Hnid_h : ~ In id (held L1 ++ held L2)).
    { intros Hi. apply nodup_app in ND. destruct ND as (_ & _ & D). apply (D id Hi).
      apply in_or_app. right. left. reflexivity. }
    assert (Hnid_q : ~ In id (ahead ++ rest)).
    { apply nodup_app in ND. destruct ND as (_ & NQ & _). apply NoDup_remove_2 in NQ. exact NQ. }
    assert (Hss : forall ss2 x, In ss2 (L1 ++ ssn :: L2) -> ss_file ss2 = Some x ->
              (ss2 = ssn /\ x = id) \/ ((In ss2 L1 \/ In ss2 L2) /\ x <> id)).
    { intros ss2 x H2 F2. apply in_replace_cases in H2. destruct H2 as [->|H2].
      - left. cbn in F2. inversion F2. auto.
      - right. split; [assumption|]. intros ->. apply Hnid_h. rewrite in_app_iff.
        destruct H2 as [H2|H2]; [left|right]; apply in_held; exists ss2; auto. }
    assert (Hstart : forall stt, t_start_time (f_t (obj s id)) = Some stt -> (stt <= now)%Z).
    { apply elig_of_should in Hsh. apply elig_facts in Hsh. tauto. }
    constructor.
    - constructor.
      + pose proof (iv_wf _ _ _ Iv) as W. apply Forall_app in W. destruct W as [W1 W2]. inversion W2; subst.
        apply Forall_app. split; [assumption|]. constructor; [|assumption]. split; [reflexivity|exact I].
      + rewrite heldL', Hqa. rewrite <- app_assoc in ND |- *. cbn [app].
        eapply Permutation_NoDup; [|exact ND]. apply Permutation_app_head.
        rewrite (app_assoc (held L2) ahead (id :: rest)), (app_assoc (held L2) ahead rest).
        symmetry. apply Permutation_middle.
      + intros x Hx. apply Hset in Hx. apply (upd_user _ _ _ _ _ Ho). apply (iv_user _ _ _ Iv). assumption.
      + eapply upd_uniq; [exact Ho|]. apply (iv_uniq _ _ _ Iv).
      + intros x Hx. rewrite Hqa in Hx.
        assert (x <> id) by (intros ->; contradiction).
        rewrite Oother by assumption. apply (iv_queue _ _ _ Iv). rewrite Eq.
        rewrite in_app_iff in *. cbn [In]. tauto.
      + intros ss2 x e2 H2 F2 E2. destruct (Hss ss2 x H2 F2) as [[-> ->]|[Hside Hne]].
        * cbn [ss_enc ssn] in E2. inversion E2; subst e2. rewrite Osame. cbn [f_t].
          eapply wf_t_init; [exact Hwf|exact Hstart|exact Hti|reflexivity].
        * rewrite Oother by assumption.
          apply (iv_held _ _ _ Iv ss2 x e2); [apply in_replace_side; assumption|assumption|assumption].
    - rewrite Hfs. destruct G as (g1 & g2 & g3 & g4). split; [assumption|].
      split; [intros x E; eapply upd_fdtobj; eauto|]. split.
      + intros x E. rewrite Hcf in E. eapply upd_fdtobj; eauto.
      + intros x E. rewrite Hfq in E. eapply upd_fdtobj; eauto.
    - eapply ext_o_trans; [exact So|eapply upd_ext_o; exact Ho].
    - eapply Ubound_mono; [exact Bd|rewrite Ol; lia].
    - intros x Hx. apply Hset in Hx. destruct (Nat.eq_dec x id) as [->|N].
      + assert (Hssn : In ssn (L1 ++ ssn :: L2)) by (apply in_or_app; right; left; reflexivity).
        pose proof (elig_of_should _ _ _ Hsh) as El.
        destruct (Sts id Hx) as [a b c'|ss3 a b c' d|ss3 e3 a b c' d e' f|ss3 e3 a b c' d p].
        * apply (St_S _ _ _ ssn e0); [assumption|reflexivity|reflexivity|apply fresh_has_packet|].
          left. split; [assumption|]. rewrite <- c'.
          rewrite <- (proj2 (proj1 So) id (proj1 (iv_user_queue _ _ _ _ I0 a))). exact El.
        * exfalso. apply (iv_disj _ _ _ id Iv); [apply in_held; exists ss3; auto|assumption].
        * apply (St_S _ _ _ ssn e0); [assumption|reflexivity|reflexivity|apply fresh_has_packet|].
          right. exists ss3, e3. repeat (split; [assumption|]). rewrite <- f.
          rewrite <- (proj2 (proj1 So) id (proj1 (iv_user_held _ _ _ _ _ I0 b c'))). exact El.
        * exfalso. apply (iv_disj _ _ _ id Iv); [apply in_held; exists ss3; auto|assumption].
      + apply (St_frame (L1 ++ ss :: L2) s).
        * apply Sts. assumption.
        * rewrite Oother by assumption. reflexivity.
        * rewrite Eq, Hqa. rewrite !in_app_iff. cbn [In]. intuition congruence.
        * intros ss2 H2 F2. apply in_replace_cases in H2. destruct H2 as [->|H2]; [congruence|].
          apply in_replace_side. assumption.
  Qed.

  Lemma GF_publish s : Ubound s -> GF (fdt_session s) s ->
    GF (fdt_session (snd (publish fdt_npk fdt_ok now s))) (snd (publish fdt_npk fdt_ok now s)).
  Proof.
    intros UB (g1 & g2 & g3 & g4).
    pose proof (publish_same_user fdt_npk fdt_ok now s UB) as SU.
    destruct (publish_fields fdt_npk fdt_ok now s) as (_ & Ec & Ef & _).
    rewrite Ef. split; [assumption|]. split; [intros x E; eapply same_user_fdtobj; eauto|]. split.
    - intros x E. rewrite Ec in E. eapply same_user_fdtobj; eauto.
    - intros x Hi. destruct (publish_fdtq fdt_npk fdt_ok now s UB) as [E|[E F]]; rewrite E in Hi.
      + eapply same_user_fdtobj; eauto.
      + apply in_app_or in Hi. destruct Hi as [Hi|[<-|[]]]; [eapply same_user_fdtobj; eauto|exact F].
  Qed.

  Lemma M_next L1 ss L2 s ss1 s1 :
    M (L1 ++ ss :: L2) s -> ss_enc ss = None ->
    get_next fdt_npk fdt_ok divf ss now s = ROk _ (ss1, s1) -> M (L1 ++ ss1 :: L2) s1.
  Proof.
    intros HM Hen H.
    assert (Hin : In ss (L1 ++ ss :: L2)) by (apply in_or_app; right; left; reflexivity).
    pose proof (iv_wf _ _ _ (m_inv _ _ HM)) as W. rewrite Forall_forall in W. destruct (W ss Hin) as [Wfo Wfe].
    rewrite Hen in Wfe. destruct (ss_file ss) eqn:Hfl; [destruct Wfe|].
    unfold get_next in H. rewrite Wfo in H.
    destruct (get_next_file_transfer fdt_npk fdt_ok divf (ss_prio ss) now s) as [[oid s']|] eqn:En; [|discriminate].
    apply gnft_shape in En.
    destruct En as [[-> ->]|(id & ahead & rest & t' & sa & -> & Eq & Hsh & Hti & Ho & Hqa & Hfq & Hcf & Hfs & _ & Hs')].
    - inversion H; subst.
      assert (E : mk_session (ss_prio ss) false None None = ss) by (destruct ss; cbn in *; congruence).
      rewrite E. exact HM.
    - inversion H; subst ss1 s1.
      pose proof (M_take L1 ss L2 s id ahead rest t' sa (ss_prio ss)
                    (o_npk (f_o (obj s' id))) (is_last_transfer (obj s' id))
                    HM Hfl Eq Hsh Hti Ho Hqa Hfq Hcf Hfs) as HM'.
      destruct Hs' as [->| ->]; [exact HM'|].
      eapply M_same_user; [exact HM'|apply publish_same_user; apply (m_bound _ _ HM')|
                           apply GF_publish; [apply (m_bound _ _ HM')|apply (m_gf _ _ HM')]].
  Qed.

  (* ----- the packet ----- *)
  Lemma emit_clauses L1 ss1 L2 s1 id e c :
    M (L1 ++ ss1 :: L2) s1 -> ss_file ss1 = Some id -> ss_enc ss1 = Some e -> enc_has_packet e = true ->
    match t_next_ts (f_t (obj s1 id)) with Some ts => (ts <= now)%Z | None => True end ->
    clauses s0 now (RObj (o_toi (f_o (obj s1 id))) c).
  Proof.
    intros [Iv G So Bd Sts] Hf He Hp Hgate.
    assert (Hin : In ss1 (L1 ++ ss1 :: L2)) by (apply in_or_app; right; left; reflexivity).
    assert (Hh : In id (held (L1 ++ ss1 :: L2))) by (apply in_held; exists ss1; auto).
    assert (Htoi : (id < length (objs s0))%nat -> o_toi (f_o (obj s1 id)) = toi_of s0 id).
    { intros Hl. unfold toi_of. rewrite (proj2 (proj1 So) id Hl). reflexivity. }
    destruct (Sts id (in_or_app _ _ _ (or_introl Hh))) as [a b c'|ss3 a b c' d|ss3 e3 a b c' d e' f|ss3 e3 a b c' d p].
    - exfalso. apply (iv_disj _ _ _ id Iv); assumption.
    - assert (ss3 = ss1) by (exact (held_unique _ _ _ _ (iv_nodup_held _ _ _ Iv) a Hin c' Hf)). subst ss3.
      rewrite (Htoi (proj1 (iv_user_held _ _ _ _ _ I0 b Hf))).
      destruct (iv_held _ _ _ I0 ss1 id e b Hf He) as (Htr & Hwf & Hpace).
      eapply clause_held; [exact (live_held _ _ _ _ _ I0 b Hf He)|exact Htr|exact Hp|exact Hwf|exact HT|exact Hpace|].
      rewrite <- d. exact Hgate.
    - exfalso. apply (iv_disj _ _ _ id Iv); assumption.
    - destruct p as [[q El]|(ss0 & e0 & q1 & q2 & q3 & q4 & El)].
      + rewrite (Htoi (proj1 (iv_user_queue _ _ _ _ I0 q))).
        destruct (iv_queue _ _ _ I0 id q) as [_ Hwf].
        eapply clause_queue; [exact (live_queue _ _ _ I0 q)|exact El|exact Hwf|exact HT].
      + rewrite (Htoi (proj1 (iv_user_held _ _ _ _ _ I0 q1 q2))).
        destruct (iv_held _ _ _ I0 ss0 id e0 q1 q2 q3) as (Htr & Hwf & _).
        eapply clause_done; [exact (live_held _ _ _ _ _ I0 q1 q2 q3)|exact Htr|exact q4|exact El|exact Hwf|exact HT].
  Qed.

  Lemma InvL_tick L1 ss1 L2 s1 id e e' :
    InvL now (L1 ++ ss1 :: L2) s1 -> ss_file ss1 = Some id -> ss_enc ss1 = Some e ->
    e_sent e' = e_sent e + 1 ->
    InvL now (L1 ++ mk_session (ss_prio ss1) (ss_fdt_only ss1) (Some id) (Some e') :: L2) (upd_t s1 id t_tickf).
  Proof.
    intros Iv Hf He Hs. set (ssn := mk_session _ _ (Some id) (Some e')).
    assert (Hin : In ss1 (L1 ++ ss1 :: L2)) by (apply in_or_app; right; left; reflexivity).
    destruct (iv_held _ _ _ Iv ss1 id e Hin Hf He) as (Htr & Hwf & Hpace).
    pose proof (iv_user_held _ _ _ _ _ Iv Hin Hf) as Hu.
    destruct (objs_upd_facts s1 (upd_t s1 id t_tickf) id t_tickf eq_refl) as (Ol & Oo & Oother & Osame).
    specialize (Osame (proj1 Hu)).
    assert (heldE : held (L1 ++ ssn :: L2) = held (L1 ++ ss1 :: L2)).
    { rewrite !held_replace. unfold hfile. rewrite Hf. reflexivity. }
    pose proof (iv_nodup _ _ _ Iv) as ND.
    assert (Hnid : ~ In id (held L1 ++ held L2)).
    { apply nodup_app in ND. destruct ND as (ND & _ & _). rewrite held_replace in ND. unfold hfile in ND.
      rewrite Hf in ND. cbn [app] in ND. apply NoDup_remove_2 in ND. exact ND. }
    constructor.
    - pose proof (iv_wf _ _ _ Iv) as W. apply Forall_app in W. destruct W as [W1 W2]. inversion W2; subst.
      apply Forall_app. split; [assumption|]. constructor; [|assumption].
      destruct H1 as [w1 _]. split; [exact w1|exact I].
    - rewrite heldE. exact ND.
    - intros x Hx. rewrite heldE in Hx. apply (upd_user s1 _ id t_tickf x eq_refl). apply (iv_user _ _ _ Iv). exact Hx.
    - eapply upd_uniq; [reflexivity|]. apply (iv_uniq _ _ _ Iv).
    - intros x Hx. change (queue (upd_t s1 id t_tickf)) with (queue s1) in Hx.
      assert (x <> id).
      { intros ->. apply (iv_disj _ _ _ id Iv); [apply in_held; exists ss1; auto|assumption]. }
      rewrite Oother by assumption. apply (iv_queue _ _ _ Iv). assumption.
    - intros ss2 x e2 H2 F2 E2. apply in_replace_cases in H2. destruct H2 as [->|H2].
      + cbn in F2, E2. inversion F2; inversion E2; subst x e2. rewrite Osame. cbn [f_t].
        split; [rewrite transferring_tick; assumption|]. split; [apply wf_t_tick; assumption|].
        eapply pace_ok_tick; eassumption.
      + assert (x <> id).
        { intros ->. apply Hnid. rewrite in_app_iff. destruct H2 as [H2|H2]; [left|right]; apply in_held; exists ss2; auto. }
        rewrite Oother by assumption.
        apply (iv_held _ _ _ Iv ss2 x e2); [apply in_replace_side; assumption|assumption|assumption].
  Qed.

  Definition Post (L : list session) (s : st) : Prop := (InvL now L s /\ ext_o s0 s) /\ GF (fdt_session s) s.

  Lemma M_Post L s : M L s -> Post L s.
  Proof. intros [a b c _ _]. split; [split|]; assumption. Qed.

  Lemma emit_step L1 ss1 L2 s1 id e ms close e' o ss' s' :
    M (L1 ++ ss1 :: L2) s1 -> ss_file ss1 = Some id -> ss_enc ss1 = Some e ->
    enc_read ms e = (Some close, e') ->
    match t_next_ts (f_t (obj s1 id)) with Some ts => (ts <= now)%Z | None => True end ->
    (match o_fdtid (f_o (obj s1 id)) with
     | Some fid => RFdt fid close
     | None => RObj (o_toi (f_o (obj s1 id))) close
     end, mk_session (ss_prio ss1) (ss_fdt_only ss1) (Some id) (Some e'), upd_t s1 id t_tickf) = (o, ss', s') ->
    Post (L1 ++ ss' :: L2) s' /\
    (forall toi c, o = RObj toi c -> clauses s0 now o) /\
    (o = RNothing -> M (L1 ++ ss' :: L2) s').
  Proof.
    intros R Efl Een Er Hgate H. apply enc_read_some in Er. destruct Er as [Hp Hs].
    assert (P : Post (L1 ++ mk_session (ss_prio ss1) (ss_fdt_only ss1) (Some id) (Some e') :: L2) (upd_t s1 id t_tickf)).
    { split; [split; [eapply InvL_tick; [apply (m_inv _ _ R)|eassumption|eassumption|assumption]|
                      eapply ext_o_trans; [apply (m_o _ _ R)|eapply upd_ext_o; reflexivity]]|].
      change (fdt_session (upd_t s1 id t_tickf)) with (fdt_session s1).
      destruct (m_gf _ _ R) as (g1 & g2 & g3 & g4). split; [assumption|].
      split; [intros x E; eapply upd_fdtobj; [reflexivity|eauto]|].
      split; [intros x E; eapply upd_fdtobj; [reflexivity|eauto]|intros x E; eapply upd_fdtobj; [reflexivity|eauto]]. }
    destruct (o_fdtid (f_o (obj s1 id))) as [fid|]; inversion H; subst o ss' s';
      (split; [exact P|]); (split; [|discriminate]).
    - intros toi c E. discriminate.
    - intros toi c _. eapply emit_clauses; [exact R|exact Efl|exact Een|exact Hp|exact Hgate].
  Qed.

  (* ----- one file session ----- *)
  Lemma session_run_M : forall fuel ss s L1 L2 o ss' s',
    M (L1 ++ ss :: L2) s ->
    session_run fdt_npk fdt_ok divf fuel ss now s = (o, ss', s') ->
    Post (L1 ++ ss' :: L2) s' /\
    (forall toi c, o = RObj toi c -> clauses s0 now o) /\
    (o = RNothing -> M (L1 ++ ss' :: L2) s').
  Proof.
    induction fuel as [|f IH]; intros ss s L1 L2 o ss' s' HM H; cbn [session_run] in H.
    { inversion H; subst. split; [apply M_Post; assumption|]. split; [discriminate|discriminate]. }
    assert (Stop : forall o1 ssx sx, M (L1 ++ ssx :: L2) sx -> (forall toi c, o1 <> RObj toi c) ->
              (o1, ssx, sx) = (o, ss', s') ->
              Post (L1 ++ ss' :: L2) s' /\ (forall toi c, o = RObj toi c -> clauses s0 now o) /\
              (o = RNothing -> M (L1 ++ ss' :: L2) s')).
    { intros o1 ssx sx Hx Ho E. inversion E; subst. split; [apply M_Post; assumption|].
      split; [intros toi c E'; exfalso; eapply Ho; eauto|auto]. }
    set (r := match ss_enc ss with None => get_next fdt_npk fdt_ok divf ss now s | Some _ => ROk _ (ss, s) end) in H.
    assert (R : forall ss1 s1, r = ROk _ (ss1, s1) -> M (L1 ++ ss1 :: L2) s1).
    { intros ss1 s1 E. unfold r in E. destruct (ss_enc ss) eqn:Een.
      - inversion E; subst. assumption.
      - eapply M_next; eassumption. }
    destruct r as [[ss1 s1]|]; [|apply (Stop RPanic ss s); [assumption|discriminate|assumption]].
    specialize (R ss1 s1 eq_refl). clear HM.
    assert (Hin : In ss1 (L1 ++ ss1 :: L2)) by (apply in_or_app; right; left; reflexivity).
    pose proof (iv_wf _ _ _ (m_inv _ _ R)) as W. rewrite Forall_forall in W. destruct (W ss1 Hin) as [Wfo _].
    destruct (negb (ss_fdt_only ss1) && negb (Nat.eqb (length (fdtq s1)) 0));
      [apply (Stop RNothing ss1 s1); [assumption|discriminate|assumption]|].
    destruct (ss_enc ss1) as [e|] eqn:Een; [|apply (Stop RNothing ss1 s1); [assumption|discriminate|assumption]].
    destruct (ss_file ss1) as [id|] eqn:Efl; [|apply (Stop RNothing ss1 s1); [assumption|discriminate|assumption]].
    destruct (t_next_ts (f_t (obj s1 id))) as [ts|] eqn:Ets.
    - destruct (Z.ltb_spec now ts) as [Hlt|Hge];
        [apply (Stop RNothing ss1 s1); [assumption|discriminate|assumption]|].
      destruct (enc_read _ e) as [[close|] e'] eqn:Er.
      + eapply emit_step; [exact R|exact Efl|exact Een|exact Er| |exact H]. rewrite Ets. exact Hge.
      + apply enc_read_none in Er. eapply IH; [|exact H].
        apply (M_done L1 ss1 L2 s1 id e R Efl Een Er).
    - destruct (enc_read _ e) as [[close|] e'] eqn:Er.
      + eapply emit_step; [exact R|exact Efl|exact Een|exact Er| |exact H]. rewrite Ets. exact I.
      + apply enc_read_none in Er. eapply IH; [|exact H].
        apply (M_done L1 ss1 L2 s1 id e R Efl Een Er).
  Qed.

  Definition Res (L : list session) (o : rout) (s : st) : Prop :=
    Post L s /\ (forall toi c, o = RObj toi c -> clauses s0 now o) /\ (o = RNothing -> M L s).

  (* ----- round robin inside a queue, then the queues in order ----- *)
  Lemma rr_loop_M : forall n q orig s Lpre Lpost o q' s',
    M (Lpre ++ q_sessions q ++ Lpost) s ->
    rr_loop fdt_npk fdt_ok divf n q orig now s = (o, q', s') ->
    Res (Lpre ++ q_sessions q' ++ Lpost) o s'.
  Proof.
    induction n as [|n IH]; intros q orig s Lpre Lpost o q' s' HM H; cbn [rr_loop] in H.
    { inversion H; subst. split; [apply M_Post; assumption|]. split; [discriminate|auto]. }
    destruct (nth_error (q_sessions q) (q_index q)) as [ss|] eqn:En.
    2:{ inversion H; subst. split; [apply M_Post; assumption|]. split; [discriminate|discriminate]. }
    destruct (session_run fdt_npk fdt_ok divf 4 ss now s) as [[o1 ss1] s1] eqn:Er.
    destruct (upd_nth_split (fun _ => ss1) _ _ _ En) as (a & b & Ea & Eb).
    assert (EL : forall x, Lpre ++ (a ++ x :: b) ++ Lpost = (Lpre ++ a) ++ x :: (b ++ Lpost))
      by (intros; rewrite <- !app_assoc; reflexivity).
    rewrite Ea, EL in HM.
    destruct (session_run_M _ _ _ _ _ _ _ _ HM Er) as (P1 & C1 & M1).
    rewrite <- EL, <- Eb in P1, M1.
    set (q1 := mk_squeue _ _ _) in H.
    change (upd_nth (q_index q) (fun _ => ss1) (q_sessions q)) with (q_sessions q1) in P1, M1.
    clearbody q1.
    destruct o1; try (inversion H; subst; split; [assumption|]; split; [assumption|discriminate]).
    destruct (Nat.eqb _ orig).
    - inversion H; subst. split; [assumption|]. split; [discriminate|auto].
    - eapply IH; [|exact H]. apply M1. reflexivity.
  Qed.

  Lemma flat_app a b : flat (a ++ b) = flat a ++ flat b.
  Proof. unfold flat. apply flat_map_app. Qed.

  Lemma read_queues_M : forall todo done s o qs s',
    M (flat done ++ flat todo) s ->
    read_queues fdt_npk fdt_ok divf done todo now s = (o, qs, s') ->
    Res (flat qs) o s'.
  Proof.
    induction todo as [|q r IH]; intros done s o qs s' HM H; cbn [read_queues] in H.
    { inversion H; subst. cbn in HM. rewrite app_nil_r in HM.
      split; [apply M_Post; assumption|]. split; [discriminate|auto]. }
    destruct (read_priority_queue fdt_npk fdt_ok divf q now s) as [[o1 q1] s1] eqn:Er.
    unfold read_priority_queue in Er. change (flat (q :: r)) with (q_sessions q ++ flat r) in HM.
    destruct (rr_loop_M _ _ _ _ _ _ _ _ _ HM Er) as (P1 & C1 & M1).
    assert (EF : flat (done ++ q1 :: r) = flat done ++ q_sessions q1 ++ flat r) by (rewrite flat_app; reflexivity).
    destruct o1; try (inversion H; subst; rewrite EF; split; [assumption|]; split; [assumption|discriminate]).
    eapply IH; [|exact H]. rewrite flat_app. cbn. rewrite app_nil_r, <- app_assoc. apply M1. reflexivity.
  Qed.

  (* ----- Sender::read ----- *)
  Lemma run_fdt_frame s o s' : Ubound s -> GF (fdt_session s) s ->
    run_fdt_session fdt_npk fdt_ok divf now s = (o, s') ->
    same_user s s' /\ GF (fdt_session s') s' /\ (forall toi c, o <> RObj toi c) /\ squeues s' = squeues s.
  Proof.
    intros UB G H. unfold run_fdt_session in H.
    destruct (session_run fdt_npk fdt_ok divf 4 (fdt_session s) now s) as [[o1 ss1] s1] eqn:Er.
    inversion H; subst o s'. apply fdt_run_frame in Er; [|assumption|assumption].
    destruct Er as (SU & (g1 & g2 & g3 & g4) & O & _ & X).
    split; [eapply same_user_trans; [exact SU|apply same_user_ext; reflexivity]|].
    split; [|split; [assumption|exact X]].
    cbn [fdt_session set_fdt_session]. split; [assumption|].
    split; [intros x E; eapply fdtobj_ext; [|eauto]; reflexivity|].
    split; [intros x E; eapply fdtobj_ext; [|apply g3; exact E]; reflexivity|].
    intros x E; eapply fdtobj_ext; [|apply g4; exact E]; reflexivity.
  Qed.

  Lemma sender_read_ok o s' : GF (fdt_session s0) s0 ->
    sender_read fdt_npk fdt_ok divf now s0 = (o, s') ->
    InvL now (flat (squeues s')) s' /\ GF (fdt_session s') s' /\
    (forall toi c, o = RObj toi c -> clauses s0 now o) /\ ext_o s0 s'.
  Proof.
    intros G0 H. unfold sender_read in H.
    destruct (run_fdt_session fdt_npk fdt_ok divf now s0) as [o1 s1] eqn:E1.
    destruct (run_fdt_frame _ _ _ B0 G0 E1) as (SU1 & G1 & O1 & X1).
    assert (HM1 : M (flat (squeues s1)) s1).
    { rewrite X1. eapply M_same_user; [apply M_start; assumption|exact SU1|exact G1]. }
    assert (Early : (o1, s1) = (o, s') -> InvL now (flat (squeues s')) s' /\ GF (fdt_session s') s' /\
                    (forall toi c, o = RObj toi c -> clauses s0 now o) /\ ext_o s0 s').
    { intros E. inversion E; subst. split; [apply (m_inv _ _ HM1)|]. split; [assumption|].
      split; [|apply (m_o _ _ HM1)]. intros toi c E'. exfalso. eapply O1; eauto. }
    destruct o1; try (apply Early; assumption). clear Early.
    destruct (read_queues fdt_npk fdt_ok divf [] (squeues s1) now s1) as [[o2 qs] s2] eqn:E2.
    apply read_queues_M in E2; [|exact HM1]. destruct E2 as (((Iv2 & Eo2) & G2) & C2 & M2).
    set (s3 := set_squeues s2 qs) in H.
    assert (SU3 : same_user s2 s3) by (apply same_user_ext; reflexivity).
    assert (Iv3 : InvL now (flat (squeues s3)) s3) by (eapply same_user_InvL; [exact SU3|exact Iv2]).
    assert (G3 : GF (fdt_session s3) s3).
    { destruct G2 as (g1 & g2 & g3 & g4). split; [assumption|].
      split; [intros x E; eapply fdtobj_ext; [|eauto]; reflexivity|].
      split; [intros x E; eapply fdtobj_ext; [|apply g3; exact E]; reflexivity|].
      intros x E; eapply fdtobj_ext; [|apply g4; exact E]; reflexivity. }
    clearbody s3.
    assert (Eo3 : ext_o s0 s3) by (eapply ext_o_trans; [exact Eo2|apply same_user_ext_o; exact SU3]).
    assert (Mid : (o2, s3) = (o, s') -> InvL now (flat (squeues s')) s' /\ GF (fdt_session s') s' /\
                    (forall toi c, o = RObj toi c -> clauses s0 now o) /\ ext_o s0 s').
    { intros E. inversion E; subst. auto. }
    destruct o2; try (apply Mid; assumption). clear Mid.
    assert (B3 : Ubound s3) by (eapply Ubound_mono; [exact B0|apply (proj1 (proj1 Eo3))]).
    destruct (run_fdt_frame _ _ _ B3 G3 H) as (SU4 & G4 & O4 & X4).
    split; [rewrite X4; eapply same_user_InvL; [exact SU4|exact Iv3]|]. split; [assumption|].
    split; [|eapply ext_o_trans; [exact Eo3|apply same_user_ext_o; exact SU4]].
    intros toi c E'. exfalso. eapply O4; eauto.
  Qed.
End ReadStep.
End Classify.

(* ================= the premises ================= *)
(* TOIs of the accepted adds (the statement looks objects up by TOI) *)
Definition add_tois (ops : list op) : list N :=
  flat_map (fun o => match o with OpAdd od _ true => [o_toi od] | _ => [] end) ops.
Definition distinct_tois (ops : list op) : Prop := NoDup (add_tois ops).

(* the instants of the reads never go back *)
Fixpoint read_times (ops : list op) : list Z :=
  match ops with
  | [] => []
  | OpRead n :: r => n :: read_times r
  | _ :: r => read_times r
  end.
Definition reads_monotone (ops : list op) : Prop := Sorted Z.le (read_times ops).

Fixpoint mono_ops (T : Z) (ops : list op) : Prop :=
  match ops with
  | [] => True
  | OpRead n :: r => (T <= n)%Z /\ mono_ops n r
  | _ :: r => mono_ops T r
  end.

Lemma mono_of_sorted : forall ops T,
  Sorted Z.le (read_times ops) -> HdRel Z.le T (read_times ops) -> mono_ops T ops.
Proof.
  induction ops as [|o r IH]; intros T S H; [exact I|].
  destruct o; cbn [read_times mono_ops] in *; try (apply IH; assumption).
  inversion S; subst. inversion H; subst. split; [assumption|]. apply IH; assumption.
Qed.

Lemma reads_monotone_mono ops : reads_monotone ops -> exists T, mono_ops T ops.
Proof.
  intros S. unfold reads_monotone in S. destruct (read_times ops) as [|n l] eqn:E.
  - exists 0%Z. apply mono_of_sorted; rewrite E; constructor.
  - exists n. apply mono_of_sorted; rewrite E; [assumption|]. constructor. lia.
Qed.

Definition Inv (isU : nat -> bool) (T : Z) (s : st) : Prop :=
  InvL isU T (flat (squeues s)) s /\ GF isU (fdt_session s) s /\ Ubound isU s.

Definition fresh (isU : nat -> bool) (s : st) (ops : list op) : Prop :=
  NoDup (add_tois ops) /\ forall id, user isU s id -> ~ In (toi_of s id) (add_tois ops).

Lemma clauses_nonobj s now r : (forall toi c, r <> RObj toi c) -> clauses s now r.
Proof. intros H. destruct r; try (repeat split; reflexivity). exfalso. eapply H; eauto. Qed.

Section GlobalU.
  Variable isU : nat -> bool.
  Notation user := (user isU).
  Notation fdtobj := (fdtobj isU).
  Notation InvL := (InvL isU).
  Notation GF := (GF isU).
  Notation Inv := (Inv isU).
  Notation fresh := (fresh isU).
  Notation ext_o := (ext_o isU).
  Notation Ubound := (Ubound isU).

  Lemma fresh_tail s o r : fresh s (o :: r) -> fresh s r.
  Proof.
    intros [a b]. change (add_tois (o :: r)) with ((match o with OpAdd od _ true => [o_toi od] | _ => [] end) ++ add_tois r) in *.
    split; [apply nodup_app in a; tauto|]. intros id Hu Hi. apply (b id Hu). apply in_or_app. right. assumption.
  Qed.

  Lemma fresh_ext_o s s' ops : ext_o s s' -> fresh s ops -> fresh s' ops.
  Proof.
    intros E [a b]. split; [assumption|]. intros id Hu. apply (ext_o_user _ _ _ _ E) in Hu.
    unfold toi_of. rewrite (proj2 (proj1 E) id (proj1 Hu)). apply b. assumption.
  Qed.

  Lemma ext_o_Ubound s s' : ext_o s s' -> Ubound s -> Ubound s'.
  Proof. intros [[a _] _] B id Hi. apply B. lia. Qed.

  Lemma GF_ext ssf s s' : objs s' = objs s -> cur_fdt s' = cur_fdt s -> fdtq s' = fdtq s -> GF ssf s -> GF ssf s'.
  Proof.
    intros Ho Hc Hq (g1 & g2 & g3 & g4). split; [assumption|].
    split; [intros x E; eapply fdtobj_ext; eauto|]. split.
    - intros x E. rewrite Hc in E. eapply fdtobj_ext; eauto.
    - intros x E. rewrite Hq in E. eapply fdtobj_ext; eauto.
  Qed.

  Lemma GF_upd ssf s i g : GF ssf s -> GF ssf (upd_t s i g).
  Proof.
    intros (g1 & g2 & g3 & g4). split; [assumption|].
    split; [intros x E; eapply upd_fdtobj; [reflexivity|eauto]|].
    split; [intros x E; eapply upd_fdtobj; [reflexivity|apply g3; exact E]|intros x E; eapply upd_fdtobj; [reflexivity|apply g4; exact E]].
  Qed.

  (* the waiting list shrinks (remove) *)
  Lemma InvL_queue_sub T L s s' : objs s' = objs s -> (forall x, In x (queue s') -> In x (queue s)) ->
    NoDup (queue s') -> InvL T L s -> InvL T L s'.
  Proof.
    intros Ho Hs Hn [a b c d e f]. constructor; auto.
    - apply nodup_app in b. destruct b as (b1 & b2 & b3). apply nodup_app. split; [assumption|]. split; [assumption|].
      intros x H1 H2. apply (b3 x H1). auto.
    - intros id Hi. unfold C14Full.user. rewrite Ho. apply c.
      apply in_app_or in Hi. apply in_or_app. destruct Hi; auto.
    - intros i j Hi Hj. unfold C14Full.user, toi_of in *. rewrite Ho, !(obj_ext _ _ Ho) in *. apply d; assumption.
    - intros id Hi. rewrite (obj_ext _ _ Ho). auto.
    - intros ss id en H1 H2 H3. rewrite (obj_ext _ _ Ho). eauto.
  Qed.

  Variable fdt_npk : N -> nat.
  Variable fdt_ok : N -> bool.
  Variable divf : Z -> N -> option Z.
  Notation step := (step fdt_npk fdt_ok divf).

  Lemma step_publish T s now r out s' :
    Inv T s -> fresh s r -> step s (OpPublish now) = (out, s') -> Inv T s' /\ fresh s' r.
  Proof.
    intros (Iv & G & B) Fr H. cbn [SenderCtl.step] in H.
    destruct (publish fdt_npk fdt_ok now s) as [ok s1] eqn:E. inversion H; subst out s'.
    assert (s1 = snd (publish fdt_npk fdt_ok now s)) by (rewrite E; reflexivity). subst s1.
    pose proof (publish_same_user isU fdt_npk fdt_ok now s B) as SU.
    destruct (publish_fields fdt_npk fdt_ok now s) as (_ & _ & _ & Xs & _).
    split; [split; [|split]|].
    - rewrite Xs. eapply same_user_InvL; eassumption.
    - apply GF_publish; assumption.
    - eapply same_user_Ubound; eassumption.
    - eapply fresh_ext_o; [apply same_user_ext_o; exact SU|assumption].
  Qed.

  Lemma step_remove T s toi r out s' :
    Inv T s -> fresh s r -> step s (OpRemove toi) = (out, s') -> Inv T s' /\ fresh s' r.
  Proof.
    intros (Iv & G & B) Fr H. cbn [SenderCtl.step] in H.
    destruct (is_added s toi); inversion H; subst out s'; [|split; [split; [|split]|]; assumption].
    split; [split; [|split]|].
    - cbn [squeues set_queue set_files]. apply (InvL_queue_sub T _ s); [reflexivity| | |exact Iv].
      + cbn [queue set_queue]. unfold remove_toi. intros x Hx. apply filter_In in Hx. tauto.
      + cbn [queue set_queue]. unfold remove_toi. apply NoDup_filter.
        pose proof (iv_nodup _ _ _ _ Iv) as ND. apply nodup_app in ND. tauto.
    - apply (GF_ext _ s); [reflexivity|reflexivity|reflexivity|exact G].
    - exact B.
    - destruct Fr as [a b]. split; [assumption|]. intros id Hu. apply b. exact Hu.
  Qed.

  Lemma wf_t_reset T ts t : t_transferring t = false -> wf_t T (t_reset ts t).
  Proof.
    intros H. unfold wf_t, t_reset. cbn. rewrite H.
    split; [discriminate|]. split; [discriminate|]. split; [left; reflexivity|discriminate].
  Qed.

  Lemma step_trigger T s toi ts r out s' :
    Inv T s -> fresh s r -> step s (OpTrigger toi ts) = (out, s') -> Inv T s' /\ fresh s' r.
  Proof.
    intros (Iv & G & B) Fr H. cbn [SenderCtl.step] in H.
    destruct (find_file s toi) as [id|]; [|inversion H; subst; split; [split; [|split]|]; assumption].
    destruct (t_transferring (f_t (obj s id))) eqn:Et; inversion H; subst out s'; [split; [split; [|split]|]; assumption|].
    destruct (objs_upd_facts s (upd_t s id (t_reset ts)) id (t_reset ts) eq_refl) as (Ol & Oo & Oother & Osame).
    split; [split; [|split]|].
    - change (squeues (upd_t s id (t_reset ts))) with (squeues s). constructor.
      + apply (iv_wf _ _ _ _ Iv).
      + apply (iv_nodup _ _ _ _ Iv).
      + intros x Hx. apply (upd_user isU s _ id (t_reset ts) x eq_refl). apply (iv_user _ _ _ _ Iv). exact Hx.
      + eapply upd_uniq; [reflexivity|apply (iv_uniq _ _ _ _ Iv)].
      + intros x Hx. change (queue (upd_t s id (t_reset ts))) with (queue s) in Hx.
        destruct (Nat.eq_dec x id) as [->|N].
        * rewrite (Osame (proj1 (iv_user_queue _ _ _ _ _ Iv Hx))). cbn [f_t].
          split; [exact Et|apply wf_t_reset; exact Et].
        * rewrite Oother by assumption. apply (iv_queue _ _ _ _ Iv). assumption.
      + intros ss x e H1 H2 H3. destruct (Nat.eq_dec x id) as [->|N].
        * destruct (iv_held _ _ _ _ Iv ss id e H1 H2 H3) as (Htr & _). congruence.
        * rewrite Oother by assumption. apply (iv_held _ _ _ _ Iv ss x e); assumption.
    - apply GF_upd. assumption.
    - intros x Hx. apply B. rewrite Ol in Hx. exact Hx.
    - eapply fresh_ext_o; [eapply upd_ext_o; reflexivity|assumption].
  Qed.

  Lemma step_complete T s r out s' :
    Inv T s -> fresh s r -> step s OpSetComplete = (out, s') -> Inv T s' /\ fresh s' r.
  Proof.
    intros (Iv & G & B) Fr H. cbn [SenderCtl.step] in H. inversion H; subst out s'.
    split; [split; [|split]|].
    - cbn [squeues]. apply (same_user_InvL isU T _ s); [apply same_user_ext; reflexivity|exact Iv].
    - apply (GF_ext _ s); [reflexivity|reflexivity|reflexivity|exact G].
    - exact B.
    - destruct Fr as [a b]. split; [assumption|]. intros id Hu. apply b. exact Hu.
  Qed.

  Lemma step_read T s now r rr s' :
    Inv T s -> fresh s r -> (T <= now)%Z -> sender_read fdt_npk fdt_ok divf now s = (rr, s') ->
    Inv now s' /\ fresh s' r /\ clauses s now rr.
  Proof.
    intros (Iv & G & B) Fr HT H.
    destruct (sender_read_ok isU fdt_npk fdt_ok divf now T s HT Iv B rr s' G H) as (Iv' & G' & C & E).
    split; [split; [assumption|split; [assumption|eapply ext_o_Ubound; eassumption]]|].
    split; [eapply fresh_ext_o; eassumption|].
    destruct rr; try (apply clauses_nonobj; discriminate). eapply C. reflexivity.
  Qed.
End GlobalU.

(* ----- add: the new object joins the API objects ----- *)
Definition isU_add (isU : nat -> bool) (id : nat) : nat -> bool := fun x => Nat.eqb x id || isU x.

Lemma wf_t_new T st : wf_t T (mk_tinfo false 0 0 None None None None st).
Proof. unfold wf_t; cbn. repeat split; try discriminate. left; reflexivity. Qed.

Lemma step_add fdt_npk fdt_ok divf isU T s od st acc r out s' :
  Inv isU T s -> fresh isU s (OpAdd od st acc :: r) ->
  step fdt_npk fdt_ok divf s (OpAdd od st acc) = (out, s') ->
  exists isU', Inv isU' T s' /\ fresh isU' s' r.
Proof.
  intros (Iv & G & B) Fr H. cbn [SenderCtl.step] in H.
  assert (Same : (OutAdd false, s) = (out, s') -> exists isU', Inv isU' T s' /\ fresh isU' s' r).
  { intros E. inversion E; subst. exists isU. split; [split; [|split]; assumption|eapply fresh_tail; eassumption]. }
  destruct (negb (has_queue s (o_prio od))); [auto|].
  destruct (complete s); [auto|].
  destruct acc; cbn [negb] in H; [|auto]. clear Same.
  inversion H; subst out s'. clear H.
  set (nf := mk_fdesc od false (mk_tinfo false 0 0 None None None None st)).
  set (id := length (objs s)).
  set (s' := set_queue _ _).
  set (isU' := isU_add isU id). exists isU'.
  assert (Ho : objs s' = objs s ++ [nf]) by reflexivity.
  assert (Hq : queue s' = queue s ++ [id]) by reflexivity.
  assert (Hold : forall x, (x < length (objs s))%nat -> obj s' x = obj s x).
  { intros x Hx. unfold obj. rewrite Ho. apply app_nth1. assumption. }
  assert (Hnew : obj s' id = nf).
  { unfold obj. rewrite Ho. rewrite app_nth2 by (unfold id; lia). unfold id. rewrite Nat.sub_diag. reflexivity. }
  assert (Hlen : length (objs s') = S (length (objs s))) by (rewrite Ho, app_length; cbn; lia).
  assert (Ksame : forall x, x <> id -> isU' x = isU x).
  { intros x N. unfold isU', isU_add. apply Nat.eqb_neq in N. rewrite N. reflexivity. }
  assert (Knew : isU' id = true) by (unfold isU', isU_add; rewrite Nat.eqb_refl; reflexivity).
  assert (Uold : forall x, user isU s x -> user isU' s' x).
  { intros x [u1 u2]. split; [lia|]. rewrite Ksame by (unfold id; lia). assumption. }
  assert (Unew : user isU' s' id) by (split; [unfold id; lia|exact Knew]).
  assert (Ucases : forall x, user isU' s' x -> (user isU s x /\ obj s' x = obj s x) \/ x = id).
  { intros x [u1 u2]. destruct (Nat.eq_dec x id) as [->|N]; [right; reflexivity|left].
    assert (x < length (objs s))%nat by (unfold id in N; lia).
    rewrite Ksame in u2 by assumption. split; [split; assumption|apply Hold; assumption]. }
  assert (Hidnew : forall x, In x (held (flat (squeues s)) ++ queue s) -> x <> id).
  { intros x Hx ->. destruct (iv_user _ _ _ _ Iv id Hx) as [u _]. unfold id in u. lia. }
  destruct Fr as [Fn Fu]. change (add_tois (OpAdd od st true :: r)) with (o_toi od :: add_tois r) in Fn, Fu.
  split; [split; [|split]|].
  - change (squeues s') with (squeues s). constructor.
    + apply (iv_wf _ _ _ _ Iv).
    + rewrite Hq, app_assoc. apply nodup_app. split; [apply (iv_nodup _ _ _ _ Iv)|]. split; [repeat constructor; intros []|].
      intros x Hx [<-|[]]. apply (Hidnew id Hx). reflexivity.
    + intros x Hx. rewrite Hq, app_assoc in Hx. apply in_app_or in Hx. destruct Hx as [Hx|[<-|[]]]; [|exact Unew].
      apply Uold. apply (iv_user _ _ _ _ Iv). assumption.
    + intros i j Hi Hj E. unfold toi_of in E.
      destruct (Ucases i Hi) as [[ui oi]| ->]; destruct (Ucases j Hj) as [[uj oj]| ->]; try reflexivity.
      * rewrite oi, oj in E. apply (iv_uniq _ _ _ _ Iv); assumption.
      * exfalso. rewrite oi, Hnew in E. apply (Fu i ui). left. symmetry. exact E.
      * exfalso. rewrite oj, Hnew in E. apply (Fu j uj). left. exact E.
    + intros x Hx. rewrite Hq in Hx. apply in_app_or in Hx. destruct Hx as [Hx|[<-|[]]].
      * rewrite Hold by (apply (iv_user_queue _ _ _ _ _ Iv Hx)). apply (iv_queue _ _ _ _ Iv). assumption.
      * rewrite Hnew. cbn [f_t nf]. split; [reflexivity|apply wf_t_new].
    + intros ss x e H1 H2 H3. rewrite Hold by (apply (iv_user_held _ _ _ _ _ _ Iv H1 H2)).
      apply (iv_held _ _ _ _ Iv ss x e); assumption.
  - change (fdt_session s') with (fdt_session s). destruct G as (g1 & g2 & g3 & g4).
    assert (Fo : forall x, fdtobj isU s x -> fdtobj isU' s' x).
    { intros x (f1 & (f2 & f2') & f3). unfold fdtobj. rewrite Hold by assumption.
      rewrite Ksame by (unfold id; lia). split; [lia|]. split; [split|]; assumption. }
    split; [assumption|]. split; [auto|]. split; [intros x E; apply Fo, g3; exact E|intros x E; apply Fo, g4; exact E].
  - intros x Hx. rewrite Hlen in Hx. rewrite Ksame by (unfold id; lia). apply B. lia.
  - inversion Fn; subst. split; [assumption|]. intros x Hx Hi.
    destruct (Ucases x Hx) as [[ux ox]| ->].
    + unfold toi_of in Hi. rewrite ox in Hi. apply (Fu x ux). right. exact Hi.
    + unfold toi_of in Hi. rewrite Hnew in Hi. cbn in Hi. contradiction.
Qed.

(* ================= the history ================= *)
Definition C14_clause (es : tev * st) : Prop :=
  match fst es with
  | TRead now r _ _ =>
    P_C14_start_time (snd es) now r = true /\ P_C14_pacing (snd es) now r = true
    /\ (in_D23 (snd es) now r = false -> P_C14_carousel_gap (snd es) now r = true)
  | _ => True
  end.

Lemma trace_ok fdt_npk fdt_ok divf : forall ops isU T s,
  Inv isU T s -> fresh isU s ops -> mono_ops T ops ->
  Forall C14_clause (model_trace fdt_npk fdt_ok divf s ops).
Proof.
  induction ops as [|o r IH]; intros isU T s Iv Fr Mo; cbn [model_trace]; [constructor|].
  destruct (step fdt_npk fdt_ok divf s o) as [out s'] eqn:Es.
  destruct o as [od st acc|now|toi|toi ts| |now].
  - destruct (step_add _ _ _ isU T s od st acc r out s' Iv Fr Es) as (isU' & Iv' & Fr').
    constructor; [|eapply IH; eauto].
    unfold C14_clause. cbn [fst ev_of]. destruct out; exact I.
  - destruct (step_publish isU _ _ _ T s now r out s' Iv (fresh_tail _ _ _ _ Fr) Es) as [Iv' Fr'].
    constructor; [|eapply IH; eauto]. unfold C14_clause. cbn [fst ev_of]. destruct out; exact I.
  - destruct (step_remove isU _ _ _ T s toi r out s' Iv (fresh_tail _ _ _ _ Fr) Es) as [Iv' Fr'].
    constructor; [|eapply IH; eauto]. unfold C14_clause. cbn [fst ev_of]. destruct out; exact I.
  - destruct (step_trigger isU _ _ _ T s toi ts r out s' Iv (fresh_tail _ _ _ _ Fr) Es) as [Iv' Fr'].
    constructor; [|eapply IH; eauto]. unfold C14_clause. cbn [fst ev_of]. destruct out; exact I.
  - destruct (step_complete isU _ _ _ T s r out s' Iv (fresh_tail _ _ _ _ Fr) Es) as [Iv' Fr'].
    constructor; [|eapply IH; eauto]. unfold C14_clause. cbn [fst ev_of]. exact I.
  - cbn [mono_ops] in Mo. destruct Mo as [HT Mo]. cbn [SenderCtl.step] in Es.
    destruct (sender_read fdt_npk fdt_ok divf now s) as [rr s1] eqn:Er. inversion Es; subst out s'.
    destruct (step_read isU _ _ _ T s now r rr s1 Iv (fresh_tail _ _ _ _ Fr) HT Er) as (Iv' & Fr' & C).
    constructor; [|eapply IH; eauto]. unfold C14_clause. cbn [fst snd ev_of].
    destruct rr; exact C.
Qed.

Lemma held_nil L : (forall ss, In ss L -> ss_file ss = None) -> held L = [].
Proof.
  induction L as [|a L IH]; intros H; [reflexivity|]. change (held (a :: L)) with (hfile a ++ held L).
  unfold hfile. rewrite (H a (or_introl eq_refl)). rewrite IH; [reflexivity|]. intros ss Hs. apply H. right. exact Hs.
Qed.

Lemma Inv_init T full dur car sid queues : Inv (fun _ => false) T (init_st full dur car sid queues).
Proof.
  set (s := init_st full dur car sid queues).
  assert (HL : forall ss, In ss (flat (squeues s)) -> exists p, ss = mk_session p false None None).
  { intros ss Hs. unfold flat, s, init_st in Hs. cbn [squeues] in Hs. apply in_flat_map in Hs.
    destruct Hs as (q & Hq & Hs). apply in_map_iff in Hq. destruct Hq as (pq & <- & _). cbn [q_sessions] in Hs.
    apply repeat_spec in Hs. exists (fst pq). exact Hs. }
  assert (Hh : held (flat (squeues s)) = []).
  { apply held_nil. intros ss Hs. destruct (HL ss Hs) as (p & ->). reflexivity. }
  split; [|split].
  - constructor.
    + apply Forall_forall. intros ss Hs. destruct (HL ss Hs) as (p & ->). split; [reflexivity|exact I].
    + rewrite Hh. constructor.
    + rewrite Hh. intros id [].
    + intros i j [Hi _]. cbn in Hi. lia.
    + intros id [].
    + intros ss id e Hs Hf. destruct (HL ss Hs) as (p & ->). discriminate.
  - split; [reflexivity|]. split; [discriminate|]. split; [discriminate|intros c []].
  - intros id _. reflexivity.
Qed.

Theorem C14_timing_history : forall fdt_npk fdt_ok divf ops full dur car sid queues,
  distinct_tois ops -> reads_monotone ops ->
  Forall (fun es => match fst es with
                    | TRead now r _ _ =>
                      P_C14_start_time (snd es) now r = true /\ P_C14_pacing (snd es) now r = true
                      /\ (in_D23 (snd es) now r = false -> P_C14_carousel_gap (snd es) now r = true)
                    | _ => True
                    end)
         (model_trace fdt_npk fdt_ok divf (init_st full dur car sid queues) ops).
Proof.
  intros fdt_npk fdt_ok divf ops full dur car sid queues Hd Hm.
  destruct (reads_monotone_mono ops Hm) as [T HT].
  apply (trace_ok fdt_npk fdt_ok divf ops (fun _ => false) T); [apply Inv_init| |assumption].
  split; [exact Hd|]. intros id [Hi _]. cbn in Hi. lia.
Qed.
Print Assumptions C14_timing_history.

(* ---------- boolean form of the clause, to evaluate concrete histories ---------- *)
Definition C14_clause_b (es : tev * st) : bool :=
  match fst es with
  | TRead now r _ _ =>
    P_C14_start_time (snd es) now r && P_C14_pacing (snd es) now r
    && (in_D23 (snd es) now r || P_C14_carousel_gap (snd es) now r)
  | _ => true
  end.

Lemma C14_clause_b_true es : C14_clause es -> C14_clause_b es = true.
Proof.
  unfold C14_clause, C14_clause_b. destruct (fst es); auto. intros (a & b & c). rewrite a, b.
  destruct (in_D23 (snd es) now r); [reflexivity|]. rewrite c; reflexivity.
Qed.

Lemma C14_forallb l : Forall C14_clause l -> forallb C14_clause_b l = true.
Proof. intros H. apply forallb_forall. rewrite Forall_forall in H. intros x Hx. apply C14_clause_b_true, H, Hx. Qed.
