From FluteV Require Import Model.Partition Model.BlockEnc Spec.C07Spec Spec.C08Spec Proofs.PartitionProofs.
From Coq Require Import Lia Arith PeanoNat.
Open Scope N_scope.

Arguments N.add : simpl never. Arguments N.mul : simpl never. Arguments N.sub : simpl never.
Arguments N.div : simpl never. Arguments N.modulo : simpl never. Arguments N.min : simpl never.
Arguments N.ltb : simpl never. Arguments N.leb : simpl never. Arguments N.eqb : simpl never.
Arguments N.of_nat : simpl never. Arguments N.to_nat : simpl never.

(* ================= C20: the blocks of a stream source are those of the buffer ================= *)

Lemma lenN_skipn {A} n (l : list A) : lenN (skipn n l) = lenN l - N.of_nat n.
Proof. unfold lenN. rewrite skipn_length. lia. Qed.

Lemma lenN_firstn {A} n (l : list A) : lenN (firstn n l) = N.min (N.of_nat n) (lenN l).
Proof. unfold lenN. rewrite firstn_length. lia. Qed.

Lemma firstn_firstn_skipn {A} a b (l : list A) :
  firstn a l ++ firstn b (skipn a l) = firstn (a + b) l.
Proof.
  revert l; induction a as [|a IH]; intros l; cbn [firstn skipn Nat.add app]; [reflexivity|].
  destruct l as [|x l]; cbn [firstn skipn app]; [destruct b; reflexivity|]. f_equal. apply IH.
Qed.

Lemma skipn_skipn {A} a b (l : list A) : skipn a (skipn b l) = skipn (a + b) l.
Proof.
  revert l; induction b as [|b IH]; intros l.
  - cbn [skipn]. rewrite Nat.add_0_r. reflexivity.
  - replace (a + S b)%nat with (S (a + b)) by lia. destruct l as [|x l]; cbn [skipn].
    + destruct a; reflexivity.
    + apply IH.
Qed.

(* a read loop over a schedule of positive read sizes returns min(want, |rest|) bytes *)
Lemma read_fill_spec : forall fuel want rest reads,
  (N.to_nat want < fuel)%nat -> Forall (fun r => 0 < r) reads ->
  exists reads',
    read_fill fuel want rest reads =
      (firstn (N.to_nat (N.min want (lenN rest))) rest,
       skipn (N.to_nat (N.min want (lenN rest))) rest, reads')
    /\ Forall (fun r => 0 < r) reads'.
Proof.
  induction fuel as [|f IH]; intros want rest reads Hf Hr; [lia|].
  cbn [read_fill]. destruct (N.eqb_spec want 0) as [->|Hw].
  - exists reads. replace (N.min 0 (lenN rest)) with 0 by lia. cbn. split; [reflexivity|assumption].
  - assert (Hrd : exists r reads', (match reads with [] => (want, []) | r :: t => (r, t) end) = (r, reads')
                   /\ 0 < r /\ Forall (fun r => 0 < r) reads').
    { destruct reads as [|r t]; [exists want, []; repeat split; [lia|constructor]|].
      inversion Hr; subst. exists r, t. repeat split; assumption. }
    destruct Hrd as (r & reads' & -> & Hrp & Hr').
    set (n := N.min (N.min r want) (lenN rest)).
    destruct (N.eqb_spec n 0) as [Hn|Hn].
    + exists reads'. assert (lenN rest = 0) by lia.
      replace (N.min want (lenN rest)) with 0 by lia. cbn.
      destruct rest; [split; [reflexivity|assumption]|unfold lenN in H; cbn in H; lia].
    + destruct (IH (want - n) (skipn (N.to_nat n) rest) reads' ltac:(lia) Hr') as (reads'' & E & Hr'').
      rewrite E. exists reads''. split; [|assumption].
      rewrite lenN_skipn.
      assert (Hn_le : n <= lenN rest) by lia.
      replace (N.of_nat (N.to_nat n)) with n by lia.
      set (m := N.min (want - n) (lenN rest - n)).
      assert (Hsum : N.min want (lenN rest) = n + m) by lia.
      rewrite Hsum. replace (N.to_nat (n + m)) with (N.to_nat n + N.to_nat m)%nat by lia.
      rewrite firstn_firstn_skipn. f_equal. f_equal.
      rewrite skipn_skipn. f_equal. lia.
Qed.

Section C20.
  Variable rep : fec -> N -> list N -> N -> N -> list (list N).
  Variable raptor_src : list N -> N -> option (list (list N)).

  Lemma sublist_as_firstn {A} off n (l : list A) :
    sublist off (off + n) l = firstn (N.to_nat n) (skipn (N.to_nat off) l).
  Proof. unfold sublist. f_equal. lia. Qed.

  Lemma stream_buffer_lockstep c al as_ nal content :
    0 < c_e c -> 0 < as_ -> as_ <= al ->
    forall fuel1 fuel2 sbn off reads,
      off < lenN content ->
      (N.to_nat (lenN content - off) < fuel1)%nat ->
      (N.to_nat (lenN content - off) < fuel2)%nat ->
      Forall (fun r => 0 < r) reads ->
      blocks_stream rep raptor_src fuel2 c al as_ nal (skipn (N.to_nat off) content) reads sbn
      = blocks_buf rep raptor_src fuel1 c al as_ nal content sbn off.
  Proof.
    intros He Has Hal fuel1. induction fuel1 as [|f1 IH]; intros fuel2 sbn off reads Hoff Hf1 Hf2 Hr; [lia|].
    destruct fuel2 as [|f2]; [lia|].
    cbn [blocks_stream blocks_buf].
    set (bl := if sbn <? nal then al else as_).
    assert (Hbl : 0 < bl) by (unfold bl; destruct (sbn <? nal); lia).
    set (want := bl * c_e c). assert (Hw : 0 < want) by (unfold want; nia).
    destruct (read_fill_spec (S (N.to_nat want)) want (skipn (N.to_nat off) content) reads ltac:(lia) Hr)
      as (reads' & E & Hr').
    rewrite E. rewrite lenN_skipn. replace (N.of_nat (N.to_nat off)) with off by lia.
    set (n := N.min want (lenN content - off)). assert (Hn : 0 < n) by lia.
    assert (He1 : (if lenN content <? off + want then lenN content else off + want) = off + n).
    { destruct (N.ltb_spec (lenN content) (off + want)); lia. }
    rewrite He1, sublist_as_firstn.
    set (got := firstn (N.to_nat n) (skipn (N.to_nat off) content)).
    assert (Hgot : got <> []).
    { unfold got. intros Z. apply (f_equal (@length N)) in Z.
      rewrite firstn_length, skipn_length in Z. cbn [length] in Z. unfold lenN in *. lia. }
    destruct got as [|g0 gr] eqn:Eg; [congruence|]. rewrite <- Eg.
    destruct (mk_block rep raptor_src c sbn got) as [b|]; [|reflexivity].
    f_equal. rewrite skipn_skipn.
    replace (N.to_nat n + N.to_nat off)%nat with (N.to_nat (off + n)) by lia.
    destruct (N.eqb_spec (off + n) (lenN content)) as [Hend|Hend].
    - (* the buffer is exhausted: the stream's next read returns 0 bytes *)
      destruct f2 as [|f2]; [lia|]. cbn [blocks_stream].
      set (want2 := (if sbn + 1 <? nal then al else as_) * c_e c).
      destruct (read_fill_spec (S (N.to_nat want2)) want2 (skipn (N.to_nat (off + n)) content) reads' ltac:(lia) Hr')
        as (reads'' & E2 & _).
      rewrite E2. rewrite lenN_skipn. replace (N.of_nat (N.to_nat (off + n))) with (off + n) by lia.
      rewrite Hend. replace (N.min want2 (lenN content - lenN content)) with 0 by lia. reflexivity.
    - apply IH; try assumption; lia.
  Qed.

  Theorem chunking_independent_proof c content reads :
    0 < c_e c -> 0 < c_b c -> c_tlen c = lenN content ->
    Forall (fun r => 0 < r) reads ->
    blocks_of_stream rep raptor_src c content reads = blocks_of_buffer rep raptor_src c content.
  Proof.
    intros He Hb Hl Hr. unfold blocks_of_stream, blocks_of_buffer.
    destruct content as [|x content'] eqn:Ec.
    - (* empty object: no block from either source *)
      destruct (block_partitioning (c_b c) (c_tlen c) (c_e c)) as [[[al as_] nal] n].
      cbn [length blocks_stream].
      set (want := (if 0 <? nal then al else as_) * c_e c).
      destruct (read_fill_spec (S (N.to_nat want)) want [] reads ltac:(lia) Hr) as (reads' & E & _).
      rewrite E. unfold lenN. cbn [length]. replace (N.min want (N.of_nat 0)) with 0 by lia. reflexivity.
    - assert (Hlen : 0 < c_tlen c) by (rewrite Hl; unfold lenN; cbn [length]; lia).
      pose proof (partition_covers_proof (c_b c) (c_tlen c) (c_e c) Hb He Hlen) as P.
      destruct (block_partitioning (c_b c) (c_tlen c) (c_e c)) as [[[al as_] nal] n].
      destruct P as [[C Lb Ls Ll Lt Ln Lp Ev Od] _].
      cbv iota beta. clear Ec. set (cont := x :: content') in *.
      pose proof (stream_buffer_lockstep c al as_ nal cont He Lp Ls
                    (S (length cont)) (S (length cont)) 0 0 reads) as L.
      change (N.to_nat 0) with O in L. cbn [skipn] in L.
      apply L; try assumption; unfold lenN in *; lia.
  Qed.
End C20.

(* ================= C08: the window scheduler emits every block's shards, in order ================= *)
Definition to_wb (b : block) : wblock := mk_wb (bk_sbn b) (bk_k b) (bk_shards b).
Definition all_wbs (s : est) : list wblock := s_window s ++ map to_wb (s_future s).
Definition pend_of (sbn : N) (l : list wblock) : list shard :=
  concat (map (fun wb => if wb_sbn wb =? sbn then wb_rest wb else []) l).
Definition pend (s : est) (sbn : N) : list shard := pend_of sbn (all_wbs s).
Definition tot_of (l : list wblock) : nat := length (concat (map wb_rest l)).
Definition tot (s : est) : nat := tot_of (all_wbs s).

Lemma pend_of_app sbn l1 l2 : pend_of sbn (l1 ++ l2) = pend_of sbn l1 ++ pend_of sbn l2.
Proof. unfold pend_of. rewrite map_app, concat_app. reflexivity. Qed.
Lemma pend_of_cons sbn wb l :
  pend_of sbn (wb :: l) = (if wb_sbn wb =? sbn then wb_rest wb else []) ++ pend_of sbn l.
Proof. reflexivity. Qed.
Lemma tot_of_app l1 l2 : tot_of (l1 ++ l2) = (tot_of l1 + tot_of l2)%nat.
Proof. unfold tot_of. rewrite map_app, concat_app, app_length. reflexivity. Qed.
Lemma tot_of_cons wb l : tot_of (wb :: l) = (length (wb_rest wb) + tot_of l)%nat.
Proof. unfold tot_of. cbn [map concat]. rewrite app_length. reflexivity. Qed.

Lemma pend_of_notin sbn l : ~ In sbn (map wb_sbn l) -> pend_of sbn l = [].
Proof.
  induction l as [|wb l IH]; intros H; [reflexivity|].
  rewrite pend_of_cons. cbn [map In] in H.
  destruct (N.eqb_spec (wb_sbn wb) sbn) as [E|E]; [exfalso; apply H; left; assumption|].
  cbn [app]. apply IH. intros Hin. apply H. right. assumption.
Qed.

Lemma pend_of_zero_tot l : tot_of l = 0%nat -> forall sbn, pend_of sbn l = [].
Proof.
  induction l as [|wb l IH]; intros H sbn; [reflexivity|].
  rewrite tot_of_cons in H. rewrite pend_of_cons.
  assert (wb_rest wb = []) by (destruct (wb_rest wb); [reflexivity|cbn in H; lia]).
  rewrite H0. destruct (wb_sbn wb =? sbn); cbn [app]; apply IH; lia.
Qed.

(* splitting a list at an index *)
Lemma nth_error_split' {A} (l : list A) i x : nth_error l i = Some x ->
  exists l1 l2, l = l1 ++ x :: l2 /\ length l1 = i.
Proof. apply nth_error_split. Qed.
Lemma remove_nth_app {A} (l1 l2 : list A) x : remove_nth (length l1) (l1 ++ x :: l2) = l1 ++ l2.
Proof. induction l1 as [|y l1 IH]; cbn; [reflexivity|]. f_equal. assumption. Qed.
Lemma replace_nth_app {A} (l1 l2 : list A) x y :
  replace_nth (length l1) y (l1 ++ x :: l2) = l1 ++ y :: l2.
Proof. induction l1 as [|z l1 IH]; cbn; [reflexivity|]. f_equal. assumption. Qed.

(* read_window *)
Lemma refill_spec w : forall fuel win fut win' fut',
  refill w win fut fuel = (win', fut') ->
  win' ++ map to_wb fut' = win ++ map to_wb fut
  /\ ((length fut < fuel)%nat -> (1 <= w)%nat -> win' = [] -> fut' = []).
Proof.
  induction fuel as [|f IH]; intros win fut win' fut' H; cbn [refill] in H.
  - inversion H; subst. split; [reflexivity|lia].
  - destruct (Nat.ltb_spec (length win) w) as [Hlt|Hge].
    + destruct fut as [|b r].
      * inversion H; subst. split; [reflexivity|reflexivity].
      * apply IH in H. destruct H as [H1 H2]. split.
        -- rewrite H1. rewrite <- app_assoc. reflexivity.
        -- intros Hf Hw Hwin. apply H2; [cbn [length] in Hf; lia|assumption|assumption].
    + inversion H; subst. split; [reflexivity|].
      intros _ Hw Hwin. subst win'. cbn [length] in Hge. lia.
Qed.

Definition lone_pkt : pkt := mk_pkt 0 0 [] true 0 false.

Definition is_src_of (wb : wblock) (sh : shard) : bool := sh_esi sh <? wb_k wb.
Definition src_of_wb (wb : wblock) : N :=
  fold_right (fun sh acc => (if is_src_of wb sh then lenN (sh_data sh) else 0) + acc) 0 (wb_rest wb).
Definition src_total_of (l : list wblock) : N := fold_right (fun wb acc => src_of_wb wb + acc) 0 l.
Definition src_total (s : est) : N := src_total_of (all_wbs s).

Lemma src_total_of_cons wb l : src_total_of (wb :: l) = src_of_wb wb + src_total_of l.
Proof. reflexivity. Qed.
Lemma src_total_of_app l1 l2 : src_total_of (l1 ++ l2) = src_total_of l1 + src_total_of l2.
Proof.
  induction l1 as [|x l1 IH]; cbn [app].
  - change (src_total_of []) with 0. lia.
  - rewrite !src_total_of_cons, IH. lia.
Qed.

Lemma all_empty_except_gen : forall (l1 l2 : list wblock) wb a,
  forallb (fun jw : nat * wblock => Nat.eqb (fst jw) (a + length l1) || match wb_rest (snd jw) with [] => true | _ => false end)
          (combine (seq a (length (l1 ++ wb :: l2))) (l1 ++ wb :: l2))
  = Nat.eqb (tot_of l1) 0 && Nat.eqb (tot_of l2) 0.
Proof.
  induction l1 as [|x l1 IH]; intros l2 wb a.
  - cbn [app length seq combine forallb fst snd]. rewrite Nat.add_0_r, Nat.eqb_refl. cbn [orb andb].
    change (tot_of []) with 0%nat. cbn [Nat.eqb andb].
    (* the remaining indices are all different from a *)
    assert (G : forall (l : list wblock) b, (a < b)%nat ->
              forallb (fun jw : nat * wblock => Nat.eqb (fst jw) a || match wb_rest (snd jw) with [] => true | _ => false end)
                      (combine (seq b (length l)) l) = Nat.eqb (tot_of l) 0).
    { induction l as [|y l IHl]; intros b Hb; [reflexivity|].
      cbn [length seq combine forallb fst snd]. rewrite IHl by lia.
      destruct (Nat.eqb_spec b a); [lia|]. cbn [orb]. rewrite tot_of_cons.
      destruct (wb_rest y); cbn [length]; [reflexivity|]. cbn [Nat.add]. destruct (tot_of l); reflexivity. }
    apply G. lia.
  - cbn [app length seq combine forallb fst snd].
    destruct (Nat.eqb_spec a (a + S (length l1))); [lia|]. cbn [orb].
    replace (a + S (length l1))%nat with (S a + length l1)%nat by lia.
    rewrite IH. rewrite tot_of_cons.
    destruct (wb_rest x); cbn [length Nat.add]; [reflexivity|]. reflexivity.
Qed.

Lemma all_empty_except_split l1 l2 wb :
  all_empty_except (length l1) (l1 ++ wb :: l2) = Nat.eqb (tot_of l1) 0 && Nat.eqb (tot_of l2) 0.
Proof. unfold all_empty_except. apply (all_empty_except_gen l1 l2 wb 0). Qed.

Definition step_post (c : ecfg) (force : bool) (s : est) (o : outcome) (s' : est) : Prop :=
  (exists pre, s_future s = pre ++ s_future s')
  /\ s_src_sent s' + src_total s' = s_src_sent s + src_total s
  /\ match o with
  | OPkt p =>
    (exists sh,
        (forall sbn, pend s sbn = (if p_sbn p =? sbn then [sh] else []) ++ pend s' sbn)
        /\ p_esi p = sh_esi sh /\ p_payload p = sh_data sh
        /\ tot s = S (tot s') /\ s_nb_sent s' = s_nb_sent s + 1
        /\ p_close p = force || (c_closable c && ((c_tlen c <=? s_src_sent s') && Nat.eqb (tot_of (s_window s')) 0)))
    \/ (tot s = 0%nat /\ tot s' = 0%nat /\ s_nb_sent s = 0 /\ s_nb_sent s' = 1 /\ p = lone_pkt)
  | ONone => tot s = 0%nat /\ s_nb_sent s <> 0
  | OPanic => tot s = 0%nat /\ s_nb_sent s = 0 /\ c_debug c = true /\ c_tlen c <> 0
  | OOutOfFuel => False
  end.

Lemma read_loop_spec c force : forall fuel s o s',
  (length (all_wbs s) < fuel)%nat -> (1 <= c_window c)%nat ->
  NoDup (map wb_sbn (all_wbs s)) ->
  read_loop fuel c force s = (o, s') ->
  NoDup (map wb_sbn (all_wbs s')) /\ s_stopped s' = s_stopped s /\ step_post c force s o s'.
Proof.
  induction fuel as [|f IH]; intros s o s' Hfuel Hw Hnd H; [lia|].
  cbn [read_loop] in H.
  destruct (refill (c_window c) (s_window s) (s_future s) (S (length (s_future s)))) as [win fut] eqn:Er.
  pose proof Er as Er0.
  apply refill_spec in Er. destruct Er as [Eall Eempty].
  assert (Hpre : exists pre, s_future s = pre ++ fut).
  { clear - Er0. revert Er0. generalize (S (length (s_future s))) as fuel. generalize (s_window s) as w0.
    generalize (s_future s) as fu. intros fu w0 fuel. revert fu w0.
    induction fuel as [|fl IHf]; intros fu w0 E; cbn [refill] in E.
    - inversion E; subst. exists []. reflexivity.
    - destruct (Nat.ltb (length w0) (c_window c)).
      + destruct fu as [|b r]; [inversion E; subst; exists []; reflexivity|].
        apply IHf in E. destruct E as (pre & E). exists (b :: pre). cbn [app]. f_equal. exact E.
      + inversion E; subst. exists []. reflexivity. }
  assert (Hall : forall sbn, pend s sbn = pend_of sbn (win ++ map to_wb fut))
    by (intros; unfold pend, all_wbs; rewrite Eall; reflexivity).
  assert (Htot : tot s = tot_of (win ++ map to_wb fut))
    by (unfold tot, all_wbs; rewrite Eall; reflexivity).
  assert (Hsrc : src_total s = src_total_of (win ++ map to_wb fut))
    by (unfold src_total, all_wbs; rewrite Eall; reflexivity).
  assert (Hnd' : NoDup (map wb_sbn (win ++ map to_wb fut))) by (rewrite Eall; exact Hnd).
  assert (Hlen : length (win ++ map to_wb fut) = length (all_wbs s)) by (unfold all_wbs; rewrite Eall; reflexivity).
  destruct win as [|w0 wr].
  - (* no block left *)
    assert (fut = []) by (apply Eempty; [lia|assumption|reflexivity]). subst fut.
    cbn [app map] in *.
    destruct (N.eqb_spec (s_nb_sent s) 0) as [Z|NZ].
    + destruct (c_debug c && negb (c_tlen c =? 0)) eqn:Ed.
      * inversion H; subst. cbn [all_wbs s_window s_future app map s_stopped].
        split; [constructor|]. split; [reflexivity|]. unfold step_post.
        split; [exact Hpre|]. split; [cbn [s_src_sent]; unfold src_total at 1, all_wbs; cbn [s_window s_future app map]; rewrite Hsrc; reflexivity|].
        apply andb_true_iff in Ed. destruct Ed as [Ed1 Ed2].
        repeat split; try assumption. apply negb_true_iff in Ed2. apply N.eqb_neq. assumption.
      * inversion H; subst. cbn [all_wbs s_window s_future app map s_stopped].
        split; [constructor|]. split; [reflexivity|]. unfold step_post.
        split; [exact Hpre|]. split; [cbn [s_src_sent]; unfold src_total at 1, all_wbs; cbn [s_window s_future app map]; rewrite Hsrc; reflexivity|].
        right. repeat split; try assumption; reflexivity.
    + inversion H; subst. cbn [all_wbs s_window s_future app map s_stopped].
      split; [constructor|]. split; [reflexivity|]. unfold step_post.
      split; [exact Hpre|]. split; [cbn [s_src_sent]; unfold src_total at 1, all_wbs; cbn [s_window s_future app map]; rewrite Hsrc; reflexivity|].
      split; assumption.
  - cbv iota in H.
    assert (Hwl : (0 < length (w0 :: wr))%nat) by (cbn [length]; lia).
    set (win := w0 :: wr) in *. clearbody win. clear w0 wr.
    set (idx := if Nat.leb (length win) (s_idx s) then 0%nat else s_idx s) in *.
    assert (Hidx : (idx < length win)%nat).
    { unfold idx. destruct (Nat.leb_spec (length win) (s_idx s)); lia. }
    destruct (nth_error win idx) as [wb|] eqn:En; [|apply nth_error_None in En; lia].
    destruct (nth_error_split' _ _ _ En) as (l1 & l2 & Esplit & Hl1).
    destruct (wb_rest wb) as [|sh rest] eqn:Erest.
    + (* drained block: removed, loop *)
      rewrite Esplit, <- Hl1, remove_nth_app in H.
      set (s2 := mk_est (l1 ++ l2) fut (length l1) (s_src_sent s) (s_nb_sent s) (s_stopped s)) in *.
      assert (Hp : forall sbn, pend s sbn = pend s2 sbn).
      { intros sbn. rewrite Hall, Esplit. unfold pend, all_wbs, s2. cbn [s_window s_future].
        rewrite <- !app_assoc, !pend_of_app. cbn [app]. rewrite pend_of_cons, Erest.
        destruct (wb_sbn wb =? sbn); reflexivity. }
      assert (Ht : tot s = tot s2).
      { rewrite Htot, Esplit. unfold tot, all_wbs, s2. cbn [s_window s_future].
        rewrite <- !app_assoc, !tot_of_app. cbn [app]. rewrite tot_of_cons, Erest. reflexivity. }
      assert (Hs2 : src_total s = src_total s2).
      { rewrite Hsrc, Esplit. unfold src_total, all_wbs, s2. cbn [s_window s_future].
        rewrite <- !app_assoc, !src_total_of_app. cbn [app]. rewrite src_total_of_cons.
        unfold src_of_wb. rewrite Erest. cbn [fold_right]. lia. }
      apply IH in H.
      * destruct H as (N' & St & (pre' & Epre') & Esrc' & P). split; [assumption|]. split; [exact St|].
        unfold step_post. split.
        { destruct Hpre as (pre & Epre). exists (pre ++ pre'). rewrite Epre. cbn [s_future s2] in Epre'.
          rewrite Epre', app_assoc. reflexivity. }
        split; [rewrite Esrc'; cbn [s_src_sent s2]; rewrite Hs2; reflexivity|].
        destruct o as [p| | |].
        -- destruct P as [(sh & P1 & P2 & P3 & P4 & P5 & P6)|(P1 & P2 & P3 & P4 & P5)].
           ++ left. exists sh. repeat split; try assumption.
              ** intros sbn. rewrite Hp. apply P1.
              ** rewrite Ht. assumption.
           ++ right. repeat split; try assumption. rewrite Ht. assumption.
        -- destruct P. split; [rewrite Ht|]; assumption.
        -- destruct P as (P1 & P2 & P3 & P4). repeat split; try assumption. rewrite Ht. assumption.
        -- assumption.
      * unfold all_wbs, s2. cbn [s_window s_future].
        rewrite Esplit in Hlen. rewrite <- Hlen in Hfuel.
        rewrite !app_length in *. cbn [length] in *. lia.
      * assumption.
      * unfold all_wbs, s2. cbn [s_window s_future]. rewrite Esplit in Hnd'.
        rewrite <- app_assoc in Hnd'. cbn [app] in Hnd'. rewrite map_app in Hnd'. cbn [map] in Hnd'.
        apply NoDup_remove_1 in Hnd'. rewrite <- app_assoc, map_app. assumption.
    + (* a symbol is emitted *)
      rewrite Esplit, <- Hl1, replace_nth_app, all_empty_except_split in H. inversion H; subst o s'. clear H.
      set (wb' := mk_wb (wb_sbn wb) (wb_k wb) rest).
      assert (Hnd2 : NoDup (map wb_sbn (l1 ++ wb :: l2 ++ map to_wb fut))).
      { rewrite Esplit in Hnd'. rewrite <- app_assoc in Hnd'. exact Hnd'. }
      rewrite map_app in Hnd2. cbn [map] in Hnd2.
      pose proof (NoDup_remove_2 _ _ _ Hnd2) as Hnotin.
      assert (Hn1 : ~ In (wb_sbn wb) (map wb_sbn l1)) by (intros X; apply Hnotin, in_or_app; left; exact X).
      unfold all_wbs. cbn [s_window s_future s_stopped s_nb_sent].
      split; [|split; [reflexivity|]].
      * rewrite <- app_assoc. cbn [app]. rewrite map_app. cbn [map].
        change (wb_sbn wb') with (wb_sbn wb). exact Hnd2.
      * unfold step_post. split; [exact Hpre|]. split.
        { cbn [s_src_sent]. rewrite Hsrc, Esplit. unfold src_total, all_wbs. cbn [s_window s_future].
          rewrite <- !app_assoc. cbn [app]. rewrite !src_total_of_app, !src_total_of_cons.
          unfold src_of_wb at 2. rewrite Erest. cbn [fold_right].
          change (src_of_wb wb') with (fold_right (fun sh acc => (if is_src_of wb sh then lenN (sh_data sh) else 0) + acc) 0 rest).
          unfold is_src_of at 2. destruct (sh_esi sh <? wb_k wb); lia. }
        left. exists sh. cbn [p_sbn p_esi p_payload p_close s_window s_src_sent].
        split; [|split; [reflexivity|split; [reflexivity|split; [|split; [reflexivity|]]]]].
        -- intros sbn. rewrite Hall, Esplit. unfold pend, all_wbs. cbn [s_window s_future].
           rewrite <- !app_assoc. cbn [app]. rewrite !pend_of_app, !pend_of_cons, Erest.
           change (wb_sbn wb') with (wb_sbn wb). change (wb_rest wb') with rest.
           destruct (N.eqb_spec (wb_sbn wb) sbn) as [E|E].
           ++ subst sbn. rewrite (pend_of_notin _ l1 Hn1). cbn [app]. reflexivity.
           ++ cbn [app]. reflexivity.
        -- rewrite Htot, Esplit. unfold tot, all_wbs. cbn [s_window s_future].
           rewrite <- !app_assoc. cbn [app]. rewrite !tot_of_app, !tot_of_cons, Erest.
           change (wb_rest wb') with rest. cbn [length]. lia.
        -- f_equal. f_equal. rewrite <- andb_assoc. f_equal.
           rewrite tot_of_app, tot_of_cons. change (wb_rest wb') with rest.
           destruct rest as [|r0 rr]; cbn [length Nat.add andb].
           ++ destruct (tot_of l1), (tot_of l2); reflexivity.
           ++ destruct (tot_of l1); cbn; reflexivity.
Qed.

(* ---------- whole transfers (no forced stop) ---------- *)
Fixpoint pkts_of (outs : list outcome) : list pkt :=
  match outs with
  | [] => []
  | OPkt p :: r => p :: pkts_of r
  | _ :: r => pkts_of r
  end.
Definition view_p (p : pkt) : N * list N := (p_esi p, p_payload p).
Definition view_sh (sh : shard) : N * list N := (sh_esi sh, sh_data sh).
Definition flags_ok (closable : bool) (ps : list pkt) : Prop :=
  exists body l, ps = body ++ [l] /\ Forall (fun p => p_close p = false) body /\ p_close l = closable.

Record wf (c : ecfg) (SRC : N) (s : est) : Prop := {
  wf_nodup : NoDup (map wb_sbn (all_wbs s));
  wf_src : s_src_sent s + src_total s = SRC;
  wf_tlen : c_tlen c <= SRC;
  wf_fut : forall b, In b (s_future s) -> SRC < c_tlen c + src_of_wb (to_wb b);
  wf_run : s_stopped s = false
}.

Lemma src_zero_of_tot l : tot_of l = 0%nat -> src_total_of l = 0.
Proof.
  induction l as [|wb l IH]; intros H; [reflexivity|].
  rewrite tot_of_cons in H. rewrite src_total_of_cons, IH by lia.
  unfold src_of_wb. destruct (wb_rest wb); [reflexivity|cbn [length] in H; lia].
Qed.

Lemma src_total_of_in b l : In b l -> src_of_wb b <= src_total_of l.
Proof.
  induction l as [|x l IH]; intros H; [destruct H|].
  rewrite src_total_of_cons. destruct H as [->|H]; [lia|]. specialize (IH H). lia.
Qed.

Lemma enc_read_noforce c s :
  s_stopped s = false ->
  enc_read c false s = read_loop (S (S (length (s_window s) + length (s_future s)))) c false s.
Proof. intros H. unfold enc_read. rewrite H. reflexivity. Qed.

Lemma all_wbs_length s : length (all_wbs s) = (length (s_window s) + length (s_future s))%nat.
Proof. unfold all_wbs. rewrite app_length, map_length. reflexivity. Qed.

Lemma enc_run_nonempty f c forces s : enc_run (S f) c forces s <> [].
Proof.
  cbn [enc_run]. destruct forces as [|x r]; destruct (enc_read c _ s) as [o s']; destruct o; discriminate.
Qed.

Theorem enc_run_complete_proof c SRC : (1 <= c_window c)%nat ->
  forall fuel s, wf c SRC s -> (tot s < fuel)%nat -> (0 < tot s)%nat \/ s_nb_sent s <> 0 ->
  let outs := enc_run fuel c [] s in
  let ps := pkts_of outs in
  last outs ONone = ONone
  /\ Forall (fun o => match o with OPkt _ | ONone => True | _ => False end) outs
  /\ (forall sbn, map view_p (filter (fun p => p_sbn p =? sbn) ps) = map view_sh (pend s sbn))
  /\ ((0 < tot s)%nat -> flags_ok (c_closable c) ps).
Proof.
  intros Hw. induction fuel as [|f IH]; intros s W Hf Hne; [lia|].
  cbn [enc_run]. rewrite (enc_read_noforce c s (wf_run _ _ _ W)).
  destruct (read_loop (S (S (length (s_window s) + length (s_future s)))) c false s) as [o s'] eqn:E.
  apply read_loop_spec in E; [|rewrite all_wbs_length; lia|assumption|apply (wf_nodup _ _ _ W)].
  destruct E as (Nd' & St' & (pre & Epre) & Esrc & P).
  destruct o as [p| | |]; cbn [step_post] in P.
  - destruct P as [(sh & P1 & P2 & P3 & P4 & P5 & P6)|(P1 & _ & P3 & _)]; [|exfalso; lia].
    assert (W' : wf c SRC s').
    { constructor.
      - exact Nd'.
      - rewrite Esrc. apply (wf_src _ _ _ W).
      - apply (wf_tlen _ _ _ W).
      - intros b Hb. apply (wf_fut _ _ _ W). rewrite Epre. apply in_or_app. right. exact Hb.
      - rewrite St'. apply (wf_run _ _ _ W). }
    assert (Hnb : s_nb_sent s' <> 0) by lia.
    destruct (IH s' W' ltac:(lia) (or_intror Hnb)) as (I1 & I2 & I3 & I4).
    cbn zeta in *. cbn [pkts_of last].
    (* is this the last packet?  p_close p = closable && (tot s' = 0) *)
    assert (Hclose : p_close p = c_closable c && Nat.eqb (tot s') 0).
    { rewrite P6. cbn [orb]. f_equal.
      destruct (Nat.eqb_spec (tot s') 0) as [Z|NZ].
      - assert (Zw : tot_of (s_window s') = 0%nat) by (unfold tot, all_wbs in Z; rewrite tot_of_app in Z; lia).
        rewrite Zw. cbn [Nat.eqb]. rewrite andb_true_r.
        assert (src_total s' = 0) by (apply src_zero_of_tot; exact Z).
        pose proof (wf_src _ _ _ W'). pose proof (wf_tlen _ _ _ W').
        apply N.leb_le. lia.
      - destruct (Nat.eqb_spec (tot_of (s_window s')) 0) as [Zw|]; [|apply andb_false_r].
        rewrite andb_true_r. apply N.leb_gt.
        (* the window is drained but something is pending: a future block holds source bytes *)
        destruct (s_future s') as [|b fr] eqn:Ef.
        + exfalso. apply NZ. unfold tot, all_wbs. rewrite Ef. cbn [map]. rewrite app_nil_r. exact Zw.
        + pose proof (wf_fut _ _ _ W' b ltac:(rewrite Ef; left; reflexivity)) as Hb.
          assert (src_of_wb (to_wb b) <= src_total s').
          { apply src_total_of_in. unfold all_wbs. apply in_or_app. right. rewrite Ef. left. reflexivity. }
          pose proof (wf_src _ _ _ W'). lia. }
    split; [|split; [|split]].
    + destruct f as [|f']; [lia|]. pose proof (enc_run_nonempty f' c [] s') as Hne'.
      destruct (enc_run (S f') c [] s') eqn:Er; [congruence|exact I1].
    + constructor; [exact I|exact I2].
    + intros sbn. cbn [filter]. rewrite P1.
      destruct (N.eqb_spec (p_sbn p) sbn) as [Es|Es].
      * cbn [map app]. f_equal; [unfold view_p, view_sh; rewrite P2, P3; reflexivity|apply I3].
      * cbn [app]. apply I3.
    + intros _. destruct (Nat.eqb_spec (tot s') 0) as [Z|NZ].
      * (* last packet *)
        assert (Hps : pkts_of (enc_run f c [] s') = []).
        { destruct f as [|f']; [reflexivity|]. cbn [enc_run]. rewrite (enc_read_noforce c s' (wf_run _ _ _ W')).
          destruct (read_loop (S (S (length (s_window s') + length (s_future s')))) c false s') as [o2 s2] eqn:E2.
          apply read_loop_spec in E2; [|rewrite all_wbs_length; lia|assumption|exact Nd'].
          destruct E2 as (_ & _ & _ & _ & P').
          destruct o2 as [p2| | |]; cbn [step_post] in P'; try reflexivity.
          destruct P' as [(? & _ & _ & _ & T & _)|(_ & _ & Z2 & _)]; [lia|congruence]. }
        rewrite Hps. exists [], p. split; [reflexivity|]. split; [constructor|].
        rewrite Hclose, andb_true_r. reflexivity.
      * destruct (I4 ltac:(lia)) as (body & l & Eb & Fb & Cl).
        rewrite Eb. exists (p :: body), l. split; [reflexivity|]. split; [|exact Cl].
        constructor; [|exact Fb]. rewrite Hclose. apply andb_false_r.
  - (* None: nothing pending *)
    destruct P as [Z NZ]. cbn zeta. cbn [pkts_of last filter map].
    split; [reflexivity|]. split; [constructor; [exact I|constructor]|]. split.
    + intros sbn. unfold pend. rewrite (pend_of_zero_tot _ Z). reflexivity.
    + intros. lia.
  - destruct P as (Z & Z2 & _). exfalso. destruct Hne; [lia|congruence].
  - destruct P.
Qed.

(* ---------- forced stop (object removed) and empty object ---------- *)
Lemma stopped_is_silent c force s : s_stopped s = true -> enc_read c force s = (ONone, s).
Proof. intros H. unfold enc_read. rewrite H. reflexivity. Qed.

Lemma forced_read_closes_and_stops c s o s' : (1 <= c_window c)%nat ->
  NoDup (map wb_sbn (all_wbs s)) ->
  enc_read c true s = (o, s') ->
  s_stopped s' = true /\ (forall p, o = OPkt p -> p_close p = true) /\ o <> OOutOfFuel.
Proof.
  intros Hw Hnd H. unfold enc_read in H. destruct (s_stopped s) eqn:St.
  - inversion H; subst. split; [exact St|]. split; [intros p Hp; discriminate|discriminate].
  - apply read_loop_spec in H; [|rewrite all_wbs_length; cbn [s_window s_future]; lia|assumption|exact Hnd].
    destruct H as (_ & St' & _ & _ & P). cbn [s_stopped] in St'. split; [exact St'|]. split.
    + intros p ->. cbn [step_post] in P.
      destruct P as [(sh & _ & _ & _ & _ & _ & P6)|(_ & _ & _ & _ & ->)]; [rewrite P6; reflexivity|reflexivity].
    + intros ->. exact P.
Qed.

Lemma empty_object_lone_packet c f s : (1 <= c_window c)%nat ->
  NoDup (map wb_sbn (all_wbs s)) -> s_stopped s = false -> tot s = 0%nat -> s_nb_sent s = 0 ->
  (c_debug c && negb (c_tlen c =? 0)) = false ->
  enc_run (S (S f)) c [] s = [OPkt lone_pkt; ONone].
Proof.
  intros Hw Hnd Hst Ht Hn Hd. cbn [enc_run]. rewrite (enc_read_noforce c s Hst).
  destruct (read_loop (S (S (length (s_window s) + length (s_future s)))) c false s) as [o s'] eqn:E.
  apply read_loop_spec in E; [|rewrite all_wbs_length; lia|assumption|assumption].
  destruct E as (Nd' & St' & _ & _ & P).
  destruct o as [p| | |]; cbn [step_post] in P.
  - destruct P as [(sh & _ & _ & _ & T & _)|(_ & T' & _ & N1 & ->)]; [lia|].
    rewrite (enc_read_noforce c s') by congruence.
    destruct (read_loop (S (S (length (s_window s') + length (s_future s')))) c false s') as [o2 s2] eqn:E2.
    apply read_loop_spec in E2; [|rewrite all_wbs_length; lia|assumption|assumption].
    destruct E2 as (_ & _ & _ & _ & P2).
    destruct o2 as [p2| | |]; cbn [step_post] in P2.
    + destruct P2 as [(sh & _ & _ & _ & T & _)|(_ & _ & N2 & _)]; [lia|rewrite N1 in N2; discriminate].
    + reflexivity.
    + destruct P2 as (_ & N2 & _). rewrite N1 in N2. discriminate.
    + destruct P2.
  - destruct P as [_ N1]. congruence.
  - destruct P as (_ & _ & D1 & D2). rewrite D1 in Hd. cbn [andb] in Hd.
    apply negb_false_iff, N.eqb_eq in Hd. congruence.
  - destruct P.
Qed.

(* the states the theorems start from *)
Lemma wf_init c blocks :
  NoDup (map bk_sbn blocks) ->
  c_tlen c <= src_total (est_init blocks) ->
  (forall b, In b blocks -> src_total (est_init blocks) < c_tlen c + src_of_wb (to_wb b)) ->
  wf c (src_total (est_init blocks)) (est_init blocks).
Proof.
  intros Hnd Ht Hf. constructor.
  - unfold all_wbs, est_init. cbn [s_window s_future app]. rewrite map_map. exact Hnd.
  - cbn [est_init s_src_sent]. lia.
  - exact Ht.
  - exact Hf.
  - reflexivity.
Qed.
