(* D48: the empty object whose lone packet - carrying the FEC OTI and the transfer length 0 in-band (EXT_FTI) -
   arrives BEFORE the FDT instance.  The packet gives the receiver its OTI and its length, finds no writer (D37:
   nothing is completed without a writer) and is consumed; the FDT entry then opens the writer and - since the
   repair - completes the object at once: builder, open, complete, no write.  Before the repair the object stayed
   Receiving with its writer open for ever (nothing was left to trigger the completion). *)
From FluteV Require Import Model.Partition Model.ObjRecv Spec.RecvSpec Spec.SessionSpec Proofs.D48Step
  Proofs.C02Full Proofs.C02Cache.
From Coq Require Import Lia.
Open Scope N_scope.

Arguments N.add : simpl never. Arguments N.mul : simpl never. Arguments N.sub : simpl never.
Arguments N.eqb : simpl never. Arguments N.ltb : simpl never. Arguments N.leb : simpl never.
Arguments N.div : simpl never. Arguments N.modulo : simpl never. Arguments N.min : simpl never.

Section EmptyBeforeFdt.
  Variable E : env.
  Variables (fid : N) (files : list fdtfile) (inst : option roti) (f : fdtfile) (toi max : N) (oti : roti) (p : apkt).
  Hypothesis Hfind : find (fun f => ff_toi f =? toi) files = Some f.
  Hypothesis Htoi : toi <> 0.
  Hypothesis Hptoi : a_toi p = toi.
  Hypothesis Hbld : e_builder E toi 0%nat = WStore.
  Hypothesis Hopen : e_open_ok E (toi, 0%nat) = true.
  Hypothesis Hfti : a_oti p = Some (oti, 0).
  Hypothesis Hpid : a_pid_with (ro_fec oti) p <> None.
  Notation w := (toi, 0%nat).

  (* the object after the packet: OTI and length known, no FDT id, no writer, nothing cached *)
  Definition eb_obj : objrecv :=
    mk_or Receiving toi (Some oti) [] 0 max [] 0 (Some 0) (a_cenc p) None false 0 0 0 None None None 0 0 None false.

  Lemma eb_push c : or_push E p (or_new toi max) c = (eb_obj, c).
  Proof.
    unfold or_push, or_new. prj. rewrite Hptoi, Hfti.
    destruct (N.eqb_spec toi 0) as [Z|_]; [congruence|]. cbv iota beta.
    unfold init_partition at 1. unfold nb_block at 1. prj.
    change (0 <? 0 + N.of_nat (length (@nil bdec))) with false. cbv iota beta.
    rewrite partition_empty. cbv iota beta. change (N.to_nat (N.min 0 2048)) with 0%nat. cbn [repeat].
    unfold init_writer. prj. cbv iota beta.
    unfold push_from_cache, cache_replay_blocked, nb_block. prj.
    change (0 + N.of_nat (length (@nil bdec)) =? 0) with true. cbn [negb andb drain_cache]. prj.
    unfold push_to_block, push_to_block2. prj.
    destruct (a_pid_with (ro_fec oti) p) as [[[sbn esi] sbl]|]; [|congruence].
    change (0 =? 0) with true. cbv iota beta.
    unfold eb_obj. destruct (a_cenc p), (a_close_obj p); reflexivity.
  Qed.

  Definition eb_ctx : ctx := logc (inc_calls (logc ctx0 (EvBuilder toi WStore)) toi) (EvOpen w true).

  Lemma eb_attach : exists o2,
    or_attach E fid files inst eb_obj ctx0 = (true, o2, logc eb_ctx (EvComplete w))
    /\ r_state o2 = Completed /\ r_writer o2 = Some (w, WClosed).
  Proof.
    unfold or_attach, eb_obj. prj. rewrite Hfind. cbv iota beta.
    unfold init_partition at 1. unfold nb_block at 1. prj.
    change (0 <? 0 + N.of_nat (length (@nil bdec))) with false. cbv iota beta.
    rewrite partition_empty. cbv iota beta. change (N.to_nat (N.min 0 2048)) with 0%nat. cbn [repeat].
    unfold init_writer. prj.
    assert (Hce : exists ce, match a_cenc p with Some x => Some x | None => Some (ff_cenc f) end = Some ce)
      by (destruct (a_cenc p); eexists; reflexivity).
    destruct Hce as [ce ->]. cbv iota beta zeta.
    change (ncalls ctx0 toi) with 0%nat. rewrite Hbld. cbv iota beta zeta. rewrite Hopen. cbn [negb]. prj.
    cbv iota beta.
    match goal with |- context [complete ?x ?y] => set (o3 := x); set (c3 := y) end.
    pose proof (complete_closed o3 c3) as K.
    assert (Ec : snd (complete o3 c3) = logc eb_ctx (EvComplete w)) by reflexivity.
    assert (Es : r_state (fst (complete o3 c3)) = Completed) by reflexivity.
    assert (Ew : r_writer (fst (complete o3 c3)) = Some (w, WClosed)) by reflexivity.
    destruct (complete o3 c3) as [o4 c4]. cbn [fst snd] in *. subst c4.
    destruct K as (K1 & K2 & K3 & K4).
    assert (P : push_from_cache E o4 (logc eb_ctx (EvComplete w)) = (o4, logc eb_ctx (EvComplete w)))
      by (apply pfc_nil; assumption).
    rewrite P. rewrite (wb_closedw E _ 0 o4 _ K4). rewrite P.
    exists o4. split; [reflexivity|]. split; assumption.
  Qed.

  (* the packet first (cached in no way: it is pushed to the block plane and finds no writer), then the FDT entry,
     then whatever follows *)
  Theorem empty_object_before_fdt_delivers post :
    (let (o1, c1) := or_push E p (or_new toi max) ctx0 in
     r_state o1 = Receiving /\ r_writer o1 = None /\ c_log c1 = [])
    /\ (let (o, c) := receive_cached E fid files inst toi max [p] post in
        r_state o = Completed /\ r_writer o = Some (w, WClosed)
        /\ c_log c = [EvBuilder toi WStore; EvOpen w true; EvComplete w]).
  Proof.
    split.
    - rewrite eb_push. repeat split.
    - unfold receive_cached, C02Full.run at 1. cbn [fold_left fst snd]. rewrite eb_push.
      destruct eb_attach as (o2 & -> & Hs & Hw).
      rewrite C02Full.run_closed by (rewrite Hs; discriminate). repeat split; assumption.
  Qed.
End EmptyBeforeFdt.

(* a 0-byte object of TOI 7: its only packet (in-band FTI with transfer length 0, payload id (0,0), no payload,
   close-object flag set as flute senders do on the last packet) comes before the FDT entry *)
Definition ex0_pkt_fti : apkt :=
  mk_apkt 7 true false None (Some (ex_oti, 0)) None None 0 (mk_pid 0 0) [] 0.
Example ex_empty_before_fdt :
  summary 7 (C02Full.run env_ok [ex0_pkt_fti] (or_new 7 1000, ctx0)) = (Receiving, [])
  /\ summary 7 (receive_cached env_ok 1 ex0_files None 7 1000 [ex0_pkt_fti] []) = (Completed, [CallOpen true; CallComplete])
  /\ summary 7 (receive_cached env_ok 1 ex0_files None 7 1000 [ex0_pkt_fti] [ex0_pkt_fti])
     = (Completed, [CallOpen true; CallComplete]).
Proof. vm_compute. repeat split. Qed.
