(* C17, receiver level: in every state reachable by any event sequence whose inputs are bounded,
   P_C17_bounds holds.  Object invariant (exact block accounting), receiver invariant, induction
   over recv_run. *)
From FluteV Require Import Model.ObjRecv Model.Recv Spec.RecvSpec Spec.C17Spec
                           Proofs.PartitionProofs Proofs.RecvProofs.
From Coq Require Import Lia.
Open Scope N_scope.

Arguments N.add : simpl never. Arguments N.mul : simpl never. Arguments N.sub : simpl never.
Arguments N.eqb : simpl never. Arguments N.ltb : simpl never. Arguments N.leb : simpl never.
Arguments N.div : simpl never. Arguments N.modulo : simpl never.

(* ================= what "bounded inputs" means ================= *)

(* the source block length field of a FEC-129 (small block systematic) payload id; 0 for the
   4-byte payload ids of the other schemes *)
Definition pkt_sbl (p : apkt) : N :=
  match parse_pid FRS28US (a_pidbytes p) with Some (_, _, Some s) => s | _ => 0 end.

(* an OTI whose blocks are at most maxblk bytes long: B * E for the schemes whose block structure
   follows from the OTI (RFC 5052 partitioning); for FEC 129 the receiver believes the source
   block length field of each packet, which is assumed to be at most smax *)
Definition oti_ok (maxblk smax : N) (oti : roti) : bool :=
  match ro_fec oti with
  | FRS28US => smax * ro_e oti <=? maxblk
  | _ => ro_b oti * ro_e oti <=? maxblk
  end.
Definition ooti_ok (maxblk smax : N) (o : option roti) : bool :=
  match o with Some oti => oti_ok maxblk smax oti | None => true end.
Definition pkt_ok (maxpkt maxblk smax : N) (p : apkt) : bool :=
  (a_datalen p <=? maxpkt) && (pkt_sbl p <=? smax)
  && match a_oti p with Some (oti, _) => oti_ok maxblk smax oti | None => true end.
Definition inst_ok (maxblk smax : N) (i : fdtinst) : bool :=
  forallb (fun f => ooti_ok maxblk smax (ff_oti f)) (fi_files i) && ooti_ok maxblk smax (fi_oti i).
(* packets of the FDT (TOI 0) are not constrained: the FDT object is not one of rv_objects *)
Definition ev_ok (maxpkt maxblk smax : N) (e : rev) : bool :=
  match e with
  | RvPush p _ => (a_toi p =? 0) || pkt_ok maxpkt maxblk smax p
  | _ => true
  end.

(* the premise of C17: every pushed datagram (of an object other than the FDT) is at most maxpkt
   bytes long, every OTI it carries and every OTI an FDT instance may announce describes blocks
   of at most maxblk bytes *)
Definition C17_inputs_bounded (parse_fdt : list N -> option fdtinst) (evs : list rev) (maxpkt maxblk : N) : Prop :=
  exists smax,
    forallb (ev_ok maxpkt maxblk smax) evs = true
    /\ forall d i, parse_fdt d = Some i -> inst_ok maxblk smax i = true.

(* ================= arithmetic ================= *)

Lemma partition_le_b b l e al as_ nal n :
  block_partitioning b l e = (al, as_, nal, n) -> al <= b /\ as_ <= b.
Proof.
  unfold block_partitioning.
  destruct (N.eqb_spec b 0) as [|Hb]; [intros H; inversion H; lia|].
  destruct (N.eqb_spec e 0) as [|He]; [intros H; inversion H; lia|].
  set (t := div_ceil l e). set (n0 := div_ceil t b).
  destruct (N.eqb_spec n0 0) as [|Hn]; [intros H; inversion H; lia|].
  intros H; inversion H; subst al as_ nal n; clear H.
  assert (Hb' : 0 < b) by lia. assert (Hn' : 0 < n0) by lia.
  destruct (div_ceil_is_ceil t b Hb') as [C1 _]. fold n0 in C1.
  destruct (div_ceil_is_ceil t n0 Hn') as [_ C2].
  assert (A : div_ceil t n0 <= b) by (apply C2; lia).
  pose proof (div_ceil_floor_gap t n0 Hn') as G. lia.
Qed.

Lemma csub_le a b r : csub a b = Some r -> r <= a - b.
Proof. unfold csub. destruct (b <=? a); intros H; inversion H; lia. Qed.

Lemma block_length64_le al as_ nal l e sbn bl :
  block_length64 al as_ nal l e sbn = Some bl -> bl <= al * e \/ bl <= as_ * e.
Proof.
  unfold block_length64, obind, cmul64, cadd64.
  destruct (al * e <? U64); [|discriminate].
  destruct (as_ * e <? U64); [|discriminate].
  destruct (sbn + 1 <? U64); [|discriminate].
  destruct (sbn + 1 <? nal); [intros H; inversion H; left; lia|].
  destruct (N.eqb_spec (sbn + 1) nal) as [En|En].
  - destruct (nal * (al * e) <? U64); [|discriminate].
    destruct (N.leb_spec (nal * (al * e)) l) as [L|L]; [intros H; inversion H; left; lia|].
    unfold csub at 1. destruct (1 <=? nal); [|discriminate].
    destruct ((nal - 1) * (al * e) <? U64); [|discriminate].
    intros H. apply csub_le in H. left. nia.
  - destruct (nal * (al * e) <? U64); [|discriminate].
    destruct (csub l (nal * (al * e))) as [l'|]; [|discriminate].
    destruct (csub sbn nal) as [s|]; [|discriminate].
    destruct (s + 1 <? U64); [|discriminate].
    destruct ((s + 1) * (as_ * e) <? U64); [|discriminate].
    destruct (N.leb_spec ((s + 1) * (as_ * e)) l') as [L|L]; [intros H; inversion H; right; lia|].
    destruct (s * (as_ * e) <? U64); [|discriminate].
    intros H. apply csub_le in H. right. nia.
Qed.

Lemma parse_pid_sbl f bytes sbn esi v :
  parse_pid f bytes = Some (sbn, esi, Some v) ->
  f = FRS28US /\ parse_pid FRS28US bytes = Some (sbn, esi, Some v).
Proof.
  destruct f; cbn [parse_pid]; try (destruct (Nat.eqb _ _); intros H; inversion H; fail); try discriminate.
  intros H; split; [reflexivity|exact H].
Qed.

(* ================= lists of block decoders ================= *)

Lemma sumN'_app a b : sumN' (a ++ b) = sumN' a + sumN' b.
Proof. unfold sumN'. induction a as [|x a IH]; cbn [app fold_right]; [lia|rewrite IH; lia]. Qed.

Lemma sum_repeat_0 (f : bdec -> N) x n : f x = 0 -> sumN' (map f (repeat x n)) = 0.
Proof. intros H. induction n as [|n IH]; cbn [repeat map]; [reflexivity|]. unfold sumN' in *. cbn [fold_right]. rewrite IH, H. reflexivity. Qed.

Lemma sum_upd (f : bdec -> N) g d : forall l i, (i < length l)%nat ->
  sumN' (map f (upd_nthb i g l)) + f (nth i l d) = sumN' (map f l) + f (g (nth i l d)).
Proof.
  unfold sumN'. induction l as [|x l IH]; intros i Hi; cbn [length] in Hi; [lia|].
  destruct i as [|i]; cbn [upd_nthb map fold_right nth]; [lia|].
  specialize (IH i ltac:(lia)). lia.
Qed.

Lemma Forall_upd (P : bdec -> Prop) g d : forall l i,
  Forall P l -> ((i < length l)%nat -> P (g (nth i l d))) -> Forall P (upd_nthb i g l).
Proof.
  induction l as [|x l IH]; intros i F H; [destruct i; constructor|].
  inversion F as [|? ? Px Fl]; subst.
  destruct i as [|i]; cbn [upd_nthb]; constructor; auto.
  - apply H. cbn [length]. lia.
  - apply IH; [exact Fl|]. intros Hi. apply H. cbn [length]. lia.
Qed.

Lemma Forall_nth (P : bdec -> Prop) d l i : Forall P l -> (i < length l)%nat -> P (nth i l d).
Proof. intros F Hi. rewrite Forall_forall in F. apply F. apply nth_In. exact Hi. Qed.

Lemma Forall_repeat {A} (P : A -> Prop) x n : P x -> Forall P (repeat x n).
Proof. intros H. induction n; cbn [repeat]; constructor; auto. Qed.

Section Obj.
  Variables (maxpkt maxblk smax : N).

  (* a block decoder is fresh (never initialised), live (initialised, its size is counted) or
     dead (written and deallocated) *)
  Definition fresh_b (b : bdec) : Prop := bd_init b = false /\ bd_size b = 0 /\ bd_completed b = false.
  Definition live_b (b : bdec) : Prop :=
    bd_init b = true /\ bd_size b <= maxblk /\ bd_completed b = is_some_b (bd_data b).
  Definition dead_b (b : bdec) : Prop :=
    bd_init b = true /\ bd_size b = 0 /\ bd_completed b = true /\ bd_data b = None.
  Definition blk_ok (b : bdec) : Prop := fresh_b b \/ live_b b \/ dead_b b.
  Definition is_live (b : bdec) : bool := bd_init b && (negb (bd_completed b) || is_some_b (bd_data b)).
  Definition live1 (b : bdec) : N := if is_live b then 1 else 0.
  Definition sizes (l : list bdec) : N := sumN' (map bd_size l).
  Definition nlive (l : list bdec) : N := sumN' (map live1 l).

  Lemma fresh_new : fresh_b bdec_new.
  Proof. repeat split. Qed.
  Lemma live_is_live b : live_b b -> is_live b = true.
  Proof. intros (A & _ & C). unfold is_live. rewrite A, C. destruct (is_some_b (bd_data b)); reflexivity. Qed.
  Lemma fresh_not_live b : fresh_b b -> is_live b = false.
  Proof. intros (A & _). unfold is_live. rewrite A. reflexivity. Qed.
  Lemma dead_not_live b : dead_b b -> is_live b = false.
  Proof. intros (A & _ & C & D). unfold is_live. rewrite A, C, D. reflexivity. Qed.

  Lemma size_le_live b : blk_ok b -> bd_size b <= live1 b * maxblk.
  Proof.
    unfold live1. intros [F|[L|D]].
    - destruct F as (_ & S & _). rewrite S. lia.
    - rewrite (live_is_live b L). destruct L as (_ & S & _). lia.
    - destruct D as (_ & S & _). rewrite S. lia.
  Qed.
  Lemma sizes_le_nlive l : Forall blk_ok l -> sizes l <= nlive l * maxblk.
  Proof.
    unfold sizes, nlive, sumN'. induction 1 as [|b l Hb _ IH]; cbn [map fold_right]; [lia|].
    pose proof (size_le_live b Hb). lia.
  Qed.

  (* ---- the accounting invariant of an object ---- *)
  Definition acct (o : objrecv) : Prop :=
    Forall blk_ok (r_blocks o)
    /\ r_alloc_size o = sizes (r_blocks o)
    /\ r_nb_alloc o = nlive (r_blocks o)
    /\ (r_alloc_size o <= r_max o \/ r_nb_alloc o <= 2).
  Definition bnd (o : objrecv) : Prop := r_alloc_size o <= r_max o + 2 * maxblk.
  (* an object that has completed or failed: buffers released, counters stale, nothing can be
     allocated any more *)
  Definition dormant (o : objrecv) : Prop :=
    r_state o <> Receiving /\ r_cache o = [] /\ Forall (fun b => bd_completed b = false) (r_blocks o).
  Definition st (o : objrecv) : Prop := acct o \/ (dormant o /\ bnd o).

  Lemma acct_bnd o : acct o -> bnd o.
  Proof.
    intros (F & S & C & K). unfold bnd. pose proof (sizes_le_nlive _ F) as B.
    rewrite <- S, <- C in B. destruct K as [K|K]; [lia|nia].
  Qed.
  Lemma st_bnd o : st o -> bnd o.
  Proof. intros [A|[_ B]]; [apply acct_bnd; exact A|exact B]. Qed.

  (* the header fields the block plane only reads *)
  Definition hdr (o : objrecv) := (r_max o, r_oti o, r_al o, r_as o).

  Definition pok (o : objrecv) : Prop :=
    match r_oti o with
    | None => r_al o = 0 /\ r_as o = 0
    | Some oti => oti_ok maxblk smax oti = true /\ r_al o <= ro_b oti /\ r_as o <= ro_b oti
    end.
  Lemma pok_hdr o o' : hdr o' = hdr o -> pok o -> pok o'.
  Proof. unfold hdr, pok. intros H. inversion H as [[H1 H2 H3 H4]]. rewrite H2, H3, H4. auto. Qed.

  (* ---- atomic updates ---- *)
  Lemma st_complete o c : bnd o -> st (fst (complete o c)) /\ hdr (fst (complete o c)) = hdr o.
  Proof.
    intros B. unfold complete. destruct (r_writer o) as [[w ws]|]; cbn [fst]; (split; [|reflexivity]);
      right; (split; [split; [cbn; discriminate|split; [reflexivity|constructor]]|exact B]).
  Qed.
  Lemma st_error o i c : bnd o -> st (fst (error o i c)) /\ hdr (fst (error o i c)) = hdr o.
  Proof.
    intros B. unfold error. destruct (r_writer o) as [[w ws]|]; cbn [fst]; (split; [|reflexivity]);
      right; (split; [split; [destruct i; cbn; discriminate|split; [reflexivity|constructor]]|exact B]).
  Qed.
  Lemma acct_set_state o s : acct o -> acct (set_state o s).
  Proof. intros A. exact A. Qed.

  Lemma acct_extend o n :
    acct o -> acct (set_blocks o (r_blocks o ++ repeat bdec_new n) (r_off o) (r_nb_alloc o) (r_alloc_size o) (r_bw o)).
  Proof.
    intros (F & S & C & K). unfold acct. cbn [set_blocks r_blocks r_alloc_size r_nb_alloc r_max].
    split; [|split; [|split; [|exact K]]].
    - apply Forall_app. split; [exact F|]. apply Forall_repeat. left. exact fresh_new.
    - unfold sizes. rewrite map_app, sumN'_app, sum_repeat_0 by reflexivity. unfold sizes in S. lia.
    - unfold nlive. rewrite map_app, sumN'_app, sum_repeat_0 by reflexivity. unfold nlive in C. lia.
  Qed.
End Obj.

Section ObjE.
  Variable E : env.
  Variables (maxpkt maxblk smax : N).
  Notation acct := (acct maxblk). Notation st := (st maxblk). Notation bnd := (bnd maxblk).
  Notation blk_ok := (blk_ok maxblk). Notation live_b := (live_b maxblk). Notation pok := (pok maxblk smax).

  Lemma bw_write_ok w sbn b bw c bw' c1 : bw_write E w sbn b bw c = (BwOk bw', c1) -> bd_data b <> None.
  Proof.
    unfold bw_write. destruct (negb (bw_sbn bw =? sbn)); [discriminate|].
    destruct (bd_data b); [discriminate|]. intros H; discriminate H.
  Qed.

  Lemma dealloc_acct o bl off bw' idx :
    acct o -> (idx < length (r_blocks o))%nat ->
    bd_completed (nth idx (r_blocks o) bdec_new) = true -> bd_data (nth idx (r_blocks o) bdec_new) <> None ->
    (idx = O /\ bl = tl (r_blocks o)) \/
    bl = upd_nthb idx (fun x => mk_bdec (bd_completed x) (bd_init x) 0 (bd_k x) [] None false) (r_blocks o) ->
    acct (set_blocks o bl off (r_nb_alloc o - 1) (r_alloc_size o - bd_size (nth idx (r_blocks o) bdec_new)) bw').
  Proof.
    intros (F & S & C & K) Hi Hc Hd Hbl. set (b := nth idx (r_blocks o) bdec_new) in *.
    assert (Bok : blk_ok b) by (apply Forall_nth; assumption).
    assert (L : live_b b).
    { destruct Bok as [(_ & _ & X)|[L|(_ & _ & _ & X)]]; [congruence|exact L|congruence]. }
    assert (L1 : live1 b = 1) by (unfold live1; rewrite (live_is_live maxblk b L); reflexivity).
    unfold C17Full.acct. cbn [set_blocks r_blocks r_alloc_size r_nb_alloc r_max].
    destruct Hbl as [[Hi0 Hbl]|Hbl]; subst bl.
    - subst idx. destruct (r_blocks o) as [|x rest] eqn:Eb; [cbn in Hi; lia|]. cbn [nth] in b. subst b.
      inversion F as [|? ? _ Fr]; subst. cbn [tl].
      unfold sizes, nlive, sumN' in *. cbn [map fold_right] in S, C.
      split; [exact Fr|]. split; [lia|]. split; [lia|]. lia.
    - pose proof (sum_upd bd_size (fun x => mk_bdec (bd_completed x) (bd_init x) 0 (bd_k x) [] None false) bdec_new _ _ Hi) as U1.
      pose proof (sum_upd live1 (fun x => mk_bdec (bd_completed x) (bd_init x) 0 (bd_k x) [] None false) bdec_new _ _ Hi) as U2.
      cbv beta in U1, U2. fold b in U1, U2. cbn [bd_size] in U1.
      assert (D : dead_b (mk_bdec (bd_completed b) (bd_init b) 0 (bd_k b) [] None false)).
      { destruct L as (Li & _ & _). unfold dead_b. cbn. auto. }
      assert (L0 : live1 (mk_bdec (bd_completed b) (bd_init b) 0 (bd_k b) [] None false) = 0)
        by (unfold live1; rewrite (dead_not_live _ D); reflexivity).
      rewrite L0, L1 in U2. unfold sizes, nlive in *.
      split; [|split; [lia|split; [lia|lia]]].
      apply Forall_upd with (d := bdec_new); [exact F|]. intros _. fold b. right; right. exact D.
  Qed.

  Lemma st_write_blocks_acct : forall fuel sbn o c, acct o ->
    st (res_obj (fst (write_blocks E fuel sbn o c))) /\ hdr (res_obj (fst (write_blocks E fuel sbn o c))) = hdr o.
  Proof.
    induction fuel as [|f IH]; intros sbn o c A;
      assert (Same : st o /\ hdr o = hdr o) by (split; [left; exact A|reflexivity]);
      cbn [write_blocks fst res_obj]; [exact Same|].
    destruct (r_writer o) as [[w ws]|]; [|exact Same].
    destruct ws; try exact Same.
    destruct (r_bw o) as [bw|]; [|exact Same].
    destruct ((r_off o <=? sbn) && (sbn - r_off o <? N.of_nat (length (r_blocks o)))) eqn:Hc; [|exact Same].
    apply andb_prop in Hc. destruct Hc as [_ Hlt]. apply N.ltb_lt in Hlt.
    assert (Hi : (N.to_nat (sbn - r_off o) < length (r_blocks o))%nat) by lia.
    destruct (bd_completed (nth (N.to_nat (sbn - r_off o)) (r_blocks o) bdec_new)) eqn:Hcomp; cbn [negb]; [|exact Same].
    destruct (bw_write E w sbn _ bw c) as [[| bw' | |] c1] eqn:Hbw; cbn [fst res_obj]; try exact Same.
    apply bw_write_ok in Hbw.
    destruct (Nat.eqb (N.to_nat (sbn - r_off o)) 0) eqn:Ei; cbv zeta beta iota;
    match goal with |- context [set_blocks o ?a ?b ?d ?e ?g] => set (o1 := set_blocks o a b d e g) end;
    (assert (A1 : acct o1);
     [unfold o1; apply dealloc_acct; try assumption;
      first [left; split; [apply Nat.eqb_eq; exact Ei|reflexivity] | right; reflexivity]|]);
    assert (H1 : hdr o1 = hdr o) by reflexivity;
    destruct (bw_left bw' =? 0).
    all: try (destruct (IH (sbn + 1) o1 c1 A1) as [I1 I2]; split; [exact I1|rewrite I2; exact H1]).
    all: destruct (match r_md5 o1, bw_md5 bw' with Some want, Some got => eqb_bytes want got | _, _ => true end).
    all: try (destruct (st_complete maxblk o1 c1 (acct_bnd _ _ A1)) as [K1 K2]; destruct (complete o1 c1) as [o2 c2];
              cbn [fst res_obj] in *; split; [exact K1|rewrite K2; exact H1]).
    all: try (destruct (st_error maxblk o1 false c1 (acct_bnd _ _ A1)) as [K1 K2]; destruct (error o1 false c1) as [o2 c2];
              cbn [fst res_obj] in *; split; [exact K1|rewrite K2; exact H1]).
  Qed.

  Lemma write_blocks_dormant : forall fuel sbn o c,
    Forall (fun b => bd_completed b = false) (r_blocks o) -> fst (write_blocks E fuel sbn o c) = ROk o.
  Proof.
    intros fuel sbn o c F. destruct fuel as [|f]; cbn [write_blocks fst]; [reflexivity|].
    destruct (r_writer o) as [[w ws]|]; [|reflexivity].
    destruct ws; try reflexivity.
    destruct (r_bw o) as [bw|]; [|reflexivity].
    destruct ((r_off o <=? sbn) && (sbn - r_off o <? N.of_nat (length (r_blocks o)))) eqn:Hc; [|reflexivity].
    apply andb_prop in Hc. destruct Hc as [_ Hlt]. apply N.ltb_lt in Hlt.
    rewrite (Forall_nth (fun b => bd_completed b = false) bdec_new (r_blocks o) (N.to_nat (sbn - r_off o)) F) by lia.
    reflexivity.
  Qed.

  Lemma st_write_blocks fuel sbn o c : st o ->
    st (res_obj (fst (write_blocks E fuel sbn o c))) /\ hdr (res_obj (fst (write_blocks E fuel sbn o c))) = hdr o.
  Proof.
    intros [A|[D B]]; [apply st_write_blocks_acct; exact A|].
    rewrite write_blocks_dormant by apply D. cbn [res_obj]. split; [right; split; assumption|reflexivity].
  Qed.
  (* ---- block initialisation (the allocation decision of push_to_block2) ---- *)
  Definition init_res_of (o : objrecv) (oti : roti) (tlen sbn : N) (sbl : option N) (b : bdec)
    : option (option (bdec * N * N)) :=
    if bd_init b then Some (Some (b, r_nb_alloc o, r_alloc_size o))
    else
      let k := match sbl with Some v => v | None => if sbn <? r_nal o then r_al o else r_as o end in
      let blen : option N :=
        match sbl with
        | Some _ => Some (k * ro_e oti)
        | None => block_length64 (r_al o) (r_as o) (r_nal o) tlen (ro_e oti) sbn
        end in
      match blen with
      | None => None
      | Some bl =>
        if (2 <=? r_nb_alloc o) && (r_max o <? r_alloc_size o + bl) then Some None
        else match bd_init_block oti k bl b with
             | None => Some None
             | Some b' => Some (Some (b', r_nb_alloc o + 1, r_alloc_size o + bl))
             end
      end.

  Lemma bd_init_block_spec oti k size b b' :
    bd_init b = false -> bd_init_block oti k size b = Some b' ->
    bd_init b' = true /\ bd_size b' = size /\ bd_completed b' = bd_completed b /\ bd_data b' = None.
  Proof.
    intros Hi. unfold bd_init_block. rewrite Hi.
    destruct (ro_fec oti); try destruct (rs_ok k (ro_parity oti));
      try (destruct (ro_scheme oti) as [[[z n] al]|]);
      repeat match goal with |- context [if ?x then None else _] => destruct x end;
      intros H; inversion H; cbn; auto.
  Qed.

  Lemma init_res_spec o oti tlen sbn sbl b b1 nb sz :
    pok o -> r_oti o = Some oti ->
    (forall v, sbl = Some v -> ro_fec oti = FRS28US /\ v <= smax) ->
    (sbl = None -> ro_fec oti <> FRS28US) ->
    blk_ok b -> bd_completed b = false ->
    init_res_of o oti tlen sbn sbl b = Some (Some (b1, nb, sz)) ->
    live_b b1 /\ bd_completed b1 = false /\
    ((bd_init b = true /\ b1 = b /\ nb = r_nb_alloc o /\ sz = r_alloc_size o) \/
     (bd_init b = false /\ nb = r_nb_alloc o + 1 /\ sz = r_alloc_size o + bd_size b1
      /\ (r_nb_alloc o < 2 \/ sz <= r_max o))).
  Proof.
    intros PK Eo Hs Hn Bok Hc. unfold init_res_of.
    destruct (bd_init b) eqn:Hi.
    { intros H; inversion H; subst b1 nb sz; clear H.
      assert (L : live_b b).
      { destruct Bok as [(X & _)|[L|(_ & _ & X & _)]]; [congruence|exact L|congruence]. }
      split; [exact L|]. split; [exact Hc|]. left. auto. }
    cbv zeta.
    set (k := match sbl with Some v => v | None => if sbn <? r_nal o then r_al o else r_as o end).
    destruct (match sbl with Some _ => Some (k * ro_e oti)
                           | None => block_length64 (r_al o) (r_as o) (r_nal o) tlen (ro_e oti) sbn end) as [bl|] eqn:Ebl;
      [|discriminate].
    assert (Hbl : bl <= maxblk).
    { unfold C17Full.pok in PK. rewrite Eo in PK. destruct PK as (OK & Al & As). unfold oti_ok in OK.
      destruct sbl as [v|].
      - destruct (Hs v eq_refl) as [Hf Hv]. rewrite Hf in OK. apply N.leb_le in OK.
        inversion Ebl; subst bl. unfold k. nia.
      - specialize (Hn eq_refl). apply block_length64_le in Ebl.
        assert (OK' : ro_b oti * ro_e oti <= maxblk) by (destruct (ro_fec oti); try congruence; apply N.leb_le; exact OK).
        destruct Ebl; nia. }
    destruct ((2 <=? r_nb_alloc o) && (r_max o <? r_alloc_size o + bl)) eqn:Ecap; [discriminate|].
    destruct (bd_init_block oti k bl b) as [b'|] eqn:Eib; [|discriminate].
    intros H; inversion H; subst b1 nb sz; clear H.
    destruct (bd_init_block_spec _ _ _ _ _ Hi Eib) as (I1 & I2 & I3 & I4).
    split; [unfold C17Full.live_b; rewrite I1, I2, I3, I4, Hc; cbn; auto|].
    split; [congruence|]. right. rewrite I2. repeat split.
    apply andb_false_iff in Ecap. destruct Ecap as [X|X]; [left; apply N.leb_gt in X; exact X|right; apply N.ltb_ge in X; exact X].
  Qed.

  Lemma bd_push_live toi oti sbn esi pl b :
    live_b b -> live_b (fst (bd_push E toi oti sbn esi pl b)) /\ bd_size (fst (bd_push E toi oti sbn esi pl b)) = bd_size b.
  Proof.
    intros L. unfold bd_push.
    destruct (bd_completed b); [split; [exact L|reflexivity]|].
    destruct (negb (bd_alloc b)); [split; [exact L|reflexivity]|].
    destruct (ro_e oti <? lenN_ pl); [split; [exact L|reflexivity]|].
    cbv zeta. cbn [fst]. unfold C17Full.live_b. cbn [bd_init bd_size bd_completed bd_data].
    destruct L as (_ & S & _). auto.
  Qed.

  Lemma parse_pid_nosbl f bytes sbn esi : parse_pid f bytes = Some (sbn, esi, None) -> f <> FRS28US.
  Proof. intros H ->. cbn [parse_pid] in H. destruct (Nat.eqb _ _); discriminate. Qed.

  Lemma st_push_to_block2 p o c :
    acct o -> pok o -> pkt_sbl p <= smax ->
    st (res_obj (fst (push_to_block2 E p o c))) /\ hdr (res_obj (fst (push_to_block2 E p o c))) = hdr o.
  Proof.
    intros A PK HP.
    assert (Same : st o /\ hdr o = hdr o) by (split; [left; exact A|reflexivity]).
    unfold push_to_block2.
    destruct (r_oti o) as [oti|] eqn:Eo; [|exact Same].
    destruct (r_tlen o) as [tlen|]; [|exact Same].
    destruct (a_pid_with (ro_fec oti) p) as [[[sbn esi] sbl]|] eqn:Epid; [|exact Same].
    destruct (tlen =? 0).
    { destruct (r_writer o); [|exact Same].
      pose proof (st_complete maxblk o c (acct_bnd _ _ A)) as K. destruct (complete o c) as [o1 c1]. exact K. }
    destruct (sbn <? r_off o); [exact Same|].
    destruct (match sbl with None => nb_blocks_of oti tlen <=? sbn | Some _ => false end); [exact Same|].
    cbv zeta.
    set (off := sbn - r_off o).
    destruct ((N.of_nat (length (r_blocks o)) <=? off) && (4096 <? off)); [split; [left; exact A|reflexivity]|].
    set (bl0 := if N.of_nat (length (r_blocks o)) <=? off
                then r_blocks o ++ repeat bdec_new (N.to_nat off + 1 - length (r_blocks o)) else r_blocks o).
    set (o0 := set_blocks o bl0 (r_off o) (r_nb_alloc o) (r_alloc_size o) (r_bw o)).
    assert (A0 : acct o0).
    { unfold o0, bl0. destruct (N.of_nat (length (r_blocks o)) <=? off); [apply acct_extend; exact A|exact A]. }
    assert (Hidx : (N.to_nat off < length bl0)%nat).
    { unfold bl0. destruct (N.leb_spec (N.of_nat (length (r_blocks o))) off); rewrite ?app_length, ?repeat_length; lia. }
    set (b := nth (N.to_nat off) bl0 bdec_new).
    assert (Bok : blk_ok b) by (apply Forall_nth; [apply A0|exact Hidx]).
    destruct (bd_completed b) eqn:Ecomp. { cbn [fst res_obj]. split; [left; exact A0|reflexivity]. }
    match goal with |- context [match ?x with None => _ | Some _ => _ end] =>
      change x with (init_res_of o oti tlen sbn sbl b) end.
    destruct (init_res_of o oti tlen sbn sbl b) as [[[[b1 nb] sz]|]|] eqn:Eir;
      [|cbn [fst res_obj]; split; [left; exact A0|reflexivity] ..].
    assert (Hs : forall v, sbl = Some v -> ro_fec oti = FRS28US /\ v <= smax).
    { intros v ->. unfold a_pid_with in Epid. destruct (parse_pid_sbl _ _ _ _ _ Epid) as [Hf Hp].
      split; [exact Hf|]. unfold pkt_sbl in HP. rewrite Hp in HP. exact HP. }
    assert (Hn : sbl = None -> ro_fec oti <> FRS28US).
    { intros ->. unfold a_pid_with in Epid. eapply parse_pid_nosbl; exact Epid. }
    destruct (init_res_spec o oti tlen sbn sbl b b1 nb sz PK Eo Hs Hn Bok Ecomp Eir) as (L1 & C1 & Hcase).
    pose proof (bd_push_live (r_toi o) oti sbn esi (a_payload p) b1 L1) as [L2 S2].
    destruct (bd_push E (r_toi o) oti sbn esi (a_payload p) b1) as [b2 pan]. cbn [fst] in L2, S2.
    set (o1 := set_blocks o0 (upd_nthb (N.to_nat off) (fun _ => b2) bl0) (r_off o) nb sz (r_bw o)).
    assert (A1 : acct o1).
    { destruct A0 as (F & S & C & K). cbn [o0 set_blocks r_blocks r_alloc_size r_nb_alloc r_max] in F, S, C, K.
      unfold C17Full.acct, o1. cbn [o0 set_blocks r_blocks r_alloc_size r_nb_alloc r_max].
      pose proof (sum_upd bd_size (fun _ => b2) bdec_new _ _ Hidx) as U1.
      pose proof (sum_upd live1 (fun _ => b2) bdec_new _ _ Hidx) as U2.
      cbv beta in U1, U2. fold b in U1, U2.
      assert (Lb2 : live1 b2 = 1) by (unfold live1; rewrite (live_is_live maxblk b2 L2); reflexivity).
      split; [apply Forall_upd with (d := bdec_new); [exact F|intros _; right; left; exact L2]|].
      unfold sizes, nlive in *.
      destruct Hcase as [(Hi & -> & -> & ->)|(Hi & -> & -> & K')].
      - assert (Lb : live1 b = 1) by (unfold live1; rewrite (live_is_live maxblk b L1); reflexivity).
        split; [lia|]. split; [lia|]. exact K.
      - assert (Fb : fresh_b b).
        { destruct Bok as [X|[(X & _)|(X & _)]]; [exact X|congruence|congruence]. }
        assert (Lb : live1 b = 0) by (unfold live1; rewrite (fresh_not_live b Fb); reflexivity).
        destruct Fb as (_ & Sb & _).
        split; [lia|]. split; [lia|]. destruct K'; [right; lia|left; lia]. }
    destruct (bd_completed b2); [|cbn [fst res_obj]; split; [left; exact A1|reflexivity]].
    destruct (st_write_blocks_acct (S (length (r_blocks o1))) sbn o1 (if pan then panicc c else c) A1) as [S1 H1].
    split; [exact S1|rewrite H1; reflexivity].
  Qed.
End ObjE.

(* ================= D47: the bytes HELD by the block decoders ================= *)
(* Since the repair of D47 BlockDecoder::push discards a symbol longer than the encoding symbol length E before it
   reaches any decoder.  What a block decoder holds is then bounded by the NOMINAL size k * E of its block:
   every stored symbol has at most E bytes (Raptor pads up to ceil(block length / k) <= E), the stored ESIs are
   distinct and below [max_syms], and the decoded block has at most k * E bytes - for the decoders that are
   oracles of the model (Reed-Solomon with a missing source symbol, RaptorQ, Raptor) this is the hypothesis
   [fec_out_ok] on the environment (reed_solomon_erasure / raptorq return k shards of E bytes, raptor_code the block
   length it was created with). *)
Definition fec_out_ok (E : env) : Prop :=
  forall toi f sbn k e size sh d, e_fec E toi f sbn k e size sh = Some d -> lenN_ d <= k * e.

(* number of distinct ESI values the payload id of a scheme can carry *)
Definition esi_space (f : rfec) : N :=
  match f with FNoCode | FRaptor | FRS28US => 65536 | FRS28 => 256 | FRaptorQ => 16777216 | FRS2M => 0 end.

Lemma parse_pid_esi f bytes sbn esi sbl : parse_pid f bytes = Some (sbn, esi, sbl) -> esi < esi_space f.
Proof.
  destruct f; cbn [parse_pid esi_space]; try discriminate;
    (destruct (Nat.eqb _ _); [|discriminate]); intros H; inversion H; apply N.mod_lt; discriminate.
Qed.

(* number of encoding symbols a block decoder of k source symbols may hold: No-Code keeps ESI < k, Reed-Solomon
   ESI < k + parity; RaptorQ / Raptor keep every new ESI as long as the decoder has not answered *)
Definition max_syms (oti : roti) (k : N) : N :=
  match ro_fec oti with
  | FNoCode => k
  | FRS28 | FRS28US => k + ro_parity oti
  | FRaptorQ => esi_space FRaptorQ
  | FRaptor => esi_space FRaptor
  | FRS2M => 0
  end.

Lemma block_length64_le_k al as_ nal l e sbn bl :
  block_length64 al as_ nal l e sbn = Some bl -> bl <= (if sbn <? nal then al else as_) * e.
Proof.
  unfold block_length64, obind, cmul64, cadd64.
  destruct (al * e <? U64); [|discriminate].
  destruct (as_ * e <? U64); [|discriminate].
  destruct (sbn + 1 <? U64); [|discriminate].
  destruct (N.ltb_spec (sbn + 1) nal) as [H1|H1].
  { intros H; inversion H. destruct (N.ltb_spec sbn nal); lia. }
  destruct (N.eqb_spec (sbn + 1) nal) as [En|En].
  - destruct (N.ltb_spec sbn nal) as [_|G]; [|lia].
    destruct (nal * (al * e) <? U64); [|discriminate].
    destruct (N.leb_spec (nal * (al * e)) l) as [L|L]; [intros H; inversion H; lia|].
    unfold csub at 1. destruct (1 <=? nal); [|discriminate].
    destruct ((nal - 1) * (al * e) <? U64); [|discriminate].
    intros H. apply csub_le in H. nia.
  - destruct (N.ltb_spec sbn nal) as [G|_]; [lia|].
    destruct (nal * (al * e) <? U64); [|discriminate].
    destruct (csub l (nal * (al * e))) as [l'|]; [|discriminate].
    destruct (csub sbn nal) as [s|]; [|discriminate].
    destruct (s + 1 <? U64); [|discriminate].
    destruct ((s + 1) * (as_ * e) <? U64); [|discriminate].
    destruct (N.leb_spec ((s + 1) * (as_ * e)) l') as [L|L]; [intros H; inversion H; lia|].
    destruct (s * (as_ * e) <? U64); [|discriminate].
    intros H. apply csub_le in H. nia.
Qed.

Lemma lenN_app_ (a b : list N) : lenN_ (a ++ b) = lenN_ a + lenN_ b.
Proof. unfold lenN_. rewrite app_length. lia. Qed.

Lemma lenN_pad_to t (x : list N) : lenN_ (pad_to t x) = N.max t (lenN_ x).
Proof. unfold pad_to. rewrite lenN_app_. unfold lenN_ at 2. rewrite repeat_length. lia. Qed.

Lemma raptor_symbol_size_le size k e : size <= k * e -> raptor_symbol_size size k <= e.
Proof.
  intros H. unfold raptor_symbol_size.
  destruct (div_ceil_is_ceil size (N.max k 1) ltac:(lia)) as [_ C]. apply C. nia.
Qed.

Lemma get_esi_some i sh d : get_esi i sh = Some d -> exists p, In p sh /\ snd p = d.
Proof.
  unfold get_esi. destruct (find (fun p => fst p =? i) sh) as [p|] eqn:F; [|discriminate].
  intros H; inversion H. apply find_some in F. exists p. split; [apply F|reflexivity].
Qed.

Lemma concat_src_len e sh : Forall (fun p : N * list N => lenN_ (snd p) <= e) sh ->
  forall n i d, concat_src n i sh = Some d -> lenN_ d <= N.of_nat n * e.
Proof.
  intros F. induction n as [|n IH]; intros i d; cbn [concat_src].
  - intros H; inversion H. unfold lenN_. cbn [length]. lia.
  - destruct (get_esi i sh) as [d1|] eqn:G; [|discriminate].
    destruct (concat_src n (i + 1) sh) as [r|] eqn:C; [|discriminate]. intros H; inversion H.
    rewrite lenN_app_. specialize (IH _ _ C). destruct (get_esi_some _ _ _ G) as (p & Hp & <-).
    rewrite Forall_forall in F. specialize (F p Hp). cbv beta in F. lia.
Qed.

Lemma nodup_bounded_len (l : list N) k : NoDup l -> (forall x, In x l -> x < k) -> N.of_nat (length l) <= k.
Proof.
  intros ND H. assert (L : (length l <= length (map N.of_nat (seq 0 (N.to_nat k))))%nat).
  { apply NoDup_incl_length; [exact ND|]. intros x Hx. apply in_map_iff. exists (N.to_nat x). split; [lia|].
    apply in_seq. specialize (H x Hx). lia. }
  rewrite map_length, seq_length in L. lia.
Qed.

Lemma has_esi_false_notin esi sh : has_esi esi sh = false -> ~ In esi (map fst sh).
Proof.
  unfold has_esi. intros H C. apply in_map_iff in C. destruct C as (p & Hp & Hin).
  assert (existsb (fun p => fst p =? esi) sh = true) by (apply existsb_exists; exists p; split; [exact Hin|apply N.eqb_eq; exact Hp]).
  congruence.
Qed.

Lemma NoDup_snoc {A} (l : list A) x : NoDup l -> ~ In x l -> NoDup (l ++ [x]).
Proof.
  intros ND NI. induction ND as [|y l Hy ND IH]; cbn [app].
  - constructor; [intros []|constructor].
  - constructor.
    + intros C. apply in_app_or in C. destruct C as [C|[C|[]]]; [contradiction|]. subst. apply NI. left. reflexivity.
    + apply IH. intros C. apply NI. right. exact C.
Qed.

Lemma upd_nthb_length i f : forall l, length (upd_nthb i f l) = length l.
Proof. revert i. intros i l. revert i. induction l as [|x l IH]; intros [|i]; cbn [upd_nthb length]; auto. Qed.

Section HeldB.
  Variable maxblk : N.

  (* what a block decoder of an object announced with [oti] holds *)
  Record held_b (oti : roti) (b : bdec) : Prop := mk_held {
    hb_dead : bd_alloc b = false -> bd_shards b = [] /\ bd_data b = None;
    hb_size : bd_size b <= bd_k b * ro_e oti;
    hb_nom : bd_k b * ro_e oti <= maxblk;
    hb_k1 : bd_alloc b = true -> ro_fec oti <> FNoCode -> 1 <= bd_k b;
    hb_rs : bd_alloc b = true -> ro_fec oti = FRS28 \/ ro_fec oti = FRS28US -> bd_k b + ro_parity oti <= 256;
    hb_len : Forall (fun p => lenN_ (snd p) <= ro_e oti) (bd_shards b);
    hb_nodup : NoDup (map fst (bd_shards b));
    hb_esi : Forall (fun p => fst p < max_syms oti (bd_k b)) (bd_shards b);
    hb_data : forall d, bd_data b = Some d -> lenN_ d <= bd_k b * ro_e oti
  }.

  Lemma held_new oti : held_b oti bdec_new.
  Proof.
    constructor; cbn [bdec_new bd_alloc bd_shards bd_data bd_size bd_k map]; try discriminate; try constructor; try lia; auto.
  Qed.

  Lemma held_dealloc oti x : held_b oti x ->
    held_b oti (mk_bdec (bd_completed x) (bd_init x) 0 (bd_k x) [] None false).
  Proof.
    intros H. constructor; cbn [bd_alloc bd_shards bd_data bd_size bd_k map]; try discriminate; try constructor; try lia; auto.
    exact (hb_nom _ _ H).
  Qed.

  Lemma held_init oti k size b b' :
    bd_init b = false -> bd_init_block oti k size b = Some b' ->
    size <= k * ro_e oti -> k * ro_e oti <= maxblk -> held_b oti b'.
  Proof.
    intros Hi Hb Hs Hn. unfold bd_init_block in Hb. rewrite Hi in Hb.
    assert (G : forall cpl, (ro_fec oti <> FNoCode -> 1 <= k) ->
                (ro_fec oti = FRS28 \/ ro_fec oti = FRS28US -> k + ro_parity oti <= 256) ->
                held_b oti (mk_bdec cpl true size k [] None true)).
    { intros cpl K1 K2. constructor; cbn [bd_alloc bd_shards bd_data bd_size bd_k map]; try discriminate; try constructor; auto. }
    destruct (ro_fec oti) eqn:Ef.
    - inversion Hb. apply G; [congruence|intros [X|X]; discriminate X].
    - unfold rs_ok in Hb. destruct (N.ltb_spec 0 k) as [K|K]; cbn [andb] in Hb; [|discriminate].
      destruct (0 <? ro_parity oti); cbn [andb] in Hb; [|discriminate].
      destruct (N.leb_spec (k + ro_parity oti) 256) as [K2|K2]; [|discriminate].
      inversion Hb. apply G; [intros _; lia|intros _; exact K2].
    - unfold rs_ok in Hb. destruct (N.ltb_spec 0 k) as [K|K]; cbn [andb] in Hb; [|discriminate].
      destruct (0 <? ro_parity oti); cbn [andb] in Hb; [|discriminate].
      destruct (N.leb_spec (k + ro_parity oti) 256) as [K2|K2]; [|discriminate].
      inversion Hb. apply G; [intros _; lia|intros _; exact K2].
    - discriminate.
    - destruct (ro_scheme oti) as [[[z n] al]|]; [|discriminate].
      destruct (ro_e oti =? 0); cbn [orb] in Hb; [discriminate|].
      destruct (al =? 0); cbn [orb] in Hb; [discriminate|].
      destruct (negb (ro_e oti mod al =? 0)); cbn [orb] in Hb; [discriminate|].
      destruct (n =? 0); cbn [orb] in Hb; [discriminate|].
      destruct (N.eqb_spec k 0) as [K|K]; cbn [orb] in Hb; [discriminate|].
      destruct (RAPTORQ_KMAX <? k); [discriminate|].
      inversion Hb. apply G; [intros _; lia|intros [X|X]; discriminate X].
    - destruct (ro_scheme oti) as [x|]; [|discriminate].
      destruct (N.eqb_spec k 0) as [K|K]; cbn [orb] in Hb; [discriminate|].
      destruct (RAPTOR_KMAX <? k); [discriminate|].
      inversion Hb. apply G; [intros _; lia|intros [X|X]; discriminate X].
  Qed.

  Lemma bd_push_held E toi oti sbn esi payload b :
    fec_out_ok E -> held_b oti b -> esi < esi_space (ro_fec oti) ->
    held_b oti (fst (bd_push E toi oti sbn esi payload b)).
  Proof.
    intros Hfec H Hesi. unfold bd_push.
    destruct (bd_completed b); [exact H|].
    destruct (bd_alloc b) eqn:Ea; cbn [negb]; [|exact H].
    destruct (N.ltb_spec (ro_e oti) (lenN_ payload)) as [Hl|Hl]; [exact H|].
    cbv zeta. cbn [fst].
    set (accept := match ro_fec oti with
                   | FNoCode => esi <? bd_k b
                   | FRS28 | FRS28US => esi <? bd_k b + ro_parity oti
                   | FRaptorQ => lenN_ payload =? ro_e oti
                   | _ => true end).
    set (pl := match ro_fec oti with FRaptor => pad_to (raptor_symbol_size (bd_size b) (bd_k b)) payload | _ => payload end).
    set (done_ := match ro_fec oti, bd_data b with
                  | (FRS28 | FRS28US | FRaptorQ | FRaptor), Some _ => true | _, _ => false end).
    set (sh := if accept && negb (has_esi esi (bd_shards b)) && negb done_ then bd_shards b ++ [(esi, pl)] else bd_shards b).
    assert (Hpl : lenN_ pl <= ro_e oti).
    { unfold pl. destruct (ro_fec oti); try exact Hl. rewrite lenN_pad_to.
      pose proof (raptor_symbol_size_le _ _ _ (hb_size _ _ H)). lia. }
    assert (Hacc : accept = true -> esi < max_syms oti (bd_k b)).
    { unfold accept, max_syms. destruct (ro_fec oti); intros X; try (apply N.ltb_lt in X; exact X); try exact Hesi. }
    assert (S1 : Forall (fun p => lenN_ (snd p) <= ro_e oti) sh).
    { unfold sh. destruct (accept && negb (has_esi esi (bd_shards b)) && negb done_); [|exact (hb_len _ _ H)].
      apply Forall_app. split; [exact (hb_len _ _ H)|constructor; [exact Hpl|constructor]]. }
    assert (S2 : NoDup (map fst sh)).
    { unfold sh. destruct accept; cbn [andb]; [|exact (hb_nodup _ _ H)].
      destruct (has_esi esi (bd_shards b)) eqn:Hh; cbn [negb andb]; [exact (hb_nodup _ _ H)|].
      destruct (negb done_); [|exact (hb_nodup _ _ H)].
      rewrite map_app. cbn [map fst]. apply NoDup_snoc; [exact (hb_nodup _ _ H)|apply has_esi_false_notin; exact Hh]. }
    assert (S3 : Forall (fun p => fst p < max_syms oti (bd_k b)) sh).
    { unfold sh. destruct accept; cbn [andb]; [|exact (hb_esi _ _ H)].
      destruct (negb (has_esi esi (bd_shards b)) && negb done_); [|exact (hb_esi _ _ H)].
      apply Forall_app. split; [exact (hb_esi _ _ H)|constructor; [exact (Hacc eq_refl)|constructor]]. }
    clearbody sh.
    constructor; cbn [bd_alloc bd_shards bd_data bd_size bd_k]; try discriminate; try assumption.
    - exact (hb_size _ _ H).
    - exact (hb_nom _ _ H).
    - intros _. exact (hb_k1 _ _ H Ea).
    - intros _. exact (hb_rs _ _ H Ea).
    - intros d. destruct (bd_data b) as [d0|] eqn:Ed; [intros X; inversion X; subst d0; exact (hb_data _ _ H d Ed)|].
      assert (C : forall d', concat_src (N.to_nat (bd_k b)) 0 sh = Some d' -> lenN_ d' <= bd_k b * ro_e oti).
      { intros d' X. pose proof (concat_src_len _ _ S1 _ _ _ X). lia. }
      destruct (ro_fec oti).
      + destruct (count_lt (bd_k b) sh =? bd_k b); [apply C|discriminate].
      + destruct (bd_k b <=? N.of_nat (length sh)); [|discriminate].
        destruct (count_lt (bd_k b) sh =? bd_k b); [apply C|apply Hfec].
      + destruct (bd_k b <=? N.of_nat (length sh)); [|discriminate].
        destruct (count_lt (bd_k b) sh =? bd_k b); [apply C|apply Hfec].
      + apply Hfec.
      + apply Hfec.
      + apply Hfec.
  Qed.

  (* ---- what the invariant gives in bytes ---- *)
  Lemma sum_len_le e (sh : list (N * list N)) : Forall (fun p => lenN_ (snd p) <= e) sh ->
    sumN' (map (fun p => lenN_ (snd p)) sh) <= N.of_nat (length sh) * e.
  Proof.
    unfold sumN'. induction 1 as [|p sh Hp _ IH]; cbn [map fold_right length]; [lia|].
    rewrite Nat2N.inj_succ. lia.
  Qed.

  Lemma held_nb_syms oti b : held_b oti b -> N.of_nat (length (bd_shards b)) <= max_syms oti (bd_k b).
  Proof.
    intros H. rewrite <- (map_length fst). apply nodup_bounded_len; [exact (hb_nodup _ _ H)|].
    intros x Hx. apply in_map_iff in Hx. destruct Hx as (p & <- & Hp).
    pose proof (hb_esi _ _ H) as F. rewrite Forall_forall in F. exact (F p Hp).
  Qed.

  (* HELD <= multiple of the NOMINAL block size k * E: the stored symbols (at most max_syms of at most E bytes) and
     the decoded block (at most k * E bytes); a deallocated decoder holds nothing *)
  Theorem held_b_bytes oti b : held_b oti b ->
    shard_bytes b <= (max_syms oti (bd_k b) + bd_k b) * ro_e oti
    /\ (bd_alloc b = false -> shard_bytes b = 0).
  Proof.
    intros H. unfold shard_bytes. split.
    - pose proof (sum_len_le _ _ (hb_len _ _ H)) as A. pose proof (held_nb_syms _ _ H) as B.
      assert (D : match bd_data b with Some d => lenN_ d | None => 0 end <= bd_k b * ro_e oti).
      { destruct (bd_data b) as [d|] eqn:Ed; [exact (hb_data _ _ H d Ed)|lia]. }
      nia.
    - intros Ha. destruct (hb_dead _ _ H Ha) as [-> ->]. reflexivity.
  Qed.

  (* the same in terms of the bound maxblk on the nominal block size: No-Code 2, Reed-Solomon 257 (k + parity <= 256
     symbols and the block), RaptorQ 2^24 + 1, Raptor 2^16 + 1 (one symbol per ESI of the payload id, and the block) *)
  Definition held_mult (f : rfec) : N :=
    match f with FNoCode => 2 | FRS28 | FRS28US => 257 | FRaptorQ => 16777217 | FRaptor => 65537 | FRS2M => 1 end.

  Theorem held_b_cfg oti b : held_b oti b -> shard_bytes b <= held_mult (ro_fec oti) * maxblk.
  Proof.
    intros H. destruct (held_b_bytes oti b H) as [A Z].
    destruct (bd_alloc b) eqn:Ea; [|rewrite (Z eq_refl); lia].
    pose proof (hb_nom _ _ H) as Nm. pose proof (hb_k1 _ _ H Ea) as K1. pose proof (hb_rs _ _ H Ea) as K2.
    unfold max_syms, held_mult in *. destruct (ro_fec oti); cbn [esi_space] in *.
    - nia.
    - specialize (K1 ltac:(discriminate)). specialize (K2 (or_introl eq_refl)).
      assert (ro_e oti <= bd_k b * ro_e oti) by nia. nia.
    - specialize (K1 ltac:(discriminate)). specialize (K2 (or_intror eq_refl)).
      assert (ro_e oti <= bd_k b * ro_e oti) by nia. nia.
    - nia.
    - specialize (K1 ltac:(discriminate)). assert (ro_e oti <= bd_k b * ro_e oti) by nia. nia.
    - specialize (K1 ltac:(discriminate)). assert (ro_e oti <= bd_k b * ro_e oti) by nia. nia.
  Qed.
End HeldB.

Section ObjW.
  Variable E : env.
  Variables (maxpkt maxblk smax : N).
  Notation acct := (acct maxblk). Notation st := (st maxblk). Notation bnd := (bnd maxblk).
  Notation pok := (pok maxblk smax).

  Definition cpk (o : objrecv) : Prop := Forall (fun p => pkt_sbl p <= smax) (r_cache o).
  (* the walk invariant: accounting, partition bound, cached packets well-formed *)
  Definition W (o : objrecv) : Prop := st o /\ pok o /\ cpk o.

  Lemma cpk_ckc o o' : cpk o -> cache_keep_or_clear o o' -> cpk o'.
  Proof. unfold cpk. intros C [_ [[K _]|[K _]]]; rewrite K; [exact C|constructor]. Qed.

  Lemma st_not_dormant o : st o -> r_cache o <> [] \/ r_state o = Receiving -> acct o.
  Proof. intros [A|[(D1 & D2 & _) _]] H; [exact A|]. destruct H; congruence. Qed.

  Lemma W_error o i c : W o -> W (fst (error o i c)).
  Proof.
    intros (S & PK & CP). destruct (st_error maxblk o i c (st_bnd _ _ S)) as [S1 H1].
    split; [exact S1|]. split; [exact (pok_hdr _ _ _ _ H1 PK)|]. exact (cpk_ckc _ _ CP (ckc_error o i c)).
  Qed.

  Lemma st_push_to_block p o c : acct o -> pok o -> pkt_sbl p <= smax ->
    st (res_obj (fst (push_to_block E p o c))) /\ hdr (res_obj (fst (push_to_block E p o c))) = hdr o.
  Proof.
    intros A PK Hp. unfold push_to_block. destruct (st_push_to_block2 E maxblk smax p o c A PK Hp) as [S1 H1].
    destruct (push_to_block2 E p o c) as [[o1|o1] c1]; cbn [fst res_obj] in *; [|split; assumption].
    destruct (a_close_obj p); [|split; assumption].
    destruct (r_state o1); try (split; assumption).
    destruct (r_writer o1); [|split; assumption].
    destruct (st_error maxblk o1 true c1 (st_bnd _ _ S1)) as [S2 H2]. destruct (error o1 true c1) as [o2 c2].
    cbn [fst res_obj] in *. split; [exact S2|rewrite H2; exact H1].
  Qed.

  Lemma W_push_to_block p o c : W o -> acct o -> pkt_sbl p <= smax -> W (res_obj (fst (push_to_block E p o c))).
  Proof.
    intros (S & PK & CP) A Hp. destruct (st_push_to_block p o c A PK Hp) as [S1 H1].
    split; [exact S1|]. split; [exact (pok_hdr _ _ _ _ H1 PK)|]. exact (cpk_ckc _ _ CP (ckc_push_to_block E p o c)).
  Qed.

  Lemma W_drain_cache : forall cache o c,
    Forall (fun p => pkt_sbl p <= smax) cache -> st o -> pok o -> (cache <> [] -> acct o) ->
    st (fst (drain_cache E cache o c)) /\ hdr (fst (drain_cache E cache o c)) = hdr o.
  Proof.
    induction cache as [|p rest IH]; intros o c Fc S PK Hne; cbn [drain_cache fst]; [split; [exact S|reflexivity]|].
    set (o0 := mk_or _ _ _ rest _ _ _ _ _ _ _ _ _ _ _ _ _ _ _ _ _ _).
    inversion Fc as [|? ? Hp Fr]; subst.
    assert (A0 : acct o0) by (apply Hne; discriminate).
    assert (W0 : W o0) by (split; [left; exact A0|split; [exact PK|unfold cpk; cbn [o0 r_cache]; exact Fr]]).
    destruct (st_push_to_block p o0 c A0 PK Hp) as [S1 H1].
    assert (PK1 := pok_hdr _ _ _ _ H1 PK). change (hdr o0) with (hdr o) in H1.
    destruct (push_to_block E p o0 c) as [[o1|o1] c1]; cbn [fst res_obj] in *.
    - destruct (r_cache o1) as [|x xs] eqn:Ec; cbn [fst]; [split; [exact S1|exact H1]|].
      destruct (IH o1 c1 Fr S1 PK1) as [I1 I2].
      { intros _. apply st_not_dormant; [exact S1|left; congruence]. }
      split; [exact I1|rewrite I2; exact H1].
    - destruct (st_error maxblk o1 false c1 (st_bnd _ _ S1)) as [S2 H2]. split; [exact S2|rewrite H2; exact H1].
  Qed.
  Lemma W_push_from_cache o c : W o -> W (fst (push_from_cache E o c)).
  Proof.
    intros (S & PK & CP). split; [|split]; [| |exact (cpk_ckc _ _ CP (ckc_push_from_cache E o c))].
    all: unfold push_from_cache; destruct (cache_replay_blocked o); [assumption|].
    all: destruct (W_drain_cache (r_cache o) o c) as [S1 H1];
      [exact CP|exact S|exact PK| |].
    1,3: intros Hne; apply st_not_dormant; [exact S|left; intros X; apply Hne; rewrite X; reflexivity].
    all: destruct (drain_cache E (r_cache o) o c) as [o1 c1]; cbn [fst] in *.
    - destruct S1 as [A1|[D1 B1]]; [left; exact A1|right; split; [exact D1|exact B1]].
    - exact (pok_hdr _ _ _ _ H1 PK).
  Qed.

  Lemma nb_block_0 o : (0 <? nb_block o) = false -> r_blocks o = [].
  Proof.
    intros H. apply N.ltb_ge in H. unfold nb_block in H.
    destruct (r_blocks o); [reflexivity|cbn [length] in H; lia].
  Qed.

  Lemma W_init_partition o : W o -> W (init_partition o).
  Proof.
    intros (S & PK & CP). split; [|split]; [| |exact (cpk_ckc _ _ CP (ckc_init_partition o))].
    - unfold init_partition. destruct (0 <? nb_block o) eqn:Hnb; [exact S|].
      destruct (r_oti o) as [oti|]; [|exact S]. destruct (r_tlen o) as [tl|]; [|exact S].
      destruct (block_partitioning (ro_b oti) tl (ro_e oti)) as [[[al as_] nal] n].
      apply nb_block_0 in Hnb.
      destruct S as [(F & Sz & C & K)|[(D1 & D2 & D3) B]].
      + left. unfold C17Full.acct. cbn [r_blocks r_alloc_size r_nb_alloc r_max].
        rewrite Hnb in Sz, C. cbn in Sz, C.
        split; [apply Forall_repeat; left; exact fresh_new|].
        unfold sizes, nlive. rewrite !sum_repeat_0 by reflexivity. auto.
      + right. split; [|exact B]. split; [exact D1|split; [exact D2|]].
        cbn [r_blocks]. apply Forall_repeat. reflexivity.
    - unfold init_partition. destruct (0 <? nb_block o) eqn:Hnb; [exact PK|].
      destruct (r_oti o) as [oti|] eqn:Eo; [|exact PK]. destruct (r_tlen o) as [tl|]; [|exact PK].
      destruct (block_partitioning (ro_b oti) tl (ro_e oti)) as [[[al as_] nal] n] eqn:Ep.
      apply partition_le_b in Ep. unfold C17Full.pok in *. cbn [r_oti r_al r_as]. rewrite Eo in *.
      destruct PK as (OK & _ & _). tauto.
  Qed.

  Lemma W_init_writer o c : W o -> W (fst (init_writer E o c)).
  Proof.
    intros (S & PK & CP).
    assert (G : st (fst (init_writer E o c)) /\ hdr (fst (init_writer E o c)) = hdr o).
    { assert (Same : st o /\ hdr o = hdr o) by (split; [exact S|reflexivity]).
      unfold init_writer. destruct (r_writer o); [exact Same|].
      destruct (r_fdt_id o); [|exact Same]. destruct (r_cenc o); [|exact Same].
      destruct (r_tlen o); [|exact Same]. destruct (r_oti o) eqn:Eo; [|exact Same].
      cbv zeta.
      assert (SS : forall s, s <> Receiving -> st (set_state o s)).
      { intros s Hs. destruct S as [A|[(D1 & D2 & D3) B]]; [left; exact A|].
        right. split; [|exact B]. split; [exact Hs|split; assumption]. }
      destruct (e_builder E (r_toi o) (ncalls c (r_toi o))); cbn [fst];
        [|split; [apply SS; discriminate|unfold hdr; cbn; rewrite Eo; reflexivity] ..].
      match goal with |- context [e_open_ok E ?w] => destruct (e_open_ok E w) end; cbn [negb].
      - cbn [fst]. split; [|unfold hdr; cbn; rewrite Eo; reflexivity].
        destruct S as [A|[D B]]; [left; exact A|right; split; [exact D|exact B]].
      - match goal with |- context [error ?x false ?y] =>
          destruct (st_error maxblk x false y) as [S1 H1]; [exact (st_bnd _ _ S)|]; destruct (error x false y) as [o2 c2] end.
        cbn [fst] in *. split; [exact S1|rewrite H1; unfold hdr; cbn; rewrite Eo; reflexivity]. }
    destruct G as [S1 H1]. split; [exact S1|]. split; [exact (pok_hdr _ _ _ _ H1 PK)|].
    exact (cpk_ckc _ _ CP (ckc_init_writer E o c)).
  Qed.

  Lemma W_write_blocks fuel sbn o c : W o -> W (res_obj (fst (write_blocks E fuel sbn o c))).
  Proof.
    intros (S & PK & CP). destruct (st_write_blocks E maxblk fuel sbn o c S) as [S1 H1].
    split; [exact S1|]. split; [exact (pok_hdr _ _ _ _ H1 PK)|]. exact (cpk_ckc _ _ CP (ckc_write_blocks E fuel sbn o c)).
  Qed.

  (* ---- ObjectReceiver::push ---- *)
  Theorem W_or_push p o c :
    W o -> pkt_sbl p <= smax -> (forall oti l, a_oti p = Some (oti, l) -> oti_ok maxblk smax oti = true) ->
    W (fst (or_push E p o c)).
  Proof.
    intros WO Hp Hoti. unfold or_push. destruct (r_state o) eqn:Est; try exact WO.
    assert (G0 : forall o1, W o1 ->
      W (fst (let o2 := init_partition o1 in
              let (o3, c3) := init_writer E o2 c in
              match r_state o3 with
              | Receiving =>
                let (o4, c4) := push_from_cache E o3 c3 in
                match r_state o4 with
                | Receiving =>
                match r_oti o4 with
                | None =>
                  if r_max o4 <=? r_cache_size o4 then error o4 false c4
                  else (mk_or (r_state o4) (r_toi o4) (r_oti o4) (r_cache o4 ++ [p]) (r_cache_size o4 + a_datalen p) (r_max o4) (r_blocks o4)
                              (r_off o4) (r_tlen o4) (r_cenc o4) (r_md5 o4) (r_md5chk o4) (r_al o4) (r_as o4) (r_nal o4)
                              (r_writer o4) (r_bw o4) (r_fdt_id o4) (r_nb_alloc o4) (r_alloc_size o4) (r_clen o4) (r_nocache o4), c4)
                | Some _ =>
                  match push_to_block E p o4 c4 with
                  | (ROk o5, c5) => (o5, c5)
                  | (RErr o5, c5) => error o5 false c5
                  end
                end
                | _ => (o4, c4)
                end
              | _ => (o3, c3)
              end))).
    2: { destruct WO as (S & PK & CP).
         destruct (r_oti o) as [x|] eqn:Eo; destruct (a_oti p) as [[ot l]|] eqn:Ea; cbv zeta beta iota; apply G0.
         all: split; [destruct S as [A|[D B]]; [left; exact A|destruct D as (D1 & _); congruence]|split; [|exact CP]].
         all: unfold C17Full.pok in *; cbn [r_oti r_al r_as]; rewrite Eo in PK; try exact PK.
         destruct PK as [-> ->]. split; [exact (Hoti ot l eq_refl)|lia]. }
    intros o1 W1. cbv zeta.
    pose proof (W_init_partition o1 W1) as W2. set (o2 := init_partition o1) in *.
    pose proof (W_init_writer o2 c W2) as W3. destruct (init_writer E o2 c) as [o3 c3]. cbn [fst] in W3.
    destruct (r_state o3); cbn [fst]; try exact W3.
    pose proof (W_push_from_cache o3 c3 W3) as W4. destruct (push_from_cache E o3 c3) as [o4 c4]. cbn [fst] in W4.
    destruct (r_state o4) eqn:E4; cbn [fst]; try exact W4.
    assert (A4 : acct o4) by (apply st_not_dormant; [apply W4|right; exact E4]).
    destruct (r_oti o4) eqn:Eo4.
    - pose proof (W_push_to_block p o4 c4 W4 A4 Hp) as W5.
      destruct (push_to_block E p o4 c4) as [[o5|o5] c5]; cbn [fst res_obj] in *; [exact W5|].
      apply W_error. exact W5.
    - destruct (r_max o4 <=? r_cache_size o4); [apply W_error; exact W4|].
      cbn [fst]. destruct W4 as (S4 & PK4 & CP4). split; [left; exact A4|]. split.
      + unfold C17Full.pok in *. cbn [r_oti r_al r_as]. rewrite Eo4 in PK4. exact PK4.
      + unfold cpk in *. cbn [r_cache]. apply Forall_app. split; [exact CP4|constructor; [exact Hp|constructor]].
  Qed.

  Lemma W_complete o c : W o -> W (fst (complete o c)).
  Proof.
    intros (S & PK & CP). destruct (st_complete maxblk o c (st_bnd _ _ S)) as [S1 H1].
    split; [exact S1|]. split; [exact (pok_hdr _ _ _ _ H1 PK)|]. exact (cpk_ckc _ _ CP (ckc_complete o c)).
  Qed.
  Lemma W_d48_step o c : W o -> W (fst (d48_step o c)).
  Proof. intros H. destruct (d48_step_cases o c) as [-> | ->]; [exact H|apply W_complete; exact H]. Qed.

  (* ---- ObjectReceiver::attach_fdt ---- *)
  Theorem W_or_attach id files ioti o c :
    W o -> forallb (fun f => ooti_ok maxblk smax (ff_oti f)) files = true -> ooti_ok maxblk smax ioti = true ->
    W (snd (fst (or_attach E id files ioti o c))).
  Proof.
    intros WO Hf Hi. unfold or_attach. destruct (r_fdt_id o); [exact WO|].
    destruct (find _ files) as [f|] eqn:Efind; [|exact WO].
    assert (Hff : ooti_ok maxblk smax (ff_oti f) = true).
    { apply find_some in Efind. rewrite forallb_forall in Hf. apply Hf. apply Efind. }
    assert (G0 : forall o1, W o1 ->
      W (snd (fst (let o2 := init_partition o1 in
                   let (o3a, c3a) := init_writer E o2 c in
                   let (o3, c3) := d48_step o3a c3a in
                   let (o4, c4) := push_from_cache E o3 c3 in
                   let '(o5, c5) := match write_blocks E (S (length (r_blocks o4))) 0 o4 c4 with
                                    | (ROk x, cx) => (x, cx)
                                    | (RErr x, cx) => error x false cx
                                    end in
                   let (o6, c6) := push_from_cache E o5 c5 in
                   (true, o6, c6))))).
    2: { destruct WO as (S & PK & CP).
         destruct (r_oti o) as [x|] eqn:Eo;
           [|destruct (match ff_oti f with Some x => Some x | None => ioti end) as [x|] eqn:Ex];
           cbv zeta beta iota; apply G0.
         all: split; [destruct S as [A|[D B]]; [left; exact A|right; split; [exact D|exact B]]|split; [|exact CP]].
         all: unfold C17Full.pok in *; cbn [r_oti r_al r_as]; rewrite Eo in PK; try exact PK.
         destruct PK as [-> ->]. split; [|lia].
         destruct (ff_oti f) as [y|]; [inversion Ex; subst; exact Hff|subst ioti; exact Hi]. }
    intros o1 W1. cbv zeta.
    pose proof (W_init_partition o1 W1) as W2. set (o2 := init_partition o1) in *.
    pose proof (W_init_writer o2 c W2) as W3a. destruct (init_writer E o2 c) as [o3a c3a]. cbn [fst] in W3a.
    pose proof (W_d48_step o3a c3a W3a) as W3. destruct (d48_step o3a c3a) as [o3 c3]. cbn [fst] in W3.
    pose proof (W_push_from_cache o3 c3 W3) as W4. destruct (push_from_cache E o3 c3) as [o4 c4]. cbn [fst] in W4.
    pose proof (W_write_blocks (S (length (r_blocks o4))) 0 o4 c4 W4) as W5.
    destruct (write_blocks E (S (length (r_blocks o4))) 0 o4 c4) as [[o5|o5] c5]; cbn [fst res_obj] in W5.
    - pose proof (W_push_from_cache o5 c5 W5) as W6. destruct (push_from_cache E o5 c5) as [o6 c6]. exact W6.
    - pose proof (W_error o5 false c5 W5) as W6. destruct (error o5 false c5) as [o6 c6]. cbn [fst] in W6.
      pose proof (W_push_from_cache o6 c6 W6) as W7. destruct (push_from_cache E o6 c6) as [o7 c7]. exact W7.
  Qed.

  (* ---- D47: what the block decoders of an object hold ---- *)
  Notation held_b := (held_b maxblk).
  Definition HBo (oti : roti) (o : objrecv) : Prop :=
    Forall (held_b oti) (r_blocks o) /\ (length (r_blocks o) <= 4097)%nat.
  (* no block exists before the OTI is known *)
  Definition HB (o : objrecv) : Prop :=
    match r_oti o with None => r_blocks o = [] | Some oti => HBo oti o end.

  Lemma HBo_nil oti o : r_blocks o = [] -> HBo oti o.
  Proof. intros H. unfold HBo. rewrite H. split; [constructor|cbn; lia]. Qed.
  Lemma HB_of_nil o : r_blocks o = [] -> HB o.
  Proof. intros H. unfold HB. destruct (r_oti o); [apply HBo_nil; exact H|exact H]. Qed.
  Lemma hdr_oti o o' : hdr o' = hdr o -> r_oti o' = r_oti o.
  Proof. unfold hdr. intros H. inversion H. reflexivity. Qed.

  Lemma complete_nil o c : r_blocks (fst (complete o c)) = [] /\ hdr (fst (complete o c)) = hdr o.
  Proof. unfold complete. destruct (r_writer o) as [[w ws]|]; cbn [fst]; split; reflexivity. Qed.
  Lemma error_nil o i c : r_blocks (fst (error o i c)) = [] /\ hdr (fst (error o i c)) = hdr o.
  Proof. unfold error. destruct (r_writer o) as [[w ws]|]; cbn [fst]; split; reflexivity. Qed.
  Lemma HB_error o i c : HB (fst (error o i c)).
  Proof. apply HB_of_nil. apply error_nil. Qed.

  Lemma HBo_set_tl oti o off nb sz bw : HBo oti o -> HBo oti (set_blocks o (tl (r_blocks o)) off nb sz bw).
  Proof.
    intros [F L]. unfold HBo. cbn [set_blocks r_blocks]. destruct (r_blocks o) as [|x l]; cbn [tl length] in *; [split; [constructor|lia]|].
    inversion F; subst. split; [assumption|lia].
  Qed.
  Lemma HBo_set_dealloc oti o idx off nb sz bw : HBo oti o ->
    HBo oti (set_blocks o (upd_nthb idx (fun x => mk_bdec (bd_completed x) (bd_init x) 0 (bd_k x) [] None false) (r_blocks o)) off nb sz bw).
  Proof.
    intros [F L]. unfold HBo. cbn [set_blocks r_blocks]. rewrite upd_nthb_length. split; [|exact L].
    apply Forall_upd with (d := bdec_new); [exact F|]. intros Hi. apply held_dealloc. apply Forall_nth; assumption.
  Qed.

  Lemma HBo_write_blocks oti : forall fuel sbn o c, HBo oti o ->
    HBo oti (res_obj (fst (write_blocks E fuel sbn o c))) /\ hdr (res_obj (fst (write_blocks E fuel sbn o c))) = hdr o.
  Proof.
    induction fuel as [|f IH]; intros sbn o c A;
      assert (Same : HBo oti o /\ hdr o = hdr o) by (split; [exact A|reflexivity]);
      cbn [write_blocks fst res_obj]; [exact Same|].
    destruct (r_writer o) as [[w ws]|]; [|exact Same].
    destruct ws; try exact Same.
    destruct (r_bw o) as [bw|]; [|exact Same].
    destruct ((r_off o <=? sbn) && (sbn - r_off o <? N.of_nat (length (r_blocks o)))) eqn:Hc; [|exact Same].
    destruct (bd_completed (nth (N.to_nat (sbn - r_off o)) (r_blocks o) bdec_new)) eqn:Hcomp; cbn [negb]; [|exact Same].
    destruct (bw_write E w sbn _ bw c) as [[| bw' | |] c1] eqn:Hbw; cbn [fst res_obj]; try exact Same.
    destruct (Nat.eqb (N.to_nat (sbn - r_off o)) 0) eqn:Ei; cbv zeta beta iota;
    match goal with |- context [set_blocks o ?a ?b ?d ?e ?g] => set (o1 := set_blocks o a b d e g) end;
    (assert (A1 : HBo oti o1) by (unfold o1; first [apply HBo_set_tl|apply HBo_set_dealloc]; exact A));
    assert (H1 : hdr o1 = hdr o) by reflexivity;
    destruct (bw_left bw' =? 0).
    all: try (destruct (IH (sbn + 1) o1 c1 A1) as [I1 I2]; split; [exact I1|rewrite I2; exact H1]).
    all: destruct (match r_md5 o1, bw_md5 bw' with Some want, Some got => eqb_bytes want got | _, _ => true end).
    all: try (destruct (complete_nil o1 c1) as [K1 K2]; destruct (complete o1 c1) as [o2 c2];
              cbn [fst res_obj] in *; split; [apply HBo_nil; exact K1|rewrite K2; exact H1]).
    all: try (destruct (error_nil o1 false c1) as [K1 K2]; destruct (error o1 false c1) as [o2 c2];
              cbn [fst res_obj] in *; split; [apply HBo_nil; exact K1|rewrite K2; exact H1]).
  Qed.

  Lemma init_res_held o oti tlen sbn sbl b b1 nb sz :
    pok o -> r_oti o = Some oti ->
    (forall v, sbl = Some v -> ro_fec oti = FRS28US /\ v <= smax) ->
    (sbl = None -> ro_fec oti <> FRS28US) ->
    held_b oti b ->
    init_res_of o oti tlen sbn sbl b = Some (Some (b1, nb, sz)) -> held_b oti b1.
  Proof.
    intros PK Eo Hs Hn Hb. unfold init_res_of.
    destruct (bd_init b) eqn:Hi; [intros H; inversion H; subst; exact Hb|].
    cbv zeta.
    set (k := match sbl with Some v => v | None => if sbn <? r_nal o then r_al o else r_as o end).
    destruct (match sbl with Some _ => Some (k * ro_e oti)
                           | None => block_length64 (r_al o) (r_as o) (r_nal o) tlen (ro_e oti) sbn end) as [bl|] eqn:Ebl;
      [|discriminate].
    assert (Hbl : bl <= k * ro_e oti).
    { destruct sbl as [v|]; [inversion Ebl; lia|]. apply block_length64_le_k in Ebl. exact Ebl. }
    assert (Hk : k * ro_e oti <= maxblk).
    { unfold C17Full.pok in PK. rewrite Eo in PK. destruct PK as (OK & Al & As). unfold oti_ok in OK.
      destruct sbl as [v|].
      - destruct (Hs v eq_refl) as [Hf Hv]. rewrite Hf in OK. apply N.leb_le in OK. unfold k. nia.
      - specialize (Hn eq_refl).
        assert (OK' : ro_b oti * ro_e oti <= maxblk) by (destruct (ro_fec oti); try congruence; apply N.leb_le; exact OK).
        unfold k. destruct (sbn <? r_nal o); nia. }
    destruct ((2 <=? r_nb_alloc o) && (r_max o <? r_alloc_size o + bl)); [discriminate|].
    destruct (bd_init_block oti k bl b) as [b'|] eqn:Eib; [|discriminate].
    intros H; inversion H; subst b1 nb sz; clear H.
    exact (held_init maxblk oti k bl b b' Hi Eib Hbl Hk).
  Qed.

  Lemma HBo_push_to_block2 oti p o c :
    fec_out_ok E -> pok o -> r_oti o = Some oti -> pkt_sbl p <= smax -> HBo oti o ->
    HBo oti (res_obj (fst (push_to_block2 E p o c))) /\ hdr (res_obj (fst (push_to_block2 E p o c))) = hdr o.
  Proof.
    intros Hfec PK Eo HP A.
    assert (Same : HBo oti o /\ hdr o = hdr o) by (split; [exact A|reflexivity]).
    unfold push_to_block2. rewrite Eo.
    destruct (r_tlen o) as [tlen|]; [|exact Same].
    destruct (a_pid_with (ro_fec oti) p) as [[[sbn esi] sbl]|] eqn:Epid; [|exact Same].
    destruct (tlen =? 0).
    { destruct (r_writer o); [|exact Same].
      destruct (complete_nil o c) as [K1 K2]. destruct (complete o c) as [o1 c1]. cbn [fst res_obj] in *.
      split; [apply HBo_nil; exact K1|exact K2]. }
    destruct (sbn <? r_off o); [exact Same|].
    destruct (match sbl with None => nb_blocks_of oti tlen <=? sbn | Some _ => false end); [exact Same|].
    cbv zeta.
    set (off := sbn - r_off o).
    destruct ((N.of_nat (length (r_blocks o)) <=? off) && (4096 <? off)) eqn:Ebig; [split; [exact A|reflexivity]|].
    set (bl0 := if N.of_nat (length (r_blocks o)) <=? off
                then r_blocks o ++ repeat bdec_new (N.to_nat off + 1 - length (r_blocks o)) else r_blocks o).
    set (o0 := set_blocks o bl0 (r_off o) (r_nb_alloc o) (r_alloc_size o) (r_bw o)).
    assert (A0 : HBo oti o0).
    { destruct A as [F L]. unfold HBo, o0, bl0. cbn [set_blocks r_blocks].
      destruct (N.leb_spec (N.of_nat (length (r_blocks o))) off) as [G|G]; [|split; assumption].
      cbn [andb] in Ebig. apply N.ltb_ge in Ebig.
      split; [apply Forall_app; split; [exact F|apply Forall_repeat; apply held_new]|].
      rewrite app_length, repeat_length. lia. }
    assert (Hidx : (N.to_nat off < length bl0)%nat).
    { unfold bl0. destruct (N.leb_spec (N.of_nat (length (r_blocks o))) off); rewrite ?app_length, ?repeat_length; lia. }
    set (b := nth (N.to_nat off) bl0 bdec_new).
    assert (Bh : held_b oti b) by (apply Forall_nth; [apply A0|exact Hidx]).
    destruct (bd_completed b) eqn:Ecomp. { cbn [fst res_obj]. split; [exact A0|reflexivity]. }
    match goal with |- context [match ?x with None => _ | Some _ => _ end] =>
      change x with (init_res_of o oti tlen sbn sbl b) end.
    destruct (init_res_of o oti tlen sbn sbl b) as [[[[b1 nb] sz]|]|] eqn:Eir;
      [|cbn [fst res_obj]; split; [exact A0|reflexivity] ..].
    assert (Hs : forall v, sbl = Some v -> ro_fec oti = FRS28US /\ v <= smax).
    { intros v ->. unfold a_pid_with in Epid. destruct (parse_pid_sbl _ _ _ _ _ Epid) as [Hf Hp].
      split; [exact Hf|]. unfold pkt_sbl in HP. rewrite Hp in HP. exact HP. }
    assert (Hn : sbl = None -> ro_fec oti <> FRS28US).
    { intros ->. unfold a_pid_with in Epid. eapply parse_pid_nosbl; exact Epid. }
    pose proof (init_res_held o oti tlen sbn sbl b b1 nb sz PK Eo Hs Hn Bh Eir) as H1.
    assert (Hesi : esi < esi_space (ro_fec oti)) by (unfold a_pid_with in Epid; eapply parse_pid_esi; exact Epid).
    pose proof (bd_push_held maxblk E (r_toi o) oti sbn esi (a_payload p) b1 Hfec H1 Hesi) as H2.
    destruct (bd_push E (r_toi o) oti sbn esi (a_payload p) b1) as [b2 pan]. cbn [fst] in H2.
    set (o1 := set_blocks o0 (upd_nthb (N.to_nat off) (fun _ => b2) bl0) (r_off o) nb sz (r_bw o)).
    assert (A1 : HBo oti o1).
    { destruct A0 as [F L]. cbn [o0 set_blocks r_blocks] in F, L. unfold HBo, o1. cbn [set_blocks r_blocks].
      rewrite upd_nthb_length. split; [|exact L].
      apply Forall_upd with (d := bdec_new); [exact F|intros _; exact H2]. }
    destruct (bd_completed b2); [|cbn [fst res_obj]; split; [exact A1|reflexivity]].
    destruct (HBo_write_blocks oti (S (length (r_blocks o1))) sbn o1 (if pan then panicc c else c) A1) as [S1 H1'].
    split; [exact S1|rewrite H1'; reflexivity].
  Qed.

  Lemma HBo_push_to_block oti p o c :
    fec_out_ok E -> pok o -> r_oti o = Some oti -> pkt_sbl p <= smax -> HBo oti o ->
    HBo oti (res_obj (fst (push_to_block E p o c))) /\ hdr (res_obj (fst (push_to_block E p o c))) = hdr o.
  Proof.
    intros Hfec PK Eo Hp A. unfold push_to_block. destruct (HBo_push_to_block2 oti p o c Hfec PK Eo Hp A) as [S1 H1].
    destruct (push_to_block2 E p o c) as [[o1|o1] c1]; cbn [fst res_obj] in *; [|split; assumption].
    destruct (a_close_obj p); [|split; assumption].
    destruct (r_state o1); try (split; assumption).
    destruct (r_writer o1); [|split; assumption].
    destruct (error_nil o1 true c1) as [K1 K2]. destruct (error o1 true c1) as [o2 c2].
    cbn [fst res_obj] in *. split; [apply HBo_nil; exact K1|rewrite K2; exact H1].
  Qed.

  Lemma HBo_drain_cache oti : forall cache o c, fec_out_ok E ->
    Forall (fun p => pkt_sbl p <= smax) cache -> pok o -> r_oti o = Some oti -> HBo oti o ->
    HBo oti (fst (drain_cache E cache o c)) /\ hdr (fst (drain_cache E cache o c)) = hdr o.
  Proof.
    induction cache as [|p rest IH]; intros o c Hfec Fc PK Eo A; cbn [drain_cache fst]; [split; [exact A|reflexivity]|].
    set (o0 := mk_or _ _ _ rest _ _ _ _ _ _ _ _ _ _ _ _ _ _ _ _ _ _).
    inversion Fc as [|? ? Hp Fr]; subst.
    assert (A0 : HBo oti o0) by exact A.
    assert (PK0 : pok o0) by exact PK.
    assert (Eo0 : r_oti o0 = Some oti) by exact Eo.
    destruct (HBo_push_to_block oti p o0 c Hfec PK0 Eo0 Hp A0) as [S1 H1].
    assert (PK1 := pok_hdr _ _ _ _ H1 PK0). pose proof (hdr_oti _ _ H1) as Eo1. rewrite Eo0 in Eo1.
    change (hdr o0) with (hdr o) in H1.
    destruct (push_to_block E p o0 c) as [[o1|o1] c1]; cbn [fst res_obj] in *.
    - destruct (r_cache o1) as [|x xs] eqn:Ec; cbn [fst]; [split; [exact S1|exact H1]|].
      destruct (IH o1 c1 Hfec Fr PK1 Eo1 S1) as [I1 I2]. split; [exact I1|rewrite I2; exact H1].
    - destruct (error_nil o1 false c1) as [K1 K2]. split; [apply HBo_nil; exact K1|rewrite K2; exact H1].
  Qed.

  Lemma HB_push_from_cache o c : fec_out_ok E -> pok o -> cpk o -> HB o ->
    HB (fst (push_from_cache E o c)) /\ hdr (fst (push_from_cache E o c)) = hdr o.
  Proof.
    intros Hfec PK CP H. unfold push_from_cache, cache_replay_blocked.
    destruct (r_oti o) as [oti|] eqn:Eo; [|cbn [fst]; split; [exact H|reflexivity]].
    destruct ((nb_block o =? 0) && negb match r_tlen o with Some 0 => true | _ => false end); [cbn [fst]; split; [exact H|reflexivity]|].
    assert (A : HBo oti o) by (unfold HB in H; rewrite Eo in H; exact H).
    destruct (HBo_drain_cache oti (r_cache o) o c Hfec CP PK Eo A) as [S1 H1].
    destruct (drain_cache E (r_cache o) o c) as [o1 c1]. cbn [fst] in *.
    split; [|exact H1]. pose proof (hdr_oti _ _ H1) as Eo1. rewrite Eo in Eo1.
    unfold HB. cbn [r_oti r_blocks]. rewrite Eo1. exact S1.
  Qed.

  Lemma HB_init_partition o : HB o -> HB (init_partition o).
  Proof.
    intros H. unfold init_partition. destruct (0 <? nb_block o) eqn:Hnb; [exact H|].
    destruct (r_oti o) as [oti|] eqn:Eo; [|exact H]. destruct (r_tlen o) as [tl|]; [|exact H].
    destruct (block_partitioning (ro_b oti) tl (ro_e oti)) as [[[al as_] nal] n].
    unfold HB. cbn [r_oti]. unfold HBo. cbn [r_blocks]. split; [apply Forall_repeat; apply held_new|].
    rewrite repeat_length. lia.
  Qed.

  Lemma HB_init_writer o c : HB o -> HB (fst (init_writer E o c)).
  Proof.
    intros H. unfold init_writer. destruct (r_writer o); [exact H|].
    destruct (r_fdt_id o); [|exact H]. destruct (r_cenc o); [|exact H].
    destruct (r_tlen o); [|exact H]. destruct (r_oti o) eqn:Eo; [|exact H].
    cbv zeta.
    destruct (e_builder E (r_toi o) (ncalls c (r_toi o))); cbn [fst];
      [|unfold HB in *; cbn [set_state r_oti r_blocks]; rewrite Eo in *; exact H ..].
    match goal with |- context [e_open_ok E ?w] => destruct (e_open_ok E w) end; cbn [negb].
    - cbn [fst]. unfold HB in *. cbn [r_oti r_blocks]. rewrite Eo in *. exact H.
    - apply HB_error.
  Qed.

  Lemma HB_write_blocks fuel sbn o c : HB o -> HB (res_obj (fst (write_blocks E fuel sbn o c))).
  Proof.
    intros H. destruct (r_oti o) as [oti|] eqn:Eo.
    - assert (A : HBo oti o) by (unfold HB in H; rewrite Eo in H; exact H).
      destruct (HBo_write_blocks oti fuel sbn o c A) as [S1 H1]. pose proof (hdr_oti _ _ H1) as Eo1. rewrite Eo in Eo1.
      unfold HB. rewrite Eo1. exact S1.
    - assert (Hn : r_blocks o = []) by (unfold HB in H; rewrite Eo in H; exact H).
      assert (R : fst (write_blocks E fuel sbn o c) = ROk o).
      { apply write_blocks_dormant. rewrite Hn. constructor. }
      rewrite R. exact H.
  Qed.

  (* ---- ObjectReceiver::push ---- *)
  Theorem HB_or_push p o c :
    fec_out_ok E -> W o -> HB o -> pkt_sbl p <= smax ->
    (forall oti l, a_oti p = Some (oti, l) -> oti_ok maxblk smax oti = true) ->
    HB (fst (or_push E p o c)).
  Proof.
    intros Hfec WO HO Hp Hoti. unfold or_push. destruct (r_state o) eqn:Est; try exact HO.
    assert (G0 : forall o1, W o1 /\ HB o1 ->
      HB (fst (let o2 := init_partition o1 in
              let (o3, c3) := init_writer E o2 c in
              match r_state o3 with
              | Receiving =>
                let (o4, c4) := push_from_cache E o3 c3 in
                match r_state o4 with
                | Receiving =>
                match r_oti o4 with
                | None =>
                  if r_max o4 <=? r_cache_size o4 then error o4 false c4
                  else (mk_or (r_state o4) (r_toi o4) (r_oti o4) (r_cache o4 ++ [p]) (r_cache_size o4 + a_datalen p) (r_max o4) (r_blocks o4)
                              (r_off o4) (r_tlen o4) (r_cenc o4) (r_md5 o4) (r_md5chk o4) (r_al o4) (r_as o4) (r_nal o4)
                              (r_writer o4) (r_bw o4) (r_fdt_id o4) (r_nb_alloc o4) (r_alloc_size o4) (r_clen o4) (r_nocache o4), c4)
                | Some _ =>
                  match push_to_block E p o4 c4 with
                  | (ROk o5, c5) => (o5, c5)
                  | (RErr o5, c5) => error o5 false c5
                  end
                end
                | _ => (o4, c4)
                end
              | _ => (o3, c3)
              end))).
    2: { assert (W1 : forall o1, r_state o1 = r_state o -> r_max o1 = r_max o -> r_cache o1 = r_cache o ->
                      r_blocks o1 = r_blocks o -> r_alloc_size o1 = r_alloc_size o -> r_nb_alloc o1 = r_nb_alloc o ->
                      r_al o1 = r_al o -> r_as o1 = r_as o ->
                      (r_oti o1 = r_oti o \/ (r_oti o = None /\ exists ot l, a_oti p = Some (ot, l) /\ r_oti o1 = Some ot)) ->
                      W o1 /\ HB o1).
         { intros o1 E1 E2 E3 E4 E5 E6 E7 E8 E9. destruct WO as (S & PK & CP). split.
           - split; [|split].
             + destruct S as [A|[D B]]; [|destruct D as (D1 & _); congruence].
               left. destruct A as (F & Sz & Cn & K). unfold C17Full.acct. rewrite E4, E5, E6, E2. auto.
             + unfold C17Full.pok in *. rewrite E7, E8. destruct E9 as [E9|(E9 & ot & l & Ea & E9')].
               * rewrite E9. exact PK.
               * rewrite E9', E9 in *. destruct PK as [-> ->]. split; [exact (Hoti ot l Ea)|lia].
             + unfold cpk in *. rewrite E3. exact CP.
           - unfold HB. unfold HB in HO. destruct E9 as [E9|(E9 & ot & l & Ea & E9')].
             + rewrite E9. destruct (r_oti o); [unfold HBo in *; rewrite E4; exact HO|rewrite E4; exact HO].
             + rewrite E9'. rewrite E9 in HO. apply HBo_nil. rewrite E4. exact HO. }
         destruct (r_oti o) as [x|] eqn:Eo; destruct (a_oti p) as [[ot l]|] eqn:Ea; cbv zeta beta iota;
           apply G0; apply W1; try reflexivity; try (symmetry; exact Est).
         all: first [left; reflexivity|right; split; [reflexivity|exists ot, l; split; reflexivity]]. }
    intros o1 [W1 H1]. cbv zeta.
    pose proof (W_init_partition o1 W1) as W2. pose proof (HB_init_partition o1 H1) as H2. set (o2 := init_partition o1) in *.
    pose proof (W_init_writer o2 c W2) as W3. pose proof (HB_init_writer o2 c H2) as H3.
    destruct (init_writer E o2 c) as [o3 c3]. cbn [fst] in W3, H3.
    destruct (r_state o3); cbn [fst]; try exact H3.
    pose proof (W_push_from_cache o3 c3 W3) as W4.
    destruct W3 as (S3 & PK3 & CP3). destruct (HB_push_from_cache o3 c3 Hfec PK3 CP3 H3) as [H4 _].
    destruct (push_from_cache E o3 c3) as [o4 c4]. cbn [fst] in W4, H4.
    destruct (r_state o4) eqn:E4; cbn [fst]; try exact H4.
    destruct (r_oti o4) as [oti|] eqn:Eo4.
    - destruct W4 as (S4 & PK4 & CP4).
      assert (A4 : HBo oti o4) by (unfold HB in H4; rewrite Eo4 in H4; exact H4).
      destruct (HBo_push_to_block oti p o4 c4 Hfec PK4 Eo4 Hp A4) as [S5 H5].
      pose proof (hdr_oti _ _ H5) as Eo5. rewrite Eo4 in Eo5.
      destruct (push_to_block E p o4 c4) as [[o5|o5] c5]; cbn [fst res_obj] in *; [|apply HB_error].
      unfold HB. rewrite Eo5. exact S5.
    - destruct (r_max o4 <=? r_cache_size o4); [apply HB_error|].
      cbn [fst]. unfold HB in *. cbn [r_oti r_blocks]. rewrite Eo4 in *. exact H4.
  Qed.

  Lemma HB_d48_step o c : HB o -> HB (fst (d48_step o c)).
  Proof.
    intros H. destruct (d48_step_cases o c) as [-> | ->]; [exact H|]. apply HB_of_nil. apply complete_nil.
  Qed.

  (* ---- ObjectReceiver::attach_fdt ---- *)
  Theorem HB_or_attach id files ioti o c :
    fec_out_ok E -> W o -> HB o ->
    forallb (fun f => ooti_ok maxblk smax (ff_oti f)) files = true -> ooti_ok maxblk smax ioti = true ->
    HB (snd (fst (or_attach E id files ioti o c))).
  Proof.
    intros Hfec WO HO Hf Hi. unfold or_attach. destruct (r_fdt_id o); [exact HO|].
    destruct (find _ files) as [f|] eqn:Efind; [|exact HO].
    assert (Hff : ooti_ok maxblk smax (ff_oti f) = true).
    { apply find_some in Efind. rewrite forallb_forall in Hf. apply Hf. apply Efind. }
    assert (G0 : forall o1, W o1 /\ HB o1 ->
      HB (snd (fst (let o2 := init_partition o1 in
                   let (o3a, c3a) := init_writer E o2 c in
                   let (o3, c3) := d48_step o3a c3a in
                   let (o4, c4) := push_from_cache E o3 c3 in
                   let '(o5, c5) := match write_blocks E (S (length (r_blocks o4))) 0 o4 c4 with
                                    | (ROk x, cx) => (x, cx)
                                    | (RErr x, cx) => error x false cx
                                    end in
                   let (o6, c6) := push_from_cache E o5 c5 in
                   (true, o6, c6))))).
    2: { assert (W1 : forall o1, r_state o1 = r_state o -> r_max o1 = r_max o -> r_cache o1 = r_cache o ->
                      r_blocks o1 = r_blocks o -> r_alloc_size o1 = r_alloc_size o -> r_nb_alloc o1 = r_nb_alloc o ->
                      r_al o1 = r_al o -> r_as o1 = r_as o ->
                      (r_oti o1 = r_oti o \/ (r_oti o = None /\ exists ot, oti_ok maxblk smax ot = true /\ r_oti o1 = Some ot)) ->
                      W o1 /\ HB o1).
         { intros o1 E1 E2 E3 E4 E5 E6 E7 E8 E9. destruct WO as (S & PK & CP). split.
           - split; [|split].
             + destruct S as [A|[(D1 & D2 & D3) B]].
               * left. destruct A as (F & Sz & Cn & K). unfold C17Full.acct. rewrite E4, E5, E6, E2. auto.
               * right. split; [split; [congruence|split; [congruence|rewrite E4; exact D3]]|].
                 unfold C17Full.bnd in *. rewrite E5, E2. exact B.
             + unfold C17Full.pok in *. rewrite E7, E8. destruct E9 as [E9|(E9 & ot & Ok & E9')].
               * rewrite E9. exact PK.
               * rewrite E9', E9 in *. destruct PK as [-> ->]. split; [exact Ok|lia].
             + unfold cpk in *. rewrite E3. exact CP.
           - unfold HB. unfold HB in HO. destruct E9 as [E9|(E9 & ot & Ok & E9')].
             + rewrite E9. destruct (r_oti o); [unfold HBo in *; rewrite E4; exact HO|rewrite E4; exact HO].
             + rewrite E9'. rewrite E9 in HO. apply HBo_nil. rewrite E4. exact HO. }
         destruct (r_oti o) as [x|] eqn:Eo;
           [|destruct (match ff_oti f with Some x => Some x | None => ioti end) as [x|] eqn:Ex];
           cbv zeta beta iota;
           apply G0; apply W1; try reflexivity.
         - left. reflexivity.
         - right. split; [reflexivity|]. exists x. split; [|reflexivity].
           destruct (ff_oti f) as [y|]; [inversion Ex; subst; exact Hff|subst ioti; exact Hi].
         - left. reflexivity. }
    intros o1 [W1 H1]. cbv zeta.
    pose proof (W_init_partition o1 W1) as W2. pose proof (HB_init_partition o1 H1) as H2. set (o2 := init_partition o1) in *.
    pose proof (W_init_writer o2 c W2) as W3a. pose proof (HB_init_writer o2 c H2) as H3a.
    destruct (init_writer E o2 c) as [o3a c3a]. cbn [fst] in W3a, H3a.
    pose proof (W_d48_step o3a c3a W3a) as W3. pose proof (HB_d48_step o3a c3a H3a) as H3.
    destruct (d48_step o3a c3a) as [o3 c3]. cbn [fst] in W3, H3.
    pose proof (W_push_from_cache o3 c3 W3) as W4.
    destruct (HB_push_from_cache o3 c3 Hfec (proj1 (proj2 W3)) (proj2 (proj2 W3)) H3) as [H4 _].
    destruct (push_from_cache E o3 c3) as [o4 c4]. cbn [fst] in W4, H4.
    pose proof (W_write_blocks (S (length (r_blocks o4))) 0 o4 c4 W4) as W5.
    pose proof (HB_write_blocks (S (length (r_blocks o4))) 0 o4 c4 H4) as H5.
    destruct (write_blocks E (S (length (r_blocks o4))) 0 o4 c4) as [[o5|o5] c5]; cbn [fst res_obj] in W5, H5.
    - destruct (HB_push_from_cache o5 c5 Hfec (proj1 (proj2 W5)) (proj2 (proj2 W5)) H5) as [H6 _].
      destruct (push_from_cache E o5 c5) as [o6 c6]. exact H6.
    - pose proof (W_error o5 false c5 W5) as W6. pose proof (HB_error o5 false c5) as H6.
      destruct (error o5 false c5) as [o6 c6]. cbn [fst] in W6, H6.
      destruct (HB_push_from_cache o6 c6 Hfec (proj1 (proj2 W6)) (proj2 (proj2 W6)) H6) as [H7 _].
      destruct (push_from_cache E o6 c6) as [o7 c7]. exact H7.
  Qed.

  (* ---- the object invariant of the receiver level ---- *)
  (* the held-bytes invariant HB is kept under the hypothesis fec_out_ok on the decoder oracle only: the accounting
     part (P_C17_bounds) does not need it *)
  Definition G (o : objrecv) : Prop := cache_ok maxpkt o /\ W o /\ (fec_out_ok E -> HB o).

  Lemma G_new toi mx : G (or_new toi mx).
  Proof.
    split; [apply cache_ok_new|]. split; [split; [|split]|].
    - left. unfold C17Full.acct, or_new. cbn. split; [constructor|]. repeat split. right. lia.
    - unfold C17Full.pok. cbn. auto.
    - constructor.
    - intros _. reflexivity.
  Qed.

  Lemma G_bounds o : G o -> P_C17_object maxpkt maxblk o = true.
  Proof.
    intros ([_ C] & (S & _) & _). unfold P_C17_object. apply andb_true_intro. split; apply N.leb_le; [exact C|].
    exact (st_bnd _ _ S).
  Qed.
End ObjW.

(* ================= the receiver ================= *)

Lemma Forall_filter {A} (P : A -> Prop) f l : Forall P l -> Forall P (filter f l).
Proof. rewrite !Forall_forall. intros H x Hx. apply filter_In in Hx. apply H. apply Hx. Qed.
Lemma Forall_firstn' {A} (P : A -> Prop) n : forall l, Forall P l -> Forall P (firstn n l).
Proof. induction n as [|n IH]; intros l F; [constructor|]. destruct F; cbn [firstn]; constructor; auto. Qed.
Lemma filter_length_le {A} (f : A -> bool) l : (length (filter f l) <= length l)%nat.
Proof. induction l as [|x l IH]; cbn [filter length]; [lia|]. destruct (f x); cbn [length]; lia. Qed.
Lemma insert_sorted_length x l : (length (insert_sorted x l) <= S (length l))%nat.
Proof.
  induction l as [|y l IH]; cbn [insert_sorted length]; [lia|].
  destruct (x =? y); [cbn [length]; lia|]. destruct (x <? y); cbn [length]; lia.
Qed.

Section Rcv.
  Variable E : env.
  Variable parse_fdt : list N -> option fdtinst.
  Variable cfg : rconfig.
  Variables (maxpkt maxblk smax : N).
  Hypothesis Hparse : forall d i, parse_fdt d = Some i -> inst_ok maxblk smax i = true.

  Notation G := (G E maxpkt maxblk smax).
  Definition Gq (q : N * objrecv) : Prop := G (snd q).
  Definition fok (f : fdtrecv) : Prop :=
    match fr_inst f with Some i => inst_ok maxblk smax i = true | None => True end.
  Definition fokq (q : N * fdtrecv) : Prop := fok (snd q).
  Definition RIw (r : recv) : Prop :=
    Forall Gq (rv_objects r) /\ (length (rv_error r) <= N.to_nat (cf_max_err cfg))%nat.
  Definition RIf (r : recv) : Prop :=
    (length (rv_fdt_current r) <= 10)%nat /\ Forall fok (rv_fdt_current r) /\ Forall fokq (rv_fdt_receivers r).
  Definition RI (r : recv) : Prop := RIw r /\ RIf r.
  Definition same_fdt (r r' : recv) : Prop :=
    rv_fdt_current r' = rv_fdt_current r /\ rv_fdt_receivers r' = rv_fdt_receivers r.

  Lemma same_fdt_refl r : same_fdt r r. Proof. split; reflexivity. Qed.
  Lemma same_fdt_trans a b c : same_fdt a b -> same_fdt b c -> same_fdt a c.
  Proof. intros [A1 A2] [B1 B2]. split; congruence. Qed.
  Lemma RIf_same r r' : same_fdt r r' -> RIf r -> RIf r'.
  Proof. intros [A B]. unfold RIf. rewrite A, B. auto. Qed.

  Lemma get_obj_G r toi o : Forall Gq (rv_objects r) -> get_obj r toi = Some o -> G o.
  Proof.
    intros F. unfold get_obj. destruct (find _ (rv_objects r)) as [q|] eqn:Ef; [|discriminate].
    intros H; inversion H; subst o. apply find_some in Ef. rewrite Forall_forall in F. apply (F q). apply Ef.
  Qed.
  Lemma put_obj_G toi o l : Forall Gq l -> G o -> Forall Gq (put_obj toi o l).
  Proof.
    intros F Go. unfold put_obj. destruct (existsb _ l).
    - rewrite Forall_forall in *. intros x Hx. apply in_map_iff in Hx. destruct Hx as (y & <- & Hy).
      destruct (fst y =? toi); [exact Go|apply F; exact Hy].
    - apply Forall_app. split; [exact F|constructor; [exact Go|constructor]].
  Qed.

  Lemma remove_obj_ok toi r c : RIw r -> RIw (fst (remove_obj toi r c)) /\ same_fdt r (fst (remove_obj toi r c)).
  Proof.
    intros [F L]. unfold remove_obj. destruct (get_obj r toi); cbn [fst]; [|split; [split; assumption|apply same_fdt_refl]].
    split; [|split; reflexivity]. split; [|exact L]. cbn [set_objects rv_objects]. apply Forall_filter. exact F.
  Qed.

  Lemma gc_error_ok : forall fuel r c, Forall Gq (rv_objects r) ->
    Forall Gq (rv_objects (fst (gc_error cfg fuel r c))) /\ same_fdt r (fst (gc_error cfg fuel r c)).
  Proof.
    induction fuel as [|f IH]; intros r c F; cbn [gc_error fst]; [split; [exact F|apply same_fdt_refl]|].
    destruct (cf_max_err cfg <? N.of_nat (length (rv_error r))); [|split; [exact F|apply same_fdt_refl]].
    destruct (rv_error r) as [|toi rest]; [split; [exact F|apply same_fdt_refl]|].
    match goal with |- context [remove_obj toi ?x c] => set (r1 := x) end.
    assert (W1 : RIw (mk_recv (rv_objects r1) (rv_completed r1) [] (rv_fdt_receivers r1) (rv_fdt_current r1) (rv_closed r1)))
      by (split; [exact F|cbn; lia]).
    unfold remove_obj. unfold get_obj. cbn [r1 rv_objects].
    destruct (find (fun p => fst p =? toi) (rv_objects r)) as [q|].
    - destruct (IH (set_objects r1 (del_obj toi (rv_objects r))) (or_drop (snd q) c)) as [I1 I2].
      { cbn [set_objects rv_objects]. apply Forall_filter. exact F. }
      split; [exact I1|]. eapply same_fdt_trans; [|exact I2]. split; reflexivity.
    - destruct (IH r1 c F) as [I1 I2]. split; [exact I1|]. eapply same_fdt_trans; [|exact I2]. split; reflexivity.
  Qed.

  Lemma check_state_ok toi r c :
    RIw r -> RIw (fst (check_state cfg toi r c)) /\ same_fdt r (fst (check_state cfg toi r c)).
  Proof.
    intros [F L]. unfold check_state.
    destruct (get_obj r toi) as [o|]; [|split; [split; assumption|apply same_fdt_refl]].
    destruct (r_state o).
    - split; [split; assumption|apply same_fdt_refl].
    - match goal with |- context [remove_obj toi ?x c] => set (r1 := x) end.
      destruct (remove_obj_ok toi r1 c) as [R1 R2]; [split; assumption|].
      split; [exact R1|]. eapply same_fdt_trans; [|exact R2]. split; reflexivity.
    - match goal with |- context [gc_error cfg ?n ?x c] => set (r1 := x) end; set (fuel := S (length (rv_error r1))).
      pose proof (gc_error_ok fuel r1 c F) as [G1 G2].
      pose proof (gc_error_bound cfg fuel r1 c) as G3.
      destruct (gc_error cfg fuel r1 c) as [r2 c2]. cbn [fst] in *.
      destruct (remove_obj_ok toi r2 c2) as [R1 R2].
      { split; [exact G1|]. apply G3. unfold fuel. lia. }
      split; [exact R1|]. eapply same_fdt_trans; [|exact R2]. eapply same_fdt_trans; [|exact G2]. split; reflexivity.
    - match goal with |- context [gc_error cfg ?n ?x c] => set (r1 := x) end; set (fuel := S (length (rv_error r1))).
      pose proof (gc_error_ok fuel r1 c F) as [G1 G2].
      pose proof (gc_error_bound cfg fuel r1 c) as G3.
      destruct (gc_error cfg fuel r1 c) as [r2 c2]. cbn [fst] in *.
      destruct (remove_obj_ok toi r2 c2) as [R1 R2].
      { split; [exact G1|]. apply G3. unfold fuel. lia. }
      split; [exact R1|]. eapply same_fdt_trans; [|exact R2]. eapply same_fdt_trans; [|exact G2]. split; reflexivity.
  Qed.

  Lemma check_all_ok : forall tois r c,
    RIw r -> RIw (fst (check_all cfg tois r c)) /\ same_fdt r (fst (check_all cfg tois r c)).
  Proof.
    induction tois as [|t rest IH]; intros r c R; cbn [check_all fst]; [split; [exact R|apply same_fdt_refl]|].
    destruct (check_state_ok t r c R) as [C1 C2]. destruct (check_state cfg t r c) as [r1 c1]. cbn [fst] in *.
    destruct (IH r1 c1 C1) as [I1 I2]. split; [exact I1|]. eapply same_fdt_trans; eassumption.
  Qed.

  Lemma or_attach_G id i o c : G o -> inst_ok maxblk smax i = true ->
    G (snd (fst (or_attach E id (fi_files i) (fi_oti i) o c))).
  Proof.
    intros (C & Wo & Ho) Hi. unfold inst_ok in Hi. apply andb_prop in Hi. destruct Hi as [H1 H2].
    split; [apply or_attach_cache_bounded; exact C|split; [apply W_or_attach; assumption|]].
    intros Hfec. apply (HB_or_attach E maxblk smax); auto.
  Qed.

  Lemma attach_all_ok id i : inst_ok maxblk smax i = true -> forall tois r c att,
    RIw r -> RIw (fst (fst (attach_all E id i tois r c att))) /\ same_fdt r (fst (fst (attach_all E id i tois r c att))).
  Proof.
    intros Hi. induction tois as [|toi rest IH]; intros r c att R; cbn [attach_all fst]; [split; [exact R|apply same_fdt_refl]|].
    destruct (get_obj r toi) as [o|] eqn:Eg; [|apply IH; exact R].
    pose proof (or_attach_G id i o c (get_obj_G _ _ _ (proj1 R) Eg) Hi) as Go.
    destruct (or_attach E id (fi_files i) (fi_oti i) o c) as [[ok o1] c1]. cbn [fst snd] in Go.
    match goal with |- context [attach_all E id i rest ?x c1 ?a] => destruct (IH x c1 a) as [I1 I2] end.
    { destruct R as [F L]. split; [|exact L]. cbn [set_objects rv_objects]. apply put_obj_G; assumption. }
    split; [exact I1|]. eapply same_fdt_trans; [|exact I2]. split; reflexivity.
  Qed.

  Lemma fr_update_expired_ok f now : fok f -> fok (fr_update_expired f now).
  Proof. unfold fr_update_expired. intros F. destruct (fr_state f); try exact F. destruct (_ && _); exact F. Qed.

  Lemma apply_fdt_log_ok : forall log f, fok f -> fok (apply_fdt_log parse_fdt log f).
  Proof.
    induction log as [|e log IH]; intros f F; cbn [apply_fdt_log]; [exact F|].
    destruct e; try (apply IH; exact F).
    apply IH. destruct (parse_fdt (fr_data f)) as [i|] eqn:Ep; [|exact F].
    unfold fok. cbn [fr_inst]. exact (Hparse _ _ Ep).
  Qed.

  Lemma fr_push_ok p now f : fok f -> fok (fst (fr_push E parse_fdt p now f)).
  Proof.
    intros F. unfold fr_push. cbv zeta. cbn [fr_obj].
    destruct (fr_obj f) as [o|]; [|exact F].
    destruct (or_push (E_fdt E) p o ctx0) as [o1 c1].
    match goal with |- context [apply_fdt_log parse_fdt (c_log c1) ?x] =>
      pose proof (apply_fdt_log_ok (c_log c1) x F) as F1; set (f1 := apply_fdt_log parse_fdt (c_log c1) x) in * end.
    destruct (r_state o1); cbn [fst]; exact F1.
  Qed.

  Lemma create_attach_ok now : forall cur o c, Forall fok cur -> G o ->
    length (fst (fst (create_attach E cur now o c))) = length cur
    /\ Forall fok (fst (fst (create_attach E cur now o c)))
    /\ G (snd (fst (create_attach E cur now o c))).
  Proof.
    induction cur as [|f rest IH]; intros o c F Go; cbn [create_attach fst snd]; [auto|].
    inversion F as [|? ? Ff Fr]; subst.
    pose proof (fr_update_expired_ok f now Ff) as F1. set (f1 := fr_update_expired f now) in *.
    assert (Dflt : forall o c, G o ->
      length (fst (fst (let '(rest', o2, c2) := create_attach E rest now o c in (f1 :: rest', o2, c2)))) = length (f :: rest)
      /\ Forall fok (fst (fst (let '(rest', o2, c2) := create_attach E rest now o c in (f1 :: rest', o2, c2))))
      /\ G (snd (fst (let '(rest', o2, c2) := create_attach E rest now o c in (f1 :: rest', o2, c2))))).
    { intros o' c' Go'. destruct (IH o' c' Fr Go') as (I1 & I2 & I3).
      destruct (create_attach E rest now o' c') as [[rest' o2] c2]. cbn [fst snd length] in *.
      split; [lia|]. split; [constructor; assumption|exact I3]. }
    destruct (fr_state f1); try (apply Dflt; exact Go).
    destruct (fr_inst f1) as [i|] eqn:Ei; [|apply Dflt; exact Go].
    assert (Hi : inst_ok maxblk smax i = true) by (unfold fok in F1; rewrite Ei in F1; exact F1).
    pose proof (or_attach_G (fr_id f1) i o c Go Hi) as Go1.
    destruct (or_attach E (fr_id f1) (fi_files i) (fi_oti i) o c) as [[ok o1] c1]. cbn [fst snd] in Go1.
    destruct ok; [|apply Dflt; exact Go1].
    cbn [fst snd length]. split; [reflexivity|]. split; [constructor; assumption|exact Go1].
  Qed.
  Lemma RI_same r r' : RI r -> RIw r' -> same_fdt r r' -> RI r'.
  Proof. intros [_ Rf] Rw S. split; [exact Rw|exact (RIf_same _ _ S Rf)]. Qed.

  Lemma store_ok id f r : RI r -> fok f ->
    RI (mk_recv (rv_objects r) (rv_completed r) (rv_error r)
                (if existsb (fun q => fst q =? id) (rv_fdt_receivers r)
                 then map (fun q => if fst q =? id then (id, f) else q) (rv_fdt_receivers r)
                 else rv_fdt_receivers r ++ [(id, f)])
                (rv_fdt_current r) (rv_closed r)).
  Proof.
    intros [Rw (L & Fc & Fr)] Ff. split; [exact Rw|]. split; [exact L|]. split; [exact Fc|].
    cbn [rv_fdt_receivers]. destruct (existsb _ _).
    - rewrite Forall_forall in *. intros x Hx. apply in_map_iff in Hx. destruct Hx as (y & <- & Hy).
      destruct (fst y =? id); [exact Ff|apply Fr; exact Hy].
    - apply Forall_app. split; [exact Fr|constructor; [exact Ff|constructor]].
  Qed.

  Lemma push_fdt_obj_ok p now r c : RI r -> RI (snd (fst (push_fdt_obj E parse_fdt cfg p now r c))).
  Proof.
    intros R. unfold push_fdt_obj.
    destruct (a_fdt_id p) as [id|]; [|destruct (_ || _); exact R].
    destruct (cf_once cfg && _); [exact R|]. cbv zeta.
    set (f0 := match find (fun q => fst q =? id) (rv_fdt_receivers r) with Some q => snd q | None => fr_new cfg id end).
    assert (F0 : fok f0).
    { unfold f0. destruct (find _ (rv_fdt_receivers r)) as [q|] eqn:Ef; [|exact I].
      apply find_some in Ef. destruct R as [_ (_ & _ & Fr)]. rewrite Forall_forall in Fr. apply (Fr q). apply Ef. }
    destruct (fr_state f0); try exact R.
    pose proof (fr_push_ok p now f0 F0) as F1. destruct (fr_push E parse_fdt p now f0) as [f1 pan]. cbn [fst] in F1.
    set (f2 := match fr_state f1 with FComplete => fr_update_expired f1 now | _ => f1 end).
    assert (F2 : fok f2).
    { unfold f2. destruct (fr_state f1); try exact F1. apply fr_update_expired_ok. exact F1. }
    destruct (fr_state f2); cbn [fst snd]; try (apply store_ok; assumption).
    2: { (* FError: the failed instance is forgotten (D41) *)
         destruct R as [Rw (L & Fc & Fr)]. split; [exact Rw|]. split; [exact L|]. split; [exact Fc|].
         cbn [rv_fdt_receivers]. apply Forall_filter; exact Fr. }
    destruct R as [Rw (L & Fc & Fr)].
    destruct (fr_inst f2) as [i|] eqn:Ei.
    - assert (Hi : inst_ok maxblk smax i = true) by (unfold fok in F2; rewrite Ei in F2; exact F2).
      match goal with |- context [attach_all E id i ?t ?x ?cc ?a] =>
        destruct (attach_all_ok id i Hi t x cc a) as [A1 A2]; [exact Rw|]; destruct (attach_all E id i t x cc a) as [[r2 c2] att] end.
      cbn [fst] in A1, A2.
      destruct (check_all_ok att r2 c2 A1) as [C1 C2]. destruct (check_all cfg att r2 c2) as [r3 c3]. cbn [fst snd] in *.
      destruct (same_fdt_trans _ _ _ A2 C2) as [S1 S2]. cbn [rv_fdt_current rv_fdt_receivers] in S1, S2.
      split; [exact C1|]. unfold RIf. cbn [rv_fdt_current rv_fdt_receivers]. rewrite S1, S2.
      split; [apply firstn_le_length|]. split; [apply Forall_firstn'; constructor; assumption|apply Forall_filter; exact Fr].
    - cbn [fst snd]. split; [exact Rw|]. unfold RIf. cbn [rv_fdt_current rv_fdt_receivers].
      split; [apply firstn_le_length|]. split; [apply Forall_firstn'; constructor; assumption|apply Forall_filter; exact Fr].
  Qed.

  (* push_obj, cut after the two "already completed / already failed" filters *)
  Definition push_obj_tail3 (p : apkt) (r3 : recv) (o : objrecv) (c3 : ctx) : pres * recv * ctx :=
    let toi := a_toi p in
    let (o2, c4) := or_push E p o c3 in
    let r4 := set_objects r3 (put_obj toi o2 (rv_objects r3)) in
    let (r5, c5) := check_state cfg toi r4 c4 in
    (POk, r5, c5).
  Definition push_obj_tail2 (p : apkt) (now : Z) (r2 : recv) (c : ctx) : pres * recv * ctx :=
    let toi := a_toi p in
    let '(r3, o, c3) :=
      match get_obj r2 toi with
      | Some o => (r2, o, c)
      | None =>
        let '(cur, o1, c1) := create_attach E (rv_fdt_current r2) now (or_new toi (cf_max_cache cfg)) c in
        (mk_recv (rv_objects r2 ++ [(toi, o1)]) (rv_completed r2) (rv_error r2) (rv_fdt_receivers r2) cur (rv_closed r2),
         o1, c1)
      end in
    push_obj_tail3 p r3 o c3.
  Definition push_obj_tail1 (p : apkt) (now : Z) (r1 : recv) (c : ctx) : pres * recv * ctx :=
    let toi := a_toi p in
    let step2 : option (option recv) :=
      if existsb (N.eqb toi) (rv_error r1) then
        match is_first_symbol p with
        | None => None
        | Some true => Some (Some (mk_recv (rv_objects r1) (rv_completed r1) (filter (fun t => negb (t =? toi)) (rv_error r1))
                                           (rv_fdt_receivers r1) (rv_fdt_current r1) (rv_closed r1)))
        | Some false => Some None
        end
      else Some (Some r1) in
    match step2 with
    | None => (PErr, r1, c)
    | Some None => (POk, r1, c)
    | Some (Some r2) => push_obj_tail2 p now r2 c
    end.
  Lemma push_obj_eq p now r c :
    push_obj E cfg p now r c =
    let toi := a_toi p in
    let step1 : option (option recv) :=
      if existsb (N.eqb toi) (rv_completed r) then
        if cf_once cfg then Some None
        else match is_first_symbol p with
             | None => None
             | Some true => Some (Some (mk_recv (rv_objects r) (filter (fun t => negb (t =? toi)) (rv_completed r))
                                                (rv_error r) (rv_fdt_receivers r) (rv_fdt_current r) (rv_closed r)))
             | Some false => Some None
             end
      else Some (Some r) in
    match step1 with
    | None => (PErr, r, c)
    | Some None => (POk, r, c)
    | Some (Some r1) => push_obj_tail1 p now r1 c
    end.
  Proof. reflexivity. Qed.

  Lemma pkt_ok_elim p : pkt_ok maxpkt maxblk smax p = true ->
    a_datalen p <= maxpkt /\ pkt_sbl p <= smax /\ (forall oti l, a_oti p = Some (oti, l) -> oti_ok maxblk smax oti = true).
  Proof.
    unfold pkt_ok. intros H. apply andb_prop in H. destruct H as [H H3]. apply andb_prop in H. destruct H as [H1 H2].
    apply N.leb_le in H1. apply N.leb_le in H2. split; [exact H1|]. split; [exact H2|].
    intros oti l Ea. rewrite Ea in H3. exact H3.
  Qed.

  Lemma or_push_G p o c : G o -> pkt_ok maxpkt maxblk smax p = true -> G (fst (or_push E p o c)).
  Proof.
    intros (C & Wo & Ho) Hp. apply pkt_ok_elim in Hp. destruct Hp as (H1 & H2 & H3).
    split; [apply or_push_cache_bounded; assumption|split; [apply W_or_push; assumption|]].
    intros Hfec. apply (HB_or_push E maxblk smax); auto.
  Qed.

  Lemma push_obj_tail3_ok p r3 o c3 :
    RI r3 -> G o -> pkt_ok maxpkt maxblk smax p = true -> RI (snd (fst (push_obj_tail3 p r3 o c3))).
  Proof.
    intros R Go Hp. unfold push_obj_tail3. cbv zeta.
    pose proof (or_push_G p o c3 Go Hp) as Go2. destruct (or_push E p o c3) as [o2 c4]. cbn [fst] in Go2.
    match goal with |- context [check_state cfg ?t ?x c4] =>
      destruct (check_state_ok t x c4) as [C1 C2]; [|destruct (check_state cfg t x c4) as [r5 c5]] end.
    { destruct R as [[F L] _]. split; [|exact L]. cbn [set_objects rv_objects]. apply put_obj_G; assumption. }
    cbn [fst snd] in *. apply (RI_same r3); [exact R|exact C1|].
    eapply same_fdt_trans; [|exact C2]. split; reflexivity.
  Qed.

  Lemma push_obj_tail2_ok p now r2 c :
    RI r2 -> pkt_ok maxpkt maxblk smax p = true -> RI (snd (fst (push_obj_tail2 p now r2 c))).
  Proof.
    intros R Hp. unfold push_obj_tail2. cbv zeta.
    destruct (get_obj r2 (a_toi p)) as [o|] eqn:Eg.
    - apply push_obj_tail3_ok; [exact R| |exact Hp]. exact (get_obj_G _ _ _ (proj1 (proj1 R)) Eg).
    - destruct R as [[F L] (Lc & Fc & Fr)].
      destruct (create_attach_ok now (rv_fdt_current r2) (or_new (a_toi p) (cf_max_cache cfg)) c Fc (G_new _ _ _ _ _ _))
        as (K1 & K2 & K3).
      destruct (create_attach E (rv_fdt_current r2) now (or_new (a_toi p) (cf_max_cache cfg)) c) as [[cur o1] c1].
      cbn [fst snd] in *. apply push_obj_tail3_ok; [|exact K3|exact Hp].
      split; [split; [|exact L]|split; [|split; [exact K2|exact Fr]]].
      + cbn [rv_objects]. apply Forall_app. split; [exact F|constructor; [exact K3|constructor]].
      + cbn [rv_fdt_current]. lia.
  Qed.

  Lemma RI_filter_error r f :
    RI r -> RI (mk_recv (rv_objects r) (rv_completed r) (filter f (rv_error r)) (rv_fdt_receivers r) (rv_fdt_current r) (rv_closed r)).
  Proof.
    intros [[F L] Rf]. split; [split; [exact F|]|exact Rf]. cbn [rv_error].
    pose proof (filter_length_le f (rv_error r)). lia.
  Qed.

  Lemma push_obj_tail1_ok p now r1 c :
    RI r1 -> pkt_ok maxpkt maxblk smax p = true -> RI (snd (fst (push_obj_tail1 p now r1 c))).
  Proof.
    intros R Hp. unfold push_obj_tail1. cbv zeta.
    destruct (existsb (N.eqb (a_toi p)) (rv_error r1)); [|apply push_obj_tail2_ok; assumption].
    destruct (is_first_symbol p) as [[|]|]; try exact R.
    apply push_obj_tail2_ok; [|exact Hp]. apply RI_filter_error. exact R.
  Qed.

  Lemma push_obj_ok p now r c :
    RI r -> pkt_ok maxpkt maxblk smax p = true -> RI (snd (fst (push_obj E cfg p now r c))).
  Proof.
    intros R Hp. rewrite push_obj_eq. cbv zeta.
    destruct (existsb (N.eqb (a_toi p)) (rv_completed r)); [|apply push_obj_tail1_ok; assumption].
    destruct (cf_once cfg); [exact R|].
    destruct (is_first_symbol p) as [[|]|]; try exact R.
    apply push_obj_tail1_ok; [|exact Hp]. exact R.
  Qed.

  Lemma cleanup_fold_ok : forall l acc, RI (fst acc) ->
    RI (fst (fold_left (fun (acc : recv * ctx) (toi : N) =>
                          let (r1, c1) := acc in
                          remove_obj toi (mk_recv (rv_objects r1) (rv_completed r1) (filter (fun t => negb (t =? toi)) (rv_error r1))
                                                  (rv_fdt_receivers r1) (rv_fdt_current r1) (rv_closed r1)) c1) l acc)).
  Proof.
    induction l as [|toi l IH]; intros [r1 c1] R; cbn [fold_left]; [exact R|].
    apply IH. cbn [fst] in R.
    pose proof (RI_filter_error r1 (fun t => negb (t =? toi)) R) as R1.
    match goal with |- context [remove_obj toi ?x c1] => destruct (remove_obj_ok toi x c1 (proj1 R1)) as [K1 K2] end.
    exact (RI_same _ _ R1 K1 K2).
  Qed.

  Lemma recv_step_ok r e c :
    RI r -> ev_ok maxpkt maxblk smax e = true -> RI (snd (fst (recv_step E parse_fdt cfg r e c))).
  Proof.
    intros R He. destruct e as [p now| |now expired expired_fdt|]; cbn [recv_step].
    - assert (R0 : RI (if a_close_sess p
                       then mk_recv (rv_objects r) (rv_completed r) (rv_error r) (rv_fdt_receivers r) (rv_fdt_current r) true
                       else r)) by (destruct (a_close_sess p); exact R).
      cbn [ev_ok] in He. destruct (a_toi p =? 0); [apply push_fdt_obj_ok; exact R0|].
      apply push_obj_ok; [exact R0|exact He].
    - exact R.
    - cbv zeta.
      match goal with |- context [fold_left ?f ?l (r, c)] =>
        pose proof (cleanup_fold_ok l (r, c) R) as R1; destruct (fold_left f l (r, c)) as [r1 c1] end.
      cbn [fst snd] in *. destruct R1 as [Rw (L & Fc & Fr)]. split; [exact Rw|]. split; [exact L|]. split; [exact Fc|].
      cbn [rv_fdt_receivers]. apply Forall_filter.
      rewrite Forall_forall in *. intros x Hx. apply in_map_iff in Hx. destruct Hx as (y & <- & Hy).
      unfold fokq. cbn [snd]. apply fr_update_expired_ok. apply (Fr y Hy).
    - cbn [fst snd]. destruct R as [[F L] Rf]. split; [split; [constructor|exact L]|exact Rf].
  Qed.

  Lemma recv_run_ok : forall evs r c,
    RI r -> forallb (ev_ok maxpkt maxblk smax) evs = true -> RI (snd (fst (recv_run E parse_fdt cfg r evs c))).
  Proof.
    induction evs as [|e rest IH]; intros r c R He; cbn [recv_run]; [exact R|].
    cbn [forallb] in He. apply andb_prop in He. destruct He as [He1 He2].
    pose proof (recv_step_ok r e c R He1) as R1.
    destruct (recv_step E parse_fdt cfg r e c) as [[x r1] c1]. cbn [fst snd] in R1.
    pose proof (IH r1 c1 R1 He2) as R2.
    destruct (recv_run E parse_fdt cfg r1 rest c1) as [[xs r2] c2]. exact R2.
  Qed.

  Lemma RI_recv0 : RI recv0.
  Proof. split; [split; [constructor|cbn; lia]|split; [cbn; lia|split; constructor]]. Qed.

  Lemma RI_bounds r : RI r -> P_C17_bounds cfg maxpkt maxblk r = true.
  Proof.
    intros [[F L] (Lc & _ & _)]. unfold P_C17_bounds, lenN_.
    apply andb_true_intro. split; [apply andb_true_intro; split|]; [|apply N.leb_le; lia ..].
    apply forallb_forall. intros q Hq. rewrite Forall_forall in F. apply (G_bounds E maxpkt maxblk smax). apply (F q Hq).
  Qed.
End Rcv.

(* ================= C17, receiver level ================= *)
Theorem C17_bounds_proved : forall E parse_fdt cfg evs maxpkt maxblk,
  C17_inputs_bounded parse_fdt evs maxpkt maxblk ->
  let '(_, r, _) := recv_run E parse_fdt cfg recv0 evs ctx0 in
  P_C17_bounds cfg maxpkt maxblk r = true.
Proof.
  intros E parse_fdt cfg evs maxpkt maxblk (smax & He & Hp).
  pose proof (recv_run_ok E parse_fdt cfg maxpkt maxblk smax Hp evs recv0 ctx0 (RI_recv0 E cfg maxpkt maxblk smax) He) as R.
  destruct (recv_run E parse_fdt cfg recv0 evs ctx0) as [[xs r] c]. cbn [fst snd] in R.
  exact (RI_bounds E cfg maxpkt maxblk smax r R).
Qed.

(* D47: in every reachable state (bounded inputs, decoders that return at most k * E bytes) every block decoder of
   every object in flight satisfies held_b for the object's OTI, and an object has at most 4097 block decoders *)
Theorem C17_held_proved : forall E parse_fdt cfg evs maxpkt maxblk,
  C17_inputs_bounded parse_fdt evs maxpkt maxblk -> fec_out_ok E ->
  let '(_, r, _) := recv_run E parse_fdt cfg recv0 evs ctx0 in
  Forall (fun q => HB maxblk (snd q)) (rv_objects r).
Proof.
  intros E parse_fdt cfg evs maxpkt maxblk (smax & He & Hp) Hfec.
  pose proof (recv_run_ok E parse_fdt cfg maxpkt maxblk smax Hp evs recv0 ctx0 (RI_recv0 E cfg maxpkt maxblk smax) He) as R.
  destruct (recv_run E parse_fdt cfg recv0 evs ctx0) as [[xs r] c]. cbn [fst snd] in R.
  destruct R as [[F _] _]. eapply Forall_impl; [|exact F]. intros q (_ & _ & H). exact (H Hfec).
Qed.

(* the accounting invariant itself: an object that is Receiving accounts exactly the declared sizes of its blocks *)
Theorem C17_acct_proved : forall E parse_fdt cfg evs maxpkt maxblk,
  C17_inputs_bounded parse_fdt evs maxpkt maxblk ->
  let '(_, r, _) := recv_run E parse_fdt cfg recv0 evs ctx0 in
  Forall (fun q => r_state (snd q) = Receiving -> r_alloc_size (snd q) = sumN' (map bd_size (r_blocks (snd q))))
         (rv_objects r).
Proof.
  intros E parse_fdt cfg evs maxpkt maxblk (smax & He & Hp).
  pose proof (recv_run_ok E parse_fdt cfg maxpkt maxblk smax Hp evs recv0 ctx0 (RI_recv0 E cfg maxpkt maxblk smax) He) as R.
  destruct (recv_run E parse_fdt cfg recv0 evs ctx0) as [[xs r] c]. cbn [fst snd] in R.
  destruct R as [[F _] _]. eapply Forall_impl; [|exact F]. intros q (_ & (S & _) & _) Hr.
  destruct S as [(_ & Sz & _)|[(D & _) _]]; [exact Sz|congruence].
Qed.

(* the invariant holds after every prefix, hence in every reachable state *)
Theorem C17_bounds_every_prefix : forall E parse_fdt cfg evs maxpkt maxblk n,
  C17_inputs_bounded parse_fdt evs maxpkt maxblk ->
  let '(_, r, _) := recv_run E parse_fdt cfg recv0 (firstn n evs) ctx0 in
  P_C17_bounds cfg maxpkt maxblk r = true.
Proof.
  intros E parse_fdt cfg evs maxpkt maxblk n (smax & He & Hp).
  apply C17_bounds_proved. exists smax. split; [|exact Hp].
  rewrite forallb_forall in *. intros x Hx. apply He.
  rewrite <- (firstn_skipn n evs). apply in_or_app. left. exact Hx.
Qed.

(* ================= concrete inputs for the examples of Properties/C17.v ================= *)
Definition c17_ex_env : env :=
  mk_env true false (fun _ _ => WStore) (fun _ => true) (fun _ _ => true)
         (fun _ _ _ _ _ _ _ => None) (fun l => l) (fun _ l _ => Some l).
Definition c17_ex_nofdt : list N -> option fdtinst := fun _ => None.
Definition c17_ex_cfg (cache : N) : rconfig := mk_rcfg 5 cache false false.
(* a 40-byte datagram of TOI 5 without EXT_FTI *)
Definition c17_ex_pkt_plain : apkt :=
  mk_apkt 5 false false None None None None 0 [0;0;0;1] [1;2;3;4;5;6;7;8] 40.
(* a datagram of TOI 5 carrying a No-Code OTI with E = 1024, B = 64 and transfer length 10^6:
   blocks of 62 symbols = 63488 bytes *)
Definition c17_ex_pkt_oti : apkt :=
  mk_apkt 5 false false None (Some (mk_roti FNoCode 1024 64 0 None, 1000000)) None None 0 [0;0;0;0] [1;2;3;4;5;6;7;8] 40.
(* a FEC-129 datagram: OTI with E = 1024, B = 4 (B * E = 4096), payload id SBN 0, source block
   length 200, ESI 0: the block is sized from the packet, 200 * 1024 bytes *)
Definition c17_ex_pkt_us : apkt :=
  mk_apkt 5 false false None (Some (mk_roti FRS28US 1024 4 2 None, 100000)) None None 129 [0;0;0;0;0;200;0;0] [1;2;3;4;5;6;7;8] 40.
Definition c17_ex_final (cache : N) (evs : list rev) : recv :=
  snd (fst (recv_run c17_ex_env c17_ex_nofdt (c17_ex_cfg cache) recv0 evs ctx0)).
