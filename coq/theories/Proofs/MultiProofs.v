(* Proofs for C18: TSI filter reference counting, demultiplexing isolation, listener
   balance.  Stdlib + lia only. *)
From Coq Require Import Lia.
From FluteV Require Import Model.TsiFilter Model.Multi Spec.C18Spec.
Open Scope bool_scope.
Open Scope N_scope.
Arguments N.add : simpl never. Arguments N.sub : simpl never. Arguments N.pred : simpl never.

(* ------------------------------------------------------------------------------------ *)
(* key equalities                                                                        *)

Lemma optN_eqb_eq a b : optN_eqb a b = true <-> a = b.
Proof.
  destruct a, b; cbn; try (split; congruence).
  rewrite N.eqb_eq. split; congruence.
Qed.

Lemma ep_eqb_eq a b : ep_eqb a b = true <-> a = b.
Proof.
  destruct a as [s d p], b as [s' d' p']. unfold ep_eqb. cbn.
  rewrite !andb_true_iff, optN_eqb_eq, !N.eqb_eq. split.
  - intros [[-> ->] ->]. reflexivity.
  - intros H. inversion H. auto.
Qed.

Lemma key_eqb_eq (a b : Key) : key_eqb a b = true <-> a = b.
Proof.
  destruct a, b. unfold key_eqb. cbn. rewrite andb_true_iff, ep_eqb_eq, N.eqb_eq.
  split; [intros [-> ->]; reflexivity | intros H; inversion H; auto].
Qed.

Lemma ep_eqb_refl a : ep_eqb a a = true. Proof. apply ep_eqb_eq. reflexivity. Qed.
Lemma key_eqb_refl a : key_eqb a a = true. Proof. apply key_eqb_eq. reflexivity. Qed.

Lemma key_eqb_sym a b : key_eqb a b = key_eqb b a.
Proof.
  destruct (key_eqb a b) eqn:E.
  - apply key_eqb_eq in E. subst. symmetry. apply key_eqb_refl.
  - destruct (key_eqb b a) eqn:E2; [|reflexivity]. apply key_eqb_eq in E2. subst.
    rewrite key_eqb_refl in E. discriminate.
Qed.

(* ------------------------------------------------------------------------------------ *)
(* association lists                                                                     *)

Lemma NoDup_snoc {A} (l : list A) x : NoDup l -> ~ In x l -> NoDup (l ++ [x]).
Proof.
  induction l as [|y l IH]; cbn; intros Hnd Hni.
  - constructor; [intros []|constructor].
  - inversion Hnd as [|? ? Hy Hnd']. subst. constructor.
    + rewrite in_app_iff. cbn. intros [H|[H|[]]]; [contradiction|]. subst. apply Hni. left. reflexivity.
    + apply IH; [assumption|]. intros H. apply Hni. right. assumption.
Qed.

Section AMapFacts.
  Variables K V : Type.
  Variable keqb : K -> K -> bool.
  Hypothesis keqb_eq : forall a b, keqb a b = true <-> a = b.

  Lemma keqb_refl a : keqb a a = true. Proof. apply keqb_eq. reflexivity. Qed.

  Lemma keqb_neq (a b : K) : a <> b -> keqb a b = false.
  Proof. intros H. destruct (keqb a b) eqn:E; [apply keqb_eq in E; contradiction|reflexivity]. Qed.

  Lemma keqb_dec (a b : K) : {a = b} + {a <> b}.
  Proof.
    destruct (keqb a b) eqn:E; [left; apply keqb_eq; assumption|right].
    intros ->. rewrite keqb_refl in E. discriminate.
  Qed.

  Lemma am_get_set_same (m : list (K * V)) k v : am_get keqb (am_set keqb m k v) k = Some v.
  Proof.
    induction m as [|[k' v'] m IH]; cbn.
    - rewrite keqb_refl. reflexivity.
    - destruct (keqb k' k) eqn:E; cbn; rewrite E; auto.
  Qed.

  Lemma am_get_set_other (m : list (K * V)) k v k2 : k <> k2 ->
    am_get keqb (am_set keqb m k v) k2 = am_get keqb m k2.
  Proof.
    intros Hn. induction m as [|[k' v'] m IH]; cbn.
    - rewrite keqb_neq by assumption. reflexivity.
    - destruct (keqb k' k) eqn:E; cbn.
      + apply keqb_eq in E. subst k'. rewrite keqb_neq by assumption. reflexivity.
      + destruct (keqb k' k2); auto.
  Qed.

  Lemma am_get_remove_same (m : list (K * V)) k : am_get keqb (am_remove keqb m k) k = None.
  Proof.
    unfold am_remove. induction m as [|[k' v'] m IH]; cbn; [reflexivity|].
    destruct (keqb k' k) eqn:E; cbn; [assumption|]. rewrite E. assumption.
  Qed.

  Lemma am_get_remove_other (m : list (K * V)) k k2 : k <> k2 ->
    am_get keqb (am_remove keqb m k) k2 = am_get keqb m k2.
  Proof.
    intros Hn. unfold am_remove. induction m as [|[k' v'] m IH]; cbn; [reflexivity|].
    destruct (keqb k' k) eqn:E; cbn.
    - apply keqb_eq in E. subst k'. rewrite keqb_neq by assumption. assumption.
    - destruct (keqb k' k2); auto.
  Qed.

  Lemma am_empty_get (m : list (K * V)) : am_is_empty m = true <-> forall k, am_get keqb m k = None.
  Proof.
    destruct m as [|[k v] m]; cbn; split; auto; try discriminate.
    intros H. specialize (H k). rewrite keqb_refl in H. discriminate.
  Qed.

  Lemma am_get_in (m : list (K * V)) k v : am_get keqb m k = Some v -> In (k, v) m.
  Proof.
    induction m as [|[k' v'] m IH]; cbn; [discriminate|].
    destruct (keqb k' k) eqn:E.
    - intros H. inversion H. apply keqb_eq in E. subst. left. reflexivity.
    - intros H. right. auto.
  Qed.

  Lemma am_get_none_notin (m : list (K * V)) k : am_get keqb m k = None <-> ~ In k (map fst m).
  Proof.
    induction m as [|[k' v'] m IH]; cbn; [tauto|].
    destruct (keqb k' k) eqn:E.
    - apply keqb_eq in E. subst. split; [discriminate|]. intros H. exfalso. apply H. left. reflexivity.
    - rewrite IH. split.
      + intros H [H1|H1]; [subst; rewrite keqb_refl in E; discriminate|contradiction].
      + intros H H1. apply H. right. assumption.
  Qed.

  Lemma am_in_get (m : list (K * V)) k v : NoDup (map fst m) -> In (k, v) m -> am_get keqb m k = Some v.
  Proof.
    induction m as [|[k' v'] m IH]; cbn; [contradiction|].
    intros Hnd [H|H].
    - inversion H. subst. rewrite keqb_refl. reflexivity.
    - inversion Hnd as [|? ? Hni Hnd']. subst. destruct (keqb k' k) eqn:E.
      + apply keqb_eq in E. subst. exfalso. apply Hni. apply in_map_iff. exists (k, v). auto.
      + auto.
  Qed.

  Lemma am_set_keys_present (m : list (K * V)) k v v0 :
    am_get keqb m k = Some v0 -> map fst (am_set keqb m k v) = map fst m.
  Proof.
    induction m as [|[k' v'] m IH]; cbn; [discriminate|].
    destruct (keqb k' k) eqn:E; cbn; [reflexivity|]. intros H. rewrite IH by assumption. reflexivity.
  Qed.

  Lemma am_set_keys_absent (m : list (K * V)) k v :
    am_get keqb m k = None -> map fst (am_set keqb m k v) = map fst m ++ [k].
  Proof.
    induction m as [|[k' v'] m IH]; cbn; [reflexivity|].
    destruct (keqb k' k) eqn:E; cbn; [discriminate|]. intros H. rewrite IH by assumption. reflexivity.
  Qed.

  Lemma am_set_nodup (m : list (K * V)) k v : NoDup (map fst m) -> NoDup (map fst (am_set keqb m k v)).
  Proof.
    intros Hnd. destruct (am_get keqb m k) eqn:E.
    - erewrite am_set_keys_present by eassumption. assumption.
    - rewrite am_set_keys_absent by assumption.
      apply NoDup_snoc; [assumption|]. apply am_get_none_notin in E. assumption.
  Qed.

  Lemma filter_keys_nodup (m : list (K * V)) f : NoDup (map fst m) -> NoDup (map fst (filter f m)).
  Proof.
    induction m as [|[k v] m IH]; cbn; [auto|]. intros Hnd. inversion Hnd as [|? ? Hni Hnd']. subst.
    destruct (f (k, v)); cbn; [|auto]. constructor; [|auto].
    intros Hin. apply Hni. apply in_map_iff in Hin as [[k2 v2] [Hk Hin]]. cbn in Hk. subst.
    apply filter_In in Hin as [Hin _]. apply in_map_iff. exists (k, v2). auto.
  Qed.
End AMapFacts.

(* ------------------------------------------------------------------------------------ *)
(* TSI filter: the maps hold exactly the saturating counts                               *)

Definition enc (c : N) : option N := if c =? 0 then None else Some c.

Definition CntInv (m : CntMap) (c : Endpoint -> N) : Prop :=
  forall q, am_get ep_eqb m q = enc (c q).

Lemma cnt_add_inv m c ep : CntInv m c -> c ep < u64_max ->
  exists m', cnt_add m ep = Some m' /\ CntInv m' (fun q => if ep_eqb ep q then c q + 1 else c q).
Proof.
  intros H Hlt. unfold cnt_add. rewrite (H ep). unfold enc.
  destruct (N.eqb_spec (c ep) 0) as [E0|E0].
  - eexists. split; [reflexivity|]. intros q. destruct (ep_eqb ep q) eqn:E.
    + apply ep_eqb_eq in E. subst q. rewrite am_get_set_same by apply ep_eqb_eq.
      rewrite E0. reflexivity.
    + rewrite am_get_set_other; [apply H|apply ep_eqb_eq|].
      intros ->. rewrite ep_eqb_refl in E. discriminate.
  - destruct (N.eqb_spec (c ep) u64_max) as [E1|E1]; [lia|].
    eexists. split; [reflexivity|]. intros q. destruct (ep_eqb ep q) eqn:E.
    + apply ep_eqb_eq in E. subst q. rewrite am_get_set_same by apply ep_eqb_eq.
      unfold enc. destruct (N.eqb_spec (c ep + 1) 0); [lia|reflexivity].
    + rewrite am_get_set_other; [apply H|apply ep_eqb_eq|].
      intros ->. rewrite ep_eqb_refl in E. discriminate.
Qed.

Lemma cnt_remove_inv m c ep : CntInv m c ->
  CntInv (cnt_remove m ep) (fun q => if ep_eqb ep q then N.pred (c q) else c q).
Proof.
  intros H. unfold cnt_remove. rewrite (H ep). unfold enc at 1.
  destruct (N.eqb_spec (c ep) 0) as [E0|E0].
  - intros q. rewrite H. destruct (ep_eqb ep q) eqn:E; [|reflexivity].
    apply ep_eqb_eq in E. subst q. rewrite E0. reflexivity.
  - destruct (N.ltb_spec 1 (c ep)) as [L|L]; intros q; destruct (ep_eqb ep q) eqn:E.
    + apply ep_eqb_eq in E. subst q. rewrite am_get_set_same by apply ep_eqb_eq.
      unfold enc. rewrite <- N.sub_1_r. destruct (N.eqb_spec (c ep - 1) 0); [lia|reflexivity].
    + rewrite am_get_set_other; [apply H|apply ep_eqb_eq|].
      intros ->. rewrite ep_eqb_refl in E. discriminate.
    + apply ep_eqb_eq in E. subst q. rewrite am_get_remove_same by apply ep_eqb_eq.
      unfold enc. rewrite <- N.sub_1_r. destruct (N.eqb_spec (c ep - 1) 0); [reflexivity|lia].
    + rewrite am_get_remove_other; [apply H|apply ep_eqb_eq|].
      intros ->. rewrite ep_eqb_refl in E. discriminate.
Qed.

Lemma cnt_inv_mem m c q : CntInv m c -> am_mem ep_eqb m q = (0 <? c q).
Proof.
  intros H. unfold am_mem. rewrite H. unfold enc.
  destruct (N.eqb_spec (c q) 0) as [E|E]; [rewrite E; reflexivity|].
  symmetry. apply N.ltb_lt. lia.
Qed.

Lemma cnt_inv_ext m c c' : CntInv m c -> (forall q, c q = c' q) -> CntInv m c'.
Proof. intros H E q. rewrite <- E. apply H. Qed.

Definition FInv (f : TsiFilter) (ops : list FOp) : Prop :=
  CntInv (tf_bypass f) (cnt_all ops)
  /\ forall tsi, match am_get N.eqb (tf_tsi f) tsi with
                 | Some t => t <> [] /\ CntInv t (fun q => cnt_pair ops q tsi)
                 | None => forall q, cnt_pair ops q tsi = 0
                 end.

Lemma sat_cnt_snoc isa isr ops op :
  sat_cnt isa isr (ops ++ [op]) = sat_step isa isr (sat_cnt isa isr ops) op.
Proof. unfold sat_cnt. rewrite fold_left_app. reflexivity. Qed.

Lemma sat_cnt_le_length isa isr ops : sat_cnt isa isr ops <= N.of_nat (length ops).
Proof.
  induction ops as [|op ops IH] using rev_ind; [cbn; lia|].
  rewrite sat_cnt_snoc, app_length. cbn [length]. unfold sat_step.
  destruct (isa op); [lia|]. destruct (isr op); lia.
Qed.

Lemma tf_run_snoc ops op :
  tf_run (ops ++ [op]) = match tf_run ops with Some f => tf_step f op | None => None end.
Proof. unfold tf_run, tf_run_from. rewrite fold_left_app. reflexivity. Qed.

Lemma N_eqb_eq' : forall a b : N, (a =? b) = true <-> a = b.
Proof. exact N.eqb_eq. Qed.

Lemma cnt_nonempty m c q : CntInv m c -> c q <> 0 -> m <> [].
Proof.
  intros H Hc ->. specialize (H q). cbn in H. unfold enc in H.
  destruct (N.eqb_spec (c q) 0); [contradiction|discriminate].
Qed.

Lemma finv_step f ops op : FInv f ops -> N.of_nat (length ops) < u64_max ->
  exists f', tf_step f op = Some f' /\ FInv f' (ops ++ [op]).
Proof.
  intros [Hb Ht] Hlen.
  assert (Hle : forall isa isr, sat_cnt isa isr ops < u64_max).
  { intros. pose proof (sat_cnt_le_length isa isr ops). lia. }
  destruct op as [ep tsi|ep tsi|ep|ep]; cbn [tf_step].
  - (* add *)
    unfold tf_add. pose proof (Ht tsi) as Htsi.
    destruct (am_get N.eqb (tf_tsi f) tsi) as [t|] eqn:Eg.
    + destruct Htsi as [Hne Hc].
      destruct (cnt_add_inv t _ ep Hc (Hle _ _)) as [t' [Ea Hc']]. rewrite Ea.
      eexists. split; [reflexivity|]. split; cbn [tf_bypass tf_tsi].
      * eapply cnt_inv_ext; [exact Hb|]. intros q. unfold cnt_all. rewrite sat_cnt_snoc. reflexivity.
      * intros tsi2. destruct (N.eq_dec tsi tsi2) as [<-|Hn].
        -- rewrite am_get_set_same by exact N_eqb_eq'. split.
           ++ eapply (cnt_nonempty t' _ ep Hc'). rewrite ep_eqb_refl. lia.
           ++ eapply cnt_inv_ext; [exact Hc'|]. intros q. unfold cnt_pair. rewrite sat_cnt_snoc.
              unfold sat_step. cbn. rewrite N.eqb_refl, andb_true_r. reflexivity.
        -- rewrite am_get_set_other by (exact N_eqb_eq' || assumption).
           specialize (Ht tsi2). destruct (am_get N.eqb (tf_tsi f) tsi2).
           ++ destruct Ht as [Hne2 Hc2]. split; [assumption|].
              eapply cnt_inv_ext; [exact Hc2|]. intros q. unfold cnt_pair. rewrite sat_cnt_snoc.
              unfold sat_step. cbn. replace (tsi =? tsi2) with false by (symmetry; apply N.eqb_neq; assumption).
              rewrite andb_false_r. reflexivity.
           ++ intros q. unfold cnt_pair. rewrite sat_cnt_snoc. unfold sat_step. cbn.
              replace (tsi =? tsi2) with false by (symmetry; apply N.eqb_neq; assumption).
              rewrite andb_false_r. apply Ht.
    + eexists. split; [reflexivity|]. split; cbn [tf_bypass tf_tsi].
      * eapply cnt_inv_ext; [exact Hb|]. intros q. unfold cnt_all. rewrite sat_cnt_snoc. reflexivity.
      * intros tsi2. destruct (N.eq_dec tsi tsi2) as [<-|Hn].
        -- rewrite am_get_set_same by exact N_eqb_eq'. split; [discriminate|].
           intros q. cbn. unfold cnt_pair. rewrite sat_cnt_snoc. unfold sat_step. cbn.
           rewrite N.eqb_refl, andb_true_r. fold (cnt_pair ops q tsi). rewrite Htsi.
           destruct (ep_eqb ep q); reflexivity.
        -- rewrite am_get_set_other by (exact N_eqb_eq' || assumption).
           specialize (Ht tsi2). destruct (am_get N.eqb (tf_tsi f) tsi2).
           ++ destruct Ht as [Hne2 Hc2]. split; [assumption|].
              eapply cnt_inv_ext; [exact Hc2|]. intros q. unfold cnt_pair. rewrite sat_cnt_snoc.
              unfold sat_step. cbn. replace (tsi =? tsi2) with false by (symmetry; apply N.eqb_neq; assumption).
              rewrite andb_false_r. reflexivity.
           ++ intros q. unfold cnt_pair. rewrite sat_cnt_snoc. unfold sat_step. cbn.
              replace (tsi =? tsi2) with false by (symmetry; apply N.eqb_neq; assumption).
              rewrite andb_false_r. apply Ht.
  - (* remove *)
    eexists. split; [reflexivity|]. unfold tf_remove. pose proof (Ht tsi) as Htsi.
    assert (Hother : forall tsi2, tsi <> tsi2 -> forall q, cnt_pair (ops ++ [FRemove ep tsi]) q tsi2 = cnt_pair ops q tsi2).
    { intros tsi2 Hn q. unfold cnt_pair. rewrite sat_cnt_snoc. unfold sat_step. cbn.
      replace (tsi =? tsi2) with false by (symmetry; apply N.eqb_neq; assumption).
      rewrite andb_false_r. reflexivity. }
    assert (Hsame : forall q, cnt_pair (ops ++ [FRemove ep tsi]) q tsi =
                              if ep_eqb ep q then N.pred (cnt_pair ops q tsi) else cnt_pair ops q tsi).
    { intros q. unfold cnt_pair. rewrite sat_cnt_snoc. unfold sat_step. cbn.
      rewrite N.eqb_refl, andb_true_r. reflexivity. }
    assert (Hall : forall q, cnt_all (ops ++ [FRemove ep tsi]) q = cnt_all ops q).
    { intros q. unfold cnt_all. rewrite sat_cnt_snoc. reflexivity. }
    destruct (am_get N.eqb (tf_tsi f) tsi) as [t|] eqn:Eg.
    + destruct Htsi as [Hne Hc]. pose proof (cnt_remove_inv t _ ep Hc) as Hc'.
      destruct (am_is_empty (cnt_remove t ep)) eqn:Ee.
      * split; cbn [tf_bypass tf_tsi]; [eapply cnt_inv_ext; [exact Hb|intros; symmetry; apply Hall]|].
        intros tsi2. destruct (N.eq_dec tsi tsi2) as [<-|Hn].
        -- rewrite am_get_remove_same by exact N_eqb_eq'. intros q. rewrite Hsame.
           pose proof (proj1 (am_empty_get _ _ ep_eqb ep_eqb_eq _) Ee q) as Hq.
           rewrite Hc' in Hq. unfold enc in Hq.
           destruct (N.eqb_spec (if ep_eqb ep q then N.pred (cnt_pair ops q tsi) else cnt_pair ops q tsi) 0);
             [assumption|discriminate].
        -- rewrite am_get_remove_other by (exact N_eqb_eq' || assumption).
           specialize (Ht tsi2). destruct (am_get N.eqb (tf_tsi f) tsi2).
           ++ destruct Ht as [Hne2 Hc2]. split; [assumption|].
              eapply cnt_inv_ext; [exact Hc2|]. intros q. symmetry. apply Hother. assumption.
           ++ intros q. rewrite Hother by assumption. apply Ht.
      * split; cbn [tf_bypass tf_tsi]; [eapply cnt_inv_ext; [exact Hb|intros; symmetry; apply Hall]|].
        intros tsi2. destruct (N.eq_dec tsi tsi2) as [<-|Hn].
        -- rewrite am_get_set_same by exact N_eqb_eq'. split.
           ++ intros E0. rewrite E0 in Ee. discriminate.
           ++ eapply cnt_inv_ext; [exact Hc'|]. intros q. symmetry. apply Hsame.
        -- rewrite am_get_set_other by (exact N_eqb_eq' || assumption).
           specialize (Ht tsi2). destruct (am_get N.eqb (tf_tsi f) tsi2).
           ++ destruct Ht as [Hne2 Hc2]. split; [assumption|].
              eapply cnt_inv_ext; [exact Hc2|]. intros q. symmetry. apply Hother. assumption.
           ++ intros q. rewrite Hother by assumption. apply Ht.
    + split; [eapply cnt_inv_ext; [exact Hb|intros; symmetry; apply Hall]|].
      intros tsi2. destruct (N.eq_dec tsi tsi2) as [<-|Hn].
      * rewrite Eg. intros q. rewrite Hsame, Htsi. destruct (ep_eqb ep q); reflexivity.
      * specialize (Ht tsi2). destruct (am_get N.eqb (tf_tsi f) tsi2).
        -- destruct Ht as [Hne2 Hc2]. split; [assumption|].
           eapply cnt_inv_ext; [exact Hc2|]. intros q. symmetry. apply Hother. assumption.
        -- intros q. rewrite Hother by assumption. apply Ht.
  - (* add all *)
    unfold tf_add_bypass. destruct (cnt_add_inv _ _ ep Hb (Hle _ _)) as [b' [Ea Hc']]. rewrite Ea.
    eexists. split; [reflexivity|]. split; cbn [tf_bypass tf_tsi].
    + eapply cnt_inv_ext; [exact Hc'|]. intros q. unfold cnt_all. rewrite sat_cnt_snoc. reflexivity.
    + intros tsi2. specialize (Ht tsi2). destruct (am_get N.eqb (tf_tsi f) tsi2).
      * destruct Ht as [Hne2 Hc2]. split; [assumption|].
        eapply cnt_inv_ext; [exact Hc2|]. intros q. unfold cnt_pair. rewrite sat_cnt_snoc. reflexivity.
      * intros q. unfold cnt_pair. rewrite sat_cnt_snoc. apply Ht.
  - (* remove all *)
    eexists. split; [reflexivity|]. unfold tf_remove_bypass. split; cbn [tf_bypass tf_tsi].
    + eapply cnt_inv_ext; [exact (cnt_remove_inv _ _ ep Hb)|]. intros q. unfold cnt_all.
      rewrite sat_cnt_snoc. reflexivity.
    + intros tsi2. specialize (Ht tsi2). destruct (am_get N.eqb (tf_tsi f) tsi2).
      * destruct Ht as [Hne2 Hc2]. split; [assumption|].
        eapply cnt_inv_ext; [exact Hc2|]. intros q. unfold cnt_pair. rewrite sat_cnt_snoc. reflexivity.
      * intros q. unfold cnt_pair. rewrite sat_cnt_snoc. apply Ht.
Qed.

Lemma finv_init : FInv tf_new [].
Proof. split; [intros q; reflexivity|intros tsi q; reflexivity]. Qed.

Lemma tf_run_inv ops : N.of_nat (length ops) <= u64_max ->
  exists f, tf_run ops = Some f /\ FInv f ops.
Proof.
  induction ops as [|op ops IH] using rev_ind; intros Hlen.
  - exists tf_new. split; [reflexivity|apply finv_init].
  - rewrite app_length in Hlen. cbn [length] in Hlen.
    destruct IH as [f [Er Hi]]; [lia|].
    destruct (finv_step f ops op Hi) as [f' [Es Hi']]; [lia|].
    exists f'. split; [|assumption]. rewrite tf_run_snoc, Er. assumption.
Qed.

Lemma finv_is_valid f ops ep tsi : FInv f ops -> tf_is_valid f ep tsi = accepts ops ep tsi.
Proof.
  intros [Hb Ht]. unfold tf_is_valid, accepts. rewrite (cnt_inv_mem _ _ ep Hb).
  destruct (0 <? cnt_all ops ep); [reflexivity|]. cbn [orb].
  specialize (Ht tsi). destruct (am_get N.eqb (tf_tsi f) tsi) as [t|].
  - destruct Ht as [_ Hc]. unfold cnt_is_valid.
    rewrite (cnt_inv_mem _ _ ep Hc), (cnt_inv_mem _ _ (ep_no_src ep) Hc).
    destruct (0 <? cnt_pair ops ep tsi); reflexivity.
  - rewrite !Ht. reflexivity.
Qed.

(* T1/T2: for every history of listen operations (shorter than 2^64) the filter does not
   overflow and answers exactly by the saturating counts *)
Lemma filter_refcount_proof ops : N.of_nat (length ops) <= u64_max ->
  exists f, tf_run ops = Some f /\ forall ep tsi, tf_is_valid f ep tsi = accepts ops ep tsi.
Proof.
  intros H. destruct (tf_run_inv ops H) as [f [E Hi]]. exists f. split; [assumption|].
  intros ep tsi. apply finv_is_valid. assumption.
Qed.

Lemma spec_filter_holds ops : N.of_nat (length ops) <= u64_max ->
  forall ep tsi, match tf_run ops with
                 | Some f => P_C18_filter ops ep tsi (tf_is_valid f ep tsi) = true
                 | None => False
                 end.
Proof.
  intros H ep tsi. destruct (filter_refcount_proof ops H) as [f [E Hv]]. rewrite E.
  unfold P_C18_filter. rewrite Hv. apply eqb_reflx.
Qed.

(* ------------------------------------------------------------------------------------ *)
(* generic list facts                                                                    *)

Lemma filter_map_comm {A B} (p : B -> bool) (f : A -> B) (l : list A) :
  filter p (map f l) = map f (filter (fun x => p (f x)) l).
Proof. induction l as [|x l IH]; cbn; [reflexivity|]. destruct (p (f x)); cbn; rewrite IH; reflexivity. Qed.

Lemma filter_flat_map_sel {A B} (p : B -> bool) (q : A -> bool) (g : A -> list B) (l : list A) :
  (forall x, filter p (g x) = if q x then g x else []) ->
  filter p (flat_map g l) = flat_map g (filter q l).
Proof.
  intros H. induction l as [|x l IH]; cbn; [reflexivity|].
  rewrite filter_app, H, IH. destruct (q x); reflexivity.
Qed.

Lemma filter_comm {A} (p q : A -> bool) (l : list A) : filter p (filter q l) = filter q (filter p l).
Proof.
  induction l as [|x l IH]; cbn; [reflexivity|].
  destruct (q x) eqn:Eq, (p x) eqn:Ep; cbn; rewrite ?Eq, ?Ep, IH; reflexivity.
Qed.

Lemma filter_ext_in' {A} (p q : A -> bool) (l : list A) :
  (forall x, In x l -> p x = q x) -> filter p l = filter q l.
Proof.
  induction l as [|x l IH]; cbn; intros H; [reflexivity|].
  rewrite (H x) by (left; reflexivity). rewrite IH by (intros; apply H; right; assumption). reflexivity.
Qed.

Lemma filter_all_false {A} (p : A -> bool) (l : list A) :
  (forall x, In x l -> p x = false) -> filter p l = [].
Proof.
  induction l as [|x l IH]; cbn; intros H; [reflexivity|].
  rewrite (H x) by (left; reflexivity). apply IH. intros; apply H; right; assumption.
Qed.

Lemma filter_all_true {A} (p : A -> bool) (l : list A) :
  (forall x, In x l -> p x = true) -> filter p l = l.
Proof.
  induction l as [|x l IH]; cbn; intros H; [reflexivity|].
  rewrite (H x) by (left; reflexivity). f_equal. apply IH. intros; apply H; right; assumption.
Qed.

(* ------------------------------------------------------------------------------------ *)
(* the multi-receiver                                                                    *)

Section MultiFacts.
  Variables R P O : Type.
  Variable pkt_tsi : P -> N.
  Variable pkt_close : P -> bool.
  Variable rinit : Key -> R.
  Variable rpush : R -> P -> Z -> R * O.
  Variable rcleanup : R -> Z -> R * O.
  Variable rdrop : R -> O.

  Notation St := (MState R).
  Notation Evt := (Ev O).
  Notation step := (mstep R P O pkt_tsi pkt_close rinit rpush rcleanup rdrop).
  Notation run := (mrun R P O pkt_tsi pkt_close rinit rpush rcleanup rdrop).
  Notation life := (mlife R P O pkt_tsi pkt_close rinit rpush rcleanup rdrop).
  Notation push := (mpush R P O pkt_tsi pkt_close rinit rpush rdrop).
  Notation cleanup := (mcleanup R O rcleanup rdrop).
  Notation drop := (mdrop R O rdrop).
  Notation ntf := (notify R O).

  Definition kget (m : list (Key * Sess R)) (k : Key) := am_get key_eqb m k.

  (* ---------- demultiplexing isolation ---------- *)

  Lemma sess_cleanup_fst_gen now e : fst (fst (sess_cleanup R O rcleanup now e)) = fst e.
  Proof. unfold sess_cleanup. destruct (rcleanup (s_st (snd e)) now). reflexivity. Qed.

  Variable sel : Key -> bool.
  Definition selF (e : Key * Sess R) : bool := sel (fst e).
  Definition proj_state (st : St) : St := set_sess R st (filter selF (m_sess st)).

  Lemma selF_pair k s : selF (k, s) = sel k.
  Proof. reflexivity. Qed.

  Lemma get_filter_sel m k : sel k = true -> kget (filter selF m) k = kget m k.
  Proof.
    intros Hs. unfold kget. induction m as [|[k' s] m IH]; cbn [filter am_get]; [reflexivity|].
    rewrite selF_pair. destruct (sel k') eqn:E; cbn [am_get].
    - destruct (key_eqb k' k); auto.
    - destruct (key_eqb k' k) eqn:Ek; [|assumption]. apply key_eqb_eq in Ek. congruence.
  Qed.

  Lemma set_filter_sel m k v : sel k = true ->
    filter selF (am_set key_eqb m k v) = am_set key_eqb (filter selF m) k v.
  Proof.
    intros Hs. induction m as [|[k' s] m IH]; cbn [filter am_set].
    - rewrite selF_pair, Hs. reflexivity.
    - destruct (key_eqb k' k) eqn:Ek; cbn [filter]; rewrite !selF_pair.
      + apply key_eqb_eq in Ek. subst k'. rewrite Hs. cbn [am_set].
        rewrite key_eqb_refl. reflexivity.
      + destruct (sel k'); cbn [am_set]; [rewrite Ek|]; rewrite IH; reflexivity.
  Qed.

  Lemma set_filter_unsel m k v : sel k = false ->
    filter selF (am_set key_eqb m k v) = filter selF m.
  Proof.
    intros Hs. induction m as [|[k' s] m IH]; cbn [filter am_set].
    - rewrite selF_pair, Hs. reflexivity.
    - destruct (key_eqb k' k) eqn:Ek; cbn [filter]; rewrite !selF_pair.
      + apply key_eqb_eq in Ek. subst k'. rewrite Hs. reflexivity.
      + destruct (sel k'); rewrite IH; reflexivity.
  Qed.

  Lemma remove_filter m k : filter selF (am_remove key_eqb m k) = am_remove key_eqb (filter selF m) k.
  Proof. unfold am_remove. apply filter_comm. Qed.

  Lemma remove_filter_unsel m k : sel k = false -> filter selF (am_remove key_eqb m k) = filter selF m.
  Proof.
    intros Hs. rewrite remove_filter. unfold am_remove. apply filter_all_true.
    intros [k' s] Hin. apply filter_In in Hin as [_ Hin]. unfold selF in Hin. cbn in *.
    destruct (key_eqb k' k) eqn:E; [|reflexivity]. apply key_eqb_eq in E. congruence.
  Qed.

  Lemma filter_notify st b k :
    filter (ev_sel sel) (ntf st b k) = if sel k then ntf (proj_state st) b k else [].
  Proof.
    unfold notify. cbn. induction (m_listeners st) as [|l ls IH]; cbn; [destruct (sel k); reflexivity|].
    rewrite IH. destruct (sel k); reflexivity.
  Qed.

  Lemma proj_set_sess st m : proj_state (set_sess R st m) = set_sess R (proj_state st) (filter selF m).
  Proof. reflexivity. Qed.

  Lemma filter_ev_end l : filter (ev_sel sel) (map (ev_end R O rdrop) l) = map (ev_end R O rdrop) (filter selF l).
  Proof. rewrite filter_map_comm. reflexivity. Qed.

  Lemma sess_cleanup_fst now e : fst (fst (sess_cleanup R O rcleanup now e)) = fst e.
  Proof. unfold sess_cleanup. destruct (rcleanup (s_st (snd e)) now). reflexivity. Qed.

  Lemma sess_cleanup_ev now e : ev_sel sel (snd (sess_cleanup R O rcleanup now e)) = selF e.
  Proof. unfold sess_cleanup. destruct (rcleanup (s_st (snd e)) now). reflexivity. Qed.

  Lemma filter_flat_notify st b ks :
    filter (ev_sel sel) (flat_map (ntf st b) ks) = flat_map (ntf (proj_state st) b) (filter sel ks).
  Proof.
    induction ks as [|k ks IH]; cbn [flat_map filter]; [reflexivity|].
    rewrite filter_app, filter_notify, IH. destruct (sel k); reflexivity.
  Qed.

  Lemma filter_cleanup_fst now l :
    filter selF (map fst (map (sess_cleanup R O rcleanup now) l))
    = map fst (map (sess_cleanup R O rcleanup now) (filter selF l)).
  Proof.
    induction l as [|e l IH]; cbn [map filter]; [reflexivity|].
    unfold selF at 1. rewrite sess_cleanup_fst. fold (selF e).
    destruct (selF e); cbn [map]; rewrite IH; reflexivity.
  Qed.

  Lemma filter_cleanup_snd now l :
    filter (ev_sel sel) (map snd (map (sess_cleanup R O rcleanup now) l))
    = map snd (map (sess_cleanup R O rcleanup now) (filter selF l)).
  Proof.
    induction l as [|e l IH]; cbn [map filter]; [reflexivity|].
    rewrite sess_cleanup_ev. destruct (selF e); cbn [map]; rewrite IH; reflexivity.
  Qed.

  Lemma filter_sel_keys (l : list (Key * Sess R)) : filter sel (map fst l) = map fst (filter selF l).
  Proof. rewrite filter_map_comm. reflexivity. Qed.

  Lemma step_sel st op : op_sel pkt_tsi sel op = true ->
    step (proj_state st) op =
    match step st op with
    | Some (st', evs) => Some (proj_state st', filter (ev_sel sel) evs)
    | None => None
    end.
  Proof.
    intros Hs. destruct op as [|id|b|f|ep pkt now tnow|now rd]; cbn [mstep].
    - cbn. destruct (m_next_id st =? u64_max); reflexivity.
    - reflexivity.
    - reflexivity.
    - cbn. destruct (tf_step (m_filter st) f); reflexivity.
    - f_equal. destruct pkt as [p|]; [|reflexivity]. cbn in Hs. unfold mpush.
      change (m_enable (proj_state st)) with (m_enable st).
      change (m_filter (proj_state st)) with (m_filter st).
      destruct (m_enable st && negb (tf_is_valid (m_filter st) ep (pkt_tsi p))).
      { cbn. rewrite Hs. reflexivity. }
      change (am_get key_eqb (m_sess (proj_state st)) (ep, pkt_tsi p))
        with (kget (filter selF (m_sess st)) (ep, pkt_tsi p)).
      rewrite get_filter_sel by assumption. unfold kget.
      change (m_sess (proj_state st)) with (filter selF (m_sess st)).
      destruct (pkt_close p).
      + destruct (am_get key_eqb (m_sess st) (ep, pkt_tsi p)) as [s|].
        * destruct (rpush (s_st s) p now) as [r' o].
          rewrite proj_set_sess, remove_filter, filter_app, filter_notify.
          cbn [filter ev_sel]. rewrite Hs. reflexivity.
        * cbn. rewrite Hs. reflexivity.
      + destruct (am_get key_eqb (m_sess st) (ep, pkt_tsi p)) as [s|].
        * destruct (rpush (s_st s) p now) as [r' o].
          rewrite proj_set_sess, set_filter_sel by assumption. cbn. rewrite Hs. reflexivity.
        * destruct (rpush (rinit (ep, pkt_tsi p)) p now) as [r' o].
          rewrite proj_set_sess, set_filter_sel by assumption.
          rewrite filter_app, filter_notify. cbn [filter ev_sel]. rewrite Hs. reflexivity.
    - f_equal. unfold mcleanup.
      change (sess_expired R (proj_state st) rd) with (sess_expired R st rd).
      change (m_sess (proj_state st)) with (filter selF (m_sess st)).
      rewrite proj_set_sess, !filter_app, filter_ev_end, filter_flat_notify.
      rewrite !(filter_comm _ selF).
      rewrite filter_cleanup_fst, filter_cleanup_snd, filter_sel_keys. reflexivity.
  Qed.

  Lemma step_unsel st op : op_sel pkt_tsi sel op = false ->
    exists st' evs, step st op = Some (st', evs)
                    /\ proj_state st' = proj_state st /\ filter (ev_sel sel) evs = [].
  Proof.
    destruct op as [|id|b|f|ep pkt now tnow|now rd]; cbn [op_sel]; try discriminate.
    destruct pkt as [p|]; [|discriminate]. intros Hs. cbn [mstep]. unfold mpush.
    destruct (m_enable st && negb (tf_is_valid (m_filter st) ep (pkt_tsi p))).
    { eexists _, _. split; [reflexivity|]. split; [reflexivity|]. cbn. rewrite Hs. reflexivity. }
    destruct (pkt_close p).
    - destruct (am_get key_eqb (m_sess st) (ep, pkt_tsi p)) as [s|].
      + destruct (rpush (s_st s) p now) as [r' o]. eexists _, _. split; [reflexivity|]. split.
        * rewrite proj_set_sess, remove_filter_unsel by assumption. reflexivity.
        * rewrite filter_app, filter_notify. cbn [filter ev_sel]. rewrite Hs. reflexivity.
      + eexists _, _. split; [reflexivity|]. split; [reflexivity|]. cbn. rewrite Hs. reflexivity.
    - destruct (am_get key_eqb (m_sess st) (ep, pkt_tsi p)) as [s|].
      + destruct (rpush (s_st s) p now) as [r' o]. eexists _, _. split; [reflexivity|]. split.
        * rewrite proj_set_sess, set_filter_unsel by assumption. reflexivity.
        * cbn. rewrite Hs. reflexivity.
      + destruct (rpush (rinit (ep, pkt_tsi p)) p now) as [r' o]. eexists _, _.
        split; [reflexivity|]. split.
        * rewrite proj_set_sess, set_filter_unsel by assumption. reflexivity.
        * rewrite filter_app, filter_notify. cbn [filter ev_sel]. rewrite Hs. reflexivity.
  Qed.

  Lemma run_sel ops : forall st,
    match run st ops with
    | Some (st', steps) =>
      exists steps', run (proj_state st) (filter (op_sel pkt_tsi sel) ops) = Some (proj_state st', steps')
                     /\ concat steps' = filter (ev_sel sel) (concat steps)
    | None => run (proj_state st) (filter (op_sel pkt_tsi sel) ops) = None
    end.
  Proof.
    induction ops as [|op ops IH]; intros st; cbn [mrun filter].
    - exists []. split; reflexivity.
    - destruct (op_sel pkt_tsi sel op) eqn:Es.
      + cbn [mrun]. rewrite (step_sel st op Es). destruct (step st op) as [[st1 e1]|]; [|reflexivity].
        specialize (IH st1). destruct (run st1 ops) as [[st2 e2]|].
        * destruct IH as [steps' [Er Ec]]. rewrite Er. eexists. split; [reflexivity|].
          cbn [concat]. rewrite filter_app, Ec. reflexivity.
        * rewrite IH. reflexivity.
      + destruct (step_unsel st op Es) as [st1 [e1 [E1 [Ep Ee]]]]. rewrite E1.
        specialize (IH st1). rewrite Ep in IH. destruct (run st1 ops) as [[st2 e2]|].
        * destruct IH as [steps' [Er Ec]]. exists steps'. split; [assumption|].
          cbn [concat]. rewrite filter_app, Ee, Ec. reflexivity.
        * assumption.
  Qed.

  Lemma drop_sel st : filter (ev_sel sel) (drop st) = drop (proj_state st).
  Proof.
    unfold mdrop. rewrite filter_app, filter_flat_notify, filter_ev_end, filter_sel_keys. reflexivity.
  Qed.

  (* T4: what the sessions selected by [sel] emit, and what listeners see about them, in a
     run over [ops] is what the run over the selected packets alone gives; one run
     overflows iff the other does *)
  Lemma life_sel st ops :
    life (proj_state st) (filter (op_sel pkt_tsi sel) ops)
    = option_map (filter (ev_sel sel)) (life st ops).
  Proof.
    unfold mlife. pose proof (run_sel ops st) as H. destruct (run st ops) as [[st' steps]|].
    - destruct H as [steps' [Er Ec]]. rewrite Er. cbn [option_map].
      rewrite filter_app, drop_sel, Ec. reflexivity.
    - rewrite H. reflexivity.
  Qed.

  Lemma proj_minit en to : proj_state (minit en to) = minit en to.
  Proof. reflexivity. Qed.

  (* ---------- a packet touches only the session of its own (endpoint, TSI) ---------- *)

  Lemma push_events_own_key st ep p now tnow :
    Forall (fun e => ev_sel (key_eqb (ep, pkt_tsi p)) e = true) (snd (push st ep (Some p) now tnow)).
  Proof.
    unfold mpush. set (k := (ep, pkt_tsi p)).
    assert (Hn : forall b, Forall (fun e : Evt => ev_sel (key_eqb k) e = true) (ntf st b k)).
    { intros b. unfold notify. apply Forall_forall. intros e Hin. apply in_map_iff in Hin as [l [<- _]].
      cbn. apply key_eqb_refl. }
    destruct (m_enable st && negb (tf_is_valid (m_filter st) ep (pkt_tsi p))).
    { repeat constructor. cbn. apply key_eqb_refl. }
    destruct (pkt_close p); destruct (am_get key_eqb (m_sess st) k) as [s|].
    - destruct (rpush (s_st s) p now) as [r' o]. cbn [snd].
      repeat (constructor; [cbn; apply key_eqb_refl|]). apply Hn.
    - repeat constructor. cbn. apply key_eqb_refl.
    - destruct (rpush (s_st s) p now) as [r' o]. repeat constructor. cbn. apply key_eqb_refl.
    - destruct (rpush (rinit k) p now) as [r' o]. cbn [snd]. apply Forall_app. split; [apply Hn|].
      repeat (constructor; [cbn; apply key_eqb_refl|]). constructor.
  Qed.

  Lemma push_other_sessions_untouched st ep p now tnow k' : k' <> (ep, pkt_tsi p) ->
    kget (m_sess (fst (push st ep (Some p) now tnow))) k' = kget (m_sess st) k'.
  Proof.
    intros Hn. unfold mpush, kget. set (k := (ep, pkt_tsi p)) in *.
    destruct (m_enable st && negb (tf_is_valid (m_filter st) ep (pkt_tsi p))); [reflexivity|].
    destruct (pkt_close p); destruct (am_get key_eqb (m_sess st) k) as [s|]; try reflexivity.
    - destruct (rpush (s_st s) p now) as [r' o]. cbn [fst m_sess set_sess].
      apply am_get_remove_other; [apply key_eqb_eq|congruence].
    - destruct (rpush (s_st s) p now) as [r' o]. cbn [fst m_sess set_sess].
      apply am_get_set_other; [apply key_eqb_eq|congruence].
    - destruct (rpush (rinit k) p now) as [r' o]. cbn [fst m_sess set_sess].
      apply am_get_set_other; [apply key_eqb_eq|congruence].
  Qed.

  Lemma push_touches_own_key_only_proof st ep p now tnow :
    Forall (fun e : Evt => ev_sel (key_eqb (ep, pkt_tsi p)) e = true) (snd (push st ep (Some p) now tnow))
    /\ forall k', k' <> (ep, pkt_tsi p) ->
         am_get key_eqb (m_sess (fst (push st ep (Some p) now tnow))) k' = am_get key_eqb (m_sess st) k'.
  Proof.
    split; [apply push_events_own_key|intros; apply push_other_sessions_untouched; assumption].
  Qed.

  (* ---------- every session object is the one created for its key ---------- *)

  Section Own.
    Variable own : Key -> R -> Prop.      (* "r is a Receiver that was created for k" *)
    Variable okO : Key -> O -> Prop.      (* "every callback in o carries k's endpoint and TSI" *)
    Hypothesis own_init : forall k, own k (rinit k).
    Hypothesis own_push : forall k r p now, own k r ->
      own k (fst (rpush r p now)) /\ okO k (snd (rpush r p now)).
    Hypothesis own_cleanup : forall k r now, own k r ->
      own k (fst (rcleanup r now)) /\ okO k (snd (rcleanup r now)).
    Hypothesis own_drop : forall k r, own k r -> okO k (rdrop r).

    Definition OwnInv (st : St) : Prop := forall k s, In (k, s) (m_sess st) -> own k (s_st s).
    Definition EvOK (e : Evt) : Prop :=
      match e with EvOut k o | EvEnd k o => okO k o | _ => True end.

    Lemma am_set_in (m : list (Key * Sess R)) k v k' s' :
      In (k', s') (am_set key_eqb m k v) -> (k' = k /\ s' = v) \/ In (k', s') m.
    Proof.
      induction m as [|[k0 s0] m IH]; cbn [am_set].
      - intros [H|[]]. inversion H. auto.
      - destruct (key_eqb k0 k) eqn:E.
        + apply key_eqb_eq in E. subst k0. intros [H|H]; [inversion H; auto|right; right; assumption].
        + intros [H|H]; [right; left; assumption|]. destruct (IH H); [auto|right; right; assumption].
    Qed.

    Lemma notify_ok st b k : Forall EvOK (ntf st b k).
    Proof. apply Forall_forall. intros e Hin. apply in_map_iff in Hin as [l [<- _]]. exact I. Qed.

    Lemma own_step st op st' evs : OwnInv st -> step st op = Some (st', evs) ->
      OwnInv st' /\ Forall EvOK evs.
    Proof.
      intros Hi. destruct op as [|id|b|f|ep pkt now tnow|now rd]; cbn [mstep].
      - destruct (m_next_id st =? u64_max); [discriminate|]. intros H; inversion H; subst.
        split; [exact Hi|repeat constructor].
      - intros H; inversion H; subst. split; [exact Hi|constructor].
      - intros H; inversion H; subst. split; [exact Hi|constructor].
      - destruct (tf_step (m_filter st) f); [|discriminate]. intros H; inversion H; subst.
        split; [exact Hi|constructor].
      - intros H. assert (H1 : push st ep pkt now tnow = (st', evs)) by congruence. clear H. destruct pkt as [p|].
        2:{ inversion H1; subst. split; [exact Hi|repeat constructor]. }
        unfold mpush in H1. set (k := (ep, pkt_tsi p)) in *.
        destruct (m_enable st && negb (tf_is_valid (m_filter st) ep (pkt_tsi p))).
        { inversion H1; subst. split; [exact Hi|repeat constructor]. }
        destruct (pkt_close p); destruct (am_get key_eqb (m_sess st) k) as [s|] eqn:Eg.
        + pose proof (am_get_in _ _ key_eqb key_eqb_eq _ _ _ Eg) as Hin.
          destruct (own_push k (s_st s) p now (Hi _ _ Hin)) as [Ho Hk].
          destruct (rpush (s_st s) p now) as [r' o]. inversion H1; subst. split.
          * intros k' s' Hin'. cbn in Hin'. apply filter_In in Hin' as [Hin' _]. apply Hi; assumption.
          * constructor; [exact Hk|]. constructor; [apply own_drop; exact Ho|]. apply notify_ok.
        + inversion H1; subst. split; [exact Hi|repeat constructor].
        + pose proof (am_get_in _ _ key_eqb key_eqb_eq _ _ _ Eg) as Hin.
          destruct (own_push k (s_st s) p now (Hi _ _ Hin)) as [Ho Hk].
          destruct (rpush (s_st s) p now) as [r' o]. inversion H1; subst. split.
          * intros k' s' Hin'. cbn in Hin'. apply am_set_in in Hin' as [[-> ->]|Hin']; [exact Ho|].
            apply Hi; assumption.
          * repeat constructor. exact Hk.
        + destruct (own_push k (rinit k) p now (own_init k)) as [Ho Hk].
          destruct (rpush (rinit k) p now) as [r' o]. inversion H1; subst. split.
          * intros k' s' Hin'. cbn in Hin'. apply am_set_in in Hin' as [[-> ->]|Hin']; [exact Ho|].
            apply Hi; assumption.
          * apply Forall_app. split; [apply notify_ok|]. repeat constructor. exact Hk.
      - intros H. assert (H1 : cleanup st now rd = (st', evs)) by congruence. clear H.
        unfold mcleanup in H1. inversion H1; subst; clear H1. split.
        + intros k s Hin. cbn in Hin. rewrite map_map in Hin. apply in_map_iff in Hin as [[k0 s0] [He Hin]].
          apply filter_In in Hin as [Hin _]. unfold sess_cleanup in He. cbn in He.
          destruct (own_cleanup k0 (s_st s0) now (Hi _ _ Hin)) as [Ho _].
          destruct (rcleanup (s_st s0) now) as [r' o]. cbn in He. inversion He; subst. exact Ho.
        + apply Forall_app. split; [|apply Forall_app; split].
          * apply Forall_forall. intros e Hin. apply in_map_iff in Hin as [[k0 s0] [<- Hin]].
            apply filter_In in Hin as [Hin _]. cbn. apply own_drop. apply (Hi _ _ Hin).
          * apply Forall_forall. intros e Hin. rewrite map_map in Hin.
            apply in_map_iff in Hin as [[k0 s0] [<- Hin]]. apply filter_In in Hin as [Hin _].
            unfold sess_cleanup. cbn. destruct (own_cleanup k0 (s_st s0) now (Hi _ _ Hin)) as [_ Hk].
            destruct (rcleanup (s_st s0) now) as [r' o]. exact Hk.
          * apply Forall_forall. intros e Hin. apply in_flat_map in Hin as [k [_ Hin]].
            revert e Hin. apply Forall_forall. apply notify_ok.
    Qed.

    Lemma own_drop_ok st : OwnInv st -> Forall EvOK (drop st).
    Proof.
      intros Hi. unfold mdrop. apply Forall_app. split.
      - apply Forall_forall. intros e Hin. apply in_flat_map in Hin as [k [_ Hin]].
        revert e Hin. apply Forall_forall. apply notify_ok.
      - apply Forall_forall. intros e Hin. apply in_map_iff in Hin as [[k0 s0] [<- Hin]].
        cbn. apply own_drop. apply (Hi _ _ Hin).
    Qed.

    Lemma own_run ops : forall st st' steps, OwnInv st -> run st ops = Some (st', steps) ->
      OwnInv st' /\ Forall EvOK (concat steps).
    Proof.
      induction ops as [|op ops IH]; intros st st' steps Hi; cbn [mrun].
      - intros H; inversion H; subst. split; [exact Hi|constructor].
      - destruct (step st op) as [[st1 e1]|] eqn:E1; [|discriminate].
        destruct (run st1 ops) as [[st2 e2]|] eqn:E2; [|discriminate].
        intros H; inversion H; subst. destruct (own_step _ _ _ _ Hi E1) as [Hi1 He1].
        destruct (IH _ _ _ Hi1 E2) as [Hi2 He2]. split; [exact Hi2|].
        cbn [concat]. apply Forall_app. split; assumption.
    Qed.

    (* T5 *)
    Lemma writer_args_own_session_proof en to ops evs :
      life (minit en to) ops = Some evs -> Forall EvOK evs.
    Proof.
      unfold mlife. destruct (run (minit en to) ops) as [[st' steps]|] eqn:E; [|discriminate].
      intros H; inversion H; subst.
      assert (H0 : OwnInv (minit en to)) by (intros k s []).
      destruct (own_run ops _ _ _ H0 E) as [Hi He].
      apply Forall_app. split; [assumption|apply own_drop_ok; assumption].
    Qed.
  End Own.

  (* ---------- listener balance ---------- *)

  Definition kin (k : Key) (ks : list Key) : bool := existsb (fun k' => key_eqb k' k) ks.

  Definition toggles (a b : bool) : list bool :=
    match a, b with
    | false, true => [true]
    | true, false => [false]
    | _, _ => []
    end.

  Lemma toggles_same a : toggles a a = [].
  Proof. destruct a; reflexivity. Qed.

  Lemma am_mem_kin (m : list (Key * Sess R)) k : am_mem key_eqb m k = kin k (map fst m).
  Proof.
    unfold am_mem. induction m as [|[k' s] m IH]; cbn; [reflexivity|].
    destruct (key_eqb k' k); [reflexivity|exact IH].
  Qed.

  Lemma kin_in k ks : kin k ks = true <-> In k ks.
  Proof.
    unfold kin. rewrite existsb_exists. split.
    - intros [k' [Hin E]]. apply key_eqb_eq in E. subst. assumption.
    - intros H. exists k. split; [assumption|apply key_eqb_refl].
  Qed.

  Definition WF (st : St) : Prop :=
    NoDup (map fst (m_sess st)) /\ NoDup (m_listeners st)
    /\ forall l, In l (m_listeners st) -> l < m_next_id st.

  Lemma lk_trace_app l k (a b : list Evt) : lk_trace l k (a ++ b) = lk_trace l k a ++ lk_trace l k b.
  Proof. unfold lk_trace. apply flat_map_app. Qed.
  Lemma life_trace_app k (a b : list Evt) : life_trace k (a ++ b) = life_trace k a ++ life_trace k b.
  Proof. unfold life_trace. apply flat_map_app. Qed.

  Lemma lk_trace_notify st l k b k0 : NoDup (m_listeners st) -> In l (m_listeners st) ->
    lk_trace l k (ntf st b k0) = if key_eqb k0 k then [b] else [].
  Proof.
    unfold notify. induction (m_listeners st) as [|l' ls IH]; intros Hnd Hin; [destruct Hin|].
    inversion Hnd as [|? ? Hni Hnd']. subst. cbn [map lk_trace flat_map].
    destruct (N.eqb_spec l' l) as [->|Hne].
    - cbn [andb]. assert (Hrest : lk_trace l k (map (fun l0 => @EvNotify O l0 b k0) ls) = []).
      { clear IH Hnd Hin Hnd'. induction ls as [|x ls IH]; [reflexivity|]. cbn [map lk_trace flat_map].
        destruct (N.eqb_spec x l) as [->|_]; [exfalso; apply Hni; left; reflexivity|].
        cbn [andb app]. apply IH. intros H. apply Hni. right. assumption. }
      unfold lk_trace in Hrest. rewrite Hrest. destruct (key_eqb k0 k); reflexivity.
    - cbn [andb app]. destruct Hin as [->|Hin]; [contradiction|]. apply IH; assumption.
  Qed.

  Lemma life_trace_notify st k b k0 : life_trace k (ntf st b k0) = [].
  Proof. unfold notify. induction (m_listeners st); [reflexivity|assumption]. Qed.

  Lemma lk_trace_flat_notify st l k ks : NoDup (m_listeners st) -> In l (m_listeners st) -> NoDup ks ->
    lk_trace l k (flat_map (ntf st false) ks) = if kin k ks then [false] else [].
  Proof.
    intros Hnd Hin. induction ks as [|k0 ks IH]; intros Hk; [reflexivity|].
    inversion Hk as [|? ? Hni Hk']. subst. cbn [flat_map kin existsb].
    rewrite lk_trace_app, lk_trace_notify by assumption. fold (kin k ks).
    destruct (key_eqb k0 k) eqn:E.
    - apply key_eqb_eq in E. subst k0. rewrite IH by assumption.
      destruct (kin k ks) eqn:Ek; [apply kin_in in Ek; contradiction|reflexivity].
    - cbn [orb app]. apply IH. assumption.
  Qed.

  Lemma life_trace_flat_notify st k ks : life_trace k (flat_map (ntf st false) ks) = [].
  Proof.
    induction ks as [|k0 ks IH]; [reflexivity|]. cbn [flat_map].
    rewrite life_trace_app, life_trace_notify. assumption.
  Qed.

  Lemma lk_trace_ev_end l k (m : list (Key * Sess R)) : lk_trace l k (map (ev_end R O rdrop) m) = [].
  Proof. induction m; [reflexivity|assumption]. Qed.

  Lemma life_trace_ev_end k (m : list (Key * Sess R)) : NoDup (map fst m) ->
    life_trace k (map (ev_end R O rdrop) m) = if kin k (map fst m) then [false] else [].
  Proof.
    induction m as [|[k0 s0] m IH]; intros Hk; [reflexivity|].
    inversion Hk as [|? ? Hni Hk']. subst. cbn [map life_trace flat_map ev_end fst kin existsb].
    fold (kin k (map fst m)). unfold life_trace in IH.
    destruct (key_eqb k0 k) eqn:E.
    - apply key_eqb_eq in E. subst k0. rewrite IH by assumption.
      destruct (kin k (map fst m)) eqn:Ek; [apply kin_in in Ek; contradiction|reflexivity].
    - cbn [orb app]. apply IH. assumption.
  Qed.

  Lemma traces_cleanup_outs l k now (m : list (Key * Sess R)) :
    lk_trace l k (map snd (map (sess_cleanup R O rcleanup now) m)) = []
    /\ life_trace k (map snd (map (sess_cleanup R O rcleanup now) m)) = [].
  Proof.
    induction m as [|e m [IH1 IH2]]; [split; reflexivity|]. cbn [map].
    unfold sess_cleanup at 1 3. destruct (rcleanup (s_st (snd e)) now). cbn [snd].
    split; [exact IH1|exact IH2].
  Qed.

  Lemma cleanup_keys now (m : list (Key * Sess R)) :
    map fst (map fst (map (sess_cleanup R O rcleanup now) m)) = map fst m.
  Proof.
    induction m as [|e m IH]; [reflexivity|]. cbn [map]. rewrite sess_cleanup_fst_gen, IH. reflexivity.
  Qed.

  Lemma wf_step st op st' evs : WF st -> step st op = Some (st', evs) -> WF st'.
  Proof.
    intros (Hk & Hl & Hb). destruct op as [|id|b|f|ep pkt now tnow|now rd]; cbn [mstep].
    - destruct (N.eqb_spec (m_next_id st) u64_max); [discriminate|]. intros H; inversion H; subst.
      split; [exact Hk|]. cbn [m_listeners m_next_id]. split.
      + apply NoDup_snoc; [exact Hl|]. intros Hin. apply Hb in Hin. lia.
      + intros l Hin. apply in_app_iff in Hin as [Hin|[<-|[]]]; [apply Hb in Hin|]; lia.
    - intros H; inversion H; subst. split; [exact Hk|]. cbn [m_listeners m_next_id]. split.
      + apply NoDup_filter. exact Hl.
      + intros l Hin. apply filter_In in Hin as [Hin _]. apply Hb. exact Hin.
    - intros H; inversion H; subst. split; [exact Hk|split; [exact Hl|exact Hb]].
    - destruct (tf_step (m_filter st) f); [|discriminate]. intros H; inversion H; subst.
      split; [exact Hk|split; [exact Hl|exact Hb]].
    - intros H. assert (H1 : push st ep pkt now tnow = (st', evs)) by congruence. clear H.
      assert (Hsame : m_listeners st' = m_listeners st /\ m_next_id st' = m_next_id st
                      /\ NoDup (map fst (m_sess st'))).
      { destruct pkt as [p|]; [|inversion H1; subst; auto]. unfold mpush in H1.
        destruct (m_enable st && negb (tf_is_valid (m_filter st) ep (pkt_tsi p))); [inversion H1; subst; auto|].
        destruct (pkt_close p); destruct (am_get key_eqb (m_sess st) (ep, pkt_tsi p)) as [s|];
          try (inversion H1; subst; auto; fail).
        - destruct (rpush (s_st s) p now). inversion H1; subst. cbn. repeat split.
          apply filter_keys_nodup. exact Hk.
        - destruct (rpush (s_st s) p now). inversion H1; subst. cbn. repeat split.
          apply am_set_nodup; [apply key_eqb_eq|exact Hk].
        - destruct (rpush (rinit (ep, pkt_tsi p)) p now). inversion H1; subst. cbn. repeat split.
          apply am_set_nodup; [apply key_eqb_eq|exact Hk]. }
      destruct Hsame as (E1 & E2 & E3). split; [exact E3|]. rewrite E1, E2. split; assumption.
    - intros H. assert (H1 : cleanup st now rd = (st', evs)) by congruence. clear H.
      unfold mcleanup in H1. inversion H1; subst; clear H1. split; [|split; [exact Hl|exact Hb]].
      cbn [m_sess set_sess]. rewrite cleanup_keys. apply filter_keys_nodup. exact Hk.
  Qed.

  Lemma live_remove (m : list (Key * Sess R)) k0 k :
    am_mem key_eqb (am_remove key_eqb m k0) k = if key_eqb k0 k then false else am_mem key_eqb m k.
  Proof.
    unfold am_mem. destruct (key_eqb k0 k) eqn:E.
    - apply key_eqb_eq in E. subst. rewrite am_get_remove_same by apply key_eqb_eq. reflexivity.
    - rewrite am_get_remove_other; [reflexivity|apply key_eqb_eq|].
      intros ->. rewrite key_eqb_refl in E. discriminate.
  Qed.

  Lemma live_set (m : list (Key * Sess R)) k0 v k :
    am_mem key_eqb (am_set key_eqb m k0 v) k = if key_eqb k0 k then true else am_mem key_eqb m k.
  Proof.
    unfold am_mem. destruct (key_eqb k0 k) eqn:E.
    - apply key_eqb_eq in E. subst. rewrite am_get_set_same by apply key_eqb_eq. reflexivity.
    - rewrite am_get_set_other; [reflexivity|apply key_eqb_eq|].
      intros ->. rewrite key_eqb_refl in E. discriminate.
  Qed.

  Lemma kin_filter_sub k f (m : list (Key * Sess R)) :
    kin k (map fst (filter f m)) = true -> kin k (map fst m) = true.
  Proof.
    rewrite !kin_in. intros H. apply in_map_iff in H as [e [<- Hin]]. apply filter_In in Hin as [Hin _].
    apply in_map. exact Hin.
  Qed.

  Lemma kin_partition f (m : list (Key * Sess R)) k : NoDup (map fst m) ->
    (if kin k (map fst (filter f m)) then [false] else [])
    = toggles (kin k (map fst m)) (kin k (map fst (filter (fun e => negb (f e)) m))).
  Proof.
    induction m as [|[k0 s0] m IH]; intros Hnd; [reflexivity|].
    inversion Hnd as [|? ? Hni Hnd']. subst. specialize (IH Hnd').
    cbn [filter map fst kin existsb]. fold (kin k (map fst m)).
    destruct (key_eqb k0 k) eqn:E.
    - apply key_eqb_eq in E. subst k0.
      assert (Hf : forall g, kin k (map fst (filter g m)) = false).
      { intros g. destruct (kin k (map fst (filter g m))) eqn:Eg; [|reflexivity].
        apply kin_filter_sub in Eg. apply kin_in in Eg. contradiction. }
      destruct (f (k, s0)); cbn [negb map fst kin existsb]; rewrite ?key_eqb_refl; cbn [orb];
        fold (kin k (map fst (filter f m))); fold (kin k (map fst (filter (fun e => negb (f e)) m)));
        rewrite ?Hf; reflexivity.
    - cbn [orb]. destruct (f (k0, s0)); cbn [negb map fst kin existsb]; rewrite ?E; cbn [orb]; exact IH.
  Qed.

  Lemma trace_step st op st' evs l : WF st -> In l (m_listeners st) -> not_remove l op = true ->
    step st op = Some (st', evs) ->
    In l (m_listeners st')
    /\ forall k, lk_trace l k evs = toggles (live st k) (live st' k)
                 /\ life_trace k evs = toggles (live st k) (live st' k).
  Proof.
    intros (Hk & Hl & Hb) Hin Hnr. destruct op as [|id|b|f|ep pkt now tnow|now rd]; cbn [mstep].
    - destruct (N.eqb_spec (m_next_id st) u64_max); [discriminate|]. intros H; inversion H; subst.
      split; [apply in_app_iff; left; exact Hin|]. intros k. unfold live. cbn [m_sess].
      rewrite toggles_same. split; reflexivity.
    - intros H; inversion H; subst. split.
      + cbn [m_listeners]. apply filter_In. split; [exact Hin|]. cbn in Hnr.
        rewrite N.eqb_sym. exact Hnr.
      + intros k. unfold live. cbn [m_sess]. rewrite toggles_same. split; reflexivity.
    - intros H; inversion H; subst. split; [exact Hin|]. intros k. unfold live. cbn [m_sess].
      rewrite toggles_same. split; reflexivity.
    - destruct (tf_step (m_filter st) f); [|discriminate]. intros H; inversion H; subst.
      split; [exact Hin|]. intros k. unfold live. cbn [m_sess set_filter].
      rewrite toggles_same. split; reflexivity.
    - intros H. assert (H1 : push st ep pkt now tnow = (st', evs)) by congruence. clear H.
      destruct pkt as [p|].
      2:{ inversion H1; subst. split; [exact Hin|]. intros k. rewrite toggles_same. split; reflexivity. }
      unfold mpush in H1. set (k0 := (ep, pkt_tsi p)) in *.
      destruct (m_enable st && negb (tf_is_valid (m_filter st) ep (pkt_tsi p))).
      { inversion H1; subst. split; [exact Hin|]. intros k. rewrite toggles_same. split; reflexivity. }
      destruct (pkt_close p); destruct (am_get key_eqb (m_sess st) k0) as [s|] eqn:Eg.
      + destruct (rpush (s_st s) p now) as [r' o]. inversion H1; subst; clear H1.
        split; [exact Hin|]. intros k. unfold live. cbn [m_sess set_sess]. rewrite live_remove.
        change (EvOut k0 o :: EvEnd k0 (rdrop r') :: ntf st false k0)
          with ([EvOut k0 o; EvEnd k0 (rdrop r')] ++ ntf st false k0).
        rewrite lk_trace_app, life_trace_app, lk_trace_notify, life_trace_notify by assumption.
        cbn [lk_trace life_trace flat_map app].
        destruct (key_eqb k0 k) eqn:E.
        * apply key_eqb_eq in E. subst k. unfold am_mem. rewrite Eg. split; reflexivity.
        * rewrite toggles_same. split; reflexivity.
      + inversion H1; subst. split; [exact Hin|]. intros k. rewrite toggles_same. split; reflexivity.
      + destruct (rpush (s_st s) p now) as [r' o]. inversion H1; subst; clear H1.
        split; [exact Hin|]. intros k. unfold live. cbn [m_sess set_sess]. rewrite live_set.
        cbn [lk_trace life_trace flat_map app].
        destruct (key_eqb k0 k) eqn:E.
        * apply key_eqb_eq in E. subst k. unfold am_mem. rewrite Eg. split; reflexivity.
        * rewrite toggles_same. split; reflexivity.
      + destruct (rpush (rinit k0) p now) as [r' o]. inversion H1; subst; clear H1.
        split; [exact Hin|]. intros k. unfold live. cbn [m_sess set_sess]. rewrite live_set.
        rewrite lk_trace_app, life_trace_app, lk_trace_notify, life_trace_notify by assumption.
        cbn [lk_trace life_trace flat_map app].
        destruct (key_eqb k0 k) eqn:E.
        * apply key_eqb_eq in E. subst k. unfold am_mem. rewrite Eg. split; reflexivity.
        * rewrite toggles_same. split; reflexivity.
    - intros H. assert (H1 : cleanup st now rd = (st', evs)) by congruence. clear H.
      unfold mcleanup in H1. inversion H1; subst; clear H1. split; [exact Hin|]. intros k.
      unfold live. cbn [m_sess set_sess]. rewrite !am_mem_kin, cleanup_keys.
      rewrite !lk_trace_app, !life_trace_app.
      destruct (traces_cleanup_outs l k now (filter (fun e => negb (sess_expired R st rd e)) (m_sess st))) as [-> ->].
      rewrite lk_trace_ev_end, life_trace_flat_notify.
      rewrite lk_trace_flat_notify by (try assumption; apply filter_keys_nodup; exact Hk).
      rewrite life_trace_ev_end by (apply filter_keys_nodup; exact Hk).
      cbn [app]. rewrite app_nil_r. rewrite kin_partition by exact Hk. split; reflexivity.
  Qed.

  Lemma alternating_app e t1 t2 :
    alternating e (t1 ++ t2) = alternating e t1 && alternating (xorb e (Nat.odd (length t1))) t2.
  Proof.
    revert e. induction t1 as [|b r IH]; intros e.
    - cbn. rewrite xorb_false_r. reflexivity.
    - cbn [app alternating length]. rewrite IH, Nat.odd_succ, <- Nat.negb_odd, <- andb_assoc.
      f_equal. f_equal. destruct e, (Nat.odd (length r)); reflexivity.
  Qed.

  Definition Chain (a : bool) (t : list bool) (b : bool) : Prop :=
    alternating (negb a) t = true /\ b = xorb a (Nat.odd (length t)).

  Lemma chain_nil a : Chain a [] a.
  Proof. split; [reflexivity|]. cbn. rewrite xorb_false_r. reflexivity. Qed.

  Lemma chain_toggles a b : Chain a (toggles a b) b.
  Proof. destruct a, b; split; reflexivity. Qed.

  Lemma chain_app a t1 b t2 c : Chain a t1 b -> Chain b t2 c -> Chain a (t1 ++ t2) c.
  Proof.
    intros [A1 B1] [A2 B2]. split.
    - rewrite alternating_app, A1. cbn [andb]. subst b.
      replace (xorb (negb a) (Nat.odd (length t1))) with (negb (xorb a (Nat.odd (length t1))))
        by (destruct a, (Nat.odd (length t1)); reflexivity).
      exact A2.
    - subst c b. rewrite app_length, Nat.odd_add.
      destruct a, (Nat.odd (length t1)), (Nat.odd (length t2)); reflexivity.
  Qed.

  Lemma wf_init en to : WF (minit en to).
  Proof. split; [constructor|split; [constructor|intros l []]]. Qed.

  Lemma wf_run ops : forall st st' steps, WF st -> run st ops = Some (st', steps) -> WF st'.
  Proof.
    induction ops as [|op ops IH]; intros st st' steps Hw; cbn [mrun].
    - intros H; inversion H; subst. exact Hw.
    - destruct (step st op) as [[st1 e1]|] eqn:E1; [|discriminate].
      destruct (run st1 ops) as [[st2 e2]|] eqn:E2; [|discriminate].
      intros H; inversion H; subst. eapply IH; [|exact E2]. eapply wf_step; eassumption.
  Qed.

  Lemma trace_run ops : forall st st' steps l, WF st -> In l (m_listeners st) ->
    forallb (not_remove l) ops = true -> run st ops = Some (st', steps) ->
    In l (m_listeners st')
    /\ forall k, lk_trace l k (concat steps) = life_trace k (concat steps)
                 /\ Chain (live st k) (life_trace k (concat steps)) (live st' k).
  Proof.
    induction ops as [|op ops IH]; intros st st' steps l Hw Hin Hnr; cbn [mrun].
    - intros H; inversion H; subst. split; [exact Hin|]. intros k. split; [reflexivity|apply chain_nil].
    - destruct (step st op) as [[st1 e1]|] eqn:E1; [|discriminate].
      destruct (run st1 ops) as [[st2 e2]|] eqn:E2; [|discriminate].
      intros H; inversion H; subst. cbn [forallb] in Hnr. apply andb_true_iff in Hnr as [Hn1 Hn2].
      destruct (trace_step _ _ _ _ _ Hw Hin Hn1 E1) as [Hin1 Ht1].
      pose proof (wf_step _ _ _ _ Hw E1) as Hw1.
      destruct (IH _ _ _ _ Hw1 Hin1 Hn2 E2) as [Hin2 Ht2]. split; [exact Hin2|]. intros k.
      destruct (Ht1 k) as [A1 B1]. destruct (Ht2 k) as [A2 B2]. cbn [concat].
      rewrite lk_trace_app, life_trace_app, A1, A2, B1. split; [reflexivity|].
      eapply chain_app; [apply chain_toggles|exact B2].
  Qed.

  Lemma trace_drop st l k : WF st -> In l (m_listeners st) ->
    lk_trace l k (drop st) = toggles (live st k) false
    /\ life_trace k (drop st) = toggles (live st k) false.
  Proof.
    intros (Hk & Hl & Hb) Hin. unfold mdrop, live. rewrite lk_trace_app, life_trace_app, am_mem_kin.
    rewrite lk_trace_flat_notify, life_trace_flat_notify, lk_trace_ev_end, life_trace_ev_end by assumption.
    rewrite app_nil_r. cbn [app]. destruct (kin k (map fst (m_sess st))); split; reflexivity.
  Qed.

  (* T6: the view of a listener that stays registered, from any reachable state on, until
     after the drop: it is the life of the session objects (one open per Receiver::new, one
     closed per destruction, same order), alternating, and ends closed *)
  Lemma listener_balance_proof en to pre st0 steps0 ops evs l :
    run (minit en to) pre = Some (st0, steps0) -> In l (m_listeners st0) ->
    forallb (not_remove l) ops = true -> life st0 ops = Some evs ->
    forall k, lk_trace l k evs = life_trace k evs /\ Chain (live st0 k) (lk_trace l k evs) false.
  Proof.
    intros Hpre Hin Hnr. pose proof (wf_run _ _ _ _ (wf_init en to) Hpre) as Hw0.
    unfold mlife. destruct (run st0 ops) as [[st' steps]|] eqn:E; [|discriminate].
    intros H; inversion H; subst; clear H. intros k.
    destruct (trace_run _ _ _ _ _ Hw0 Hin Hnr E) as [Hin' Ht]. destruct (Ht k) as [A B].
    pose proof (wf_run _ _ _ _ Hw0 E) as Hw'.
    destruct (trace_drop st' l k Hw' Hin') as [C D].
    rewrite lk_trace_app, life_trace_app, A, C, D. split; [reflexivity|].
    eapply chain_app; [exact B|apply chain_toggles].
  Qed.

  Lemma chain_closed_balanced t : Chain false t false -> P_C18_listener_trace t = true.
  Proof.
    intros [A B]. unfold P_C18_listener_trace. cbn in A. rewrite A. cbn [andb].
    rewrite <- Nat.negb_odd. destruct (Nat.odd (length t)); [discriminate B|reflexivity].
  Qed.

  Lemma chain_late a t b : Chain a t b -> P_C18_listener_late_trace t = true.
  Proof.
    intros [A _]. destruct t as [|x r]; [reflexivity|]. cbn [P_C18_listener_late_trace].
    cbn [alternating] in A. apply andb_true_iff in A as [A1 A2]. apply eqb_prop in A1. subst x.
    cbn [alternating]. rewrite eqb_reflx, A2. reflexivity.
  Qed.

  (* ---------- filter wiring and absence of overflow ---------- *)

  Lemma step_processed_push_not_skip st ep p now tnow :
    m_enable st && negb (tf_is_valid (m_filter st) ep (pkt_tsi p)) = false ->
    step_processed (OPush ep (Some p) now tnow) (snd (push st ep (Some p) now tnow)) = Some true.
  Proof.
    intros Hc. unfold mpush. rewrite Hc. cbn [step_processed].
    destruct (pkt_close p); destruct (am_get key_eqb (m_sess st) (ep, pkt_tsi p)) as [s|].
    - destruct (rpush (s_st s) p now). reflexivity.
    - reflexivity.
    - destruct (rpush (s_st s) p now). reflexivity.
    - destruct (rpush (rinit (ep, pkt_tsi p)) p now). cbn [snd]. unfold notify.
      destruct (m_listeners st) as [|l1 [|l2 ls]]; reflexivity.
  Qed.

  Lemma push_frame st ep pkt now tnow :
    let st' := fst (push st ep pkt now tnow) in
    m_filter st' = m_filter st /\ m_enable st' = m_enable st /\ m_next_id st' = m_next_id st.
  Proof.
    destruct pkt as [p|]; [|cbn; auto]. unfold mpush.
    destruct (m_enable st && negb (tf_is_valid (m_filter st) ep (pkt_tsi p))); [cbn; auto|].
    destruct (pkt_close p); destruct (am_get key_eqb (m_sess st) (ep, pkt_tsi p)) as [s|];
      try (cbn; auto; fail).
    - destruct (rpush (s_st s) p now). cbn. auto.
    - destruct (rpush (s_st s) p now). cbn. auto.
    - destruct (rpush (rinit (ep, pkt_tsi p)) p now). cbn. auto.
  Qed.

  Lemma run_filter_inv ops : forall st hist n,
    FInv (m_filter st) hist -> (length hist <= n)%nat -> m_next_id st <= N.of_nat n ->
    N.of_nat (n + length ops) <= u64_max ->
    exists st' steps, run st ops = Some (st', steps)
      /\ run_processed ops steps = expected_processed pkt_tsi (m_enable st) hist ops.
  Proof.
    induction ops as [|op ops IH]; intros st hist n Hf Hh Hid Hlen.
    - eexists _, _. split; reflexivity.
    - cbn [length] in Hlen.
      assert (Hlen' : N.of_nat (S n + length ops) <= u64_max) by (rewrite <- Nat.add_succ_comm in Hlen; exact Hlen).
      assert (Hn : N.of_nat n < u64_max) by lia.
      destruct op as [|id|b|f|ep pkt now tnow|now rd]; cbn [mrun mstep expected_processed].
      + destruct (N.eqb_spec (m_next_id st) u64_max) as [E|E]; [lia|].
        edestruct (IH (mkM (m_sess st) (m_filter st) (m_enable st) (m_timeout st)
                           (m_listeners st ++ [m_next_id st]) (m_next_id st + 1)) hist (S n))
          as [st' [steps [Er Ep]]]; try assumption; [lia|cbn [m_next_id]; lia|].
        rewrite Er. eexists _, _. split; [reflexivity|]. cbn [run_processed step_processed]. rewrite Ep. reflexivity.
      + edestruct (IH (mkM (m_sess st) (m_filter st) (m_enable st) (m_timeout st)
                           (filter (fun l => negb (l =? id)) (m_listeners st)) (m_next_id st)) hist (S n))
          as [st' [steps [Er Ep]]]; try assumption; [lia|cbn [m_next_id]; lia|].
        rewrite Er. eexists _, _. split; [reflexivity|]. cbn [run_processed step_processed]. rewrite Ep. reflexivity.
      + edestruct (IH (mkM (m_sess st) (m_filter st) b (m_timeout st) (m_listeners st) (m_next_id st)) hist (S n))
          as [st' [steps [Er Ep]]]; try assumption; [lia|cbn [m_next_id]; lia|].
        rewrite Er. eexists _, _. split; [reflexivity|]. cbn [run_processed step_processed]. rewrite Ep. reflexivity.
      + destruct (finv_step _ _ f Hf) as [f' [Es Hf']]; [lia|]. rewrite Es.
        edestruct (IH (set_filter R st f') (hist ++ [f]) (S n)) as [st' [steps [Er Ep]]];
          try assumption; [rewrite app_length; cbn; lia|cbn [m_next_id set_filter]; lia|].
        rewrite Er. eexists _, _. split; [reflexivity|]. cbn [run_processed step_processed]. rewrite Ep. reflexivity.
      + destruct (push_frame st ep pkt now tnow) as (F1 & F2 & F3).
        destruct (push st ep pkt now tnow) as [st1 e1] eqn:Epush. cbn [fst] in F1, F2, F3.
        edestruct (IH st1 hist (S n)) as [st' [steps [Er Ep]]];
          try assumption; [rewrite F1; exact Hf|lia|rewrite F3; lia|].
        rewrite Er. eexists _, _. split; [reflexivity|]. cbn [run_processed]. rewrite Ep, F2.
        destruct pkt as [p|]; [|reflexivity]. f_equal.
        rewrite <- (finv_is_valid _ _ ep (pkt_tsi p) Hf).
        destruct (m_enable st && negb (tf_is_valid (m_filter st) ep (pkt_tsi p))) eqn:Ec.
        * unfold mpush in Epush. rewrite Ec in Epush. inversion Epush; subst. cbn [step_processed].
          apply andb_true_iff in Ec as [-> Ec]. apply negb_true_iff in Ec. rewrite Ec. reflexivity.
        * pose proof (step_processed_push_not_skip st ep p now tnow Ec) as Hs. rewrite Epush in Hs.
          cbn [snd] in Hs. rewrite Hs. f_equal.
          destruct (m_enable st), (tf_is_valid (m_filter st) ep (pkt_tsi p)); try reflexivity; discriminate.
      + edestruct (IH (fst (cleanup st now rd)) hist (S n)) as [st' [steps [Er Ep]]];
          try assumption; [lia|cbn [mcleanup fst m_next_id set_sess]; lia|].
        destruct (cleanup st now rd) as [st1 e1] eqn:Ecl. cbn [fst] in Er.
        rewrite Er. eexists _, _. split; [reflexivity|]. cbn [run_processed step_processed]. rewrite Ep.
        unfold mcleanup in Ecl. inversion Ecl; subst. reflexivity.
  Qed.

  (* T3 + T7 *)
  Lemma filter_iff_processed_proof en to ops : N.of_nat (length ops) <= u64_max ->
    exists st steps, run (minit en to) ops = Some (st, steps)
      /\ run_processed ops steps = expected_processed pkt_tsi en [] ops.
  Proof.
    intros H. apply (run_filter_inv ops (minit en to) [] 0%nat); [apply finv_init|cbn; lia|cbn; lia|exact H].
  Qed.

  Lemma all2_agree_refl l : all2 agree l l = true.
  Proof. induction l as [|[[]|] l IH]; cbn; auto. Qed.
End MultiFacts.

(* ------------------------------------------------------------------------------------ *)
(* statements in the form used by Properties/C18.v                                       *)

Lemma merge_filter {A} (p : A -> bool) a b c : merge a b c ->
  Forall (fun x => p x = true) a -> Forall (fun x => p x = false) b -> filter p c = a.
Proof.
  induction 1 as [|x a b c Hm IH|x a b c Hm IH]; intros Ha Hb; [reflexivity| |].
  - inversion Ha; subst. cbn. rewrite H1. f_equal. apply IH; assumption.
  - inversion Hb; subst. cbn. rewrite H1. apply IH; assumption.
Qed.

Section MultiStatements.
  Variables R P O : Type.
  Variable pkt_tsi : P -> N.
  Variable pkt_close : P -> bool.
  Variable rinit : Key -> R.
  Variable rpush : R -> P -> Z -> R * O.
  Variable rcleanup : R -> Z -> R * O.
  Variable rdrop : R -> O.

  Notation run := (mrun R P O pkt_tsi pkt_close rinit rpush rcleanup rdrop).
  Notation life := (mlife R P O pkt_tsi pkt_close rinit rpush rcleanup rdrop).

  Lemma demux_isolation_proof sel en to ops :
    life (minit en to) (filter (op_sel pkt_tsi sel) ops)
    = option_map (filter (ev_sel sel)) (life (minit en to) ops).
  Proof. rewrite <- life_sel. reflexivity. Qed.

  Lemma demux_interleaving_proof en to k s rest ops :
    merge s rest ops ->
    Forall (fun op => op_sel pkt_tsi (is_key k) op = true) s ->
    Forall (fun op => op_sel pkt_tsi (is_key k) op = false) rest ->
    life (minit en to) s = option_map (filter (ev_sel (is_key k))) (life (minit en to) ops).
  Proof.
    intros Hm Hs Hr. rewrite <- demux_isolation_proof.
    rewrite (merge_filter _ _ _ _ Hm Hs Hr). reflexivity.
  Qed.

  Lemma out_trace_filter k (evs : list (Ev O)) :
    out_trace k (filter (ev_sel (is_key k)) evs) = out_trace k evs.
  Proof.
    induction evs as [|e evs IH]; [reflexivity|]. cbn [filter].
    destruct (ev_sel (is_key k) e) eqn:E.
    - cbn [out_trace flat_map]. unfold out_trace in IH. rewrite IH. reflexivity.
    - rewrite IH. destruct e; cbn in E; unfold is_key in E; cbn [out_trace flat_map]; try reflexivity;
        rewrite E; reflexivity.
  Qed.

  Lemma lk_trace_filter l k (evs : list (Ev O)) :
    lk_trace l k (filter (ev_sel (is_key k)) evs) = lk_trace l k evs.
  Proof.
    induction evs as [|e evs IH]; [reflexivity|]. cbn [filter].
    destruct (ev_sel (is_key k) e) eqn:E.
    - cbn [lk_trace flat_map]. unfold lk_trace in IH. rewrite IH. reflexivity.
    - rewrite IH. destruct e; cbn in E; unfold is_key in E; cbn [lk_trace flat_map]; try reflexivity.
      rewrite E, andb_false_r. reflexivity.
  Qed.

  Lemma list_eqb_refl {A} (eqb : A -> A -> bool) (l : list A) :
    (forall x, eqb x x = true) -> list_eqb eqb l l = true.
  Proof. intros H. induction l; cbn; [reflexivity|]. rewrite H, IHl. reflexivity. Qed.

  Lemma spec_isolation_holds (oeqb : O -> O -> bool) en to ops k ls inter alone :
    (forall o, oeqb o o = true) ->
    life (minit en to) ops = Some inter ->
    life (minit en to) (filter (op_sel pkt_tsi (is_key k)) ops) = Some alone ->
    P_C18_isolation oeqb k ls inter alone = true.
  Proof.
    intros Hr Hi Ha. rewrite demux_isolation_proof, Hi in Ha. cbn in Ha. inversion Ha; subst.
    unfold P_C18_isolation. rewrite out_trace_filter, list_eqb_refl by assumption. cbn [andb].
    apply forallb_forall. intros l _. rewrite lk_trace_filter. apply list_eqb_refl. apply eqb_reflx.
  Qed.

  Lemma spec_processed_holds en to ops st steps : N.of_nat (length ops) <= u64_max ->
    run (minit en to) ops = Some (st, steps) ->
    P_C18_processed pkt_tsi en ops (run_processed ops steps) = true.
  Proof.
    intros Hl Hr.
    destruct (filter_iff_processed_proof R P O pkt_tsi pkt_close rinit rpush rcleanup rdrop en to ops Hl)
      as [st' [steps' [Er Ep]]].
    rewrite Hr in Er. inversion Er; subst. unfold P_C18_processed. rewrite <- Ep. apply all2_agree_refl.
  Qed.

  Lemma spec_listener_holds en to pre st0 steps0 ops evs l k :
    run (minit en to) pre = Some (st0, steps0) -> In l (m_listeners st0) -> live st0 k = false ->
    forallb (not_remove l) ops = true -> life st0 ops = Some evs ->
    P_C18_listener_trace (lk_trace l k evs) = true.
  Proof.
    intros Hp Hin Hl Hnr Hlife.
    destruct (listener_balance_proof R P O pkt_tsi pkt_close rinit rpush rcleanup rdrop
                en to pre st0 steps0 ops evs l Hp Hin Hnr Hlife k) as [_ Hc].
    rewrite Hl in Hc. apply chain_closed_balanced. exact Hc.
  Qed.

  Lemma spec_listener_late_holds en to pre st0 steps0 ops evs l k :
    run (minit en to) pre = Some (st0, steps0) -> In l (m_listeners st0) ->
    forallb (not_remove l) ops = true -> life st0 ops = Some evs ->
    P_C18_listener_late_trace (lk_trace l k evs) = true.
  Proof.
    intros Hp Hin Hnr Hlife.
    destruct (listener_balance_proof R P O pkt_tsi pkt_close rinit rpush rcleanup rdrop
                en to pre st0 steps0 ops evs l Hp Hin Hnr Hlife k) as [_ Hc].
    eapply chain_late. exact Hc.
  Qed.

  Lemma listener_sees_session_life en to pre st0 steps0 ops evs l k :
    run (minit en to) pre = Some (st0, steps0) -> In l (m_listeners st0) ->
    forallb (not_remove l) ops = true -> life st0 ops = Some evs ->
    lk_trace l k evs = life_trace k evs.
  Proof.
    intros Hp Hin Hnr Hlife.
    apply (listener_balance_proof R P O pkt_tsi pkt_close rinit rpush rcleanup rdrop
             en to pre st0 steps0 ops evs l Hp Hin Hnr Hlife k).
  Qed.

  Lemma no_panic_proof en to ops : N.of_nat (length ops) <= u64_max ->
    life (minit en to) ops <> None.
  Proof.
    intros Hl. unfold mlife.
    destruct (filter_iff_processed_proof R P O pkt_tsi pkt_close rinit rpush rcleanup rdrop en to ops Hl)
      as [st' [steps' [Er _]]].
    rewrite Er. discriminate.
  Qed.

  (* writer arguments: [args o] = the (endpoint, tsi) arguments of the callbacks in o *)
  Variable args : O -> list Key.
  Variable own : Key -> R -> Prop.
  Hypothesis own_init : forall k, own k (rinit k).
  Hypothesis own_push : forall k r p now, own k r ->
    own k (fst (rpush r p now)) /\ P_C18_writer_args k (args (snd (rpush r p now))) = true.
  Hypothesis own_cleanup : forall k r now, own k r ->
    own k (fst (rcleanup r now)) /\ P_C18_writer_args k (args (snd (rcleanup r now))) = true.
  Hypothesis own_drop : forall k r, own k r -> P_C18_writer_args k (args (rdrop r)) = true.

  Lemma spec_writer_args_holds en to ops evs :
    life (minit en to) ops = Some evs ->
    forall k o, In (EvOut k o) evs \/ In (EvEnd k o) evs -> P_C18_writer_args k (args o) = true.
  Proof.
    intros Hl k o Hin.
    pose proof (writer_args_own_session_proof R P O pkt_tsi pkt_close rinit rpush rcleanup rdrop
                  own (fun k o => P_C18_writer_args k (args o) = true)
                  own_init own_push own_cleanup own_drop en to ops evs Hl) as H.
    rewrite Forall_forall in H. destruct Hin as [Hin|Hin]; apply (H _ Hin).
  Qed.
End MultiStatements.
