(* C04, "usable afterwards": what the receiver rejects (or ignores) without touching its state does not
   prevent the delivery of a valid session, wherever the rejected inputs are placed: before the session
   (U1) or anywhere between its packets (U2).  Composes the leaves_state theorems (RecvBytesProofs.v)
   with the receiver-level delivery theorems of C02 (C02Session.v).

   A. inputs: raw datagrams through Receiver::push_data (recv_push_data) and events of the receiver model
      (recv_step), in one run;
   B. [no_effect]: the kinds of input that are answered without any effect, whatever the state;
   C. state-dependent: an input is [quiet] at (r, c) when it leaves (r, c) as they were up to the
      close-session flag rv_closed (which nothing reads); packets of an object TOI answered Err are quiet;
   D. U1 / U2 for the two session theorems; E. examples and the refutation for a reused FDT instance id. *)
From FluteV Require Import Model.Partition Model.ObjRecv Model.Recv Spec.RecvSpec Spec.SessionSpec
  Proofs.RecvProofs Proofs.SessionProofs Proofs.C02Full Proofs.C09Full Proofs.C02Session.
From FluteV Require Import Model.AlcFixed Proofs.AlcFixedProofs Model.RecvBytes Proofs.RecvTotalProofs
  Proofs.RecvBytesProofs Proofs.C04Proofs.
From Coq Require Import Lia.
Open Scope N_scope.

Arguments N.add : simpl never. Arguments N.mul : simpl never. Arguments N.sub : simpl never.
Arguments N.eqb : simpl never. Arguments N.ltb : simpl never. Arguments N.leb : simpl never.

(* ================= A. one run for datagrams and events ================= *)
Inductive input :=
| InBytes (data : list N) (now : Z)      (* a datagram handed to Receiver::push_data at receiver time now *)
| InEv (e : Recv.rev).                        (* an event of the receiver model (a parsed packet, a clean-up, drop) *)

Section Run.
  Variable E : env.
  Variable parse_fdt : list N -> option fdtinst.
  Variable cfg : rconfig.
  Variable tsi : N.

  Definition recv_input (r : recv) (i : input) (c : ctx) : pres * recv * ctx :=
    match i with
    | InBytes d now => recv_push_data E parse_fdt cfg tsi r d now c
    | InEv e => recv_step E parse_fdt cfg r e c
    end.

  Fixpoint recv_inputs (r : recv) (l : list input) (c : ctx) : list pres * recv * ctx :=
    match l with
    | [] => ([], r, c)
    | i :: rest =>
      let '(x, r1, c1) := recv_input r i c in
      let '(xs, r2, c2) := recv_inputs r1 rest c1 in
      (x :: xs, r2, c2)
    end.

  Lemma recv_inputs_events : forall evs r c, recv_inputs r (map InEv evs) c = recv_run E parse_fdt cfg r evs c.
  Proof.
    induction evs as [|e evs IH]; intros r c; cbn [map recv_inputs recv_run recv_input]; [reflexivity|].
    destruct (recv_step E parse_fdt cfg r e c) as [[x r1] c1]. rewrite IH. reflexivity.
  Qed.

  (* ================= B. inputs without effect, whatever the state ================= *)
  (* a parsed packet of TOI 0 without EXT_FDT and without the close-session flag: push_fdt_obj answers
     Err (Ok when it carries the close-object flag) before it looks at anything *)
  Definition fdt_less (p : apkt) : bool :=
    (a_toi p =? 0) && (match a_fdt_id p with None => true | Some _ => false end) && negb (a_close_sess p).

  Definition no_effect (i : input) : bool :=
    match i with
    | InBytes d _ =>
      match parse_alc_pkt_fixed d with
      | Bytes.Ok a => if lh_tsi (Alc.a_lct a) =? tsi then fdt_less (to_apkt d a)   (* this session: as the event *)
                      else true                                                  (* a foreign TSI: ignored *)
      | _ => true                                                                (* rejected by the parser *)
      end
    | InEv RvUnparsable => true
    | InEv (RvPush p _) => fdt_less p
    | InEv _ => false
    end.

  Lemma fdt_less_step r p now c : fdt_less p = true ->
    recv_step E parse_fdt cfg r (RvPush p now) c = (if a_close_obj p then POk else PErr, r, c).
  Proof.
    unfold fdt_less. intros H. apply andb_prop in H. destruct H as [H H3]. apply andb_prop in H. destruct H as [H1 H2].
    cbn [recv_step]. rewrite H1. apply negb_true_iff in H3. rewrite H3. unfold push_fdt_obj.
    destruct (a_fdt_id p); [discriminate|]. rewrite H3, orb_false_r. destruct (a_close_obj p); reflexivity.
  Qed.

  (* the leaves_state theorems, all kinds at once: the answer is Ok or Err, state and context are untouched *)
  Theorem no_effect_leaves_state r i c : no_effect i = true -> exists x, recv_input r i c = (x, r, c).
  Proof.
    destruct i as [d now|e]; cbn [no_effect recv_input].
    - unfold recv_push_data. pose proof (parse_alc_pkt_fixed_total d) as T.
      destruct (parse_alc_pkt_fixed d) as [a| | |]; try discriminate T.
      + destruct (lh_tsi (Alc.a_lct a) =? tsi).
        * intros H. rewrite (fdt_less_step r _ now c H). eexists; reflexivity.
        * intros _. eexists; reflexivity.
      + intros _. eexists; reflexivity.
    - destruct e as [p now| | |]; try discriminate.
      + intros H. rewrite (fdt_less_step r _ now c H). eexists; reflexivity.
      + intros _. eexists; reflexivity.
  Qed.

  (* the three kinds the C04 theorems name are among them *)
  Lemma unparsable_no_effect d now : (forall a, parse_alc_pkt_fixed d <> Bytes.Ok a) -> no_effect (InBytes d now) = true.
  Proof. intros H. cbn [no_effect]. destruct (parse_alc_pkt_fixed d) as [a| | |]; try reflexivity. exfalso. exact (H a eq_refl). Qed.
  Lemma short_no_effect d now : lenN d < 8 -> no_effect (InBytes d now) = true.
  Proof. intros H. cbn [no_effect]. rewrite (parse_alc_pkt_fixed_short d H). reflexivity. Qed.
  Lemma foreign_no_effect d now a : parse_alc_pkt_fixed d = Bytes.Ok a -> lh_tsi (Alc.a_lct a) <> tsi -> no_effect (InBytes d now) = true.
  Proof. intros Hp Ht. cbn [no_effect]. rewrite Hp. destruct (N.eqb_spec (lh_tsi (Alc.a_lct a)) tsi); [contradiction|reflexivity]. Qed.

  (* ---------- interleaving ---------- *)
  (* [weave J l s]: l is s with elements satisfying J inserted anywhere *)
  Inductive weave (J : input -> Prop) : list input -> list input -> Prop :=
  | weave_nil : weave J [] []
  | weave_junk i l s : J i -> weave J l s -> weave J (i :: l) s
  | weave_keep i l s : weave J l s -> weave J (i :: l) (i :: s).

  Lemma weave_refl J s : weave J s s.
  Proof. induction s; constructor; assumption. Qed.
  Lemma weave_front J junk s : Forall J junk -> weave J (junk ++ s) s.
  Proof. induction 1 as [|i l Hi Hl IH]; cbn [app]; [apply weave_refl|apply weave_junk; assumption]. Qed.
  Lemma weave_app J l1 s1 l2 s2 : weave J l1 s1 -> weave J l2 s2 -> weave J (l1 ++ l2) (s1 ++ s2).
  Proof. induction 1; cbn [app]; intros; [assumption|apply weave_junk; auto|apply weave_keep; auto]. Qed.

  (* the run of l ends in the state and context in which the run of s ends *)
  Lemma weave_run l s : weave (fun i => no_effect i = true) l s ->
    forall r c, snd (fst (recv_inputs r l c)) = snd (fst (recv_inputs r s c)) /\ snd (recv_inputs r l c) = snd (recv_inputs r s c).
  Proof.
    induction 1 as [|i l s Hi W IH|i l s W IH]; intros r c; [split; reflexivity| |].
    - cbn [recv_inputs]. destruct (no_effect_leaves_state r i c Hi) as [x ->].
      specialize (IH r c). destruct (recv_inputs r l c) as [[xs r2] c2]. exact IH.
    - cbn [recv_inputs]. destruct (recv_input r i c) as [[x r1] c1].
      specialize (IH r1 c1). destruct (recv_inputs r1 l c1) as [[xs r2] c2]. destruct (recv_inputs r1 s c1) as [[ys r3] c3]. exact IH.
  Qed.
End Run.

(* ================= C. the close-session flag is inert; quiet inputs ================= *)
(* rv_closed is written by a packet carrying the close-session flag and read by nothing: two receivers that
   differ only in it behave alike.  Needed because a rejected packet may carry that flag. *)
Definition with_closed (b : bool) (r : recv) : recv :=
  mk_recv (rv_objects r) (rv_completed r) (rv_error r) (rv_fdt_receivers r) (rv_fdt_current r) b.
Definition lift2 (b : bool) (x : recv * ctx) : recv * ctx := (with_closed b (fst x), snd x).
Definition lift3 (b : bool) (x : pres * recv * ctx) : pres * recv * ctx := (fst (fst x), with_closed b (snd (fst x)), snd x).
Definition lift3l (b : bool) (x : recv * ctx * list N) : recv * ctx * list N := (with_closed b (fst (fst x)), snd (fst x), snd x).

Lemma with_closed_idem b b' r : with_closed b (with_closed b' r) = with_closed b r.
Proof. reflexivity. Qed.
Lemma with_closed_self r : with_closed (rv_closed r) r = r.
Proof. destruct r; reflexivity. Qed.

Ltac prj_r := cbn [with_closed rv_objects rv_completed rv_error rv_fdt_receivers rv_fdt_current rv_closed].

Section Closed.
  Variable E : env.
  Variable parse_fdt : list N -> option fdtinst.
  Variable cfg : rconfig.

  Lemma remove_obj_wc b toi r c : remove_obj toi (with_closed b r) c = lift2 b (remove_obj toi r c).
  Proof.
    destruct r as [o cp er fr cu cl]. unfold remove_obj, get_obj, set_objects, lift2. prj_r.
    destruct (find _ o); reflexivity.
  Qed.
  Lemma remove_obj_wc' b cl toi o cp er fr cu c :
    remove_obj toi (mk_recv o cp er fr cu b) c = lift2 b (remove_obj toi (mk_recv o cp er fr cu cl) c).
  Proof. exact (remove_obj_wc b toi (mk_recv o cp er fr cu cl) c). Qed.

  Lemma gc_error_wc b : forall fuel r c, gc_error cfg fuel (with_closed b r) c = lift2 b (gc_error cfg fuel r c).
  Proof.
    induction fuel as [|fuel IH]; intros [o cp er fr cu cl] c; cbn [gc_error]; prj_r; [reflexivity|].
    destruct (cf_max_err cfg <? N.of_nat (length er)); [|reflexivity].
    destruct er as [|toi rest]; [reflexivity|].
    rewrite (remove_obj_wc' b cl). destruct (remove_obj toi (mk_recv o cp rest fr cu cl) c) as [r2 c2].
    unfold lift2 at 1. cbn [fst snd]. apply IH.
  Qed.
  Lemma gc_error_wc' b cl fuel o cp er fr cu c :
    gc_error cfg fuel (mk_recv o cp er fr cu b) c = lift2 b (gc_error cfg fuel (mk_recv o cp er fr cu cl) c).
  Proof. exact (gc_error_wc b fuel (mk_recv o cp er fr cu cl) c). Qed.

  Lemma check_state_wc b toi r c : check_state cfg toi (with_closed b r) c = lift2 b (check_state cfg toi r c).
  Proof.
    destruct r as [o cp er fr cu cl]. unfold check_state, get_obj. prj_r.
    destruct (find _ o) as [q|]; [|reflexivity].
    destruct (r_state (snd q)); [reflexivity|apply remove_obj_wc'| |].
    - rewrite (gc_error_wc' b cl). destruct (gc_error cfg _ (mk_recv o cp _ fr cu cl) c) as [r2 c2].
      unfold lift2 at 1. cbn [fst snd]. apply remove_obj_wc.
    - rewrite (gc_error_wc' b cl). destruct (gc_error cfg _ (mk_recv o cp _ fr cu cl) c) as [r2 c2].
      unfold lift2 at 1. cbn [fst snd]. apply remove_obj_wc.
  Qed.
  Lemma check_state_wc' b cl toi o cp er fr cu c :
    check_state cfg toi (mk_recv o cp er fr cu b) c = lift2 b (check_state cfg toi (mk_recv o cp er fr cu cl) c).
  Proof. exact (check_state_wc b toi (mk_recv o cp er fr cu cl) c). Qed.

  Lemma check_all_wc b : forall tois r c, check_all cfg tois (with_closed b r) c = lift2 b (check_all cfg tois r c).
  Proof.
    induction tois as [|t rest IH]; intros r c; cbn [check_all]; [reflexivity|].
    rewrite check_state_wc. destruct (check_state cfg t r c) as [r1 c1]. unfold lift2 at 1. cbn [fst snd]. apply IH.
  Qed.

  Lemma attach_all_wc b id i : forall tois r c att,
    attach_all E id i tois (with_closed b r) c att = lift3l b (attach_all E id i tois r c att).
  Proof.
    induction tois as [|t rest IH]; intros [o cp er fr cu cl] c att; cbn [attach_all]; [reflexivity|].
    unfold get_obj, set_objects. prj_r.
    destruct (find _ o) as [q|].
    - destruct (or_attach E id (fi_files i) (fi_oti i) (snd q) c) as [[ok o1] c1].
      exact (IH (mk_recv (put_obj t o1 o) cp er fr cu cl) c1 _).
    - exact (IH (mk_recv o cp er fr cu cl) c att).
  Qed.
  Lemma attach_all_wc' b cl id i tois o cp er fr cu c att :
    attach_all E id i tois (mk_recv o cp er fr cu b) c att = lift3l b (attach_all E id i tois (mk_recv o cp er fr cu cl) c att).
  Proof. exact (attach_all_wc b id i tois (mk_recv o cp er fr cu cl) c att). Qed.

  Lemma push_fdt_obj_wc b p now r c :
    push_fdt_obj E parse_fdt cfg p now (with_closed b r) c = lift3 b (push_fdt_obj E parse_fdt cfg p now r c).
  Proof.
    destruct r as [o cp er fr cu cl]. unfold push_fdt_obj. prj_r. cbv zeta.
    destruct (a_fdt_id p) as [id|]; [|destruct (a_close_obj p || a_close_sess p); reflexivity].
    destruct (cf_once cfg && existsb (fun f => fr_id f =? id) cu); [reflexivity|].
    set (f0 := match find (fun q => fst q =? id) fr with Some q => snd q | None => fr_new cfg id end).
    destruct (fr_state f0); try reflexivity.
    destruct (fr_push E parse_fdt p now f0) as [f1 pan].
    set (f2 := match fr_state f1 with FComplete => fr_update_expired f1 now | _ => f1 end).
    destruct (fr_state f2); try reflexivity. prj_r.
    destruct (fr_inst f2) as [i|]; [|reflexivity].
    rewrite (attach_all_wc' b cl).
    destruct (attach_all E id i (map fst o) (mk_recv o cp er _ (f2 :: cu) cl) _ []) as [[r2 c2] att].
    unfold lift3l at 1. cbn [fst snd]. rewrite check_all_wc. destruct (check_all cfg att r2 c2) as [r3 c3].
    unfold lift2 at 1. cbn [fst snd]. unfold lift3. cbn [fst snd]. prj_r. reflexivity.
  Qed.

  Lemma push_tail_wc b p now r c : push_tail E cfg p now (with_closed b r) c = lift3 b (push_tail E cfg p now r c).
  Proof.
    destruct r as [o cp er fr cu cl]. unfold push_tail, get_obj. prj_r. cbv zeta.
    destruct (find _ o) as [q|].
    - destruct (or_push E p (snd q) c) as [o2 c4]. unfold set_objects. prj_r.
      rewrite (check_state_wc' b cl). destruct (check_state cfg (a_toi p) (mk_recv _ cp er fr cu cl) c4) as [r5 c5]. reflexivity.
    - destruct (create_attach E cu now (or_new (a_toi p) (cf_max_cache cfg)) c) as [[cur o1] c1].
      destruct (or_push E p o1 c1) as [o2 c4]. unfold set_objects. prj_r.
      rewrite (check_state_wc' b cl). destruct (check_state cfg (a_toi p) (mk_recv _ cp er fr cur cl) c4) as [r5 c5]. reflexivity.
  Qed.
  Lemma push_tail_wc' b cl p now o cp er fr cu c :
    push_tail E cfg p now (mk_recv o cp er fr cu b) c = lift3 b (push_tail E cfg p now (mk_recv o cp er fr cu cl) c).
  Proof. exact (push_tail_wc b p now (mk_recv o cp er fr cu cl) c). Qed.

  Lemma push_obj_wc b p now r c : push_obj E cfg p now (with_closed b r) c = lift3 b (push_obj E cfg p now r c).
  Proof.
    destruct r as [o cp er fr cu cl]. unfold push_obj. prj_r. cbv zeta.
    set (fl := filter (fun t => negb (t =? a_toi p))).
    destruct (existsb (N.eqb (a_toi p)) cp).
    - destruct (cf_once cfg); [reflexivity|].
      destruct (is_first_symbol p) as [[|]|]; try reflexivity. prj_r.
      destruct (existsb (N.eqb (a_toi p)) er).
      + exact (push_tail_wc' b cl p now o (fl cp) (fl er) fr cu c).
      + exact (push_tail_wc' b cl p now o (fl cp) er fr cu c).
    - prj_r. destruct (existsb (N.eqb (a_toi p)) er).
      + destruct (is_first_symbol p) as [[|]|]; try reflexivity.
        exact (push_tail_wc' b cl p now o cp (fl er) fr cu c).
      + exact (push_tail_wc' b cl p now o cp er fr cu c).
  Qed.
  Definition cleanup_step (acc : recv * ctx) (toi : N) : recv * ctx :=
    let (r1, c1) := acc in
    remove_obj toi (mk_recv (rv_objects r1) (rv_completed r1) (filter (fun t => negb (t =? toi)) (rv_error r1))
                            (rv_fdt_receivers r1) (rv_fdt_current r1) (rv_closed r1)) c1.

  Lemma cleanup_fold_wc b : forall l r c,
    fold_left cleanup_step l (with_closed b r, c) = lift2 b (fold_left cleanup_step l (r, c)).
  Proof.
    induction l as [|t l IH]; intros [o cp er fr cu cl] c; cbn [fold_left]; [reflexivity|].
    unfold cleanup_step at 2 4. prj_r. rewrite (remove_obj_wc' b cl).
    destruct (remove_obj t (mk_recv o cp _ fr cu cl) c) as [r1 c1]. unfold lift2 at 1. cbn [fst snd]. apply IH.
  Qed.

  Lemma recv_step_wc b r e c :
    exists b', recv_step E parse_fdt cfg (with_closed b r) e c = lift3 b' (recv_step E parse_fdt cfg r e c).
  Proof.
    destruct e as [p now| |now ex exf|].
    - cbn [recv_step]. destruct (a_close_sess p).
      + exists true. destruct (a_toi p =? 0).
        * exact (push_fdt_obj_wc true p now (with_closed true r) c).
        * exact (push_obj_wc true p now (with_closed true r) c).
      + exists b. destruct (a_toi p =? 0); [apply push_fdt_obj_wc|apply push_obj_wc].
    - exists b. reflexivity.
    - exists b. destruct r as [o cp er fr cu cl]. cbn [recv_step]. prj_r.
      fold cleanup_step. change (mk_recv o cp er fr cu b) with (with_closed b (mk_recv o cp er fr cu cl)).
      rewrite cleanup_fold_wc.
      destruct (fold_left cleanup_step _ (mk_recv o cp er fr cu cl, c)) as [r1 c1].
      unfold lift2. cbn [fst snd]. prj_r. reflexivity.
    - exists b. destruct r as [o cp er fr cu cl]. reflexivity.
  Qed.
End Closed.

(* equal up to the close-session flag *)
Definition eqc (r r' : recv) : Prop := with_closed false r = with_closed false r'.
Lemma eqc_refl r : eqc r r. Proof. reflexivity. Qed.
Lemma eqc_wc b r : eqc r (with_closed b r). Proof. reflexivity. Qed.
Lemma eqc_is_wc r r' : eqc r r' -> r' = with_closed (rv_closed r') r.
Proof. unfold eqc. intros H. destruct r, r'. cbn in *. inversion H; subst. reflexivity. Qed.
Lemma eqc_fields r r' : eqc r r' ->
  rv_objects r = rv_objects r' /\ rv_completed r = rv_completed r' /\ rv_error r = rv_error r'
  /\ rv_fdt_receivers r = rv_fdt_receivers r' /\ rv_fdt_current r = rv_fdt_current r'.
Proof. unfold eqc. intros H. destruct r, r'. cbn in *. inversion H; subst. repeat split. Qed.

Section Quiet.
  Variable E : env.
  Variable parse_fdt : list N -> option fdtinst.
  Variable cfg : rconfig.
  Variable tsi : N.
  Notation step := (recv_input E parse_fdt cfg tsi).
  Notation run := (recv_inputs E parse_fdt cfg tsi).

  Lemma recv_input_wc b r i c : exists b', step (with_closed b r) i c = lift3 b' (step r i c).
  Proof.
    destruct i as [d now|e]; cbn [recv_input]; [|apply recv_step_wc].
    unfold recv_push_data. destruct (parse_alc_pkt_fixed d) as [a| | |]; try (exists b; reflexivity).
    destruct (lh_tsi (Alc.a_lct a) =? tsi); [apply recv_step_wc|exists b; reflexivity].
  Qed.

  (* the input is answered (Ok or Err) and receiver state, writer log and panic flag are what they were;
     only the close-session flag may have been set *)
  Definition quiet (r : recv) (i : input) (c : ctx) : Prop :=
    exists x b, step r i c = (x, with_closed b r, c).

  Lemma no_effect_quiet r i c : no_effect tsi i = true -> quiet r i c.
  Proof.
    intros H. destruct (no_effect_leaves_state E parse_fdt cfg tsi r i c H) as [x Hx].
    exists x, (rv_closed r). rewrite with_closed_self. exact Hx.
  Qed.

  (* a datagram is quiet when the packet it parses to is *)
  Lemma bytes_quiet r d now a c : parse_alc_pkt_fixed d = Bytes.Ok a -> lh_tsi (Alc.a_lct a) = tsi ->
    quiet r (InEv (RvPush (to_apkt d a) now)) c -> quiet r (InBytes d now) c.
  Proof.
    intros Hp Ht (x & b & H). exists x, b. cbn [recv_input] in *. unfold recv_push_data. rewrite Hp, Ht, N.eqb_refl. exact H.
  Qed.

  (* TOI 0 without EXT_FDT, also with the close-session flag *)
  Lemma fdtless_quiet r p now c : a_toi p = 0 -> a_fdt_id p = None -> quiet r (InEv (RvPush p now)) c.
  Proof.
    intros Ht Hf. unfold quiet. cbn [recv_input recv_step]. rewrite Ht. change (0 =? 0) with true. cbv iota. unfold push_fdt_obj. rewrite Hf.
    destruct (a_close_sess p).
    - rewrite orb_true_r. exists POk, true. reflexivity.
    - rewrite orb_false_r. exists (if a_close_obj p then POk else PErr), (rv_closed r). rewrite with_closed_self.
      destruct (a_close_obj p); reflexivity.
  Qed.

  (* a packet of an object TOI that the receiver answers with Err *)
  Lemma push_tail_ok p now r c : fst (fst (push_tail E cfg p now r c)) = POk.
  Proof.
    unfold push_tail. cbv zeta.
    destruct (get_obj r (a_toi p)) as [o|].
    - destruct (or_push E p o c) as [o2 c4]. destruct (check_state cfg (a_toi p) _ c4) as [r5 c5]. reflexivity.
    - destruct (create_attach E (rv_fdt_current r) now (or_new (a_toi p) (cf_max_cache cfg)) c) as [[cur o1] c1].
      destruct (or_push E p o1 c1) as [o2 c4]. destruct (check_state cfg (a_toi p) _ c4) as [r5 c5]. reflexivity.
  Qed.

  Lemma push_obj_err p now r c :
    fst (fst (push_obj E cfg p now r c)) = PErr -> push_obj E cfg p now r c = (PErr, r, c).
  Proof.
    unfold push_obj. cbv zeta.
    set (fl := filter (fun t => negb (t =? a_toi p))).
    destruct (existsb (N.eqb (a_toi p)) (rv_completed r)).
    - destruct (cf_once cfg); [discriminate|].
      destruct (is_first_symbol p) as [[|]|]; [|discriminate|reflexivity].
      cbn [rv_error]. destruct (existsb (N.eqb (a_toi p)) (rv_error r)).
      + intros H. exfalso.
        pose proof (push_tail_ok p now (mk_recv (rv_objects r) (fl (rv_completed r)) (fl (rv_error r)) (rv_fdt_receivers r)
                                                (rv_fdt_current r) (rv_closed r)) c) as T.
        unfold push_tail in T. cbv zeta in T. cbn [rv_objects rv_completed rv_error rv_fdt_receivers rv_fdt_current rv_closed] in *.
        rewrite T in H. discriminate.
      + intros H. exfalso.
        pose proof (push_tail_ok p now (mk_recv (rv_objects r) (fl (rv_completed r)) (rv_error r) (rv_fdt_receivers r)
                                                (rv_fdt_current r) (rv_closed r)) c) as T.
        unfold push_tail in T. cbv zeta in T. cbn [rv_objects rv_completed rv_error rv_fdt_receivers rv_fdt_current rv_closed] in *.
        rewrite T in H. discriminate.
    - destruct (existsb (N.eqb (a_toi p)) (rv_error r)).
      + destruct (is_first_symbol p) as [[|]|]; [|discriminate|reflexivity].
        intros H. exfalso.
        pose proof (push_tail_ok p now (mk_recv (rv_objects r) (rv_completed r) (fl (rv_error r)) (rv_fdt_receivers r)
                                                (rv_fdt_current r) (rv_closed r)) c) as T.
        unfold push_tail in T. cbv zeta in T. cbn [rv_objects rv_completed rv_error rv_fdt_receivers rv_fdt_current rv_closed] in *.
        rewrite T in H. discriminate.
      + intros H. exfalso. pose proof (push_tail_ok p now r c) as T. unfold push_tail in T. cbv zeta in T.
        rewrite T in H. discriminate.
  Qed.

  Theorem err_packet_leaves_state r p now c : a_toi p <> 0 ->
    fst (fst (recv_step E parse_fdt cfg r (RvPush p now) c)) = PErr ->
    recv_step E parse_fdt cfg r (RvPush p now) c = (PErr, with_closed (a_close_sess p || rv_closed r) r, c).
  Proof.
    intros Ht. cbn [recv_step]. destruct (N.eqb_spec (a_toi p) 0) as [Hz|_]; [contradiction|].
    intros H. rewrite (push_obj_err _ _ _ _ H). destruct (a_close_sess p); cbn [orb]; [reflexivity|].
    rewrite with_closed_self. reflexivity.
  Qed.

  Lemma err_packet_quiet r p now c : a_toi p <> 0 ->
    fst (fst (recv_step E parse_fdt cfg r (RvPush p now) c)) = PErr -> quiet r (InEv (RvPush p now)) c.
  Proof. intros Ht H. exists PErr, (a_close_sess p || rv_closed r). apply err_packet_leaves_state; assumption. Qed.

  (* [weaveq r c l s]: l is s with inputs inserted anywhere, each quiet in the state in which the run of l
     from (r, c) finds it *)
  Inductive weaveq : recv -> ctx -> list input -> list input -> Prop :=
  | wq_nil r c : weaveq r c [] []
  | wq_junk r c i l s : quiet r i c -> weaveq (snd (fst (step r i c))) c l s -> weaveq r c (i :: l) s
  | wq_keep r c i l s : weaveq (snd (fst (step r i c))) (snd (step r i c)) l s -> weaveq r c (i :: l) (i :: s).

  Lemma weave_weaveq l s : weave (fun i => no_effect tsi i = true) l s -> forall r c, weaveq r c l s.
  Proof.
    induction 1 as [|i l s Hi W IH|i l s W IH]; intros r c; [apply wq_nil| |apply wq_keep; apply IH].
    apply wq_junk; [apply no_effect_quiet; exact Hi|apply IH].
  Qed.

  Lemma weaveq_front r c junk s : Forall (fun i => no_effect tsi i = true) junk -> weaveq r c (junk ++ s) s.
  Proof. intros H. apply weave_weaveq. apply weave_front. exact H. Qed.

  (* the run of l ends with the context (writer log, panic flag) of the run of s, and in its state up to
     the close-session flag *)
  Theorem weaveq_run : forall r c l s, weaveq r c l s -> forall r0, eqc r0 r ->
    eqc (snd (fst (run r0 s c))) (snd (fst (run r l c))) /\ snd (run r l c) = snd (run r0 s c).
  Proof.
    induction 1 as [r c|r c i l s Hi W IH|r c i l s W IH]; intros r0 Hq.
    - split; [exact Hq|reflexivity].
    - destruct Hi as (x & b & Hs). cbn [recv_inputs]. rewrite Hs in IH |- *. cbn [fst snd] in IH.
      assert (Hq' : eqc r0 (with_closed b r)) by (unfold eqc in *; rewrite Hq; reflexivity).
      specialize (IH r0 Hq'). destruct (run (with_closed b r) l c) as [[xs r2] c2]. exact IH.
    - pose proof (eqc_is_wc _ _ Hq) as Hr. destruct (recv_input_wc (rv_closed r) r0 i c) as [b' Hb]. rewrite <- Hr in Hb.
      cbn [recv_inputs]. rewrite Hb in IH |- *. destruct (step r0 i c) as [[x r1] c1]. unfold lift3 in *. cbn [fst snd] in *.
      specialize (IH r1 (eqc_wc b' r1)).
      destruct (run (with_closed b' r1) l c1) as [[xs r2] c2]. destruct (run r1 s c1) as [[ys r3] c3]. exact IH.
  Qed.
End Quiet.

(* ================= D. usable afterwards ================= *)
Lemma session_delivered_eqc cfg inst content toi r r' c :
  eqc r r' -> session_delivered cfg inst content toi r c -> session_delivered cfg inst content toi r' c.
Proof.
  intros Hq (D1 & D2 & D3). destruct (eqc_fields _ _ Hq) as (F1 & F2 & F3 & _).
  split; [exact D1|]. split; [exact D2|]. rewrite <- F1, <- F2, <- F3. exact D3.
Qed.

Section Usable.
  Variable E : env.
  Variable parse_fdt : list N -> option fdtinst.
  Variable cfg : rconfig.
  Variable tsi : N.
  Notation run := (recv_inputs E parse_fdt cfg tsi).

  (* whatever a sequence of events makes the receiver deliver, it delivers with quiet inputs woven in *)
  Lemma usable_transfer r0 c0 inst content toi l evs :
    weaveq E parse_fdt cfg tsi r0 c0 l (map InEv evs) ->
    (let '(_, r, c) := recv_run E parse_fdt cfg r0 evs c0 in session_delivered cfg inst content toi r c) ->
    let '(_, r, c) := run r0 l c0 in session_delivered cfg inst content toi r c.
  Proof.
    intros W D. destruct (weaveq_run E parse_fdt cfg tsi r0 c0 l _ W r0 (eqc_refl r0)) as [Hq Hc].
    rewrite recv_inputs_events in Hq, Hc.
    destruct (recv_run E parse_fdt cfg r0 evs c0) as [[ys r3] c3]. destruct (run r0 l c0) as [[xs r2] c2].
    cbn [fst snd] in *. subst c2. exact (session_delivered_eqc _ _ _ _ _ _ _ Hq D).
  Qed.

  (* U2, FDT first: quiet inputs anywhere before, between and after the packets of the session *)
  Theorem usable_interleaved_fdt_first oti content toi md5 now pf id foti d inst pkts l :
    let L := lenN_ content in
    nocode_ok oti L -> toi <> 0 ->
    fdt_pkt_ok pf id foti d -> parse_fdt d = Some inst -> fdt_live cfg inst pf now ->
    fdt_entry_for (fi_files inst) (fi_oti inst) toi oti L md5 ->
    writer_accepts E toi -> writes_succeed E toi -> md5_good E content md5 ->
    L <= cf_max_cache cfg -> nb_blocks_of oti L <= 4097 ->
    Forall (fun p => a_toi p = toi) pkts ->
    Forall (fun p => genuine_pkt oti content p = true) pkts ->
    close_flag_ok oti L pkts ->
    recoverable oti L pkts = true ->
    weaveq E parse_fdt cfg tsi recv0 ctx0 l (map InEv (map (fun p => RvPush p now) (pf :: pkts))) ->
    let '(_, r, c) := run recv0 l ctx0 in session_delivered cfg inst content toi r c.
  Proof.
    intros L H1 H2 H3 H4 H5 H6 H7 H8 H9 H10 H11 H12 H13 H14 H15 W.
    apply (usable_transfer recv0 ctx0 inst content toi l _ W).
    exact (session_fdt_first_delivers E parse_fdt cfg oti content toi md5 now pf id foti d inst pkts
             H1 H2 H3 H4 H5 H6 H7 H8 H9 H10 H11 H12 H13 H14 H15).
  Qed.

  (* U2, FDT late *)
  Theorem usable_interleaved_fdt_late oti content toi md5 now pf id foti d inst pkts1 pkts2 l :
    let L := lenN_ content in
    nocode_ok oti L -> toi <> 0 ->
    fdt_pkt_ok pf id foti d -> parse_fdt d = Some inst -> fdt_live cfg inst pf now ->
    fdt_entry_for (fi_files inst) (fi_oti inst) toi oti L md5 ->
    writer_accepts E toi -> writes_succeed E toi -> md5_good E content md5 ->
    L <= cf_max_cache cfg -> nb_blocks_of oti L <= 4097 ->
    Forall (fun p => a_toi p = toi) (pkts1 ++ pkts2) ->
    Forall (fun p => genuine_pkt oti content p = true) (pkts1 ++ pkts2) ->
    Forall (fun p => ObjRecv.a_oti p = Some (oti, L) /\ ObjRecv.a_cenc p = None /\ a_close_obj p = false) pkts1 ->
    close_flag_ok oti L (pkts1 ++ pkts2) ->
    recoverable oti L (pkts1 ++ pkts2) = true ->
    weaveq E parse_fdt cfg tsi recv0 ctx0 l (map InEv (map (fun p => RvPush p now) (pkts1 ++ pf :: pkts2))) ->
    let '(_, r, c) := run recv0 l ctx0 in session_delivered cfg inst content toi r c.
  Proof.
    intros L H1 H2 H3 H4 H5 H6 H7 H8 H9 H10 H11 H12 H13 H14 H15 H16 W.
    apply (usable_transfer recv0 ctx0 inst content toi l _ W).
    exact (session_fdt_late_delivers E parse_fdt cfg oti content toi md5 now pf id foti d inst pkts1 pkts2
             H1 H2 H3 H4 H5 H6 H7 H8 H9 H10 H11 H12 H13 H14 H15 H16).
  Qed.

  (* U1: any list of inputs without effect (unparsable or too short datagrams, datagrams of a foreign TSI,
     RvUnparsable, TOI-0 packets without EXT_FDT), then the session *)
  Theorem usable_after_rejected oti content toi md5 now pf id foti d inst pkts junk :
    let L := lenN_ content in
    nocode_ok oti L -> toi <> 0 ->
    fdt_pkt_ok pf id foti d -> parse_fdt d = Some inst -> fdt_live cfg inst pf now ->
    fdt_entry_for (fi_files inst) (fi_oti inst) toi oti L md5 ->
    writer_accepts E toi -> writes_succeed E toi -> md5_good E content md5 ->
    L <= cf_max_cache cfg -> nb_blocks_of oti L <= 4097 ->
    Forall (fun p => a_toi p = toi) pkts ->
    Forall (fun p => genuine_pkt oti content p = true) pkts ->
    close_flag_ok oti L pkts ->
    recoverable oti L pkts = true ->
    Forall (fun i => no_effect tsi i = true) junk ->
    let '(_, r, c) := run recv0 (junk ++ map InEv (map (fun p => RvPush p now) (pf :: pkts))) ctx0 in
    session_delivered cfg inst content toi r c.
  Proof.
    intros L H1 H2 H3 H4 H5 H6 H7 H8 H9 H10 H11 H12 H13 H14 H15 J.
    apply (usable_interleaved_fdt_first oti content toi md5 now pf id foti d inst pkts _
             H1 H2 H3 H4 H5 H6 H7 H8 H9 H10 H11 H12 H13 H14 H15).
    apply weaveq_front. exact J.
  Qed.

  (* the same on events only: recv_run (junk ++ session) *)
  Corollary usable_after_rejected_events oti content toi md5 now pf id foti d inst pkts junk :
    let L := lenN_ content in
    nocode_ok oti L -> toi <> 0 ->
    fdt_pkt_ok pf id foti d -> parse_fdt d = Some inst -> fdt_live cfg inst pf now ->
    fdt_entry_for (fi_files inst) (fi_oti inst) toi oti L md5 ->
    writer_accepts E toi -> writes_succeed E toi -> md5_good E content md5 ->
    L <= cf_max_cache cfg -> nb_blocks_of oti L <= 4097 ->
    Forall (fun p => a_toi p = toi) pkts ->
    Forall (fun p => genuine_pkt oti content p = true) pkts ->
    close_flag_ok oti L pkts ->
    recoverable oti L pkts = true ->
    Forall (fun e => no_effect tsi (InEv e) = true) junk ->
    let '(_, r, c) := recv_run E parse_fdt cfg recv0 (junk ++ map (fun p => RvPush p now) (pf :: pkts)) ctx0 in
    session_delivered cfg inst content toi r c.
  Proof.
    intros L H1 H2 H3 H4 H5 H6 H7 H8 H9 H10 H11 H12 H13 H14 H15 J.
    rewrite <- recv_inputs_events with (tsi := tsi). rewrite map_app.
    apply (usable_after_rejected oti content toi md5 now pf id foti d inst pkts (map InEv junk)
             H1 H2 H3 H4 H5 H6 H7 H8 H9 H10 H11 H12 H13 H14 H15).
    rewrite Forall_map. exact J.
  Qed.
End Usable.

(* ================= D'. everything the receiver answers with Err ================= *)
(* Besides the quiet inputs, ONE kind of input is answered Err: a TOI-0 packet with EXT_FDT whose FDT
   instance fails to decode (FdtReceiver in state Error).  Since the fix of defect D41 the failed instance is
   forgotten (its entry, if any, leaves rv_fdt_receivers), so a later copy of the instance is received.
   (Before the fix it stayed under its instance id until the next cleanup() and every later packet of that id was
   ignored: with the id of the session's FDT instance the session was lost - the counterexample found here.) *)
Section AfterErr.
  Variable E : env.
  Variable parse_fdt : list N -> option fdtinst.
  Variable cfg : rconfig.
  Variable tsi : N.
  Notation step := (recv_input E parse_fdt cfg tsi).
  Notation run := (recv_inputs E parse_fdt cfg tsi).

  (* quiet (answered Ok or Err), or answered Err *)
  Definition rejected_at (r : recv) (c : ctx) (i : input) : Prop :=
    quiet E parse_fdt cfg tsi r i c \/ fst (fst (step r i c)) = PErr.

  (* every input of the list is rejected in the state in which the run finds it *)
  Inductive all_rejected : recv -> ctx -> list input -> Prop :=
  | ar_nil r c : all_rejected r c []
  | ar_cons r c i l : rejected_at r c i ->
                      all_rejected (snd (fst (step r i c))) (snd (step r i c)) l -> all_rejected r c (i :: l).

  (* nothing received yet, no pending FDT instance of id [id] *)
  Definition Idle (id : N) (r : recv) (c : ctx) : Prop :=
    rv_objects r = [] /\ rv_completed r = [] /\ rv_error r = [] /\ rv_fdt_current r = [] /\ Blank c
    /\ forall q, In q (rv_fdt_receivers r) -> fst q <> id.

  Lemma idle0 id : Idle id recv0 ctx0.
  Proof. repeat split. intros q []. Qed.

  Lemma idle_closed id b r c : Idle id r c -> Idle id (with_closed b r) c.
  Proof. intros H. exact H. Qed.

  Lemma blank_panicc c : Blank c -> Blank (panicc c).
  Proof. intros H. exact H. Qed.

  Lemma push_fdt_err p now r c id' :
    fst (fst (push_fdt_obj E parse_fdt cfg p now r c)) = PErr -> a_fdt_id p = Some id' ->
    exists frs c', push_fdt_obj E parse_fdt cfg p now r c
                   = (PErr, mk_recv (rv_objects r) (rv_completed r) (rv_error r) frs (rv_fdt_current r) (rv_closed r), c')
                   /\ (c' = c \/ c' = panicc c)
                   /\ forall q, In q frs -> In q (rv_fdt_receivers r).
  Proof.
    unfold push_fdt_obj. intros H Hid. rewrite Hid in *. cbv zeta in *.
    destruct (cf_once cfg && existsb (fun f => fr_id f =? id') (rv_fdt_current r)); [discriminate|].
    set (f0 := match find (fun q => fst q =? id') (rv_fdt_receivers r) with Some q => snd q | None => fr_new cfg id' end) in *.
    destruct (fr_state f0); try discriminate.
    destruct (fr_push E parse_fdt p now f0) as [f1 pan].
    set (f2 := match fr_state f1 with FComplete => fr_update_expired f1 now | _ => f1 end) in *.
    destruct (fr_state f2); try discriminate.
    - exfalso. destruct (fr_inst f2) as [i|]; [|discriminate].
      destruct (attach_all E id' i _ _ _ []) as [[r2 c2] att]. destruct (check_all cfg att r2 c2) as [r3 c3]. discriminate.
    - eexists; eexists. split; [reflexivity|]. split; [destruct pan; [right|left]; reflexivity|].
      intros q Hq. apply filter_In in Hq. exact (proj1 Hq).
  Qed.

  Lemma err_event_idle id r c p now : Idle id r c ->
    fst (fst (recv_step E parse_fdt cfg r (RvPush p now) c)) = PErr ->
    Idle id (snd (fst (recv_step E parse_fdt cfg r (RvPush p now) c))) (snd (recv_step E parse_fdt cfg r (RvPush p now) c)).
  Proof.
    intros I He. destruct (N.eqb_spec (a_toi p) 0) as [Hz|Hnz].
    - cbn [recv_step] in *. rewrite Hz in *. change (0 =? 0) with true in *. cbv iota in *.
      set (r0 := if a_close_sess p then _ else r) in *.
      assert (I0 : Idle id r0 c) by (unfold r0; destruct (a_close_sess p); exact I).
      destruct (a_fdt_id p) as [id'|] eqn:Hid.
      + destruct (push_fdt_err p now r0 c id' He Hid) as (frs & c' & Eq & Hc & Hk). rewrite Eq. cbn [fst snd].
        destruct I0 as (I1 & I2 & I3 & I4 & I5 & I6). repeat split; try assumption.
        * destruct Hc as [->| ->]; apply I5.
        * destruct Hc as [->| ->]; apply I5.
        * intros q Hq. exact (I6 q (Hk q Hq)).
      + unfold push_fdt_obj in *. rewrite Hid in *. destruct (a_close_obj p || a_close_sess p); exact I0.
    - rewrite (err_packet_leaves_state E parse_fdt cfg r p now c Hnz He). exact I.
  Qed.

  Lemma rejected_idle id r c i : Idle id r c -> rejected_at r c i ->
    Idle id (snd (fst (step r i c))) (snd (step r i c)).
  Proof.
    intros I [(x & b & Hs)|He]; [rewrite Hs; exact I|].
    destruct i as [d now|e].
    - cbn [recv_input] in *. unfold recv_push_data in *.
      destruct (parse_alc_pkt_fixed d) as [a| | |]; try exact I.
      destruct (lh_tsi (Alc.a_lct a) =? tsi); [|discriminate He].
      apply err_event_idle; assumption.
    - cbn [recv_input] in *. destruct e as [p now| |now ex exf|].
      + apply err_event_idle; assumption.
      + exact I.
      + exfalso. cbn [recv_step] in He. destruct (fold_left _ _ (r, c)) as [r1 c1]. discriminate.
      + discriminate He.
  Qed.

  Lemma all_rejected_idle id : forall r c l, all_rejected r c l -> Idle id r c ->
    Idle id (snd (fst (run r l c))) (snd (run r l c)).
  Proof.
    induction 1 as [r c|r c i l Hi A IH]; intros I; [exact I|].
    cbn [recv_inputs]. pose proof (rejected_idle id r c i I Hi) as I1. specialize (IH I1).
    destruct (step r i c) as [[x r1] c1]. cbn [fst snd] in *. destruct (run r1 l c1) as [[xs r2] c2]. exact IH.
  Qed.

  Lemma recv_inputs_app a : forall b r c,
    run r (a ++ b) c = (let '(xs, r1, c1) := run r a c in let '(ys, r2, c2) := run r1 b c1 in (xs ++ ys, r2, c2)).
  Proof.
    induction a as [|i a IH]; intros b r c; cbn [app recv_inputs].
    - destruct (run r b c) as [[ys r2] c2]. reflexivity.
    - destruct (step r i c) as [[x r1] c1]. rewrite IH.
      destruct (run r1 a c1) as [[xs r2] c2]. destruct (run r2 b c2) as [[ys r3] c3]. reflexivity.
  Qed.

  Lemma weaveq_refl : forall s r c, weaveq E parse_fdt cfg tsi r c s s.
  Proof. induction s as [|i s IH]; intros r c; [apply wq_nil|apply wq_keep; apply IH]. Qed.

  (* the session's FDT packet on an idle receiver: its instance becomes the current one *)
  Lemma push_fdt_idle pf id foti d inst now r c :
    fdt_pkt_ok pf id foti d -> parse_fdt d = Some inst -> fdt_live cfg inst pf now -> Idle id r c ->
    exists x r1 c0, push_fdt_obj E parse_fdt cfg pf now r c = (x, r1, c0)
      /\ rv_objects r1 = [] /\ rv_completed r1 = [] /\ rv_error r1 = []
      /\ rv_fdt_current r1 = [fdt_done cfg id d inst pf now] /\ Blank c0.
  Proof.
    intros Hpf Hparse Hlive (I1 & I2 & I3 & I4 & I5 & I6).
    destruct (fr_push_single E parse_fdt cfg pf id foti d inst now Hpf Hparse) as (pan & Hpush).
    assert (Hfind : find (fun q => fst q =? id) (rv_fdt_receivers r) = None).
    { clear - I6. induction (rv_fdt_receivers r) as [|q l IH]; [reflexivity|]. cbn [find].
      destruct (N.eqb_spec (fst q) id) as [Hq|_]; [exfalso; exact (I6 q (or_introl eq_refl) Hq)|].
      apply IH. intros q' Hq'. apply I6. right. exact Hq'. }
    unfold push_fdt_obj. destruct Hpf as (_ & Hfid & _). rewrite Hfid, I4, Hfind.
    cbn [existsb]. rewrite andb_false_r. cbn [fr_state fr_new]. rewrite Hpush.
    cbn [fr_state fdt_done]. fold (fdt_done cfg id d inst pf now). rewrite (live_update _ _ _ _ _ _ Hlive).
    cbn [fr_state fr_inst fdt_done]. fold (fdt_done cfg id d inst pf now).
    cbn [rv_objects]. rewrite I1. cbn [map attach_all check_all].
    cbn [rv_objects rv_completed rv_error rv_fdt_receivers rv_fdt_current rv_closed firstn].
    eexists; eexists; eexists. split; [reflexivity|].
    cbn [rv_objects rv_completed rv_error rv_fdt_receivers rv_fdt_current rv_closed].
    split; [reflexivity|]. split; [rewrite I2; destruct (fi_files inst); reflexivity|]. split; [exact I3|].
    split; [reflexivity|]. destruct pan; exact I5.
  Qed.

  (* session_fdt_first_delivers from any idle state *)
  Lemma session_from_idle oti content toi md5 now pf id foti d inst pkts r c :
    let L := lenN_ content in
    nocode_ok oti L -> toi <> 0 ->
    fdt_pkt_ok pf id foti d -> parse_fdt d = Some inst -> fdt_live cfg inst pf now ->
    fdt_entry_for (fi_files inst) (fi_oti inst) toi oti L md5 ->
    writer_accepts E toi -> writes_succeed E toi -> md5_good E content md5 ->
    L <= cf_max_cache cfg -> nb_blocks_of oti L <= 4097 ->
    Forall (fun p => a_toi p = toi) pkts ->
    Forall (fun p => genuine_pkt oti content p = true) pkts ->
    close_flag_ok oti L pkts ->
    recoverable oti L pkts = true ->
    Idle id r c ->
    let '(_, r', c') := recv_run E parse_fdt cfg r (map (fun p => RvPush p now) (pf :: pkts)) c in
    session_delivered cfg inst content toi r' c'.
  Proof.
    intros L (Hfec & He & Hb & HL & Hu) Htoi Hpf Hparse Hlive (f & F1 & F2 & F3 & F4 & F5) Hacc Hwr Hmd5 Hmax Hn T G Cl Rec I.
    destruct (partition_of oti L) as [[[al as_] nal] n] eqn:Hpart. unfold partition_of in Hpart.
    assert (Hnb : nb_blocks_of oti L = n) by (unfold nb_blocks_of; rewrite Hpart; reflexivity).
    assert (Cov : forall l, recoverable oti L l = true -> covered al as_ nal n (map pid_of l)).
    { intros l H. apply recoverable_covered. unfold recoverable, source_ks, partition_of in H. rewrite Hpart in H. exact H. }
    assert (Nc : Nice2 E content (toi, 0%nat) md5 (cf_max_cache cfg) n).
    { split; [split; [exact Hwr|exact Hmd5]|]. split; [exact Hmax|]. rewrite <- Hnb. exact Hn. }
    cbn [map recv_run]. cbn [recv_step]. pose proof Hpf as (Hz & _). rewrite Hz, N.eqb_refl.
    set (r0 := if a_close_sess pf then _ else r).
    assert (I0 : Idle id r0 c) by (unfold r0; destruct (a_close_sess pf); exact I).
    destruct (push_fdt_idle pf id foti d inst now r0 c Hpf Hparse Hlive I0) as (x & r1 & c0 & Eq & O1 & C1 & E1 & Cu1 & Bl).
    rewrite Eq.
    assert (R1 : RI r1 c0).
    { unfold RI. rewrite O1. destruct Bl as [B1 B2]. eapply RInv_ceq; [| |exact RInv0]; [rewrite B1|rewrite B2]; reflexivity. }
    pose proof (run_after_fdt E parse_fdt cfg oti content toi md5 al as_ nal n now Hfec He Hb HL Hu Hpart Htoi Nc Hacc
                  inst f F1 F2 F3 F4 F5 (fdt_done cfg id d inst pf now) [] pkts r1 c0 O1 C1 E1 Cu1
                  (live_update _ _ _ _ _ _ Hlive) eq_refl eq_refl Bl R1
                  (genuine_pkt_spec _ _ _ _ _ _ _ Hpart G) T) as D.
    assert (D' : let '(_, r', c') := recv_run E parse_fdt cfg r1 (map (fun p => RvPush p now) pkts) c0 in
                 SessDone cfg content toi f r' c').
    { apply D.
      - intros pre p post Eq' Hp. rewrite app_nil_r. apply Cov. apply (Cl pre p post Eq' Hp).
      - apply Cov. exact Rec. }
    destruct (recv_run E parse_fdt cfg r1 (map (fun p => RvPush p now) pkts) c0) as [[xs r2] c2].
    eapply sess_done_delivered; eassumption.
  Qed.

  (* U1 for EVERYTHING answered Err (or quiet), composed with U2: first a list of rejected inputs, then the
     session with quiet inputs woven in *)
  Theorem usable_after_err oti content toi md5 now pf id foti d inst pkts junk l :
    let L := lenN_ content in
    nocode_ok oti L -> toi <> 0 ->
    fdt_pkt_ok pf id foti d -> parse_fdt d = Some inst -> fdt_live cfg inst pf now ->
    fdt_entry_for (fi_files inst) (fi_oti inst) toi oti L md5 ->
    writer_accepts E toi -> writes_succeed E toi -> md5_good E content md5 ->
    L <= cf_max_cache cfg -> nb_blocks_of oti L <= 4097 ->
    Forall (fun p => a_toi p = toi) pkts ->
    Forall (fun p => genuine_pkt oti content p = true) pkts ->
    close_flag_ok oti L pkts ->
    recoverable oti L pkts = true ->
    all_rejected recv0 ctx0 junk ->
    weaveq E parse_fdt cfg tsi (snd (fst (run recv0 junk ctx0))) (snd (run recv0 junk ctx0)) l
           (map InEv (map (fun p => RvPush p now) (pf :: pkts))) ->
    let '(_, r, c) := run recv0 (junk ++ l) ctx0 in session_delivered cfg inst content toi r c.
  Proof.
    intros L H1 H2 H3 H4 H5 H6 H7 H8 H9 H10 H11 H12 H13 H14 H15 A W.
    pose proof (all_rejected_idle id recv0 ctx0 junk A (idle0 id)) as I.
    rewrite recv_inputs_app. destruct (run recv0 junk ctx0) as [[xs rj] cj]. cbn [fst snd] in *.
    pose proof (usable_transfer E parse_fdt cfg tsi rj cj inst content toi l _ W
                  (session_from_idle oti content toi md5 now pf id foti d inst pkts rj cj
                     H1 H2 H3 H4 H5 H6 H7 H8 H9 H10 H11 H12 H13 H14 H15 I)) as D.
    destruct (run rj l cj) as [[ys r2] c2]. exact D.
  Qed.

  Corollary usable_after_err_then_session oti content toi md5 now pf id foti d inst pkts junk :
    let L := lenN_ content in
    nocode_ok oti L -> toi <> 0 ->
    fdt_pkt_ok pf id foti d -> parse_fdt d = Some inst -> fdt_live cfg inst pf now ->
    fdt_entry_for (fi_files inst) (fi_oti inst) toi oti L md5 ->
    writer_accepts E toi -> writes_succeed E toi -> md5_good E content md5 ->
    L <= cf_max_cache cfg -> nb_blocks_of oti L <= 4097 ->
    Forall (fun p => a_toi p = toi) pkts ->
    Forall (fun p => genuine_pkt oti content p = true) pkts ->
    close_flag_ok oti L pkts ->
    recoverable oti L pkts = true ->
    all_rejected recv0 ctx0 junk ->
    let '(_, r, c) := run recv0 (junk ++ map InEv (map (fun p => RvPush p now) (pf :: pkts))) ctx0 in
    session_delivered cfg inst content toi r c.
  Proof.
    intros L H1 H2 H3 H4 H5 H6 H7 H8 H9 H10 H11 H12 H13 H14 H15 A.
    apply (usable_after_err oti content toi md5 now pf id foti d inst pkts junk _
             H1 H2 H3 H4 H5 H6 H7 H8 H9 H10 H11 H12 H13 H14 H15 A).
    apply weaveq_refl.
  Qed.
End AfterErr.

(* ================= D''. a failed FDT instance is quiet ================= *)
(* the Err-answered FDT packet inside a session: when no instance of its id is pending (its FdtReceiver is
   created and forgotten by this very packet) nothing changes at all.  The panic flag stays down by the totality
   theorem of the FDT receiver (fr_push_ok), hence the range premises: pkt_ok p (true of every parsed datagram,
   pkt_ok_of_parse) and inst_ok of what the XML oracle returns. *)
Section FailedFdt.
  Variable E : env.
  Variable parse_fdt : list N -> option fdtinst.
  Variable cfg : rconfig.
  Variable tsi : N.
  Hypothesis parse_fdt_ok : forall xml i, parse_fdt xml = Some i -> inst_ok i.

  Lemma find_key_none {A} (id : N) (l : list (N * A)) : (forall q, In q l -> fst q <> id) -> find (fun q => fst q =? id) l = None.
  Proof.
    induction l as [|q l IH]; intros H; [reflexivity|]. cbn [find].
    destruct (N.eqb_spec (fst q) id) as [Hq|_]; [exfalso; exact (H q (or_introl eq_refl) Hq)|].
    apply IH. intros q' Hq'. apply H. right. exact Hq'.
  Qed.
  Lemma filter_key_id {A} (id : N) (l : list (N * A)) : (forall q, In q l -> fst q <> id) -> filter (fun q => negb (fst q =? id)) l = l.
  Proof.
    induction l as [|q l IH]; intros H; [reflexivity|]. cbn [filter].
    destruct (N.eqb_spec (fst q) id) as [Hq|_]; [exfalso; exact (H q (or_introl eq_refl) Hq)|].
    cbn [negb]. rewrite IH; [reflexivity|]. intros q' Hq'. apply H. right. exact Hq'.
  Qed.

  Lemma err_fdt_quiet r p now c id' :
    a_toi p = 0 -> a_fdt_id p = Some id' -> pkt_ok p ->
    (forall q, In q (rv_fdt_receivers r) -> fst q <> id') ->
    fst (fst (recv_step E parse_fdt cfg r (RvPush p now) c)) = PErr ->
    quiet E parse_fdt cfg tsi r (InEv (RvPush p now)) c.
  Proof.
    intros Ht Hid Hpk Hk He. unfold quiet. cbn [recv_input recv_step] in *. rewrite Ht in *.
    change (0 =? 0) with true in *. cbv iota in *.
    set (r0 := if a_close_sess p then _ else r) in *.
    assert (Hr0 : r0 = with_closed (a_close_sess p || rv_closed r) r).
    { unfold r0. destruct (a_close_sess p); cbn [orb]; [reflexivity|]. rewrite with_closed_self. reflexivity. }
    assert (Hk0 : forall q, In q (rv_fdt_receivers r0) -> fst q <> id') by (rewrite Hr0; exact Hk).
    exists PErr, (a_close_sess p || rv_closed r). rewrite <- Hr0. clearbody r0.
    unfold push_fdt_obj in *. rewrite Hid in *. cbv zeta in *.
    destruct (cf_once cfg && existsb (fun f => fr_id f =? id') (rv_fdt_current r0)); [discriminate|].
    rewrite (find_key_none id' _ Hk0) in *. cbn [fr_state fr_new] in *.
    destruct (fr_push_ok E parse_fdt parse_fdt_ok p now (fr_new cfg id') (finv_new cfg id') Hpk) as [_ Pn].
    unfold fr_new in Pn.
    destruct (fr_push E parse_fdt p now _) as [f1 pan]. cbn [snd] in Pn. subst pan.
    set (f2 := match fr_state f1 with FComplete => fr_update_expired f1 now | _ => f1 end) in *.
    destruct (fr_state f2); try discriminate.
    - exfalso. destruct (fr_inst f2) as [i|]; [|discriminate].
      destruct (attach_all E id' i _ _ _ []) as [[r2 c2] att]. destruct (check_all cfg att r2 c2) as [r3 c3]. discriminate.
    - rewrite (filter_key_id id' _ Hk0). destruct r0; reflexivity.
  Qed.
End FailedFdt.

(* ================= E. examples; the refutation for arbitrary accepted garbage ================= *)
(* the receiver's TSI is 9.  Rejected inputs: a 3-byte datagram, the empty datagram, a well-formed datagram of
   TSI 1 (the packet of C04_example_accepted), RvUnparsable, a TOI-0 packet without EXT_FDT.  Session: the toy
   session of C02Session (FDT instance 1 = "<>" listing TOI 7; ex_pkts shuffled and duplicated). *)
Definition ux_foreign : list N :=
  [16;16;7;0; 0;0;0;0; 0;1; 0;1; 64;4;0;0;0;0;0;20;0;0;0;8;0;0;0;2; 0;0;0;0; 13;20;27;34;41;49;56;63].
Definition ux_nofdt : apkt := mk_apkt 0 false false None None None None 0 (mk_pid 0 0) [1; 2] 2.
Definition ux_junk : list input :=
  [InBytes [16; 0; 0] 5%Z; InBytes [] 6%Z; InBytes ux_foreign 7%Z; InEv RvUnparsable; InEv (RvPush ux_nofdt 8%Z)].
Definition ux_ev (p : apkt) : input := InEv (RvPush p 100%Z).
Definition usess (cfg : rconfig) (l : list input) :=
  let '(xs, r, c) := recv_inputs C02Full.env_ok (tx_parse false None) cfg 9 recv0 l ctx0 in
  (xs, map fst (rv_objects r), rv_completed r, rv_error r, map fst (rv_fdt_receivers r), c_log c).
(* an FDT packet of instance [id] whose document the XML parser refuses: answered Err *)
Definition ux_badfdt (id : N) : apkt :=
  mk_apkt 0 false false (Some id) (Some (tx_foti, 2)) None None 0 (mk_pid 0 0) [60; 63] 2.
(* a packet of TOI 7 with the close-session flag and a 3-byte payload id: answered Err once TOI 7 is complete
   (receive-once off) *)
Definition ux_badpid : apkt := mk_apkt 7 false true None None None None 0 [0; 0; 0] [1; 2] 2.

Example usable_example_computed :
  map (no_effect 9) ux_junk = [true; true; true; true; true]
  /\ (exists a, parse_alc_pkt_fixed ux_foreign = Bytes.Ok a /\ lh_tsi (Alc.a_lct a) = 1)
  (* junk first *)
  /\ usess (tx_cfg true false) (ux_junk ++ map ux_ev (tx_fdt None :: ex_pkts))
     = ([PErr; PErr; POk; PErr; PErr; POk; POk; POk; POk; POk; POk], [], [7], [], [], delivered_log)
  (* junk between the packets *)
  /\ usess (tx_cfg true false)
           (ux_ev (tx_fdt None) :: ux_junk ++ map ux_ev (firstn 2 ex_pkts) ++ ux_junk ++ map ux_ev (skipn 2 ex_pkts) ++ ux_junk)
     = ([POk; PErr; PErr; POk; PErr; PErr; POk; POk; PErr; PErr; POk; PErr; PErr; POk; POk; POk;
         PErr; PErr; POk; PErr; PErr], [], [7], [], [], delivered_log)
  (* a packet of the object's TOI answered Err in the middle of the duplicates, receive-once off *)
  /\ usess (tx_cfg false false) (map ux_ev (tx_fdt None :: firstn 4 ex_pkts) ++ [ux_ev ux_badpid] ++ map ux_ev (skipn 4 ex_pkts))
     = ([POk; POk; POk; POk; POk; PErr; POk], [], [7], [], [], delivered_log).
Proof.
  split; [vm_compute; reflexivity|]. split; [eexists; split; [vm_compute; reflexivity|reflexivity]|].
  split; [vm_compute; reflexivity|]. split; vm_compute; reflexivity.
Qed.

(* U1 by the theorem: its premises are satisfiable *)
Example usable_example_by_theorem :
  let '(_, r, c) := recv_inputs C02Full.env_ok (tx_parse false None) (tx_cfg true false) 9 recv0
                                (ux_junk ++ map InEv (map (fun p => RvPush p 100%Z) (tx_fdt None :: ex_pkts))) ctx0 in
  session_delivered (tx_cfg true false) (tx_inst false None) ex_content 7 r c.
Proof.
  apply (usable_after_rejected C02Full.env_ok (tx_parse false None) (tx_cfg true false) 9 ex_oti ex_content 7 None 100%Z
           (tx_fdt None) 1 tx_foti tx_doc (tx_inst false None) ex_pkts ux_junk).
  - repeat split; vm_compute; reflexivity.
  - discriminate.
  - apply tx_fdt_ok.
  - reflexivity.
  - left. reflexivity.
  - exists (mk_ff 7 CNull (Some ex_oti) 5 None None false). repeat split.
  - split; reflexivity.
  - intros i. reflexivity.
  - exact I.
  - vm_compute. discriminate.
  - vm_compute. discriminate.
  - repeat constructor.
  - repeat constructor.
  - apply close_flag_ok_noflag. repeat constructor.
  - vm_compute. reflexivity.
  - repeat constructor; vm_compute; reflexivity.
Qed.

(* POSITIVE since the fix of D41 (was the REFUTATION found here: before the fix the first run below delivered
   nothing - answers [PErr; POk; POk; POk; POk; POk; POk], object 7 left in the map, failed instance 1 left in
   rv_fdt_receivers, empty log - because push_fdt_obj ignored the genuine FDT packet of instance 1).
   ux_badfdt id = TOI 0, EXT_FDT instance id, EXT_FTI (No-Code, 2 bytes), payload "<?" which the XML parser
   refuses: answered Err.  With the session's own instance id 1, before the session: delivered; with another id:
   delivered; failed FDT packets (ids 1 and 3) after the session's FDT packet, receive-once on (the one of id 1 is
   ignored, Ok) and off (Err); and between the object's packets around an FDT that arrives late.
   (columns: answers, rv_objects, rv_completed, rv_error, ids in rv_fdt_receivers, writer log) *)
Example usable_failed_fdt_computed :
  usess (tx_cfg true false) (ux_ev (ux_badfdt 1) :: map ux_ev (tx_fdt None :: ex_pkts))
  = ([PErr; POk; POk; POk; POk; POk; POk], [], [7], [], [], delivered_log)
  /\ usess (tx_cfg true false) (ux_ev (ux_badfdt 2) :: map ux_ev (tx_fdt None :: ex_pkts))
     = ([PErr; POk; POk; POk; POk; POk; POk], [], [7], [], [], delivered_log)
  /\ usess (tx_cfg true false) (ux_ev (tx_fdt None) :: ux_ev (ux_badfdt 1) :: ux_ev (ux_badfdt 3) :: map ux_ev ex_pkts)
     = ([POk; POk; PErr; POk; POk; POk; POk; POk], [], [7], [], [], delivered_log)
  /\ usess (tx_cfg false false) (ux_ev (tx_fdt None) :: ux_ev (ux_badfdt 1) :: ux_ev (ux_badfdt 3) :: map ux_ev ex_pkts)
     = ([POk; PErr; PErr; POk; POk; POk; POk; POk], [], [7], [], [], delivered_log)
  /\ usess (tx_cfg true false) (map ux_ev (firstn 2 ex_pkts) ++ ux_ev (ux_badfdt 1) :: ux_ev (tx_fdt None)
                                 :: ux_ev (ux_badfdt 3) :: map ux_ev (skipn 2 ex_pkts))
     = ([POk; POk; PErr; POk; PErr; POk; POk; POk], [], [7], [], [], delivered_log).
Proof. vm_compute. repeat split. Qed.

(* the toy XML oracle and the failed FDT packets are in the range err_fdt_quiet asks for *)
Lemma tx_parse_ok nc ex : forall xml i, tx_parse nc ex xml = Some i -> inst_ok i.
Proof.
  intros xml i. unfold tx_parse. destruct (eqb_bytes xml tx_doc); [|discriminate]. intros H; inversion H; subst.
  split; [|intros x Hx; discriminate]. constructor; [|constructor].
  split; [unfold tl_ok; vm_compute; discriminate|]. intros x Hx. inversion Hx; subst. vm_compute. reflexivity.
Qed.
Lemma ux_badfdt_ok id : pkt_ok (ux_badfdt id).
Proof. intros ot l H. inversion H; subst. split; [unfold tl_ok; vm_compute; discriminate|vm_compute; reflexivity]. Qed.

(* the general theorem on a junk list with Err-answered FDT packets of the session's own instance id (1, twice)
   and of another one *)
Example usable_after_err_example :
  let '(_, r, c) := recv_inputs C02Full.env_ok (tx_parse false None) (tx_cfg true false) 9 recv0
                                ((ux_ev (ux_badfdt 1) :: ux_ev (ux_badfdt 2) :: ux_ev (ux_badfdt 1) :: ux_junk)
                                 ++ map InEv (map (fun p => RvPush p 100%Z) (tx_fdt None :: ex_pkts))) ctx0 in
  session_delivered (tx_cfg true false) (tx_inst false None) ex_content 7 r c.
Proof.
  apply (usable_after_err_then_session C02Full.env_ok (tx_parse false None) (tx_cfg true false) 9 ex_oti ex_content 7 None 100%Z
           (tx_fdt None) 1 tx_foti tx_doc (tx_inst false None) ex_pkts).
  - repeat split; vm_compute; reflexivity.
  - discriminate.
  - apply tx_fdt_ok.
  - reflexivity.
  - left. reflexivity.
  - exists (mk_ff 7 CNull (Some ex_oti) 5 None None false). repeat split.
  - split; reflexivity.
  - intros i. reflexivity.
  - exact I.
  - vm_compute. discriminate.
  - vm_compute. discriminate.
  - repeat constructor.
  - repeat constructor.
  - apply close_flag_ok_noflag. repeat constructor.
  - vm_compute. reflexivity.
  - apply ar_cons; [right; vm_compute; reflexivity|].
    apply ar_cons; [right; vm_compute; reflexivity|].
    apply ar_cons; [right; vm_compute; reflexivity|].
    repeat (apply ar_cons; [left; apply no_effect_quiet; vm_compute; reflexivity|]). apply ar_nil.
Qed.

(* U2 by the theorem with failed FDT packets (own id before the FDT, another id after it) woven into the session *)
Example usable_failed_fdt_interleaved_by_theorem :
  let '(_, r, c) := recv_inputs C02Full.env_ok (tx_parse false None) (tx_cfg true false) 9 recv0
                                (ux_ev (ux_badfdt 1) :: ux_ev (tx_fdt None) :: ux_ev (ux_badfdt 3) :: map ux_ev ex_pkts) ctx0 in
  session_delivered (tx_cfg true false) (tx_inst false None) ex_content 7 r c.
Proof.
  apply (usable_interleaved_fdt_first C02Full.env_ok (tx_parse false None) (tx_cfg true false) 9 ex_oti ex_content 7 None 100%Z
           (tx_fdt None) 1 tx_foti tx_doc (tx_inst false None) ex_pkts).
  - repeat split; vm_compute; reflexivity.
  - discriminate.
  - apply tx_fdt_ok.
  - reflexivity.
  - left. reflexivity.
  - exists (mk_ff 7 CNull (Some ex_oti) 5 None None false). repeat split.
  - split; reflexivity.
  - intros i. reflexivity.
  - exact I.
  - vm_compute. discriminate.
  - vm_compute. discriminate.
  - repeat constructor.
  - repeat constructor.
  - apply close_flag_ok_noflag. repeat constructor.
  - vm_compute. reflexivity.
  - apply wq_junk.
    { apply (err_fdt_quiet _ _ _ _ (tx_parse_ok false None) _ _ _ _ 1); [reflexivity|reflexivity|apply ux_badfdt_ok| |vm_compute; reflexivity].
      intros q []. }
    apply wq_keep. apply wq_junk.
    { apply (err_fdt_quiet _ _ _ _ (tx_parse_ok false None) _ _ _ _ 3); [reflexivity|reflexivity|apply ux_badfdt_ok| |vm_compute; reflexivity].
      intros q Hq. vm_compute in Hq. destruct Hq. }
    apply weaveq_refl.
Qed.

(* REFUTATION of the statement for ARBITRARY untrusted events (C04_usable_afterwards_full as it stood): the
   garbage only has to avoid the session's TOIs and FDT instance ids.  One ACCEPTED packet refutes it: a TOI-0
   packet with EXT_FDT instance id 2 whose document decodes to an instance that lists the session's TOI 7 with
   another FEC scheme (Raptor).  Session (alone: delivered, cached_packets_before_fdt_computed): the packets of
   TOI 7 and then FDT instance 1.  After the garbage, object 7 is created with instance 2 attached, its writer is
   opened, the symbols go to a Raptor decoder, the genuine instance 1 is not attached any more: no complete(). *)
Definition usable_any_garbage : Prop :=
  forall E parse_fdt cfg garbage session,
    Forall ev_ok garbage ->
    (forall p now q now', In (RvPush p now) garbage -> In (RvPush q now') session ->
       a_toi p <> a_toi q \/ (a_toi p = 0 /\ a_fdt_id p <> a_fdt_id q)) ->
    forall w, In (EvComplete w) (c_log (snd (recv_run E parse_fdt cfg recv0 session ctx0))) ->
    exists w', fst w' = fst w /\
      In (EvComplete w') (c_log (snd (recv_run E parse_fdt cfg recv0 (garbage ++ session) ctx0))).

Definition gx_inst : fdtinst :=
  mk_fi [mk_ff 7 CNull (Some (mk_roti FRaptor 2 2 0 (Some (1, 1, 1)))) 5 None None false] None None.
Definition gx_parse (d : list N) : option fdtinst :=
  if eqb_bytes d tx_doc then Some (tx_inst false None) else if eqb_bytes d [60; 63] then Some gx_inst else None.
Definition gx_garbage : list Recv.rev := [RvPush (ux_badfdt 2) 100%Z].
Definition gx_session : list Recv.rev := map (fun p => RvPush p 100%Z) (ex_pkts ++ [tx_fdt None]).

Example usable_any_garbage_computed :
  c_log (snd (recv_run C02Full.env_ok gx_parse (tx_cfg true false) recv0 gx_session ctx0)) = delivered_log
  /\ fst (fst (recv_run C02Full.env_ok gx_parse (tx_cfg true false) recv0 (gx_garbage ++ gx_session) ctx0))
     = [POk; POk; POk; POk; POk; POk; POk]
  /\ c_log (snd (recv_run C02Full.env_ok gx_parse (tx_cfg true false) recv0 (gx_garbage ++ gx_session) ctx0))
     = [EvBuilder 7 WStore; EvOpen (7, 0%nat) true].
Proof. vm_compute. repeat split. Qed.

Theorem usable_any_garbage_refuted : ~ usable_any_garbage.
Proof.
  intros H.
  destruct (H C02Full.env_ok gx_parse (tx_cfg true false) gx_garbage gx_session) with (w := (7, 0%nat)) as (w' & _ & Hin).
  - constructor; [|constructor]. intros ot l Hp. inversion Hp; subst. split; [|vm_compute; reflexivity].
    unfold tl_ok. vm_compute. discriminate.
  - intros p now q now' [Hp|[]] Hq. inversion Hp; subst. cbn [a_toi a_fdt_id ux_badfdt].
    unfold gx_session in Hq. apply in_map_iff in Hq. destruct Hq as (q0 & Eq & Hq0). inversion Eq; subst.
    apply in_app_or in Hq0. destruct Hq0 as [Hq0|[<-|[]]].
    + left. repeat (destruct Hq0 as [<-|Hq0]; [discriminate|]). destruct Hq0.
    + right. split; [reflexivity|discriminate].
  - destruct usable_any_garbage_computed as (-> & _). right; right; right; right; left. reflexivity.
  - destruct usable_any_garbage_computed as (_ & _ & Hl). rewrite Hl in Hin.
    destruct Hin as [Hx|[Hx|[]]]; discriminate Hx.
Qed.

Print Assumptions no_effect_leaves_state.
Print Assumptions err_fdt_quiet.
Print Assumptions usable_any_garbage_refuted.
Print Assumptions err_packet_leaves_state.
Print Assumptions weaveq_run.
Print Assumptions usable_after_rejected.
Print Assumptions usable_after_rejected_events.
Print Assumptions usable_interleaved_fdt_first.
Print Assumptions usable_interleaved_fdt_late.
Print Assumptions usable_after_err.
