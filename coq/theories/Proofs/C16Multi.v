(* C16 - carousel late join, extended
   1. to RaptorQ / Raptor (FEC 6 / 1, the [fq] family of Proofs/C02RS.v), object and session level, under the oracle
      hypotheses of C02_fq_recoverable_delivers;
   2. to SEVERAL carouselled objects announced by one FDT instance, the receiver joining at ANY packet boundary of the
      multiplexed stream: proved ONCE over the object-level interface of Proofs/C02SessionRS.v (SessIface) /
      Proofs/C02MultiObj.v (MultiIface), section LateIface below, then instantiated for No-Code, Reed-Solomon and
      RaptorQ / Raptor.
   The new receiver-level ingredient is the FDT packet seen from ONE object among others (fdt_step): the first copy
   attaches the instance to every object of rv_objects (attach_all / check_all), later copies are ignored
   (receive-once) or become the new head of rv_fdt_current; in every case the object [toi] keeps its phase
   (absent / decoding before the FDT -> attached / attached / delivered). *)
From FluteV Require Import Model.BlockEnc Model.SenderCtl Proofs.C01Full Proofs.C01Esi.
From FluteV Require Import Model.Partition Spec.C07Spec Proofs.PartitionProofs Model.ObjRecv Model.Recv
  Spec.RecvSpec Spec.SessionSpec Proofs.RecvProofs Proofs.SessionProofs Proofs.C02Full Proofs.C09Full
  Proofs.C02Session Proofs.C02RS Proofs.C02SessionRS Proofs.C02MultiFdt Proofs.C02MultiObj.
From Coq Require Import Lia.
Open Scope N_scope.

Arguments N.add : simpl never. Arguments N.mul : simpl never. Arguments N.sub : simpl never.
Arguments N.eqb : simpl never. Arguments N.ltb : simpl never. Arguments N.leb : simpl never.
Arguments N.div : simpl never. Arguments N.modulo : simpl never. Arguments N.min : simpl never.

Notation inb t l := (existsb (N.eqb t) l).

(* ================= 0. lists ================= *)
Lemma in_skipn_in {A} (x : A) : forall k l, In x (skipn k l) -> In x l.
Proof.
  induction k as [|k IH]; intros l H; [exact H|]. destruct l as [|y l]; [exact H|]. right. apply IH. exact H.
Qed.

Lemma forall_skipn {A} (P : A -> Prop) k l : Forall P l -> Forall P (skipn k l).
Proof. intros F. rewrite Forall_forall in *. intros x Hx. apply F. eapply in_skipn_in. exact Hx. Qed.

Lemma inb_filter_keep (P : N -> bool) t l : P t = true -> inb t (filter P l) = inb t l.
Proof.
  intros Ht. induction l as [|x l IH]; [reflexivity|]. cbn [filter existsb].
  destruct (N.eqb_spec t x) as [<-|Ne].
  - rewrite Ht. cbn [existsb]. rewrite N.eqb_refl. reflexivity.
  - destruct (P x); cbn [existsb]; [destruct (N.eqb_spec t x); [contradiction|]|]; exact IH.
Qed.

Lemma inb_filter_false (P : N -> bool) t l : inb t l = false -> inb t (filter P l) = false.
Proof.
  induction l as [|x l IH]; [reflexivity|]. cbn [filter existsb]. intros H. apply orb_false_iff in H. destruct H as [H1 H2].
  destruct (P x); cbn [existsb]; [rewrite H1|]; apply IH; exact H2.
Qed.

(* ================= 1. RaptorQ / Raptor, object level ================= *)
(* coverage of every source symbol is monotone in the set of payload ids *)
Lemma blocks_rec_incl ks : forall s got got', incl got got' ->
  blocks_recoverable false 0 ks s got = true -> blocks_recoverable false 0 ks s got' = true.
Proof.
  induction ks as [|k ks IH]; intros s got got' I H; [reflexivity|]. cbn [blocks_recoverable] in *.
  apply andb_true_iff in H. destruct H as [H1 H2]. apply andb_true_iff. split; [|eapply IH; eassumption].
  apply block_rec_of_in'. intros i Hi. apply I. exact (block_rec_in _ _ _ H1 i Hi).
Qed.

Lemma fq_recoverable_incl oti L l l' : incl (map (rs_pid oti) l) (map (rs_pid oti) l') ->
  fq_recoverable oti L l = true -> fq_recoverable oti L l' = true.
Proof. unfold fq_recoverable. apply blocks_rec_incl. Qed.

Lemma fq_recoverable_sup oti L l l' : incl l l' -> fq_recoverable oti L l = true -> fq_recoverable oti L l' = true.
Proof. intros I. apply fq_recoverable_incl. apply incl_map. exact I. Qed.

Lemma fq_close_flag_app oti L pre cyc :
  Forall (fun q => a_close_obj q = false) pre -> fq_close_flag_ok oti L cyc -> fq_close_flag_ok oti L (pre ++ cyc).
Proof.
  intros Fp Cl a p b Eq Hp.
  assert (S : exists a', a = pre ++ a' /\ cyc = a' ++ p :: b).
  { clear - Eq Hp Fp. revert a Eq. induction Fp as [|x pre Hx Fp IH]; intros a Eq.
    - exists a. split; [reflexivity|exact Eq].
    - destruct a as [|y a]; cbn [app] in Eq; inversion Eq; subst; [congruence|].
      destruct (IH a H1) as (a' & -> & E2). exists a'. split; [reflexivity|exact E2]. }
  destruct S as (a' & -> & Ec). rewrite <- app_assoc.
  apply (fq_recoverable_sup oti L (a' ++ [p])); [apply incl_appr, incl_refl|]. exact (Cl a' p b Ec Hp).
Qed.

Section FqObject.
  Variables (E : env) (oti : roti) (content : list N) (enc : N -> N -> list N).
  Variables (toi max fid : N) (files : list fdtfile) (inst : option roti) (md5 : option (list N)).
  Notation L := (lenN_ content).
  Hypothesis Hsch : fq_scheme_ok oti L.
  Hypothesis Hblk : fq_blocks_ok oti L.
  Hypothesis Hfdt : fdt_entry_for files inst toi oti L md5.
  Hypothesis Hwa : writer_accepts E toi.
  Hypothesis Hws : writes_succeed E toi.
  Hypothesis Hmd5 : md5_good E content md5.
  Hypothesis Hsound : fq_oracle_sound E oti content enc toi.
  Hypothesis Hcompl : fq_oracle_complete E oti content enc toi.
  Hypothesis Hmax : L <= max.
  Hypothesis Hnb : nb_blocks_of oti L <= 4097.

  Lemma delivered_of_recoverable_fq pkts :
    Forall (fun q => fq_genuine_pkt oti content enc q = true) pkts ->
    Forall (fun q => fq_sized_pkt oti q = true) pkts ->
    fq_close_flag_ok oti L pkts ->
    fq_recoverable oti L pkts = true ->
    delivered E fid files inst toi max content pkts.
  Proof.
    intros G Z Cl Rec.
    pose proof (fq_recoverable_delivers E oti content enc toi max fid files inst md5 pkts
                  Hsch Hblk Hfdt Hwa Hws Hmd5 Hsound Hcompl Hmax Hnb G Z Cl Rec) as D.
    unfold delivered. destruct (receive E fid files inst toi max pkts) as [o cx].
    destruct D as (D1 & D2 & D3). split; [exact D1|]. split; [exact D2|]. intros m.
    destruct (D3 m) as [X Y]. split; [exact X|]. split; [apply exact_once; exact X|].
    rewrite Rec in Y. exact Y.
  Qed.

  (* any genuine, flag-free packets (source or repair symbols, what is left of earlier cycles), then a list [cyc] that
     holds every source symbol (repair symbols anywhere in it) and may end with the close-object flag *)
  Theorem fq_prefix_then_cycle_delivered pre cyc :
    Forall (fun q => fq_genuine_pkt oti content enc q = true) (pre ++ cyc) ->
    Forall (fun q => fq_sized_pkt oti q = true) (pre ++ cyc) ->
    Forall (fun q => a_close_obj q = false) pre ->
    fq_close_flag_ok oti L cyc ->
    fq_recoverable oti L cyc = true ->
    delivered E fid files inst toi max content (pre ++ cyc).
  Proof.
    intros G Z Fp Cl Rec. apply delivered_of_recoverable_fq; try assumption.
    - apply fq_close_flag_app; assumption.
    - apply (fq_recoverable_sup oti L cyc); [apply incl_appr, incl_refl|exact Rec].
  Qed.

  (* any list of genuine packets without the close-object flag that contains every source symbol *)
  Theorem fq_superset_delivered l :
    Forall (fun q => fq_genuine_pkt oti content enc q = true) l ->
    Forall (fun q => fq_sized_pkt oti q = true) l ->
    Forall (fun q => a_close_obj q = false) l ->
    fq_recoverable oti L l = true ->
    delivered E fid files inst toi max content l.
  Proof.
    intros G Z Fl Rec. apply delivered_of_recoverable_fq; try assumption. apply fq_close_flag_ok_noflag. exact Fl.
  Qed.

  (* C16: carousel cycle [cyc] (no close-object flag) holding every source symbol; the receiver joins at ANY packet
     offset j of one cycle, gets the rest of it and one whole further cycle *)
  Theorem fq_late_join_delivered cyc :
    Forall (fun q => fq_genuine_pkt oti content enc q = true) cyc ->
    Forall (fun q => fq_sized_pkt oti q = true) cyc ->
    Forall (fun q => a_close_obj q = false) cyc ->
    fq_recoverable oti L cyc = true ->
    forall j : nat, delivered E fid files inst toi max content (skipn j cyc ++ cyc).
  Proof.
    intros G Z Fl Rec j. apply fq_prefix_then_cycle_delivered.
    - apply Forall_app. split; [apply forall_skipn|]; exact G.
    - apply Forall_app. split; [apply forall_skipn|]; exact Z.
    - apply forall_skipn. exact Fl.
    - apply fq_close_flag_ok_noflag. exact Fl.
    - exact Rec.
  Qed.
End FqObject.

(* ================= 2. several objects, late join: the receiver-level plumbing over the object-level interface ================= *)
(* a writer's object is Completed with the delivery in the log of a context that agrees with c on the TOI: dropping it
   calls nothing *)
Lemma or_drop_done_cs content toi o c cs :
  C09Full.Pre o c -> r_toi o = toi -> CSame toi c cs -> ShapeDone content (toi, 0%nat) toi cs ->
  or_drop o c = c /\ Alloc (toi, 0%nat) c.
Proof.
  intros (_ & W & Fr) Ht HC Sh. split.
  - unfold or_drop. destruct (r_writer o) as [[w' ws]|]; [|reflexivity]. cbn [WInv] in W.
    destruct W as (W1 & _ & ph & Rn & K). rewrite Ht in W1. destruct w' as [t' n']. cbn [fst] in W1. subst t'.
    unfold runw in Rn. rewrite (CSame_calls toi n' c cs HC) in Rn.
    assert (Hph : ph = PhDone \/ ph = PhStart).
    { destruct (wid_eq_dec (toi, n') (toi, 0%nat)) as [Eq|Ne].
      - rewrite Eq in Rn. fold (runw (toi, 0%nat) (c_log cs)) in Rn. rewrite (done_runw content _ toi cs Sh) in Rn.
        inversion Rn. left; reflexivity.
      - right. destruct Sh as (evs & H1 & H2 & _). rewrite H1, !C09Full.calls_of_app in Rn.
        rewrite (calls_writes_other (toi, 0%nat) (toi, n') evs H2 (wid_eqb_neq _ _ Ne)) in Rn. unfold hdr in Rn.
        cbn [calls_of flat_map] in Rn. rewrite (wid_eqb_neq _ _ Ne) in Rn. cbn in Rn. inversion Rn. reflexivity. }
    destruct Hph as [-> | ->]; destruct ws; cbn [phase_ok] in K; try contradiction; reflexivity.
  - unfold Alloc. cbn [fst snd]. destruct (Nat.lt_ge_cases 0 (ncalls c toi)) as [G|G]; [exact G|].
    specialize (Fr (toi, 0%nat) G). rewrite (CSame_calls toi 0%nat c cs HC) in Fr.
    destruct Sh as (evs & H1 & _). rewrite H1, !C09Full.calls_of_app in Fr. unfold hdr in Fr. cbn [calls_of flat_map] in Fr.
    rewrite C09Full.wid_eqb_refl in Fr. discriminate Fr.
Qed.

Section LateIface.
  Variable E : env.
  Variable parse_fdt : list N -> option fdtinst.
  Variable cfg : rconfig.
  Variable content : list N.
  Variable toi : N.
  Variable now : Z.
  Hypothesis Htoi : toi <> 0.
  Notation max := (cf_max_cache cfg).
  Notation w := (toi, 0%nat).
  Variables (id : N) (inst : fdtinst) (f : fdtfile).
  Hypothesis Hfind : find (fun f => ff_toi f =? toi) (fi_files inst) = Some f.

  (* ---- the interface: SessIface of Proofs/C02SessionRS.v (both parts) + I_fdtid of Proofs/C02MultiFdt.v ---- *)
  Variable SP : objrecv -> ctx -> Prop.
  Variable LV : list (N * N) -> objrecv -> Prop.
  Variable gen : apkt -> Prop.
  Variable pid : apkt -> N * N.
  Variable cov : list (N * N) -> Prop.
  Hypothesis I_state : forall o c, SP o c -> r_state o = Receiving.
  Hypothesis I_writer : forall o c, SP o c -> r_writer o = Some (w, WOpened).
  Hypothesis I_nc : forall o c p, SP o c -> r_nocache (fst (or_push E p o c)) = r_nocache o.
  Hypothesis I_step : forall o c seen p, SP o c -> LV seen o -> gen p ->
    (a_close_obj p = true -> cov (pid p :: seen)) ->
    let (o2, c2) := or_push E p o c in
    (SP o2 c2 /\ LV (pid p :: seen) o2) \/ (r_state o2 = Completed /\ ShapeDone content w toi c2).
  Hypothesis I_notcov : forall o c seen, SP o c -> LV seen o -> cov seen -> False.
  Hypothesis I_cov_incl : forall l l', cov l -> incl l l' -> cov l'.
  Hypothesis I_attach : forall fid c, Blank c ->
    exists o0 c0, or_attach E fid (fi_files inst) (fi_oti inst) (or_new toi max) c = (true, o0, c0)
                  /\ SP o0 c0 /\ LV [] o0 /\ r_nocache o0 = ff_nocache f.
  Hypothesis I_fdtid : forall o c, SP o c -> r_fdt_id o <> None.
  Variable PS : objrecv -> Prop.
  Variable pktpre : apkt -> Prop.
  Hypothesis J_state : forall o, PS o -> r_state o = Receiving.
  Hypothesis J_toi : forall p, pktpre p -> a_toi p = toi.
  Hypothesis J_first : forall c p, pktpre p ->
    exists o1, or_push E p (or_new toi max) c = (o1, c) /\ PS o1 /\ LV [pid p] o1.
  Hypothesis J_push : forall o c seen p, PS o -> LV seen o -> pktpre p ->
    exists o1, or_push E p o c = (o1, c) /\ PS o1 /\ LV (pid p :: seen) o1.
  Hypothesis J_attach : forall fid o c seen, PS o -> LV seen o -> Blank c ->
    exists o' c', or_attach E fid (fi_files inst) (fi_oti inst) o c = (true, o', c')
      /\ r_nocache o' = ff_nocache f
      /\ ((SP o' c' /\ LV seen o') \/ (r_state o' = Completed /\ ShapeDone content w toi c')).

  (* the FDT packets: every copy carries the whole instance [d] (one source symbol) under the same instance id, and is
     not expired when it arrives *)
  Variables (foti : roti) (d : list N).
  Hypothesis Hparse : parse_fdt d = Some inst.
  Definition FOk (p : apkt) : Prop := fdt_pkt_ok p id foti d /\ fdt_live cfg inst p now.

  Notation push := (fun p => RvPush p now).
  Notation closed_of p r :=
    (if a_close_sess p
     then mk_recv (rv_objects r) (rv_completed r) (rv_error r) (rv_fdt_receivers r) (rv_fdt_current r) true
     else r).
  Notation MSt := (MStart toi).
  Notation MRc := (MRecv toi f SP LV).
  Notation MDn := (MDone cfg content toi f).
  Notation HdOk := (HeadOk now inst).

  (* receiver invariants + no unfinished FDT instance (every copy completes the instance at once) *)
  Definition Base (r : recv) (c : ctx) : Prop := RI r c /\ EDisj r /\ rv_fdt_receivers r = [].
  (* decoding before the FDT: object present, in-band OTI, no writer; nothing of the TOI in the context *)
  Definition MPre (seen : list (N * N)) (r : recv) (c : ctx) : Prop :=
    exists o, get_obj r toi = Some o /\ inb toi (rv_completed r) = false /\ inb toi (rv_error r) = false
              /\ CSame toi c ctx0 /\ PS o /\ LV seen o.
  (* completed by the attach itself, not yet collected by check_state *)
  Definition MComp (r : recv) (c : ctx) : Prop :=
    exists o cs, get_obj r toi = Some o /\ inb toi (rv_completed r) = false /\ inb toi (rv_error r) = false
                 /\ CSame toi c cs /\ r_state o = Completed /\ ShapeDone content w toi cs /\ r_nocache o = ff_nocache f.
  (* the receive-once half of MDone *)
  Definition MDb (r : recv) (c : ctx) : Prop :=
    get_obj r toi = None /\ inb toi (rv_completed r) = true /\ inb toi (rv_error r) = false
    /\ exists cs, CSame toi c cs /\ ShapeDone content w toi cs.

  Lemma mdn_split r c : MDn r c <->
    (FI w r c /\ delivered_calls content (calls_of w (c_log c))) /\ (cf_once cfg = true -> ff_nocache f = false -> MDb r c).
  Proof. unfold MDone, MDb. tauto. Qed.

  (* what a step that belongs to another TOI (or to the FDT plane) leaves alone *)
  Definition Same4 (r : recv) (c : ctx) (r' : recv) (c' : ctx) : Prop :=
    get_obj r' toi = get_obj r toi /\ inb toi (rv_completed r') = inb toi (rv_completed r)
    /\ (inb toi (rv_error r) = false -> inb toi (rv_error r') = false) /\ CSame toi c c'.

  Lemma same4_refl r c : Same4 r c r c.
  Proof. split; [reflexivity|]. split; [reflexivity|]. split; [tauto|apply CSame_refl]. Qed.
  Lemma same4_trans r1 c1 r2 c2 r3 c3 : Same4 r1 c1 r2 c2 -> Same4 r2 c2 r3 c3 -> Same4 r1 c1 r3 c3.
  Proof.
    intros (A1 & A2 & A3 & A4) (B1 & B2 & B3 & B4). split; [congruence|]. split; [congruence|]. split; [tauto|].
    eapply CSame_trans; eassumption.
  Qed.

  Lemma same4_keep r c r' c' : Same4 r c r' c' ->
    (MSt r c -> MSt r' c') /\ (forall seen, MRc seen r c -> MRc seen r' c') /\ (MDb r c -> MDb r' c')
    /\ (MComp r c -> MComp r' c') /\ (forall seen, MPre seen r c -> MPre seen r' c').
  Proof.
    intros (Gt & Ct & Et & St). split; [|split; [|split; [|split]]].
    - intros (G & Hc & He & HC). split; [congruence|]. split; [congruence|]. split; [exact (Et He)|].
      eapply CSame_trans; [apply CSame_sym; exact St|exact HC].
    - intros seen (o & cs & G & Hc & He & HC & Rest). exists o, cs. split; [congruence|]. split; [congruence|].
      split; [exact (Et He)|]. split; [eapply CSame_trans; [apply CSame_sym; exact St|exact HC]|exact Rest].
    - intros (G & Hc & He & cs & HC & Sh). split; [congruence|]. split; [congruence|]. split; [exact (Et He)|].
      exists cs. split; [eapply CSame_trans; [apply CSame_sym; exact St|exact HC]|exact Sh].
    - intros (o & cs & G & Hc & He & HC & Rest). exists o, cs. split; [congruence|]. split; [congruence|].
      split; [exact (Et He)|]. split; [eapply CSame_trans; [apply CSame_sym; exact St|exact HC]|exact Rest].
    - intros seen (o & G & Hc & He & HC & Rest). exists o. split; [congruence|]. split; [congruence|].
      split; [exact (Et He)|]. split; [eapply CSame_trans; [apply CSame_sym; exact St|exact HC]|exact Rest].
  Qed.

  Lemma mdn_keep r c r' c' : Same4 r c r' c' -> (FI w r c -> FI w r' c' /\ SameCalls w c c') -> MDn r c -> MDn r' c'.
  Proof.
    intros S4 Fm Dn. apply mdn_split in Dn. destruct Dn as [[Fi Dc] B]. destruct (Fm Fi) as [Fi' Sc].
    apply mdn_split. split; [split; [exact Fi'|unfold SameCalls in Sc; rewrite Sc; exact Dc]|].
    intros Ho Hn. destruct (same4_keep r c r' c' S4) as (_ & _ & K & _). exact (K (B Ho Hn)).
  Qed.

  Lemma same4_of_out t r c r' c' : t <> toi ->
    (forall u, u <> t -> get_obj r' u = get_obj r u) ->
    others t (rv_completed r') = others t (rv_completed r) ->
    Trim (others t (rv_error r)) (others t (rv_error r')) -> Fr t c c' -> Same4 r c r' c'.
  Proof.
    intros Ne K1 K2 K3 F1. assert (Ne' : toi <> t) by congruence.
    split; [apply K1; exact Ne'|]. split; [eapply inb_others_eq; eassumption|]. split; [|apply (proj1 F1); exact Ne'].
    intros H. rewrite <- (inb_others_other t toi (rv_error r) Ne') in H.
    rewrite <- (inb_others_other t toi (rv_error r') Ne'). exact (Trim_inb _ _ _ K3 H).
  Qed.

  (* ---------- a packet of another non-zero TOI ---------- *)
  Lemma other_step r c p : a_toi p <> 0 -> a_toi p <> toi -> Base r c ->
    let '(x, r', c') := recv_step E parse_fdt cfg r (RvPush p now) c in
    Base r' c' /\ CurRel now (rv_fdt_current r) (rv_fdt_current r') /\ Same4 r c r' c'
    /\ (FI w r c -> FI w r' c' /\ SameCalls w c c').
  Proof.
    intros H0 Hne (R & D & Hrc).
    pose proof (recv_step_iso E parse_fdt cfg p now r c H0 R D) as K.
    pose proof (recv_step_frame E parse_fdt cfg w r (RvPush p now) c R) as Fm.
    destruct (recv_step E parse_fdt cfg r (RvPush p now) c) as [[x r'] c']. cbv zeta in K.
    destruct K as (K1 & K2 & K3 & _ & K4 & K5 & _ & F1 & R1 & D1).
    split; [split; [exact R1|split; [exact D1|congruence]]|]. split; [exact K5|]. split.
    - apply (same4_of_out (a_toi p)); assumption.
    - intros Fi. destruct (Fm Fi) as (_ & Fi' & Sc). cbn [fst snd] in Fi', Sc. split; assumption.
  Qed.

  (* ---------- an FDT packet ---------- *)
  Lemma fdt_push_form r c p : FOk p -> rv_fdt_receivers r = [] ->
    (rv_fdt_current r <> [] /\ push_fdt_obj E parse_fdt cfg p now r c = (POk, r, c))
    \/ exists c0, (c0 = c \/ c0 = panicc c) /\
      push_fdt_obj E parse_fdt cfg p now r c =
      (let r1 := mk_recv (rv_objects r) (rv_completed r) (rv_error r) []
                         (fdt_done cfg id d inst p now :: rv_fdt_current r) (rv_closed r) in
       let '(r2, c2, attached) := attach_all E id inst (map fst (rv_objects r1)) r1 c0 [] in
       let (r3, c3) := check_all cfg attached r2 c2 in
       let comp := match fi_files inst with
                   | [] => rv_completed r3
                   | _ => filter (fun t => existsb (fun f => ff_toi f =? t) (fi_files inst)) (rv_completed r3)
                   end in
       (POk, mk_recv (rv_objects r3) comp (rv_error r3) (rv_fdt_receivers r3) (firstn 10 (rv_fdt_current r3)) (rv_closed r3), c3)).
  Proof.
    intros [Hp Hl] Hrcv. destruct (fr_push_single E parse_fdt cfg p id foti d inst now Hp Hparse) as (pan & Hpush).
    unfold push_fdt_obj. destruct Hp as (_ & Hfid & _). rewrite Hfid.
    destruct (cf_once cfg && existsb (fun f0 => fr_id f0 =? id) (rv_fdt_current r)) eqn:Ho.
    - left. split; [|reflexivity]. intros Hcur. rewrite Hcur in Ho. cbn [existsb] in Ho. rewrite andb_false_r in Ho. discriminate.
    - right. exists (if pan then panicc c else c). split; [destruct pan; [right|left]; reflexivity|].
      rewrite Hrcv. cbn [existsb find]. cbn [fr_state fr_new]. rewrite Hpush.
      cbn [fr_state fdt_done]. fold (fdt_done cfg id d inst p now). rewrite (live_update _ _ _ _ _ _ Hl).
      cbn [fr_state fr_inst fdt_done filter]. reflexivity.
  Qed.

  Lemma attach_all_fields : forall tois r c att,
    let '(r2, c2, att2) := attach_all E id inst tois r c att in
    rv_completed r2 = rv_completed r /\ rv_error r2 = rv_error r /\ rv_fdt_receivers r2 = rv_fdt_receivers r
    /\ rv_fdt_current r2 = rv_fdt_current r /\ rv_closed r2 = rv_closed r /\ (forall x, In x att -> In x att2).
  Proof.
    induction tois as [|t rest IH]; intros r c att; cbn [attach_all]; [repeat split; tauto|].
    destruct (get_obj r t) as [o|]; [|apply IH].
    destruct (or_attach E id (fi_files inst) (fi_oti inst) o c) as [[ok o1] c1].
    match goal with |- context [attach_all E id inst rest ?r1 c1 ?a] => specialize (IH r1 c1 a);
      destruct (attach_all E id inst rest r1 c1 a) as [[r2 c2] att2] end.
    cbn [set_objects rv_completed rv_error rv_fdt_receivers rv_fdt_current rv_closed] in IH.
    destruct IH as (A1 & A2 & A3 & A4 & A5 & A6). repeat split; try assumption.
    intros x Hx. apply A6. destruct ok; [apply in_or_app; left|]; exact Hx.
  Qed.

  (* the object [toi], if present, already has its FDT entry: attach_latest_fdt_to_objects leaves it alone *)
  Definition Inert (r : recv) : Prop := forall o, get_obj r toi = Some o -> r_fdt_id o <> None.

  Lemma attach_all_keep : forall tois r c att, RI r c -> (In toi tois -> Inert r) ->
    let '(r2, c2, att2) := attach_all E id inst tois r c att in
    get_obj r2 toi = get_obj r toi /\ CSame toi c c2 /\ (In toi att2 -> In toi att) /\ RI r2 c2.
  Proof.
    induction tois as [|t rest IH]; intros r c att R Hin; cbn [attach_all].
    { split; [reflexivity|]. split; [apply CSame_refl|]. split; [tauto|exact R]. }
    destruct (get_obj r t) as [o|] eqn:G; [|apply IH; [exact R|intros H; apply Hin; right; exact H]].
    pose proof (or_attach_ext E id (fi_files inst) (fi_oti inst) o c (RI_get_pre _ _ _ _ R G)) as X.
    pose proof (par_or_attach E t id (fi_files inst) (fi_oti inst) o c c (RI_OkO _ _ _ _ R G) (CSame_refl t c)) as (_ & _ & F1 & _).
    destruct (N.eq_dec t toi) as [->|Ne].
    - assert (Hfid : r_fdt_id o <> None) by (apply (Hin (or_introl eq_refl)); exact G).
      assert (Eq : or_attach E id (fi_files inst) (fi_oti inst) o c = (false, o, c)).
      { unfold or_attach. destruct (r_fdt_id o); [reflexivity|contradiction]. }
      rewrite Eq in *. unfold ExtA in X. cbn [fst snd] in X.
      set (r1 := set_objects r (put_obj toi o (rv_objects r))).
      assert (R1 : RI r1 c) by (unfold RI, r1; cbn [set_objects rv_objects]; eapply RI_put; eassumption).
      assert (G1 : get_obj r1 toi = Some o) by apply get_put_same.
      specialize (IH r1 c att R1). destruct (attach_all E id inst rest r1 c att) as [[r2 c2] att2].
      destruct IH as (A1 & A2 & A3 & A4). { intros _ o' Ho'. rewrite G1 in Ho'. inversion Ho'; subst. exact Hfid. }
      split; [rewrite A1, G1, G; reflexivity|]. split; [exact A2|]. split; [exact A3|exact A4].
    - destruct (or_attach E id (fi_files inst) (fi_oti inst) o c) as [[ok o1] c1]. unfold ExtA in X. cbn [fst snd] in X, F1.
      set (r1 := set_objects r (put_obj t o1 (rv_objects r))).
      assert (R1 : RI r1 c1) by (unfold RI, r1; cbn [set_objects rv_objects]; eapply RI_put; eassumption).
      assert (Ne' : toi <> t) by congruence.
      assert (G1 : get_obj r1 toi = get_obj r toi) by (apply get_put_other; exact Ne').
      match goal with |- context [attach_all E id inst rest r1 c1 ?a] => specialize (IH r1 c1 a R1);
        destruct (attach_all E id inst rest r1 c1 a) as [[r2 c2] att2] end.
      destruct IH as (A1 & A2 & A3 & A4).
      { intros H o' Ho'. rewrite G1 in Ho'. exact (Hin (or_intror H) o' Ho'). }
      split; [congruence|]. split; [eapply CSame_trans; [apply (proj1 F1); exact Ne'|exact A2]|]. split; [|exact A4].
      intros H. specialize (A3 H). destruct ok; [|exact A3]. apply in_app_or in A3. destruct A3 as [A3|[A3|[]]]; [exact A3|congruence].
  Qed.

  (* ... or is decoding without FDT entry: it gets its writer, the completed blocks are flushed *)
  Lemma attach_all_pre seen : forall tois r c att, RI r c -> NoDup tois -> In toi tois -> MPre seen r c ->
    let '(r2, c2, att2) := attach_all E id inst tois r c att in
    (MRc seen r2 c2 \/ MComp r2 c2) /\ In toi att2.
  Proof.
    induction tois as [|t rest IH]; intros r c att R ND Hin HP; [destruct Hin|]. cbn [attach_all].
    pose proof (NoDup_cons_iff t rest) as [NDc _]. destruct (NDc ND) as [Nt NDr]. clear NDc.
    destruct (N.eq_dec t toi) as [->|Ne].
    - destruct HP as (o & G & Hc & He & HC & PS0 & Lv). rewrite G.
      destruct (J_attach id o ctx0 seen PS0 Lv (conj eq_refl eq_refl)) as (o' & cg & Hat & Hnc & Hcase).
      pose proof (par_or_attach E toi id (fi_files inst) (fi_oti inst) o c ctx0 (RI_OkO _ _ _ _ R G) HC) as (E1 & C1 & _ & _).
      pose proof (or_attach_ext E id (fi_files inst) (fi_oti inst) o c (RI_get_pre _ _ _ _ R G)) as X.
      rewrite Hat in E1, C1. destruct (or_attach E id (fi_files inst) (fi_oti inst) o c) as [[ok o1] c1].
      unfold ExtA in X. cbn [fst snd] in E1, C1, X. inversion E1; subst ok o1. clear E1.
      set (r1 := set_objects r (put_obj toi o' (rv_objects r))).
      assert (R1 : RI r1 c1) by (unfold RI, r1; cbn [set_objects rv_objects]; eapply RI_put; eassumption).
      assert (G1 : get_obj r1 toi = Some o') by apply get_put_same.
      pose proof (attach_all_keep rest r1 c1 (att ++ [toi]) R1) as K. pose proof (attach_all_fields rest r1 c1 (att ++ [toi])) as Fl.
      destruct (attach_all E id inst rest r1 c1 (att ++ [toi])) as [[r2 c2] att2].
      destruct K as (K1 & K2 & _ & _). { intros H. contradiction. }
      destruct Fl as (F1 & F2 & _ & _ & _ & F6).
      assert (S4 : Same4 r1 c1 r2 c2).
      { split; [exact K1|]. split; [rewrite F1; reflexivity|]. split; [rewrite F2; tauto|exact K2]. }
      destruct (same4_keep r1 c1 r2 c2 S4) as (_ & KR & _ & KC & _).
      split; [|apply F6; apply in_or_app; right; left; reflexivity].
      destruct Hcase as [[S' Lv']|[H1 H2]].
      + left. apply KR. exists o', cg. split; [exact G1|]. split; [exact Hc|]. split; [exact He|]. split; [exact C1|].
        split; [exact S'|]. split; [exact Lv'|exact Hnc].
      + right. apply KC. exists o', cg. split; [exact G1|]. split; [exact Hc|]. split; [exact He|]. split; [exact C1|].
        split; [exact H1|]. split; [exact H2|exact Hnc].
    - assert (Hin' : In toi rest) by (destruct Hin as [H|H]; [congruence|exact H]).
      destruct (get_obj r t) as [o|] eqn:G; [|apply IH; assumption].
      pose proof (or_attach_ext E id (fi_files inst) (fi_oti inst) o c (RI_get_pre _ _ _ _ R G)) as X.
      pose proof (par_or_attach E t id (fi_files inst) (fi_oti inst) o c c (RI_OkO _ _ _ _ R G) (CSame_refl t c)) as (_ & _ & F1 & _).
      destruct (or_attach E id (fi_files inst) (fi_oti inst) o c) as [[ok o1] c1]. unfold ExtA in X. cbn [fst snd] in X, F1.
      set (r1 := set_objects r (put_obj t o1 (rv_objects r))).
      assert (R1 : RI r1 c1) by (unfold RI, r1; cbn [set_objects rv_objects]; eapply RI_put; eassumption).
      assert (Ne' : toi <> t) by congruence.
      assert (S4 : Same4 r c r1 c1).
      { split; [apply get_put_other; exact Ne'|]. split; [reflexivity|]. split; [tauto|apply (proj1 F1); exact Ne']. }
      destruct (same4_keep r c r1 c1 S4) as (_ & _ & _ & _ & KP).
      apply IH; [exact R1|exact NDr|exact Hin'|exact (KP seen HP)].
  Qed.

  (* check_object_state of any TOI t *)
  Lemma check_state_base t r c : RI r c -> EDisj r ->
    let (r', c') := check_state cfg t r c in
    RI r' c' /\ EDisj r' /\ rv_fdt_receivers r' = rv_fdt_receivers r /\ rv_fdt_current r' = rv_fdt_current r.
  Proof.
    intros R D. pose proof (check_state_iso cfg t r c R D) as K. destruct (check_state cfg t r c) as [r' c'].
    destruct K as ((_ & _ & _ & K4 & K5 & _) & _ & R2 & D2 & _). split; [exact R2|]. split; [exact D2|]. split; assumption.
  Qed.

  Lemma check_state_other t r c : t <> toi -> RI r c -> EDisj r ->
    let (r', c') := check_state cfg t r c in Same4 r c r' c'.
  Proof.
    intros Ne R D. pose proof (check_state_iso cfg t r c R D) as K. destruct (check_state cfg t r c) as [r' c'].
    destruct K as ((K1 & K2 & K3 & _) & FK & _). apply (same4_of_out t); assumption.
  Qed.

  Lemma check_state_mdn t r c : RI r c -> EDisj r -> MDn r c -> let (r', c') := check_state cfg t r c in MDn r' c'.
  Proof.
    intros R D Dn. apply mdn_split in Dn. destruct Dn as [[Fi Dc] B].
    pose proof (check_state_frame cfg w t r c R Fi) as (_ & Fi' & Sc).
    assert (Hb : cf_once cfg = true -> ff_nocache f = false ->
                 MDb (fst (check_state cfg t r c)) (snd (check_state cfg t r c))).
    { intros Ho Hn. pose proof (B Ho Hn) as M. destruct (N.eq_dec t toi) as [->|Ne].
      - destruct M as (G0 & _). unfold check_state. rewrite G0. cbn [fst snd]. exact (B Ho Hn).
      - pose proof (check_state_other t r c Ne R D) as S4. destruct (check_state cfg t r c) as [r' c']. cbn [fst snd].
        destruct (same4_keep r c r' c' S4) as (_ & _ & K & _). exact (K M). }
    destruct (check_state cfg t r c) as [r' c']. cbn [fst snd] in *. apply mdn_split.
    split; [split; [exact Fi'|unfold SameCalls in Sc; rewrite Sc; exact Dc]|exact Hb].
  Qed.

  Lemma check_state_self r c : RI r c ->
    let (r', c') := check_state cfg toi r c in
    (MSt r c -> MSt r' c') /\ (forall seen, MRc seen r c -> MRc seen r' c') /\ (MComp r c -> MDn r' c').
  Proof.
    intros R. unfold check_state. destruct (get_obj r toi) as [o|] eqn:G.
    2:{ split; [tauto|]. split; [tauto|]. intros (o' & cs & G' & _). rewrite G in G'. discriminate. }
    destruct (r_state o) eqn:S.
    - split; [tauto|]. split; [tauto|]. intros (o' & cs & G' & _ & _ & _ & S' & _). rewrite G in G'. inversion G'; subst. congruence.
    - (* Completed *)
      assert (NoSt : ~ MSt r c) by (intros (G' & _); congruence).
      assert (NoRc : forall seen, ~ MRc seen r c).
      { intros seen (o' & cs & G' & _ & _ & _ & S' & _). rewrite G in G'. inversion G'; subst. rewrite (I_state _ _ S') in S. discriminate. }
      match goal with |- context [remove_obj toi ?x c] => set (r1 := x) end.
      assert (G1 : get_obj r1 toi = Some o) by exact G.
      assert (R1 : RI r1 c) by exact R.
      pose proof (remove_obj_inv toi r1 c R1) as R5. unfold remove_obj in *. rewrite G1 in *.
      split; [intros H; contradiction|]. split; [intros seen H; exfalso; exact (NoRc seen H)|].
      intros (o' & cs & G' & Hc & He & HC & _ & Sh & Hnc). rewrite G in G'. inversion G'; subst o'. clear G'.
      destruct (or_drop_done_cs content toi o c cs (RI_get_pre _ _ _ _ R G) (proj1 (RI_OkO _ _ _ _ R G)) HC Sh) as [Hd Ha].
      rewrite Hd in *. unfold RI2 in R5. cbn [fst snd] in R5.
      set (r5 := set_objects r1 (del_obj toi (rv_objects r1))) in *.
      assert (G5 : get_obj r5 toi = None).
      { unfold get_obj, r5. cbn [set_objects rv_objects]. rewrite find_del_same. reflexivity. }
      split; [|split].
      + split; [exact Ha|apply (notheld_absent r5 c toi 0%nat R5 G5)].
      + rewrite (CSame_calls toi 0%nat c cs HC). exact (done_calls content w toi cs Sh).
      + intros Ho Hn. split; [exact G5|]. split; [|split; [exact He|exists cs; split; assumption]].
        change (rv_completed r5) with (if r_nocache o then rv_completed r
                                       else if inb toi (rv_completed r) then rv_completed r else rv_completed r ++ [toi]).
        rewrite Hnc, Hn, Hc. rewrite existsb_app. cbn [existsb]. rewrite N.eqb_refl. apply orb_true_r.
    - match goal with |- let (_, _) := ?x in _ => destruct x as [r' c'] end.
      split; [intros (G' & _); congruence|]. split.
      + intros seen (o' & cs & G' & _ & _ & _ & S' & _). rewrite G in G'. inversion G'; subst. rewrite (I_state _ _ S') in S. discriminate.
      + intros (o' & cs & G' & _ & _ & _ & S' & _). rewrite G in G'. inversion G'; subst. congruence.
    - match goal with |- let (_, _) := ?x in _ => destruct x as [r' c'] end.
      split; [intros (G' & _); congruence|]. split.
      + intros seen (o' & cs & G' & _ & _ & _ & S' & _). rewrite G in G'. inversion G'; subst. rewrite (I_state _ _ S') in S. discriminate.
      + intros (o' & cs & G' & _ & _ & _ & S' & _). rewrite G in G'. inversion G'; subst. congruence.
  Qed.

  Lemma check_all_keep : forall att r c, RI r c -> EDisj r ->
    let (r', c') := check_all cfg att r c in
    RI r' c' /\ EDisj r' /\ rv_fdt_receivers r' = rv_fdt_receivers r /\ rv_fdt_current r' = rv_fdt_current r
    /\ (MSt r c -> MSt r' c') /\ (forall seen, MRc seen r c -> MRc seen r' c') /\ (MDn r c -> MDn r' c')
    /\ (MComp r c -> In toi att -> MDn r' c').
  Proof.
    induction att as [|t rest IH]; intros r c R D; cbn [check_all].
    { split; [exact R|]. split; [exact D|]. split; [reflexivity|]. split; [reflexivity|]. split; [tauto|]. split; [tauto|]. split; [tauto|]. intros _ []. }
    pose proof (check_state_base t r c R D) as B. pose proof (check_state_mdn t r c R D) as M.
    pose proof (check_state_self r c R) as Sf. pose proof (fun Ne => check_state_other t r c Ne R D) as Ot.
    destruct (N.eq_dec t toi) as [Et|Ne].
    - subst t. clear Ot. destruct (check_state cfg toi r c) as [r1 c1]. destruct B as (R1 & D1 & B3 & B4).
      destruct Sf as (S1 & S2 & S3). specialize (IH r1 c1 R1 D1). destruct (check_all cfg rest r1 c1) as [r2 c2].
      destruct IH as (A1 & A2 & A3 & A4 & A5 & A6 & A7 & A8).
      split; [exact A1|]. split; [exact A2|]. split; [congruence|]. split; [congruence|].
      split; [tauto|]. split; [intros seen H; apply A6, S2, H|]. split; [tauto|]. intros H _. apply A7, S3, H.
    - specialize (Ot Ne). clear Sf. destruct (check_state cfg t r c) as [r1 c1]. destruct B as (R1 & D1 & B3 & B4).
      destruct (same4_keep r c r1 c1 Ot) as (S1 & S2 & _ & S4 & _).
      specialize (IH r1 c1 R1 D1). destruct (check_all cfg rest r1 c1) as [r2 c2].
      destruct IH as (A1 & A2 & A3 & A4 & A5 & A6 & A7 & A8).
      split; [exact A1|]. split; [exact A2|]. split; [congruence|]. split; [congruence|].
      split; [tauto|]. split; [intros seen H; apply A6, S2, H|]. split; [tauto|].
      intros H [Hi|Hi]; [congruence|]. apply A8; [apply S4, H|exact Hi].
  Qed.

  Lemma check_all_mdb : forall att r c, RI r c -> EDisj r -> MDb r c ->
    let (r', c') := check_all cfg att r c in MDb r' c'.
  Proof.
    induction att as [|t rest IH]; intros r c R D M; cbn [check_all]; [exact M|].
    pose proof (check_state_base t r c R D) as B.
    assert (M1 : MDb (fst (check_state cfg t r c)) (snd (check_state cfg t r c))).
    { destruct (N.eq_dec t toi) as [->|Ne].
      - pose proof M as (G0 & _). unfold check_state. rewrite G0. exact M.
      - pose proof (check_state_other t r c Ne R D) as S4. destruct (check_state cfg t r c) as [r1 c1]. cbn [fst snd].
        destruct (same4_keep r c r1 c1 S4) as (_ & _ & K & _). exact (K M). }
    destruct (check_state cfg t r c) as [r1 c1]. cbn [fst snd] in M1. destruct B as (R1 & D1 & _).
    apply IH; assumption.
  Qed.

  Lemma comp_keeps_toi (l : list N) :
    inb toi (match fi_files inst with
             | [] => l
             | _ => filter (fun t => existsb (fun f0 => ff_toi f0 =? t) (fi_files inst)) l
             end) = inb toi l.
  Proof.
    pose proof (find_existsb toi _ f Hfind) as Hex. destruct (fi_files inst) as [|f0 fl] eqn:Ef; [reflexivity|].
    apply inb_filter_keep. exact Hex.
  Qed.

  Lemma fdt_step r c p : Base r c -> FOk p -> (rv_fdt_current r = [] \/ HdOk (rv_fdt_current r)) ->
    let '(x, r', c') := push_fdt_obj E parse_fdt cfg p now r c in
    Base r' c' /\ HdOk (rv_fdt_current r')
    /\ (MSt r c -> MSt r' c') /\ (forall seen, MRc seen r c -> MRc seen r' c') /\ (MDn r c -> MDn r' c')
    /\ (forall seen, rv_fdt_current r = [] -> MPre seen r c -> MRc seen r' c' \/ MDn r' c').
  Proof.
    intros (R & D & Hrc) Hp Hcur.
    pose proof (push_fdt_obj_frame E parse_fdt cfg w p now r c R) as Fm.
    destruct (fdt_push_form r c p Hp Hrc) as [[Hne Eq]|(c0 & Hc0 & Eq)]; rewrite Eq in *; clear Eq.
    - destruct Hcur as [Hcur|Hcur]; [contradiction|].
      split; [split; [exact R|split; assumption]|]. split; [exact Hcur|]. split; [tauto|]. split; [tauto|]. split; [tauto|].
      intros seen H. contradiction.
    - assert (R0 : RI r c0) by (destruct Hc0 as [->| ->]; [exact R|eapply RInv_ceq; [| |exact R]; reflexivity]).
      assert (C0 : CSame toi c c0) by (destruct Hc0 as [->| ->]; [apply CSame_refl|apply CSame_sym, CSame_panic_l, CSame_refl]).
      cbv zeta in *. set (F2 := fdt_done cfg id d inst p now) in *.
      set (r1 := mk_recv (rv_objects r) (rv_completed r) (rv_error r) [] (F2 :: rv_fdt_current r) (rv_closed r)) in *.
      assert (R1 : RI r1 c0) by exact R0.
      assert (D1 : EDisj r1) by exact D.
      assert (S01 : Same4 r c r1 c0).
      { split; [reflexivity|]. split; [reflexivity|]. split; [tauto|exact C0]. }
      change (rv_objects r1) with (rv_objects r) in *. set (tois := map fst (rv_objects r)) in *.
      assert (NDt : NoDup tois) by exact (proj1 R).
      pose proof (attach_all_fields tois r1 c0 []) as Fl.
      pose proof (attach_all_keep tois r1 c0 [] R1) as Kp.
      pose proof (fun seen => attach_all_pre seen tois r1 c0 [] R1 NDt) as Pr.
      pose proof (attach_all_inv E id inst tois r1 c0 [] R1) as R2.
      pose proof (attach_all_edisj E id inst tois r1 c0 [] R1 D1) as D2.
      destruct (attach_all E id inst tois r1 c0 []) as [[r2 c2] att]. unfold RIa in R2. cbn [fst snd] in R2, D2.
      destruct Fl as (F1 & F2' & F3 & F4 & F5 & _).
      pose proof (check_all_keep att r2 c2 R2 D2) as Ck. pose proof (check_all_mdb att r2 c2 R2 D2) as Cb.
      destruct (check_all cfg att r2 c2) as [r3 c3].
      destruct Ck as (R3 & D3 & A3 & A4 & A5 & A6 & A7 & A8).
      match goal with |- context [mk_recv (rv_objects r3) ?cp (rv_error r3) (rv_fdt_receivers r3) ?cu (rv_closed r3)] =>
        set (comp := cp) in *; set (cur := cu) in * end.
      set (r' := mk_recv (rv_objects r3) comp (rv_error r3) (rv_fdt_receivers r3) cur (rv_closed r3)) in *.
      assert (S3 : Same4 r3 c3 r' c3).
      { split; [reflexivity|]. split; [apply comp_keeps_toi|]. split; [tauto|apply CSame_refl]. }
      assert (Kin : Inert r1 ->
                (MSt r1 c0 -> MSt r2 c2) /\ (forall seen, MRc seen r1 c0 -> MRc seen r2 c2) /\ (MDb r1 c0 -> MDb r2 c2)).
      { intros Hi. destruct (Kp (fun _ => Hi)) as (K1 & K2 & _ & _).
        assert (S12 : Same4 r1 c0 r2 c2).
        { split; [exact K1|]. split; [rewrite F1; reflexivity|]. split; [rewrite F2'; tauto|exact K2]. }
        destruct (same4_keep r1 c0 r2 c2 S12) as (X1 & X2 & X3 & _). split; [exact X1|split; [exact X2|exact X3]]. }
      destruct (same4_keep r c r1 c0 S01) as (P1 & P2 & P3 & _ & P5).
      destruct (same4_keep r3 c3 r' c3 S3) as (Q1 & Q2 & Q3 & _ & _).
      split; [|split; [|split; [|split; [|split]]]].
      + split; [exact R3|]. split; [exact D3|]. change (rv_fdt_receivers r') with (rv_fdt_receivers r3). rewrite A3, F3. reflexivity.
      + change (rv_fdt_current r') with cur. unfold cur. rewrite A4, F4. cbn [r1 rv_fdt_current firstn].
        exists F2, (firstn 9 (rv_fdt_current r)). split; [reflexivity|]. split; [exact (live_update _ _ _ _ _ _ (proj2 Hp))|].
        split; reflexivity.
      + intros M. apply P1 in M. assert (Hi : Inert r1) by (intros o Ho; destruct M as (G & _); congruence).
        destruct (Kin Hi) as (X1 & _ & _). apply Q1, A5, X1, M.
      + intros seen M. apply P2 in M.
        assert (Hi : Inert r1).
        { intros o Ho. destruct M as (o' & cs & G & _ & _ & _ & S' & _). rewrite G in Ho. inversion Ho; subst. exact (I_fdtid _ _ S'). }
        destruct (Kin Hi) as (_ & X2 & _). apply Q2, A6, X2, M.
      + intros Dn. apply mdn_split in Dn. destruct Dn as [[Fi Dc] B]. destruct (Fm Fi) as (_ & Fi' & Sc). cbn [fst snd] in Fi', Sc.
        apply mdn_split. split; [split; [exact Fi'|unfold SameCalls in Sc; rewrite Sc; exact Dc]|].
        intros Ho Hn. pose proof (P3 (B Ho Hn)) as M.
        assert (Hi : Inert r1) by (intros o Hoo; destruct M as (G & _); congruence).
        destruct (Kin Hi) as (_ & _ & X3). apply Q3, Cb, X3, M.
      + intros seen Hc HP. apply (P5 seen) in HP.
        assert (Hin : In toi tois).
        { destruct HP as (o & G & _). apply get_obj_in in G. unfold tois. change toi with (fst (toi, o)). apply in_map. exact G. }
        destruct (Pr seen Hin HP) as [[M|M] Ha].
        * left. apply Q2, A6, M.
        * right. apply (mdn_keep r3 c3 r' c3 S3); [intros Fi; split; [exact Fi|reflexivity]|]. apply A8; assumption.
  Qed.

  (* ---------- a packet of the object before any FDT instance ---------- *)
  Lemma base_of_iso t r c r' c' : Base r c -> IsoOut cfg t now r c r' c' ->
    Base r' c' /\ CurRel now (rv_fdt_current r) (rv_fdt_current r').
  Proof.
    intros (_ & _ & Hrc) ((_ & _ & _ & K4 & K5 & _) & _ & R1 & D1 & _).
    split; [split; [exact R1|split; [exact D1|congruence]]|exact K5].
  Qed.

  Lemma currel_nil cur' : CurRel now [] cur' -> cur' = [].
  Proof. intros H. inversion H. reflexivity. Qed.

  Lemma pre_first r c p : Base r c -> rv_fdt_current r = [] -> MSt r c -> pktpre p ->
    let '(x, r', c') := push_obj E cfg p now r c in
    Base r' c' /\ rv_fdt_current r' = [] /\ MPre [pid p] r' c'.
  Proof.
    intros B Hcur (G & Hc & He & HC) Pp. pose proof B as (R & D & _). pose proof (J_toi p Pp) as Ht.
    pose proof (push_obj_iso E cfg p now r c R D) as Iso.
    destruct (J_first c p Pp) as (o1 & Eq1 & P1 & L1).
    set (r3 := mk_recv (rv_objects r ++ [(toi, or_new toi max)]) (rv_completed r) (rv_error r) (rv_fdt_receivers r) [] (rv_closed r)).
    assert (Eq : push_obj E cfg p now r c = (POk, set_objects r3 (put_obj toi o1 (rv_objects r3)), c)).
    { unfold push_obj. cbv zeta. rewrite Ht, Hc. cbv iota beta. rewrite He. cbv iota beta. rewrite G.
      rewrite Hcur. cbn [create_attach]. rewrite Eq1. fold r3.
      unfold check_state. rewrite get_put_same, (J_state _ P1). reflexivity. }
    rewrite Eq in *. clear Eq. destruct (base_of_iso _ _ _ _ _ B Iso) as [B' Cr]. rewrite Hcur in Cr.
    split; [exact B'|]. split; [exact (currel_nil _ Cr)|].
    exists o1. split; [apply get_put_same|]. split; [exact Hc|]. split; [exact He|]. split; [exact HC|]. split; assumption.
  Qed.

  Lemma pre_push seen r c p : Base r c -> rv_fdt_current r = [] -> MPre seen r c -> pktpre p ->
    let '(x, r', c') := push_obj E cfg p now r c in
    Base r' c' /\ rv_fdt_current r' = [] /\ MPre (pid p :: seen) r' c'.
  Proof.
    intros B Hcur (o & G & Hc & He & HC & PS0 & Lv) Pp. pose proof B as (R & D & _). pose proof (J_toi p Pp) as Ht.
    pose proof (push_obj_iso E cfg p now r c R D) as Iso.
    destruct (J_push o c seen p PS0 Lv Pp) as (o1 & Eq1 & P1 & L1).
    assert (Eq : push_obj E cfg p now r c = (POk, set_objects r (put_obj toi o1 (rv_objects r)), c)).
    { unfold push_obj. cbv zeta. rewrite Ht, Hc. cbv iota beta. rewrite He. cbv iota beta. rewrite G. rewrite Eq1.
      unfold check_state. rewrite get_put_same, (J_state _ P1). reflexivity. }
    rewrite Eq in *. clear Eq. destruct (base_of_iso _ _ _ _ _ B Iso) as [B' Cr]. rewrite Hcur in Cr.
    split; [exact B'|]. split; [exact (currel_nil _ Cr)|].
    exists o1. split; [apply get_put_same|]. split; [exact Hc|]. split; [exact He|]. split; [exact HC|]. split; assumption.
  Qed.

  (* ---------- the run ---------- *)
  (* the events still to come, given whether an FDT instance has arrived [ph] and the symbols of the object received so
     far [seen]: an FDT packet is a good copy of the instance; a packet of the object may arrive before the first FDT
     packet only in the form [pktpre] (in-band FTI), is genuine afterwards, and carries the close-object flag only when
     the object is covered with it; packets of other non-zero TOIs are arbitrary; in the end an FDT packet has come and
     the symbols cover the object *)
  Fixpoint WFm (ph : bool) (seen : list (N * N)) (evs : list apkt) : Prop :=
    match evs with
    | [] => ph = true /\ cov seen
    | p :: rest =>
      if a_toi p =? 0 then FOk p /\ WFm true seen rest
      else if a_toi p =? toi then
        (if ph then gen p else pktpre p) /\ (a_close_obj p = true -> cov (pid p :: seen)) /\ WFm ph (pid p :: seen) rest
      else WFm ph seen rest
    end.

  (* D44: the same, but a packet of the object that arrives BEFORE the first FDT packet may carry the close-object flag
     whatever has been received: the flag is ignored while the object has no writer *)
  Fixpoint WFm' (ph : bool) (seen : list (N * N)) (evs : list apkt) : Prop :=
    match evs with
    | [] => ph = true /\ cov seen
    | p :: rest =>
      if a_toi p =? 0 then FOk p /\ WFm' true seen rest
      else if a_toi p =? toi then
        (if ph then gen p /\ (a_close_obj p = true -> cov (pid p :: seen)) else pktpre p) /\ WFm' ph (pid p :: seen) rest
      else WFm' ph seen rest
    end.

  Lemma wfm_weaken : forall evs ph seen, WFm ph seen evs -> WFm' ph seen evs.
  Proof.
    induction evs as [|p rest IH]; intros ph seen H; [exact H|]. cbn [WFm WFm'] in *.
    destruct (a_toi p =? 0); [destruct H as [H1 H2]; split; [exact H1|exact (IH _ _ H2)]|].
    destruct (a_toi p =? toi); [|exact (IH _ _ H)].
    destruct H as (H1 & H2 & H3). split; [|exact (IH _ _ H3)]. destruct ph; [split; assumption|exact H1].
  Qed.

  Definition StM (ph : bool) (seen : list (N * N)) (r : recv) (c : ctx) : Prop :=
    Base r c /\
    if ph then HdOk (rv_fdt_current r) /\ ((MSt r c /\ seen = []) \/ MRc seen r c \/ MDn r c)
    else rv_fdt_current r = [] /\ ((MSt r c /\ seen = []) \/ MPre seen r c).

  Lemma stm_closed ph seen r c p : StM ph seen r c -> StM ph seen (closed_of p r) c.
  Proof. intros H. destruct (a_close_sess p); exact H. Qed.

  Lemma wfm_fok : forall evs ph seen, WFm' ph seen evs -> Forall (fun p => a_toi p = 0 -> FOk p) evs.
  Proof.
    induction evs as [|p rest IH]; intros ph seen H; [constructor|]. cbn [WFm'] in H.
    destruct (N.eqb_spec (a_toi p) 0) as [Z|Z].
    - destruct H as [H1 H2]. constructor; [intros _; exact H1|exact (IH _ _ H2)].
    - constructor; [intros X; contradiction|]. destruct (a_toi p =? toi); [destruct H as (_ & H)|]; exact (IH _ _ H).
  Qed.

  Lemma common_of r c : Base r c -> HdOk (rv_fdt_current r) -> Common now inst r c.
  Proof. intros (R & D & _) H. split; [exact R|split; assumption]. Qed.

  Lemma step_fdt r c p : a_toi p = 0 ->
    recv_step E parse_fdt cfg r (RvPush p now) c = push_fdt_obj E parse_fdt cfg p now (closed_of p r) c.
  Proof. intros Hz. cbn [recv_step]. rewrite Hz, N.eqb_refl. reflexivity. Qed.

  Lemma run_done_any : forall evs r c, Base r c -> HdOk (rv_fdt_current r) -> MDn r c ->
    Forall (fun p => a_toi p = 0 -> FOk p) evs ->
    let '(_, r', c') := recv_run E parse_fdt cfg r (map push evs) c in RI r' c' /\ EDisj r' /\ MDn r' c'.
  Proof.
    induction evs as [|p rest IH]; intros r c B Hd Dn F; cbn [map recv_run].
    { destruct B as (R & D & _). split; [exact R|split; assumption]. }
    pose proof (Forall_inv F) as Fp. pose proof (Forall_inv_tail F) as Fr. cbn beta in Fp.
    assert (K : let '(x, r1, c1) := recv_step E parse_fdt cfg r (RvPush p now) c in
                Base r1 c1 /\ HdOk (rv_fdt_current r1) /\ MDn r1 c1).
    { destruct (N.eq_dec (a_toi p) 0) as [Z|Z].
      - rewrite (step_fdt r c p Z).
        assert (B0 : Base (closed_of p r) c) by (destruct (a_close_sess p); exact B).
        assert (Hd0 : HdOk (rv_fdt_current (closed_of p r))) by (destruct (a_close_sess p); exact Hd).
        assert (Dn0 : MDn (closed_of p r) c) by (destruct (a_close_sess p); exact Dn).
        pose proof (fdt_step _ c p B0 (Fp Z) (or_intror Hd0)) as H.
        destruct (push_fdt_obj E parse_fdt cfg p now (closed_of p r) c) as [[x r1] c1].
        destruct H as (B1 & H1 & _ & _ & H4 & _). split; [exact B1|]. split; [exact H1|exact (H4 Dn0)].
      - pose proof (m_done_step E parse_fdt cfg content toi now inst f SP LV r c p Z (common_of r c B Hd) Dn) as H.
        pose proof (recv_step_iso E parse_fdt cfg p now r c Z (proj1 B) (proj1 (proj2 B))) as Iso.
        destruct (recv_step E parse_fdt cfg r (RvPush p now) c) as [[x r1] c1]. cbv zeta in Iso.
        destruct H as ((R1 & D1 & H1) & Dn1). destruct Iso as (_ & _ & _ & _ & K4 & _).
        split; [split; [exact R1|split; [exact D1|rewrite K4; exact (proj2 (proj2 B))]]|]. split; assumption. }
    destruct (recv_step E parse_fdt cfg r (RvPush p now) c) as [[x r1] c1]. destruct K as (B1 & H1 & Dn1).
    specialize (IH r1 c1 B1 H1 Dn1 Fr). destruct (recv_run E parse_fdt cfg r1 (map push rest) c1) as [[xs r2] c2]. exact IH.
  Qed.

  Lemma run_main : forall evs ph seen r c, StM ph seen r c -> WFm' ph seen evs ->
    let '(_, r', c') := recv_run E parse_fdt cfg r (map push evs) c in RI r' c' /\ EDisj r' /\ MDn r' c'.
  Proof.
    induction evs as [|p rest IH]; intros ph seen r c St W.
    { cbn [map recv_run]. cbn [WFm'] in W. destruct W as [-> Cv]. destruct St as (B & Hd & [[M ->]|[M|M]]).
      - exfalso. destruct (I_attach 0 ctx0 (conj eq_refl eq_refl)) as (o0 & c0 & _ & S0 & L0 & _). exact (I_notcov o0 c0 [] S0 L0 Cv).
      - exfalso. destruct M as (o & cs & _ & _ & _ & _ & HS & Lv & _). exact (I_notcov o cs seen HS Lv Cv).
      - destruct B as (R & D & _). split; [exact R|split; assumption]. }
    (* once delivered, anything may follow *)
    assert (DoneCase : ph = true -> MDn r c ->
              let '(_, r', c') := recv_run E parse_fdt cfg r (map push (p :: rest)) c in RI r' c' /\ EDisj r' /\ MDn r' c').
    { intros -> Dn. destruct St as (B & Hd & _). apply run_done_any; try assumption. exact (wfm_fok _ _ _ W). }
    cbn [WFm'] in W.
    assert (K : exists ph' seen', WFm' ph' seen' rest /\
                let '(x, r1, c1) := recv_step E parse_fdt cfg r (RvPush p now) c in StM ph' seen' r1 c1 \/ (ph = true /\ MDn r c)).
    { destruct (N.eqb_spec (a_toi p) 0) as [Z|Z].
      - (* an FDT packet *)
        destruct W as [Fp W']. exists true, seen. split; [exact W'|]. rewrite (step_fdt r c p Z).
        pose proof (stm_closed ph seen r c p St) as St0. destruct St0 as (B0 & St0).
        assert (Hc : rv_fdt_current (closed_of p r) = [] \/ HdOk (rv_fdt_current (closed_of p r))).
        { destruct ph; [right|left]; exact (proj1 St0). }
        pose proof (fdt_step _ c p B0 Fp Hc) as H.
        destruct (push_fdt_obj E parse_fdt cfg p now (closed_of p r) c) as [[x r1] c1].
        destruct H as (B1 & H1 & H2 & H3 & H4 & H5). left. split; [exact B1|]. split; [exact H1|].
        destruct ph.
        + destruct St0 as (_ & [[M ->]|[M|M]]); [left; split; [exact (H2 M)|reflexivity]|right; left; exact (H3 seen M)|right; right; exact (H4 M)].
        + destruct St0 as (Hcur & [[M ->]|M]); [left; split; [exact (H2 M)|reflexivity]|right; exact (H5 seen Hcur M)].
      - destruct (N.eqb_spec (a_toi p) toi) as [T|T].
        + (* a packet of the object *)
          destruct W as (GC & W'). exists ph, (pid p :: seen). split; [exact W'|]. rewrite (step_is_push E parse_fdt cfg now r c p Z).
          pose proof (stm_closed ph seen r c p St) as St0. destruct St0 as (B0 & St0).
          pose proof (push_obj_iso E cfg p now _ c (proj1 B0) (proj1 (proj2 B0))) as Iso.
          destruct ph.
          * destruct GC as (Gp & Cl). destruct St0 as (Hd & [[M ->]|[M|M]]).
            -- pose proof (m_push_first E cfg content toi now inst f SP LV gen pid cov I_state I_writer I_nc I_step I_attach
                             _ c p M (common_of _ c B0 Hd) T Gp Cl) as H.
               destruct (push_obj E cfg p now (closed_of p r) c) as [[x r1] c1].
               destruct H as [H (_ & _ & Hd1)]. destruct (base_of_iso _ _ _ _ _ B0 Iso) as [B1 _].
               left. split; [exact B1|]. split; [exact Hd1|]. right. exact H.
            -- pose proof (m_push_recv E cfg content toi now inst f SP LV gen pid cov I_state I_writer I_nc I_step
                             seen _ c p M (common_of _ c B0 Hd) T Gp Cl) as H.
               destruct (push_obj E cfg p now (closed_of p r) c) as [[x r1] c1].
               destruct H as [H (_ & _ & Hd1)]. destruct (base_of_iso _ _ _ _ _ B0 Iso) as [B1 _].
               left. split; [exact B1|]. split; [exact Hd1|]. right. exact H.
            -- destruct (push_obj E cfg p now (closed_of p r) c) as [[x r1] c1]. right. split; [reflexivity|].
               destruct (a_close_sess p); exact M.
          * pose proof GC as Gp. destruct St0 as (Hcur & [[M ->]|M]).
            -- pose proof (pre_first _ c p B0 Hcur M Gp) as H.
               destruct (push_obj E cfg p now (closed_of p r) c) as [[x r1] c1].
               destruct H as (B1 & Hc1 & M1). left. split; [exact B1|]. split; [exact Hc1|]. right. exact M1.
            -- pose proof (pre_push seen _ c p B0 Hcur M Gp) as H.
               destruct (push_obj E cfg p now (closed_of p r) c) as [[x r1] c1].
               destruct H as (B1 & Hc1 & M1). left. split; [exact B1|]. split; [exact Hc1|]. right. exact M1.
        + (* a packet of another TOI *)
          exists ph, seen. split; [exact W|]. destruct St as (B & St).
          pose proof (other_step r c p Z T B) as H.
          destruct (recv_step E parse_fdt cfg r (RvPush p now) c) as [[x r1] c1].
          destruct H as (B1 & Cr & S4 & Fm). left. split; [exact B1|].
          destruct (same4_keep r c r1 c1 S4) as (X1 & X2 & _ & _ & X5).
          destruct ph.
          * destruct St as (Hd & St). split; [exact (headcur_rel _ _ _ _ Hd Cr)|].
            destruct St as [[M ->]|[M|M]]; [left; split; [exact (X1 M)|reflexivity]|right; left; exact (X2 seen M)|].
            right; right. exact (mdn_keep r c r1 c1 S4 Fm M).
          * destruct St as (Hcur & St). rewrite Hcur in Cr. split; [exact (currel_nil _ Cr)|].
            destruct St as [[M ->]|M]; [left; split; [exact (X1 M)|reflexivity]|right; exact (X5 seen M)]. }
    destruct K as (ph' & seen' & W' & K).
    destruct (recv_step E parse_fdt cfg r (RvPush p now) c) as [[x r1] c1] eqn:Es.
    destruct K as [St1|[Hph Dn]].
    - cbn [map recv_run]. rewrite Es. specialize (IH ph' seen' r1 c1 St1 W').
      destruct (recv_run E parse_fdt cfg r1 (map push rest) c1) as [[xs r2] c2]. exact IH.
    - exact (DoneCase Hph Dn).
  Qed.

  Lemma StM0 : StM false [] recv0 ctx0.
  Proof.
    split; [split; [exact RInv0|split; [exact EDisj0|reflexivity]]|]. split; [reflexivity|]. left. split; [|reflexivity].
    split; [reflexivity|]. split; [reflexivity|]. split; [reflexivity|apply CSame_refl].
  Qed.

  (* the session theorem, over the interface: any interleaving of FDT copies, packets of the object and packets of other
     non-zero TOIs, in the inductive form WFm *)
  Theorem late_multi_wf' evs : WFm' false [] evs ->
    let '(_, r, c) := recv_run E parse_fdt cfg recv0 (map push evs) ctx0 in RI r c /\ EDisj r /\ MDn r c.
  Proof. intros W. exact (run_main evs false [] recv0 ctx0 StM0 W). Qed.

  Theorem late_multi_wf evs : WFm false [] evs ->
    let '(_, r, c) := recv_run E parse_fdt cfg recv0 (map push evs) ctx0 in RI r c /\ EDisj r /\ MDn r c.
  Proof. intros W. exact (late_multi_wf' evs (wfm_weaken _ _ _ W)). Qed.

  (* D44, from list premises: [pre] holds no FDT packet, its packets of the object are in the form pktpre (any flag);
     [pf] is the first FDT packet; in [post] the FDT packets are good copies, the packets of the object are genuine and
     carry the flag only once the object is covered with it; in the end the symbols cover the object *)
  Lemma build_wfm_pre : forall pre seen rest,
    Forall (fun p => a_toi p <> 0) pre ->
    Forall (fun p => a_toi p = toi -> pktpre p) pre ->
    WFm' false (List.rev (map pid (mine toi pre)) ++ seen) rest ->
    WFm' false seen (pre ++ rest).
  Proof.
    induction pre as [|p pre IH]; intros seen rest Fz Fp W; [exact W|].
    pose proof (Forall_inv Fz) as Z; pose proof (Forall_inv_tail Fz) as Fz'.
    pose proof (Forall_inv Fp) as P; pose proof (Forall_inv_tail Fp) as Fp'. cbn beta in Z, P.
    cbn [app WFm']. unfold mine in W. cbn [filter] in W. fold (mine toi pre) in W.
    destruct (N.eqb_spec (a_toi p) 0) as [Z0|_]; [contradiction|].
    destruct (N.eqb_spec (a_toi p) toi) as [T|T].
    - split; [exact (P T)|]. apply IH; try assumption. cbn [map List.rev] in W. rewrite <- app_assoc in W. exact W.
    - apply IH; assumption.
  Qed.

  Lemma build_wfm_post : forall post seen,
    Forall (fun p => a_toi p = 0 -> FOk p) post ->
    Forall (fun p => a_toi p = toi -> gen p) post ->
    (forall a p b, mine toi post = a ++ p :: b -> a_close_obj p = true -> cov (map pid (a ++ [p]) ++ seen)) ->
    cov (map pid (mine toi post) ++ seen) ->
    WFm' true seen post.
  Proof.
    induction post as [|p post IH]; intros seen F0 Fg Cl Cv; [split; [reflexivity|exact Cv]|].
    pose proof (Forall_inv F0) as F0p; pose proof (Forall_inv_tail F0) as F0r.
    pose proof (Forall_inv Fg) as Fgp; pose proof (Forall_inv_tail Fg) as Fgr. cbn beta in F0p, Fgp.
    cbn [WFm']. unfold mine in Cl, Cv. cbn [filter] in Cl, Cv. fold (mine toi post) in Cl, Cv.
    destruct (N.eqb_spec (a_toi p) 0) as [Z|Z].
    - split; [exact (F0p Z)|]. destruct (N.eqb_spec (a_toi p) toi) as [T|_]; [congruence|]. apply IH; assumption.
    - destruct (N.eqb_spec (a_toi p) toi) as [T|T]; [|apply IH; assumption].
      split; [split; [exact (Fgp T)|]|].
      + intros Hc. exact (Cl [] p (mine toi post) eq_refl Hc).
      + apply IH; try assumption.
        * intros a q b Eq Hq. specialize (Cl (p :: a) q b). rewrite Eq in Cl. specialize (Cl eq_refl Hq).
          eapply I_cov_incl; [exact Cl|]. cbn [app map]. intros x [<-|Hx]; [apply in_or_app; right; left; reflexivity|].
          apply in_app_or in Hx. apply in_or_app. destruct Hx as [Hx|Hx]; [left; exact Hx|right; right; exact Hx].
        * eapply I_cov_incl; [exact Cv|]. cbn [map app]. intros x [<-|Hx]; [apply in_or_app; right; left; reflexivity|].
          apply in_app_or in Hx. apply in_or_app. destruct Hx as [Hx|Hx]; [left; exact Hx|right; right; exact Hx].
  Qed.

  Theorem late_multi_delivers_any_flag pre pf post :
    Forall (fun p => a_toi p <> 0) pre ->
    Forall (fun p => a_toi p = toi -> pktpre p) pre ->
    a_toi pf = 0 -> FOk pf ->
    Forall (fun p => a_toi p = 0 -> FOk p) post ->
    Forall (fun p => a_toi p = toi -> gen p) post ->
    (forall a p b, mine toi post = a ++ p :: b -> a_close_obj p = true -> cov (map pid (mine toi pre ++ a ++ [p]))) ->
    cov (map pid (mine toi pre ++ mine toi post)) ->
    let '(_, r, c) := recv_run E parse_fdt cfg recv0 (map push (pre ++ pf :: post)) ctx0 in RI r c /\ EDisj r /\ MDn r c.
  Proof.
    intros Fz Fp Zf Hf F0 Fg Cl Cv. apply late_multi_wf'. apply build_wfm_pre; try assumption.
    cbn [WFm']. rewrite Zf. cbn [N.eqb]. split; [exact Hf|]. rewrite app_nil_r.
    assert (Inc : forall l, incl (map pid (mine toi pre ++ l)) (map pid l ++ List.rev (map pid (mine toi pre)))).
    { intros l x Hx. rewrite map_app in Hx. apply in_app_or in Hx. apply in_or_app.
      destruct Hx as [Hx|Hx]; [right; apply in_rev; rewrite rev_involutive; exact Hx|left; exact Hx]. }
    apply build_wfm_post; try assumption.
    - intros a p b Eq Hp. eapply I_cov_incl; [exact (Cl a p b Eq Hp)|apply Inc].
    - eapply I_cov_incl; [exact Cv|apply Inc].
  Qed.

  (* from list premises to WFm: every FDT packet is a good copy, at least one comes; every packet of the object is fit to
     arrive before or after the instance and carries no close-object flag; the symbols cover the object *)
  Lemma build_wfm : forall evs ph seen,
    Forall (fun p => a_toi p = 0 -> FOk p) evs ->
    Forall (fun p => a_toi p = toi -> pktpre p /\ gen p /\ a_close_obj p = false) evs ->
    (ph = true \/ exists p, In p evs /\ a_toi p = 0) ->
    cov (List.rev (map pid (mine toi evs)) ++ seen) ->
    WFm ph seen evs.
  Proof.
    induction evs as [|p rest IH]; intros ph seen F0 Ft Hf Cv.
    { cbn [WFm]. split; [|exact Cv]. destruct Hf as [H|(p & [] & _)]. exact H. }
    pose proof (Forall_inv F0) as F0p; pose proof (Forall_inv_tail F0) as F0r.
    pose proof (Forall_inv Ft) as Ftp; pose proof (Forall_inv_tail Ft) as Ftr. cbn beta in F0p, Ftp.
    cbn [WFm]. unfold mine in Cv. cbn [filter] in Cv. fold (mine toi rest) in Cv.
    destruct (N.eqb_spec (a_toi p) 0) as [Z|Z].
    - split; [exact (F0p Z)|]. destruct (N.eqb_spec (a_toi p) toi) as [T|_]; [congruence|].
      apply IH; try assumption. left; reflexivity.
    - assert (Hf' : ph = true \/ exists q, In q rest /\ a_toi q = 0).
      { destruct Hf as [H|(q & [->|Hq] & Hz)]; [left; exact H|contradiction|right; exists q; split; assumption]. }
      destruct (N.eqb_spec (a_toi p) toi) as [T|T].
      + destruct (Ftp T) as (P1 & P2 & P3). split; [destruct ph; assumption|]. split; [intros H; congruence|].
        apply IH; try assumption. cbn [map List.rev] in Cv. rewrite <- app_assoc in Cv. exact Cv.
      + apply IH; assumption.
  Qed.

  Theorem late_multi_delivers evs :
    Forall (fun p => a_toi p = 0 -> FOk p) evs ->
    (exists p, In p evs /\ a_toi p = 0) ->
    Forall (fun p => a_toi p = toi -> pktpre p /\ gen p /\ a_close_obj p = false) evs ->
    cov (map pid (mine toi evs)) ->
    let '(_, r, c) := recv_run E parse_fdt cfg recv0 (map push evs) ctx0 in RI r c /\ EDisj r /\ MDn r c.
  Proof.
    intros F0 Hf Ft Cv. apply late_multi_wf. apply build_wfm; try assumption; [right; exact Hf|].
    exact (g_cov_rev cov I_cov_incl _ Cv).
  Qed.
End LateIface.

(* ================= 3. instances of the interface ================= *)
Lemma forall_mine (P : apkt -> Prop) toi evs :
  Forall P (filter (fun p => a_toi p =? toi) evs) <-> Forall (fun p => a_toi p = toi -> P p) evs.
Proof.
  rewrite !Forall_forall. split.
  - intros H p Hp Ht. apply H. apply filter_In. split; [exact Hp|apply N.eqb_eq; exact Ht].
  - intros H p Hp. apply filter_In in Hp. destruct Hp as [Hp Ht]. apply N.eqb_eq in Ht. exact (H p Hp Ht).
Qed.

(* ---- No-Code ---- *)
Section NoCodeLate.
  Variable E : env.
  Variable parse_fdt : list N -> option fdtinst.
  Variable cfg : rconfig.
  Variable oti : roti.
  Variable content : list N.
  Variable toi : N.
  Variable md5 : option (list N).
  Variables al as_ nal n : N.
  Variable now : Z.
  Hypothesis Hfec : ro_fec oti = FNoCode.
  Hypothesis He : 0 < ro_e oti.
  Hypothesis Hb : 0 < ro_b oti.
  Hypothesis HL : 0 < lenN_ content.
  Hypothesis Hu64 : lenN_ content + ro_e oti < U64.
  Hypothesis Hpart : block_partitioning (ro_b oti) (lenN_ content) (ro_e oti) = (al, as_, nal, n).
  Hypothesis Htoi : toi <> 0.
  Notation max := (cf_max_cache cfg).
  Notation w := (toi, 0%nat).
  Hypothesis Hnice : C02Full.Nice2 E content w md5 max n.
  Hypothesis Hacc : writer_accepts E toi.
  Variables (id : N) (inst : fdtinst) (f : fdtfile).
  Hypothesis Hfind : find (fun f => ff_toi f =? toi) (fi_files inst) = Some f.
  Hypothesis Hce : ff_cenc f = CNull.
  Hypothesis Hfo : match ff_oti f with Some x => Some x | None => fi_oti inst end = Some oti.
  Hypothesis Htl : ff_tlen f = lenN_ content.
  Hypothesis Hmd5 : ff_md5 f = md5.
  Variables (foti : roti) (d : list N).
  Hypothesis Hparse : parse_fdt d = Some inst.

  Notation SPn := (C02Full.Struct oti content w toi md5 max al as_ nal n).
  Notation genn := (C02Full.genuine oti content al as_ nal n).
  Notation covn := (C02Full.covered al as_ nal n).
  Notation PSn := (C02Session.PreS cfg oti content toi al as_ nal n).
  Notation pktpren := (C02Session.PktPre oti content toi al as_ nal n).

  Lemma nocode_late_core evs :
    Forall (fun p => a_toi p = 0 -> FOk cfg now id inst foti d p) evs ->
    (exists p, In p evs /\ a_toi p = 0) ->
    Forall (fun p => a_toi p = toi -> pktpren p /\ genn p /\ a_close_obj p = false) evs ->
    covn (map pid_of (mine toi evs)) ->
    let '(_, r, c) := recv_run E parse_fdt cfg recv0 (map (fun p => RvPush p now) evs) ctx0 in
    RI r c /\ EDisj r /\ MDone cfg content toi f r c.
  Proof.
    intros F0 Hf Ft Cv.
    refine (late_multi_delivers E parse_fdt cfg content toi now Htoi id inst f Hfind SPn C02Full.LiveAll genn pid_of covn
              _ _ _ _ _ (covered_incl' al as_ nal n) _ (ncm_fdtid cfg oti content toi md5 al as_ nal n) PSn pktpren _ _ _ _ _
              foti d Hparse evs F0 Hf Ft Cv).
    - intros o c. apply nci_state.
    - intros o c. apply nci_writer.
    - intros o c p. apply (nci_nc E cfg oti content toi md5 al as_ nal n He Hb HL Hu64).
    - intros o c seen p. apply (nci_step E cfg oti content toi md5 al as_ nal n Hfec He Hb HL Hu64 Hpart Hnice).
    - intros o c seen. apply (nci_notcov cfg oti content toi md5 al as_ nal n He Hb HL Hu64 Hpart).
    - intros fid c. apply (nci_attach E cfg oti content toi md5 al as_ nal n He Hb HL Hu64 Hpart Hacc inst f Hfind Hce Hfo Htl Hmd5).
    - intros o. apply C02Session.ps_state.
    - intros p P. exact (proj1 P).
    - intros c p. apply (ncj_first E cfg oti content toi md5 al as_ nal n Hfec He Hb HL Hu64 Hpart Htoi Hnice f Htl).
    - intros o c seen p. apply (ncj_push E cfg oti content toi md5 al as_ nal n Hfec He Hb HL Hu64 Hpart Htoi Hnice f Htl).
    - intros fid o c seen. apply (attach_pre E cfg oti content toi md5 al as_ nal n He Hb HL Hu64 Hpart Htoi Hnice Hacc inst f Hfind Hce Htl Hmd5).
  Qed.

  Lemma nocode_late_core_any_flag pre pf post :
    Forall (fun p => a_toi p <> 0) pre ->
    Forall (fun p => a_toi p = toi -> pktpren p) pre ->
    a_toi pf = 0 -> FOk cfg now id inst foti d pf ->
    Forall (fun p => a_toi p = 0 -> FOk cfg now id inst foti d p) post ->
    Forall (fun p => a_toi p = toi -> genn p) post ->
    (forall a p b, mine toi post = a ++ p :: b -> a_close_obj p = true -> covn (map pid_of (mine toi pre ++ a ++ [p]))) ->
    covn (map pid_of (mine toi pre ++ mine toi post)) ->
    let '(_, r, c) := recv_run E parse_fdt cfg recv0 (map (fun p => RvPush p now) (pre ++ pf :: post)) ctx0 in
    RI r c /\ EDisj r /\ MDone cfg content toi f r c.
  Proof.
    intros Fz Fp Zf Hf F0 Fg Cl Cv.
    refine (late_multi_delivers_any_flag E parse_fdt cfg content toi now Htoi id inst f Hfind SPn C02Full.LiveAll genn pid_of covn
              _ _ _ _ _ (covered_incl' al as_ nal n) _ (ncm_fdtid cfg oti content toi md5 al as_ nal n) PSn pktpren _ _ _ _ _
              foti d Hparse pre pf post Fz Fp Zf Hf F0 Fg Cl Cv).
    - intros o c. apply nci_state.
    - intros o c. apply nci_writer.
    - intros o c p. apply (nci_nc E cfg oti content toi md5 al as_ nal n He Hb HL Hu64).
    - intros o c seen p. apply (nci_step E cfg oti content toi md5 al as_ nal n Hfec He Hb HL Hu64 Hpart Hnice).
    - intros o c seen. apply (nci_notcov cfg oti content toi md5 al as_ nal n He Hb HL Hu64 Hpart).
    - intros fid c. apply (nci_attach E cfg oti content toi md5 al as_ nal n He Hb HL Hu64 Hpart Hacc inst f Hfind Hce Hfo Htl Hmd5).
    - intros o. apply C02Session.ps_state.
    - intros p P. exact (proj1 P).
    - intros c p. apply (ncj_first E cfg oti content toi md5 al as_ nal n Hfec He Hb HL Hu64 Hpart Htoi Hnice f Htl).
    - intros o c seen p. apply (ncj_push E cfg oti content toi md5 al as_ nal n Hfec He Hb HL Hu64 Hpart Htoi Hnice f Htl).
    - intros fid o c seen. apply (attach_pre E cfg oti content toi md5 al as_ nal n He Hb HL Hu64 Hpart Htoi Hnice Hacc inst f Hfind Hce Htl Hmd5).
  Qed.
End NoCodeLate.

(* an FDT packet of the carousel: a good copy of the instance, not expired on arrival *)
Definition fdt_copy (cfg : rconfig) (inst : fdtinst) (now : Z) (id : N) (foti : roti) (d : list N) (p : apkt) : Prop :=
  fdt_pkt_ok p id foti d /\ fdt_live cfg inst p now.

(* a packet that may arrive before as well as after the FDT instance: in-band FTI, no EXT_CENC, no close-object flag *)
Definition inband (oti : roti) (L : N) (p : apkt) : Prop :=
  a_oti p = Some (oti, L) /\ a_cenc p = None /\ a_close_obj p = false.

Lemma recoverable_sup oti L l l' : incl l l' -> recoverable oti L l = true -> recoverable oti L l' = true.
Proof. intros I. unfold recoverable. apply blocks_rec_incl. apply incl_map. exact I. Qed.

(* ONE No-Code object in a stream that carries the FDT instance anywhere (at least once; any number of copies), packets
   of the object in-band before and after it, and ARBITRARY packets of other non-zero TOIs *)
Theorem nocode_late_among_others_delivers E parse_fdt cfg oti content toi md5 now id foti d inst evs :
  let L := lenN_ content in
  nocode_ok oti L -> toi <> 0 -> parse_fdt d = Some inst ->
  fdt_entry_for (fi_files inst) (fi_oti inst) toi oti L md5 ->
  writer_accepts E toi -> writes_succeed E toi -> md5_good E content md5 ->
  L <= cf_max_cache cfg -> nb_blocks_of oti L <= 4097 ->
  Forall (fun p => a_toi p = 0 -> fdt_copy cfg inst now id foti d p) evs ->
  (exists p, In p evs /\ a_toi p = 0) ->
  let mine := filter (fun p => a_toi p =? toi) evs in
  Forall (fun p => genuine_pkt oti content p = true) mine ->
  Forall (inband oti L) mine ->
  recoverable oti L mine = true ->
  let '(_, r, c) := recv_run E parse_fdt cfg recv0 (map (fun p => RvPush p now) evs) ctx0 in
  multi_delivered cfg inst content toi r c.
Proof.
  intros L (Hfec & He & Hb & HL & Hu) Htoi Hparse (f & F1 & F2 & F3 & F4 & F5) Hacc Hwr Hmd5 Hmax Hn F0 Hf mn G Ib Rec.
  destruct (partition_of oti L) as [[[al as_] nal] n] eqn:Hpart. unfold partition_of in Hpart.
  assert (Hnb : nb_blocks_of oti L = n) by (unfold nb_blocks_of; rewrite Hpart; reflexivity).
  assert (Nc : C02Full.Nice2 E content (toi, 0%nat) md5 (cf_max_cache cfg) n).
  { split; [split; [exact Hwr|exact Hmd5]|]. split; [exact Hmax|]. rewrite <- Hnb. exact Hn. }
  pose proof (genuine_pkt_spec _ _ _ _ _ _ _ Hpart G) as G'.
  assert (Ft : Forall (fun p => a_toi p = toi ->
                 C02Session.PktPre oti content toi al as_ nal n p /\ C02Full.genuine oti content al as_ nal n p
                 /\ a_close_obj p = false) evs).
  { apply forall_mine. apply (proj1 (forall_mine _ toi evs)) in G'. apply (proj1 (forall_mine _ toi evs)) in Ib.
    apply forall_mine. rewrite Forall_forall in *. intros p Hp Ht. destruct (Ib p Hp Ht) as (I1 & I2 & I3).
    pose proof (G' p Hp Ht) as Gp. split; [|split; [exact Gp|exact I3]]. split; [exact Ht|]. split; [exact I1|]. split; [exact I2|exact Gp]. }
  pose proof (nocode_late_core E parse_fdt cfg oti content toi md5 al as_ nal n now Hfec He Hb HL Hu Hpart Htoi Nc Hacc
                id inst f F1 F2 F3 F4 F5 foti d Hparse evs F0 Hf Ft) as D.
  assert (D' : let '(_, r, c) := recv_run E parse_fdt cfg recv0 (map (fun p => RvPush p now) evs) ctx0 in
               RI r c /\ EDisj r /\ MDone cfg content toi f r c).
  { apply D. apply recoverable_covered. unfold recoverable, source_ks, partition_of in Rec. rewrite Hpart in Rec. exact Rec. }
  destruct (recv_run E parse_fdt cfg recv0 (map (fun p => RvPush p now) evs) ctx0) as [[xs r] c].
  destruct D' as (_ & _ & Dn). eapply mdone_delivered; eassumption.
Qed.
Print Assumptions nocode_late_among_others_delivers.

(* ---- the oracle schemes: Reed-Solomon, RaptorQ / Raptor ---- *)
Section RSLate.
  Variable E : env.
  Variable parse_fdt : list N -> option fdtinst.
  Variable cfg : rconfig.
  Variable oti : roti.
  Variable content : list N.
  Variable rep : N -> N -> list N.
  Variable toi : N.
  Variable md5 : option (list N).
  Variables al as_ nal n : N.
  Variable now : Z.
  Hypothesis Hfec : fec_oracle (ro_fec oti) = true.
  Hypothesis He : 0 < ro_e oti.
  Hypothesis Hb : 0 < ro_b oti.
  Hypothesis HL : 0 < lenN_ content.
  Hypothesis Hu64 : lenN_ content + ro_e oti < U64.
  Hypothesis Hpart : block_partitioning (ro_b oti) (lenN_ content) (ro_e oti) = (al, as_, nal, n).
  Hypothesis Htoi : toi <> 0.
  Notation max := (cf_max_cache cfg).
  Notation w := (toi, 0%nat).
  Hypothesis Hsound : forall s sh d, s < n -> Callable oti al as_ nal s sh ->
    NoDup (map fst sh) -> Forall (shard_ok oti content rep al as_ nal s) sh ->
    e_fec E toi (ro_fec oti) s (k_of al as_ nal s) (ro_e oti) (bsz oti content al as_ nal s) sh = Some d ->
    Good oti content al as_ nal n s d.
  Hypothesis HM : Mds E oti content rep toi al as_ nal n.
  Hypothesis Hnice : C02RS.Nice2 E oti content w md5 max al as_ nal n.
  Hypothesis Hacc : writer_accepts E toi.
  Variables (id : N) (inst : fdtinst) (f : fdtfile).
  Hypothesis Hfind : find (fun f => ff_toi f =? toi) (fi_files inst) = Some f.
  Hypothesis Hce : ff_cenc f = CNull.
  Hypothesis Hfo : match ff_oti f with Some x => Some x | None => fi_oti inst end = Some oti.
  Hypothesis Htl : ff_tlen f = lenN_ content.
  Hypothesis Hmd5 : ff_md5 f = md5.
  Variables (foti : roti) (d : list N).
  Hypothesis Hparse : parse_fdt d = Some inst.

  Notation SPr := (C02RS.Struct E oti content rep w toi md5 max al as_ nal n).
  Notation covr := (C02RS.covered oti al as_ nal n).
  Notation genr' := (genr oti content rep al as_ nal n).
  Notation PreR' := (PreR E cfg oti content rep toi al as_ nal n).
  Notation pktprer' := (pktprer oti content rep toi al as_ nal n).

  Lemma rs_late_core' evs :
    Forall (fun p => a_toi p = 0 -> FOk cfg now id inst foti d p) evs ->
    (exists p, In p evs /\ a_toi p = 0) ->
    Forall (fun p => a_toi p = toi -> pktprer' p /\ genr' p /\ a_close_obj p = false) evs ->
    covr (map (rs_pid oti) (mine toi evs)) ->
    let '(_, r, c) := recv_run E parse_fdt cfg recv0 (map (fun p => RvPush p now) evs) ctx0 in
    RI r c /\ EDisj r /\ MDone cfg content toi f r c.
  Proof.
    intros F0 Hf Ft Cv.
    refine (late_multi_delivers E parse_fdt cfg content toi now Htoi id inst f Hfind SPr C02RS.LiveAll genr' (rs_pid oti) covr
              _ _ _ _ _ (rsi_cov_incl oti al as_ nal n) _ (rsm_fdtid E cfg oti content rep toi md5 al as_ nal n) PreR' pktprer' _ _ _ _ _
              foti d Hparse evs F0 Hf Ft Cv).
    - intros o c. apply rsi_state.
    - intros o c. apply rsi_writer.
    - intros o c p. apply (rsi_nc E cfg oti content rep toi md5 al as_ nal n); assumption.
    - intros o c seen p. apply (rsi_step E cfg oti content rep toi md5 al as_ nal n Hfec He Hb HL Hu64 Hpart Hsound HM Hnice).
    - intros o c seen. apply (rsi_notcov E cfg oti content rep toi md5 al as_ nal n); assumption.
    - intros fid c. apply (rsi_attach E cfg oti content rep toi md5 al as_ nal n He Hb HL Hu64 Hpart Htoi Hacc inst f Hfind Hce Hfo Htl Hmd5).
    - intros o. apply pr_state.
    - intros p P. exact (proj1 P).
    - intros c p. apply (rsj_first E cfg oti content rep toi md5 al as_ nal n Hfec He Hb HL Hu64 Hpart Htoi Hsound Hnice f Htl).
    - intros o c seen p. apply (rsj_push E cfg oti content rep toi md5 al as_ nal n Hfec He Hb HL Hu64 Hpart Htoi Hsound Hnice f Htl).
    - intros fid o c seen. apply (rattach_pre E cfg oti content rep toi md5 al as_ nal n He Hb HL Hu64 Hpart Htoi Hnice Hacc inst f Hfind Hce Htl Hmd5).
  Qed.

  Lemma rs_late_core_any_flag pre pf post :
    Forall (fun p => a_toi p <> 0) pre ->
    Forall (fun p => a_toi p = toi -> pktprer' p) pre ->
    a_toi pf = 0 -> FOk cfg now id inst foti d pf ->
    Forall (fun p => a_toi p = 0 -> FOk cfg now id inst foti d p) post ->
    Forall (fun p => a_toi p = toi -> genr' p) post ->
    (forall a p b, mine toi post = a ++ p :: b -> a_close_obj p = true -> covr (map (rs_pid oti) (mine toi pre ++ a ++ [p]))) ->
    covr (map (rs_pid oti) (mine toi pre ++ mine toi post)) ->
    let '(_, r, c) := recv_run E parse_fdt cfg recv0 (map (fun p => RvPush p now) (pre ++ pf :: post)) ctx0 in
    RI r c /\ EDisj r /\ MDone cfg content toi f r c.
  Proof.
    intros Fz Fp Zf Hf F0 Fg Cl Cv.
    refine (late_multi_delivers_any_flag E parse_fdt cfg content toi now Htoi id inst f Hfind SPr C02RS.LiveAll genr' (rs_pid oti) covr
              _ _ _ _ _ (rsi_cov_incl oti al as_ nal n) _ (rsm_fdtid E cfg oti content rep toi md5 al as_ nal n) PreR' pktprer' _ _ _ _ _
              foti d Hparse pre pf post Fz Fp Zf Hf F0 Fg Cl Cv).
    - intros o c. apply rsi_state.
    - intros o c. apply rsi_writer.
    - intros o c p. apply (rsi_nc E cfg oti content rep toi md5 al as_ nal n); assumption.
    - intros o c seen p. apply (rsi_step E cfg oti content rep toi md5 al as_ nal n Hfec He Hb HL Hu64 Hpart Hsound HM Hnice).
    - intros o c seen. apply (rsi_notcov E cfg oti content rep toi md5 al as_ nal n); assumption.
    - intros fid c. apply (rsi_attach E cfg oti content rep toi md5 al as_ nal n He Hb HL Hu64 Hpart Htoi Hacc inst f Hfind Hce Hfo Htl Hmd5).
    - intros o. apply pr_state.
    - intros p P. exact (proj1 P).
    - intros c p. apply (rsj_first E cfg oti content rep toi md5 al as_ nal n Hfec He Hb HL Hu64 Hpart Htoi Hsound Hnice f Htl).
    - intros o c seen p. apply (rsj_push E cfg oti content rep toi md5 al as_ nal n Hfec He Hb HL Hu64 Hpart Htoi Hsound Hnice f Htl).
    - intros fid o c seen. apply (rattach_pre E cfg oti content rep toi md5 al as_ nal n He Hb HL Hu64 Hpart Htoi Hnice Hacc inst f Hfind Hce Htl Hmd5).
  Qed.
End RSLate.

Lemma rs_late_ft oti content rep toi al as_ nal n evs :
  Forall (genr oti content rep al as_ nal n) (filter (fun p => a_toi p =? toi) evs) ->
  Forall (inband oti (lenN_ content)) (filter (fun p => a_toi p =? toi) evs) ->
  Forall (fun p => a_toi p = toi -> pktprer oti content rep toi al as_ nal n p /\ genr oti content rep al as_ nal n p
                                    /\ a_close_obj p = false) evs.
Proof.
  intros G Ib. apply (proj1 (forall_mine _ toi evs)) in G. apply (proj1 (forall_mine _ toi evs)) in Ib.
  rewrite Forall_forall in *. intros p Hp Ht. destruct (Ib p Hp Ht) as (I1 & I2 & I3).
  pose proof (G p Hp Ht) as Gp. split; [|split; [exact Gp|exact I3]]. split; [exact Ht|]. split; [exact I1|]. split; [exact I2|exact Gp].
Qed.

Theorem rs_late_among_others_delivers E parse_fdt cfg oti content rep toi md5 now id foti d inst evs :
  let L := lenN_ content in
  rs_scheme_ok oti L -> rs_blocks_ok oti L -> toi <> 0 -> parse_fdt d = Some inst ->
  fdt_entry_for (fi_files inst) (fi_oti inst) toi oti L md5 ->
  writer_accepts E toi -> writes_succeed E toi -> md5_good E content md5 ->
  rs_oracle_mds E oti content rep toi -> rs_rep_sized oti rep ->
  rs_mem_need oti L <= cf_max_cache cfg -> nb_blocks_of oti L <= 4097 ->
  Forall (fun p => a_toi p = 0 -> fdt_copy cfg inst now id foti d p) evs ->
  (exists p, In p evs /\ a_toi p = 0) ->
  let mine := filter (fun p => a_toi p =? toi) evs in
  Forall (fun p => rs_genuine_pkt oti content rep p = true) mine ->
  Forall (inband oti L) mine ->
  rs_recoverable oti L mine = true ->
  let '(_, r, c) := recv_run E parse_fdt cfg recv0 (map (fun p => RvPush p now) evs) ctx0 in
  multi_delivered cfg inst content toi r c.
Proof.
  intros L (Hrsf & He & Hb & HL & Hu) Hrs Htoi Hparse (f & F1 & F2 & F3 & F4 & F5) Hacc Hwr Hmd5 Hor Hrz Hmax Hn F0 Hf mn G Ib Rec.
  destruct (rs_is_cls oti Hrsf) as [Hcls Hfec].
  destruct (partition_of oti L) as [[[al as_] nal] n] eqn:Hpart.
  pose proof (top_sound E oti content rep toi al as_ nal n Hcls He Hb HL Hpart (rs_oracle_mds_sound _ _ _ _ _ Hor)) as Hsound.
  pose proof (top_mds E oti content rep toi al as_ nal n Hcls Hpart Hor) as HM.
  pose proof Hpart as Hpart'. unfold partition_of in Hpart'.
  assert (Hnb : nb_blocks_of oti L = n) by (unfold nb_blocks_of; rewrite Hpart'; reflexivity).
  assert (Nc : C02RS.Nice2 E oti content (toi, 0%nat) md5 (cf_max_cache cfg) al as_ nal n).
  { split; [split; [exact Hwr|exact Hmd5]|]. split; [rewrite M_mem_need; exact Hmax|]. split; [rewrite <- Hnb; exact Hn|].
    apply (rs_blocks_ok_spec oti L); assumption. }
  assert (G' : Forall (genr oti content rep al as_ nal n) mn).
  { pose proof (rs_genuine_pkt_spec oti content rep al as_ nal n mn Hpart G) as G1. eapply Forall_impl; [|exact G1].
    intros p Hp. split; [exact Hp|exact (rs_genuine_sized oti content rep al as_ nal n p Hrsf Hrz Hp)]. }
  pose proof (rs_late_core' E parse_fdt cfg oti content rep toi md5 al as_ nal n now Hfec He Hb HL Hu Hpart' Htoi Hsound HM Nc Hacc
                id inst f F1 F2 F3 F4 F5 foti d Hparse evs F0 Hf (rs_late_ft oti content rep toi al as_ nal n evs G' Ib)) as D.
  assert (D' : let '(_, r, c) := recv_run E parse_fdt cfg recv0 (map (fun p => RvPush p now) evs) ctx0 in
               RI r c /\ EDisj r /\ MDone cfg content toi f r c).
  { apply D. apply (recoverable_covered_rs oti); [exact Hcls|]. unfold rs_recoverable, source_ks in Rec. rewrite Hpart in Rec. exact Rec. }
  destruct (recv_run E parse_fdt cfg recv0 (map (fun p => RvPush p now) evs) ctx0) as [[xs r] c].
  destruct D' as (_ & _ & Dn). eapply mdone_delivered; eassumption.
Qed.

Theorem fq_late_among_others_delivers E parse_fdt cfg oti content enc toi md5 now id foti d inst evs :
  let L := lenN_ content in
  fq_scheme_ok oti L -> fq_blocks_ok oti L -> toi <> 0 -> parse_fdt d = Some inst ->
  fdt_entry_for (fi_files inst) (fi_oti inst) toi oti L md5 ->
  writer_accepts E toi -> writes_succeed E toi -> md5_good E content md5 ->
  fq_oracle_sound E oti content enc toi -> fq_oracle_complete E oti content enc toi ->
  L <= cf_max_cache cfg -> nb_blocks_of oti L <= 4097 ->
  Forall (fun p => a_toi p = 0 -> fdt_copy cfg inst now id foti d p) evs ->
  (exists p, In p evs /\ a_toi p = 0) ->
  let mine := filter (fun p => a_toi p =? toi) evs in
  Forall (fun p => fq_genuine_pkt oti content enc p = true) mine ->
  Forall (fun p => fq_sized_pkt oti p = true) mine ->
  Forall (inband oti L) mine ->
  fq_recoverable oti L mine = true ->
  let '(_, r, c) := recv_run E parse_fdt cfg recv0 (map (fun p => RvPush p now) evs) ctx0 in
  multi_delivered cfg inst content toi r c.
Proof.
  intros L (Hf' & He & Hb & HL & Hu) Hsch Htoi Hparse (f & F1 & F2 & F3 & F4 & F5) Hacc Hwr Hmd5 Hos Hoc Hmax Hn F0 Hf mn G Zs Ib Rec.
  destruct (fq_is_fq oti Hf') as (Hcls & Hus & Hfec).
  destruct (partition_of oti L) as [[[al as_] nal] n] eqn:Hpart.
  pose proof Hpart as Hpart'. unfold partition_of in Hpart'.
  pose proof (top_sound_fq E oti content enc toi al as_ nal n Hcls Hus He Hb HL Hu Hpart Hos) as Hsound.
  pose proof (top_complete_fq E oti content enc toi al as_ nal n Hcls Hus He Hb HL Hu Hpart Hoc) as HM.
  assert (Hnb : nb_blocks_of oti L = n) by (unfold nb_blocks_of; rewrite Hpart'; reflexivity).
  assert (Nc : C02RS.Nice2 E oti content (toi, 0%nat) md5 (cf_max_cache cfg) al as_ nal n).
  { split; [split; [exact Hwr|exact Hmd5]|]. split; [unfold M; rewrite Hus; exact Hmax|]. split; [rewrite <- Hnb; exact Hn|].
    apply (fq_blocks_ok_spec oti L); assumption. }
  assert (G' : Forall (genr oti content enc al as_ nal n) mn).
  { pose proof (fq_genuine_pkt_spec oti content enc al as_ nal n mn Hpart G) as G1.
    pose proof (fq_sized_pkt_spec oti mn Zs) as Z1. rewrite Forall_forall in *. intros p Hp. split; [exact (G1 p Hp)|exact (Z1 p Hp)]. }
  pose proof (rs_late_core' E parse_fdt cfg oti content enc toi md5 al as_ nal n now Hfec He Hb HL Hu Hpart' Htoi Hsound HM Nc Hacc
                id inst f F1 F2 F3 F4 F5 foti d Hparse evs F0 Hf (rs_late_ft oti content enc toi al as_ nal n evs G' Ib)) as D.
  assert (D' : let '(_, r, c) := recv_run E parse_fdt cfg recv0 (map (fun p => RvPush p now) evs) ctx0 in
               RI r c /\ EDisj r /\ MDone cfg content toi f r c).
  { apply D. apply (recoverable_covered_fq oti); [exact Hcls|]. unfold fq_recoverable, source_ks in Rec. rewrite Hpart in Rec. exact Rec. }
  destruct (recv_run E parse_fdt cfg recv0 (map (fun p => RvPush p now) evs) ctx0) as [[xs r] c].
  destruct D' as (_ & _ & Dn). eapply mdone_delivered; eassumption.
Qed.
Print Assumptions rs_late_among_others_delivers.
Print Assumptions fq_late_among_others_delivers.

(* ---- D44: the three theorems above without "no close-object flag before the FDT instance" ----
   The stream is split at its FIRST FDT packet: pre ++ pf :: post, no TOI-0 packet in pre.  The packets of the object in
   pre (mine1) carry EXT_FTI = (oti, L), no EXT_CENC and ANY close-object flag (ignored: no writer yet); those in post
   (mine2) are genuine in any form (with or without EXT_FTI) and carry the flag only once mine1 and the packets up to it
   are recoverable (close_flag_ok_after); packets of other non-zero TOIs are arbitrary. *)
Lemma pktpre_of_mine (P G : apkt -> Prop) toi (oti : roti) L pre :
  Forall G (filter (fun p => a_toi p =? toi) pre) ->
  Forall (fun p => a_oti p = Some (oti, L) /\ a_cenc p = None) (filter (fun p => a_toi p =? toi) pre) ->
  (forall p, a_toi p = toi -> a_oti p = Some (oti, L) -> a_cenc p = None -> G p -> P p) ->
  Forall (fun p => a_toi p = toi -> P p) pre.
Proof.
  intros HG HI K. apply (proj1 (forall_mine _ toi pre)) in HG. apply (proj1 (forall_mine _ toi pre)) in HI.
  rewrite Forall_forall in *. intros p Hp Ht. destruct (HI p Hp Ht) as [I1 I2]. exact (K p Ht I1 I2 (HG p Hp Ht)).
Qed.

Theorem nocode_late_among_others_delivers_any_flag_before_fdt E parse_fdt cfg oti content toi md5 now id foti d inst pre pf post :
  let L := lenN_ content in
  nocode_ok oti L -> toi <> 0 -> parse_fdt d = Some inst ->
  fdt_entry_for (fi_files inst) (fi_oti inst) toi oti L md5 ->
  writer_accepts E toi -> writes_succeed E toi -> md5_good E content md5 ->
  L <= cf_max_cache cfg -> nb_blocks_of oti L <= 4097 ->
  Forall (fun p => a_toi p <> 0) pre ->
  fdt_copy cfg inst now id foti d pf ->
  Forall (fun p => a_toi p = 0 -> fdt_copy cfg inst now id foti d p) post ->
  let mine1 := filter (fun p => a_toi p =? toi) pre in
  let mine2 := filter (fun p => a_toi p =? toi) post in
  Forall (fun p => genuine_pkt oti content p = true) (mine1 ++ mine2) ->
  Forall (fun p => a_oti p = Some (oti, L) /\ a_cenc p = None) mine1 ->
  close_flag_ok_after (recoverable oti L) mine1 mine2 ->
  recoverable oti L (mine1 ++ mine2) = true ->
  let '(_, r, c) := recv_run E parse_fdt cfg recv0 (map (fun p => RvPush p now) (pre ++ pf :: post)) ctx0 in
  multi_delivered cfg inst content toi r c.
Proof.
  intros L (Hfec & He & Hb & HL & Hu) Htoi Hparse (f & F1 & F2 & F3 & F4 & F5) Hacc Hwr Hmd5 Hmax Hn Fz Hpf F0 m1 m2 G Ib Cl Rec.
  destruct (partition_of oti L) as [[[al as_] nal] n] eqn:Hpart. unfold partition_of in Hpart.
  assert (Hnb : nb_blocks_of oti L = n) by (unfold nb_blocks_of; rewrite Hpart; reflexivity).
  assert (Nc : C02Full.Nice2 E content (toi, 0%nat) md5 (cf_max_cache cfg) n).
  { split; [split; [exact Hwr|exact Hmd5]|]. split; [exact Hmax|]. rewrite <- Hnb. exact Hn. }
  assert (Cov : forall l, recoverable oti L l = true -> C02Full.covered al as_ nal n (map pid_of l)).
  { intros l H. apply recoverable_covered. unfold recoverable, source_ks, partition_of in H. rewrite Hpart in H. exact H. }
  pose proof (genuine_pkt_spec _ _ _ _ _ _ _ Hpart G) as G'. apply Forall_app in G'. destruct G' as [G1 G2].
  assert (Zf : a_toi pf = 0) by (destruct Hpf as ((Hz & _) & _); exact Hz).
  pose proof (nocode_late_core_any_flag E parse_fdt cfg oti content toi md5 al as_ nal n now Hfec He Hb HL Hu Hpart Htoi Nc Hacc
                id inst f F1 F2 F3 F4 F5 foti d Hparse pre pf post Fz) as D.
  assert (D' : let '(_, r, c) := recv_run E parse_fdt cfg recv0 (map (fun p => RvPush p now) (pre ++ pf :: post)) ctx0 in
               RI r c /\ EDisj r /\ MDone cfg content toi f r c).
  { apply D; try assumption.
    - apply (pktpre_of_mine _ (C02Full.genuine oti content al as_ nal n) toi oti L pre G1 Ib).
      intros p Ht I1 I2 Gp. split; [exact Ht|]. split; [exact I1|]. split; [exact I2|exact Gp].
    - apply (proj1 (forall_mine _ toi post)). exact G2.
    - intros a p b Eq Hp. apply Cov. exact (Cl a p b Eq Hp).
    - apply Cov. exact Rec. }
  destruct (recv_run E parse_fdt cfg recv0 (map (fun p => RvPush p now) (pre ++ pf :: post)) ctx0) as [[xs r] c].
  destruct D' as (_ & _ & Dn). eapply mdone_delivered; eassumption.
Qed.

Theorem rs_late_among_others_delivers_any_flag_before_fdt E parse_fdt cfg oti content rep toi md5 now id foti d inst pre pf post :
  let L := lenN_ content in
  rs_scheme_ok oti L -> rs_blocks_ok oti L -> toi <> 0 -> parse_fdt d = Some inst ->
  fdt_entry_for (fi_files inst) (fi_oti inst) toi oti L md5 ->
  writer_accepts E toi -> writes_succeed E toi -> md5_good E content md5 ->
  rs_oracle_mds E oti content rep toi -> rs_rep_sized oti rep ->
  rs_mem_need oti L <= cf_max_cache cfg -> nb_blocks_of oti L <= 4097 ->
  Forall (fun p => a_toi p <> 0) pre ->
  fdt_copy cfg inst now id foti d pf ->
  Forall (fun p => a_toi p = 0 -> fdt_copy cfg inst now id foti d p) post ->
  let mine1 := filter (fun p => a_toi p =? toi) pre in
  let mine2 := filter (fun p => a_toi p =? toi) post in
  Forall (fun p => rs_genuine_pkt oti content rep p = true) (mine1 ++ mine2) ->
  Forall (fun p => a_oti p = Some (oti, L) /\ a_cenc p = None) mine1 ->
  close_flag_ok_after (rs_recoverable oti L) mine1 mine2 ->
  rs_recoverable oti L (mine1 ++ mine2) = true ->
  let '(_, r, c) := recv_run E parse_fdt cfg recv0 (map (fun p => RvPush p now) (pre ++ pf :: post)) ctx0 in
  multi_delivered cfg inst content toi r c.
Proof.
  intros L (Hrsf & He & Hb & HL & Hu) Hrs Htoi Hparse (f & F1 & F2 & F3 & F4 & F5) Hacc Hwr Hmd5 Hor Hrz Hmax Hn Fz Hpf F0 m1 m2 G Ib Cl Rec.
  destruct (rs_is_cls oti Hrsf) as [Hcls Hfec].
  destruct (partition_of oti L) as [[[al as_] nal] n] eqn:Hpart.
  pose proof (top_sound E oti content rep toi al as_ nal n Hcls He Hb HL Hpart (rs_oracle_mds_sound _ _ _ _ _ Hor)) as Hsound.
  pose proof (top_mds E oti content rep toi al as_ nal n Hcls Hpart Hor) as HM.
  pose proof Hpart as Hpart'. unfold partition_of in Hpart'.
  assert (Hnb : nb_blocks_of oti L = n) by (unfold nb_blocks_of; rewrite Hpart'; reflexivity).
  assert (Nc : C02RS.Nice2 E oti content (toi, 0%nat) md5 (cf_max_cache cfg) al as_ nal n).
  { split; [split; [exact Hwr|exact Hmd5]|]. split; [rewrite M_mem_need; exact Hmax|]. split; [rewrite <- Hnb; exact Hn|].
    apply (rs_blocks_ok_spec oti L); assumption. }
  assert (Cov : forall l, rs_recoverable oti L l = true -> C02RS.covered oti al as_ nal n (map (rs_pid oti) l)).
  { intros l H. apply (recoverable_covered_rs oti); [exact Hcls|]. unfold rs_recoverable, source_ks in H. rewrite Hpart in H. exact H. }
  assert (G' : Forall (genr oti content rep al as_ nal n) (m1 ++ m2)).
  { pose proof (rs_genuine_pkt_spec oti content rep al as_ nal n (m1 ++ m2) Hpart G) as G1. eapply Forall_impl; [|exact G1].
    intros p Hp. split; [exact Hp|exact (rs_genuine_sized oti content rep al as_ nal n p Hrsf Hrz Hp)]. }
  apply Forall_app in G'. destruct G' as [G1 G2].
  assert (Zf : a_toi pf = 0) by (destruct Hpf as ((Hz & _) & _); exact Hz).
  pose proof (rs_late_core_any_flag E parse_fdt cfg oti content rep toi md5 al as_ nal n now Hfec He Hb HL Hu Hpart' Htoi Hsound HM Nc Hacc
                id inst f F1 F2 F3 F4 F5 foti d Hparse pre pf post Fz) as D.
  assert (D' : let '(_, r, c) := recv_run E parse_fdt cfg recv0 (map (fun p => RvPush p now) (pre ++ pf :: post)) ctx0 in
               RI r c /\ EDisj r /\ MDone cfg content toi f r c).
  { apply D; try assumption.
    - apply (pktpre_of_mine _ (genr oti content rep al as_ nal n) toi oti L pre G1 Ib).
      intros p Ht I1 I2 Gp. split; [exact Ht|]. split; [exact I1|]. split; [exact I2|exact Gp].
    - apply (proj1 (forall_mine _ toi post)). exact G2.
    - intros a p b Eq Hp. apply Cov. exact (Cl a p b Eq Hp).
    - apply Cov. exact Rec. }
  destruct (recv_run E parse_fdt cfg recv0 (map (fun p => RvPush p now) (pre ++ pf :: post)) ctx0) as [[xs r] c].
  destruct D' as (_ & _ & Dn). eapply mdone_delivered; eassumption.
Qed.

Theorem fq_late_among_others_delivers_any_flag_before_fdt E parse_fdt cfg oti content enc toi md5 now id foti d inst pre pf post :
  let L := lenN_ content in
  fq_scheme_ok oti L -> fq_blocks_ok oti L -> toi <> 0 -> parse_fdt d = Some inst ->
  fdt_entry_for (fi_files inst) (fi_oti inst) toi oti L md5 ->
  writer_accepts E toi -> writes_succeed E toi -> md5_good E content md5 ->
  fq_oracle_sound E oti content enc toi -> fq_oracle_complete E oti content enc toi ->
  L <= cf_max_cache cfg -> nb_blocks_of oti L <= 4097 ->
  Forall (fun p => a_toi p <> 0) pre ->
  fdt_copy cfg inst now id foti d pf ->
  Forall (fun p => a_toi p = 0 -> fdt_copy cfg inst now id foti d p) post ->
  let mine1 := filter (fun p => a_toi p =? toi) pre in
  let mine2 := filter (fun p => a_toi p =? toi) post in
  Forall (fun p => fq_genuine_pkt oti content enc p = true) (mine1 ++ mine2) ->
  Forall (fun p => fq_sized_pkt oti p = true) (mine1 ++ mine2) ->
  Forall (fun p => a_oti p = Some (oti, L) /\ a_cenc p = None) mine1 ->
  close_flag_ok_after (fq_recoverable oti L) mine1 mine2 ->
  fq_recoverable oti L (mine1 ++ mine2) = true ->
  let '(_, r, c) := recv_run E parse_fdt cfg recv0 (map (fun p => RvPush p now) (pre ++ pf :: post)) ctx0 in
  multi_delivered cfg inst content toi r c.
Proof.
  intros L (Hf' & He & Hb & HL & Hu) Hsch Htoi Hparse (f & F1 & F2 & F3 & F4 & F5) Hacc Hwr Hmd5 Hos Hoc Hmax Hn Fz Hpf F0 m1 m2 G Zs Ib Cl Rec.
  destruct (fq_is_fq oti Hf') as (Hcls & Hus & Hfec).
  destruct (partition_of oti L) as [[[al as_] nal] n] eqn:Hpart.
  pose proof Hpart as Hpart'. unfold partition_of in Hpart'.
  pose proof (top_sound_fq E oti content enc toi al as_ nal n Hcls Hus He Hb HL Hu Hpart Hos) as Hsound.
  pose proof (top_complete_fq E oti content enc toi al as_ nal n Hcls Hus He Hb HL Hu Hpart Hoc) as HM.
  assert (Hnb : nb_blocks_of oti L = n) by (unfold nb_blocks_of; rewrite Hpart'; reflexivity).
  assert (Nc : C02RS.Nice2 E oti content (toi, 0%nat) md5 (cf_max_cache cfg) al as_ nal n).
  { split; [split; [exact Hwr|exact Hmd5]|]. split; [unfold M; rewrite Hus; exact Hmax|]. split; [rewrite <- Hnb; exact Hn|].
    apply (fq_blocks_ok_spec oti L); assumption. }
  assert (Cov : forall l, fq_recoverable oti L l = true -> C02RS.covered oti al as_ nal n (map (rs_pid oti) l)).
  { intros l H. apply (recoverable_covered_fq oti); [exact Hcls|]. unfold fq_recoverable, source_ks in H. rewrite Hpart in H. exact H. }
  assert (G' : Forall (genr oti content enc al as_ nal n) (m1 ++ m2)).
  { pose proof (fq_genuine_pkt_spec oti content enc al as_ nal n (m1 ++ m2) Hpart G) as G1.
    pose proof (fq_sized_pkt_spec oti (m1 ++ m2) Zs) as Z1. rewrite Forall_forall in *. intros p Hp. split; [exact (G1 p Hp)|exact (Z1 p Hp)]. }
  apply Forall_app in G'. destruct G' as [G1 G2].
  assert (Zf : a_toi pf = 0) by (destruct Hpf as ((Hz & _) & _); exact Hz).
  pose proof (rs_late_core_any_flag E parse_fdt cfg oti content enc toi md5 al as_ nal n now Hfec He Hb HL Hu Hpart' Htoi Hsound HM Nc Hacc
                id inst f F1 F2 F3 F4 F5 foti d Hparse pre pf post Fz) as D.
  assert (D' : let '(_, r, c) := recv_run E parse_fdt cfg recv0 (map (fun p => RvPush p now) (pre ++ pf :: post)) ctx0 in
               RI r c /\ EDisj r /\ MDone cfg content toi f r c).
  { apply D; try assumption.
    - apply (pktpre_of_mine _ (genr oti content enc al as_ nal n) toi oti L pre G1 Ib).
      intros p Ht I1 I2 Gp. split; [exact Ht|]. split; [exact I1|]. split; [exact I2|exact Gp].
    - apply (proj1 (forall_mine _ toi post)). exact G2.
    - intros a p b Eq Hp. apply Cov. exact (Cl a p b Eq Hp).
    - apply Cov. exact Rec. }
  destruct (recv_run E parse_fdt cfg recv0 (map (fun p => RvPush p now) (pre ++ pf :: post)) ctx0) as [[xs r] c].
  destruct D' as (_ & _ & Dn). eapply mdone_delivered; eassumption.
Qed.
Print Assumptions nocode_late_among_others_delivers_any_flag_before_fdt.
Print Assumptions rs_late_among_others_delivers_any_flag_before_fdt.
Print Assumptions fq_late_among_others_delivers_any_flag_before_fdt.

(* ================= 4. RaptorQ / Raptor, session level (one object; conclusion of C02_fq_session_fdt_late_delivers) ================= *)
(* ANY genuine packets of the object with EXT_FTI, no EXT_CENC, no close-object flag - what is left of earlier cycles,
   source or repair symbols - then the FDT packet, then a list that holds every source symbol *)
Theorem fq_session_late_join_general E parse_fdt cfg oti content enc toi md5 now pf id foti d inst pre pkts :
  let L := lenN_ content in
  fq_scheme_ok oti L -> fq_blocks_ok oti L -> toi <> 0 ->
  fdt_pkt_ok pf id foti d -> parse_fdt d = Some inst -> fdt_live cfg inst pf now ->
  fdt_entry_for (fi_files inst) (fi_oti inst) toi oti L md5 ->
  writer_accepts E toi -> writes_succeed E toi -> md5_good E content md5 ->
  fq_oracle_sound E oti content enc toi -> fq_oracle_complete E oti content enc toi ->
  L <= cf_max_cache cfg -> nb_blocks_of oti L <= 4097 ->
  Forall (fun p => a_toi p = toi) (pre ++ pkts) ->
  Forall (fun p => fq_genuine_pkt oti content enc p = true) (pre ++ pkts) ->
  Forall (fun p => fq_sized_pkt oti p = true) (pre ++ pkts) ->
  Forall (inband oti L) pre ->
  fq_close_flag_ok oti L pkts ->
  fq_recoverable oti L pkts = true ->
  let '(_, r, c) := recv_run E parse_fdt cfg recv0 (map (fun p => RvPush p now) (pre ++ pf :: pkts)) ctx0 in
  session_delivered cfg inst content toi r c.
Proof.
  intros L Hsch Hblk Htoi Hpf Hparse Hlive Hent Hacc Hwr Hmd5 Hos Hoc Hmax Hn T G Z Ib Cl Rec.
  apply (fq_session_fdt_late_delivers E parse_fdt cfg oti content enc toi md5 now pf id foti d inst pre pkts); try assumption.
  - apply fq_close_flag_app; [|exact Cl]. eapply Forall_impl; [|exact Ib]. intros p (_ & _ & H). exact H.
  - apply (fq_recoverable_sup oti L pkts); [apply incl_appr, incl_refl|exact Rec].
Qed.

(* C16: the receiver joins at ANY packet offset j of a carousel cycle cyc1 of the object (EXT_FTI on its packets), then
   the FDT packet, then a whole further cycle cyc2 holding every source symbol (carousel or last transfer) *)
Theorem fq_session_late_join E parse_fdt cfg oti content enc toi md5 now pf id foti d inst cyc1 cyc2 (j : nat) :
  let L := lenN_ content in
  fq_scheme_ok oti L -> fq_blocks_ok oti L -> toi <> 0 ->
  fdt_pkt_ok pf id foti d -> parse_fdt d = Some inst -> fdt_live cfg inst pf now ->
  fdt_entry_for (fi_files inst) (fi_oti inst) toi oti L md5 ->
  writer_accepts E toi -> writes_succeed E toi -> md5_good E content md5 ->
  fq_oracle_sound E oti content enc toi -> fq_oracle_complete E oti content enc toi ->
  L <= cf_max_cache cfg -> nb_blocks_of oti L <= 4097 ->
  Forall (fun p => a_toi p = toi) (cyc1 ++ cyc2) ->
  Forall (fun p => fq_genuine_pkt oti content enc p = true) (cyc1 ++ cyc2) ->
  Forall (fun p => fq_sized_pkt oti p = true) (cyc1 ++ cyc2) ->
  Forall (inband oti L) cyc1 ->
  fq_close_flag_ok oti L cyc2 ->
  fq_recoverable oti L cyc2 = true ->
  let '(_, r, c) := recv_run E parse_fdt cfg recv0 (map (fun p => RvPush p now) (skipn j cyc1 ++ pf :: cyc2)) ctx0 in
  session_delivered cfg inst content toi r c.
Proof.
  intros L Hsch Hblk Htoi Hpf Hparse Hlive Hent Hacc Hwr Hmd5 Hos Hoc Hmax Hn T G Z Ib Cl Rec.
  assert (Sub : forall P : apkt -> Prop, Forall P (cyc1 ++ cyc2) -> Forall P (skipn j cyc1 ++ cyc2)).
  { intros P F. apply Forall_app in F. destruct F as [F1 F2]. apply Forall_app. split; [apply forall_skipn; exact F1|exact F2]. }
  apply (fq_session_late_join_general E parse_fdt cfg oti content enc toi md5 now pf id foti d inst (skipn j cyc1) cyc2);
    try assumption; try (apply Sub; assumption). apply forall_skipn. exact Ib.
Qed.
Print Assumptions fq_session_late_join.

(* D44: the same without the premise "no close-object flag before the FDT packet": the early packets need only carry
   EXT_FTI and no EXT_CENC *)
Theorem fq_session_late_join_general_any_flag_before_fdt E parse_fdt cfg oti content enc toi md5 now pf id foti d inst pre pkts :
  let L := lenN_ content in
  fq_scheme_ok oti L -> fq_blocks_ok oti L -> toi <> 0 ->
  fdt_pkt_ok pf id foti d -> parse_fdt d = Some inst -> fdt_live cfg inst pf now ->
  fdt_entry_for (fi_files inst) (fi_oti inst) toi oti L md5 ->
  writer_accepts E toi -> writes_succeed E toi -> md5_good E content md5 ->
  fq_oracle_sound E oti content enc toi -> fq_oracle_complete E oti content enc toi ->
  L <= cf_max_cache cfg -> nb_blocks_of oti L <= 4097 ->
  Forall (fun p => a_toi p = toi) (pre ++ pkts) ->
  Forall (fun p => fq_genuine_pkt oti content enc p = true) (pre ++ pkts) ->
  Forall (fun p => fq_sized_pkt oti p = true) (pre ++ pkts) ->
  Forall (fun p => a_oti p = Some (oti, L) /\ a_cenc p = None) pre ->
  fq_close_flag_ok oti L pkts ->
  fq_recoverable oti L pkts = true ->
  let '(_, r, c) := recv_run E parse_fdt cfg recv0 (map (fun p => RvPush p now) (pre ++ pf :: pkts)) ctx0 in
  session_delivered cfg inst content toi r c.
Proof.
  intros L Hsch Hblk Htoi Hpf Hparse Hlive Hent Hacc Hwr Hmd5 Hos Hoc Hmax Hn T G Z Ib Cl Rec.
  apply (fq_session_fdt_late_delivers_any_flag_before_fdt E parse_fdt cfg oti content enc toi md5 now pf id foti d inst pre pkts);
    try assumption.
  - apply close_flag_ok_after_of_tail; [intros l l'; apply fq_recoverable_sup|exact Cl].
  - apply (fq_recoverable_sup oti L pkts); [apply incl_appr, incl_refl|exact Rec].
Qed.

Theorem fq_session_late_join_any_flag_before_fdt E parse_fdt cfg oti content enc toi md5 now pf id foti d inst cyc1 cyc2 (j : nat) :
  let L := lenN_ content in
  fq_scheme_ok oti L -> fq_blocks_ok oti L -> toi <> 0 ->
  fdt_pkt_ok pf id foti d -> parse_fdt d = Some inst -> fdt_live cfg inst pf now ->
  fdt_entry_for (fi_files inst) (fi_oti inst) toi oti L md5 ->
  writer_accepts E toi -> writes_succeed E toi -> md5_good E content md5 ->
  fq_oracle_sound E oti content enc toi -> fq_oracle_complete E oti content enc toi ->
  L <= cf_max_cache cfg -> nb_blocks_of oti L <= 4097 ->
  Forall (fun p => a_toi p = toi) (cyc1 ++ cyc2) ->
  Forall (fun p => fq_genuine_pkt oti content enc p = true) (cyc1 ++ cyc2) ->
  Forall (fun p => fq_sized_pkt oti p = true) (cyc1 ++ cyc2) ->
  Forall (fun p => a_oti p = Some (oti, L) /\ a_cenc p = None) cyc1 ->
  fq_close_flag_ok oti L cyc2 ->
  fq_recoverable oti L cyc2 = true ->
  let '(_, r, c) := recv_run E parse_fdt cfg recv0 (map (fun p => RvPush p now) (skipn j cyc1 ++ pf :: cyc2)) ctx0 in
  session_delivered cfg inst content toi r c.
Proof.
  intros L Hsch Hblk Htoi Hpf Hparse Hlive Hent Hacc Hwr Hmd5 Hos Hoc Hmax Hn T G Z Ib Cl Rec.
  assert (Sub : forall P : apkt -> Prop, Forall P (cyc1 ++ cyc2) -> Forall P (skipn j cyc1 ++ cyc2)).
  { intros P F. apply Forall_app in F. destruct F as [F1 F2]. apply Forall_app. split; [apply forall_skipn; exact F1|exact F2]. }
  apply (fq_session_late_join_general_any_flag_before_fdt E parse_fdt cfg oti content enc toi md5 now pf id foti d inst (skipn j cyc1) cyc2);
    try assumption; try (apply Sub; assumption). apply forall_skipn. exact Ib.
Qed.
Print Assumptions fq_session_late_join_general_any_flag_before_fdt.
Print Assumptions fq_session_late_join_any_flag_before_fdt.

(* ================= 5. SEVERAL No-Code objects carouselled under one FDT instance ================= *)
Lemma merge_in : forall ls pkts, Merge ls pkts -> forall p, In p pkts <-> exists l, In l ls /\ In p l.
Proof.
  induction 1 as [ls Hn|ls1 p0 l ls2 pkts M IH]; intros p.
  - split; [intros []|]. intros (l & Hl & Hp). rewrite Forall_forall in Hn. rewrite (Hn l Hl) in Hp. destruct Hp.
  - split.
    + intros [<-|Hp].
      * exists (p0 :: l). split; [apply in_or_app; right; left; reflexivity|left; reflexivity].
      * apply IH in Hp. destruct Hp as (l' & Hl' & Hp). apply in_app_or in Hl'. destruct Hl' as [Hl'|[<-|Hl']].
        -- exists l'. split; [apply in_or_app; left; exact Hl'|exact Hp].
        -- exists (p0 :: l). split; [apply in_or_app; right; left; reflexivity|right; exact Hp].
        -- exists l'. split; [apply in_or_app; right; right; exact Hl'|exact Hp].
    + intros (l' & Hl' & Hp). apply in_app_or in Hl'. destruct Hl' as [Hl'|[<-|Hl']].
      * right. apply IH. exists l'. split; [apply in_or_app; left; exact Hl'|exact Hp].
      * destruct Hp as [<-|Hp]; [left; reflexivity|right]. apply IH. exists l. split; [apply in_or_app; right; left; reflexivity|exact Hp].
      * right. apply IH. exists l'. split; [apply in_or_app; right; right; exact Hl'|exact Hp].
Qed.

Lemma nodup_map_inj {A} (g : A -> N) (l : list A) x y : NoDup (map g l) -> In x l -> In y l -> g x = g y -> x = y.
Proof.
  induction l as [|a l IH]; intros ND Hx Hy Eq; [destruct Hx|]. cbn [map] in ND.
  pose proof (NoDup_cons_iff (g a) (map g l)) as [K _]. destruct (K ND) as [Na NDl].
  destruct Hx as [<-|Hx], Hy as [<-|Hy]; [reflexivity| | |exact (IH NDl Hx Hy Eq)].
  - exfalso. apply Na. rewrite Eq. apply in_map. exact Hy.
  - exfalso. apply Na. rewrite <- Eq. apply in_map. exact Hx.
Qed.

(* an object of the carousel: the premises of the single-object theorems; [no_pkts o] = the packets of ONE transfer of
   the object, every one with in-band FTI (Oti::inband_fti), no EXT_CENC, no close-object flag (carousel) *)
Definition car_obj_ok (E : env) (cfg : rconfig) (inst : fdtinst) (o : nc_obj) : Prop :=
  let L := lenN_ (no_content o) in
  nocode_ok (no_oti o) L /\ no_toi o <> 0
  /\ fdt_entry_for (fi_files inst) (fi_oti inst) (no_toi o) (no_oti o) L (no_md5 o)
  /\ writer_accepts E (no_toi o) /\ writes_succeed E (no_toi o) /\ md5_good E (no_content o) (no_md5 o)
  /\ L <= cf_max_cache cfg /\ nb_blocks_of (no_oti o) L <= 4097
  /\ Forall (fun p => a_toi p = no_toi o) (no_pkts o)
  /\ Forall (fun p => genuine_pkt (no_oti o) (no_content o) p = true) (no_pkts o)
  /\ Forall (inband (no_oti o) L) (no_pkts o)
  /\ recoverable (no_oti o) L (no_pkts o) = true.

(* a packet of the multiplexed carousel stream: an FDT packet is a good copy of the instance; a packet that carries the
   TOI of a listed object is a packet of that object's transfer (packets of other TOIs: anything) *)
Definition of_carousel (cfg : rconfig) (inst : fdtinst) (now : Z) (id : N) (foti : roti) (d : list N) (objs : list nc_obj)
  (p : apkt) : Prop :=
  (a_toi p = 0 -> fdt_copy cfg inst now id foti d p)
  /\ forall o, In o objs -> a_toi p = no_toi o -> In p (no_pkts o).

(* one cycle of the whole stream: an interleaving of the FDT packet and one transfer of each object *)
Definition is_cycle (pf : apkt) (objs : list nc_obj) (cyc : list apkt) : Prop := Merge ([pf] :: map no_pkts objs) cyc.

(* the general form: ANY stream of carousel packets that contains an FDT packet and one whole transfer of every object *)
Theorem nocode_multi_stream_delivers E parse_fdt cfg now id foti d inst objs evs :
  parse_fdt d = Some inst -> Forall (car_obj_ok E cfg inst) objs ->
  Forall (of_carousel cfg inst now id foti d objs) evs ->
  (exists p, In p evs /\ a_toi p = 0) ->
  (forall o, In o objs -> incl (no_pkts o) evs) ->
  let '(_, r, c) := recv_run E parse_fdt cfg recv0 (map (fun p => RvPush p now) evs) ctx0 in
  Forall (fun o => multi_delivered cfg inst (no_content o) (no_toi o) r c) objs.
Proof.
  intros Hparse Ok Car Hf Inc.
  assert (F0 : Forall (fun p => a_toi p = 0 -> fdt_copy cfg inst now id foti d p) evs).
  { eapply Forall_impl; [|exact Car]. intros p [H _]. exact H. }
  assert (All : forall o, In o objs ->
            let '(_, r, c) := recv_run E parse_fdt cfg recv0 (map (fun p => RvPush p now) evs) ctx0 in
            multi_delivered cfg inst (no_content o) (no_toi o) r c).
  { intros o Hio. rewrite Forall_forall in Ok, Car.
    destruct (Ok o Hio) as (A1 & A2 & A3 & A4 & A5 & A6 & A7 & A8 & A9 & A10 & A11 & A12).
    assert (Sub : forall p, In p (filter (fun p => a_toi p =? no_toi o) evs) -> In p (no_pkts o)).
    { intros p Hp. apply filter_In in Hp. destruct Hp as [Hp Ht]. apply N.eqb_eq in Ht. exact (proj2 (Car p Hp) o Hio Ht). }
    apply (nocode_late_among_others_delivers E parse_fdt cfg (no_oti o) (no_content o) (no_toi o) (no_md5 o) now id foti d inst evs);
      try assumption.
    - rewrite Forall_forall in *. intros p Hp. exact (A10 p (Sub p Hp)).
    - rewrite Forall_forall in *. intros p Hp. exact (A11 p (Sub p Hp)).
    - apply (recoverable_sup _ _ (no_pkts o)); [|exact A12]. intros p Hp. apply filter_In. split; [exact (Inc o Hio p Hp)|].
      rewrite Forall_forall in A9. apply N.eqb_eq. exact (A9 p Hp). }
  destruct (recv_run E parse_fdt cfg recv0 (map (fun p => RvPush p now) evs) ctx0) as [[xs r] c].
  apply Forall_forall. exact All.
Qed.
Print Assumptions nocode_multi_stream_delivers.

Section Cycles.
  Variables (E : env) (parse_fdt : list N -> option fdtinst) (cfg : rconfig) (now : Z).
  Variables (pf : apkt) (id : N) (foti : roti) (d : list N) (inst : fdtinst) (objs : list nc_obj).
  Hypothesis Hpf : fdt_pkt_ok pf id foti d.
  Hypothesis Hparse : parse_fdt d = Some inst.
  Hypothesis Hlive : fdt_live cfg inst pf now.
  Hypothesis ND : NoDup (map no_toi objs).
  Hypothesis Ok : Forall (car_obj_ok E cfg inst) objs.
  Notation car := (of_carousel cfg inst now id foti d objs).
  Notation all_delivered r c := (Forall (fun o => multi_delivered cfg inst (no_content o) (no_toi o) r c) objs).
  Notation run evs := (recv_run E parse_fdt cfg recv0 (map (fun p => RvPush p now) evs) ctx0).

  Lemma cycle_pkts cyc : is_cycle pf objs cyc -> Forall car cyc.
  Proof.
    intros M. apply Forall_forall. intros p Hp. apply (merge_in _ _ M) in Hp. destruct Hp as (l & [<-|Hl] & Hp).
    - destruct Hp as [<-|[]]. split; [intros _; split; assumption|].
      intros o Hio Ht. exfalso. rewrite Forall_forall in Ok. destruct (Ok o Hio) as (_ & Hnz & _).
      destruct Hpf as (Hz & _). congruence.
    - apply in_map_iff in Hl. destruct Hl as (o' & <- & Hio'). rewrite Forall_forall in Ok.
      destruct (Ok o' Hio') as (_ & Hnz & _ & _ & _ & _ & _ & _ & T & _). rewrite Forall_forall in T. pose proof (T p Hp) as Tp.
      split; [intros Z; congruence|]. intros o Hio Ht.
      assert (o' = o) by (apply (nodup_map_inj no_toi objs); [exact ND|exact Hio'|exact Hio|congruence]). subst o'. exact Hp.
  Qed.

  Lemma cycle_has cyc : is_cycle pf objs cyc -> In pf cyc /\ forall o, In o objs -> incl (no_pkts o) cyc.
  Proof.
    intros M. split.
    - apply (merge_in _ _ M). exists [pf]. split; left; reflexivity.
    - intros o Hio p Hp. apply (merge_in _ _ M). exists (no_pkts o). split; [right; apply in_map; exact Hio|exact Hp].
  Qed.

  (* anything of the carousel first - what is left of earlier cycles, in any order, with or without FDT packets, plus
     arbitrary packets of unlisted TOIs - then one whole cycle *)
  Theorem nocode_multi_prefix_then_cycle pre cyc : Forall car pre -> is_cycle pf objs cyc ->
    let '(_, r, c) := run (pre ++ cyc) in all_delivered r c.
  Proof.
    intros Fp M. destruct (cycle_has cyc M) as [Hin Inc].
    apply (nocode_multi_stream_delivers E parse_fdt cfg now id foti d inst objs (pre ++ cyc) Hparse Ok).
    - apply Forall_app. split; [exact Fp|exact (cycle_pkts cyc M)].
    - exists pf. split; [apply in_or_app; right; exact Hin|exact (proj1 Hpf)].
    - intros o Hio p Hp. apply in_or_app. right. exact (Inc o Hio p Hp).
  Qed.

  (* G2: the receiver joins at ANY packet boundary j of one cycle c1 of the multiplexed stream - in the middle of an
     object's transfer, before or after the FDT packet of that cycle - and receives one further whole cycle c2 *)
  Theorem nocode_multi_late_join c1 c2 (j : nat) : is_cycle pf objs c1 -> is_cycle pf objs c2 ->
    let '(_, r, c) := run (skipn j c1 ++ c2) in all_delivered r c.
  Proof. intros M1 M2. apply nocode_multi_prefix_then_cycle; [apply forall_skipn, cycle_pkts; exact M1|exact M2]. Qed.

  (* the variant: what was caught of the first cycle contains NO FDT packet, so that packets of the objects arrive - and
     are decoded, from their in-band FTI, without writer - before the FDT instance *)
  Theorem nocode_multi_join_after_fdt c1 c2 (j : nat) : is_cycle pf objs c1 -> is_cycle pf objs c2 ->
    Forall (fun p => a_toi p <> 0) (skipn j c1) ->
    let '(_, r, c) := run (skipn j c1 ++ c2) in all_delivered r c.
  Proof. intros M1 M2 _. apply nocode_multi_late_join; assumption. Qed.

  Theorem nocode_multi_join_before_fdt pre cyc :
    Forall (fun p => a_toi p <> 0 /\ forall o, In o objs -> a_toi p = no_toi o -> In p (no_pkts o)) pre ->
    is_cycle pf objs cyc ->
    let '(_, r, c) := run (pre ++ cyc) in all_delivered r c.
  Proof.
    intros Fp M. apply nocode_multi_prefix_then_cycle; [|exact M]. eapply Forall_impl; [|exact Fp].
    intros p [Hz Hp]. split; [intros Z; contradiction|exact Hp].
  Qed.

  (* G3, "within two further full cycles": three consecutive cycles c1 c2 c3 split at any point inside c1: every object
     is delivered by the end of c2 already, and at the end of c3 *)
  Theorem nocode_multi_within_two_cycles c1 c2 c3 (j : nat) :
    is_cycle pf objs c1 -> is_cycle pf objs c2 -> is_cycle pf objs c3 ->
    (let '(_, r, c) := run (skipn j c1 ++ c2) in all_delivered r c)
    /\ (let '(_, r, c) := run (skipn j c1 ++ c2 ++ c3) in all_delivered r c).
  Proof.
    intros M1 M2 M3. split; [apply nocode_multi_late_join; assumption|].
    rewrite app_assoc. apply nocode_multi_prefix_then_cycle; [|exact M3].
    apply Forall_app. split; [apply forall_skipn|]; apply cycle_pkts; assumption.
  Qed.
End Cycles.
Print Assumptions nocode_multi_late_join.
Print Assumptions nocode_multi_within_two_cycles.

(* ================= 6. a toy carousel with two objects ================= *)
(* TOI 7 = ex_content (5 bytes, E = 2, B = 2: symbols (0,0) (0,1) (1,0)), TOI 9 = [10;20;30] (one block, symbols (0,0)
   (0,1)); every object packet carries EXT_FTI; the instance tm_inst (Proofs/C02MultiObj.v) lists both; one cycle of the
   multiplexed stream = FDT, 7(0,0), 9(0,0), 7(0,1), 9(0,1), 7(1,0) *)
Definition cc_w7 : list apkt := map with_fti [src_pkt 7 0 0 false [1; 2]; src_pkt 7 0 1 false [3; 4]; src_pkt 7 1 0 false [5]].
Definition cc_w9 : list apkt := map (with_fti_of ex_oti 3) [src_pkt 9 0 0 false [10; 20]; src_pkt 9 0 1 false [30]].
Definition cc_obj7 : nc_obj := mk_nc_obj 7 ex_oti ex_content None cc_w7.
Definition cc_obj9 : nc_obj := mk_nc_obj 9 ex_oti tm_content9 None cc_w9.
Definition cc_cycle : list apkt :=
  [tx_fdt None; with_fti (src_pkt 7 0 0 false [1; 2]); with_fti_of ex_oti 3 (src_pkt 9 0 0 false [10; 20]);
   with_fti (src_pkt 7 0 1 false [3; 4]); with_fti_of ex_oti 3 (src_pkt 9 0 1 false [30]); with_fti (src_pkt 7 1 0 false [5])].

Example cc_is_cycle : is_cycle (tx_fdt None) [cc_obj7; cc_obj9] cc_cycle.
Proof.
  unfold is_cycle. cbn [map no_pkts cc_obj7 cc_obj9]. unfold cc_cycle, cc_w7, cc_w9. cbn [map].
  apply (merge_take [] _ _ [_; _]). apply (merge_take [_] _ _ [_]). apply (merge_take [_; _] _ _ []).
  apply (merge_take [_] _ _ [_]). apply (merge_take [_; _] _ _ []). apply (merge_take [_] _ _ [_]).
  apply merge_done. repeat constructor.
Qed.

(* by computation: whatever the join offset (0 .. 7; 4 = in the middle of the transfer of TOI 9, after the FDT packet of
   that cycle: the packets 9(0,1) and 7(1,0) are decoded without writer until the FDT packet of the next cycle), both
   objects end in rv_completed, nothing is left in rv_objects / rv_error, and each first writer got open, its bytes,
   complete *)
Example cc_late_join_computed :
  forallb (fun j => match sess tm_parse (tx_cfg true false) (skipn j cc_cycle ++ cc_cycle) with
                    | (_, [], comp, [], l) =>
                      inb 7 comp && inb 9 comp
                      && completed (calls_of (7, 0%nat) l) && eqb_bytes (written (calls_of (7, 0%nat) l)) ex_content
                      && completed (calls_of (9, 0%nat) l) && eqb_bytes (written (calls_of (9, 0%nat) l)) tm_content9
                      && negb (failed (calls_of (7, 0%nat) l)) && negb (failed (calls_of (9, 0%nat) l))
                    | _ => false end) [0; 1; 2; 3; 4; 5; 6; 7]%nat = true
  /\ sess tm_parse (tx_cfg true false) (skipn 4 cc_cycle ++ firstn 1 cc_cycle)
     = ([POk; POk; POk], [9; 7], [], [], [EvBuilder 9 WStore; EvOpen (9, 0%nat) true; EvBuilder 7 WStore; EvOpen (7, 0%nat) true])
  (* without receive-once (the second FDT copy becomes a second entry of rv_fdt_current, duplicates may re-create an
     object): the first writers are served all the same *)
  /\ forallb (fun j => match sess tm_parse (tx_cfg false false) (skipn j cc_cycle ++ cc_cycle) with
                       | (_, _, _, [], l) =>
                         completed (calls_of (7, 0%nat) l) && eqb_bytes (written (calls_of (7, 0%nat) l)) ex_content
                         && completed (calls_of (9, 0%nat) l) && eqb_bytes (written (calls_of (9, 0%nat) l)) tm_content9
                         && negb (failed (calls_of (7, 0%nat) l)) && negb (failed (calls_of (9, 0%nat) l))
                       | _ => false end) [0; 1; 2; 3; 4; 5; 6; 7]%nat = true.
Proof. vm_compute. repeat split. Qed.

Lemma cc_obj_ok o : In o [cc_obj7; cc_obj9] -> car_obj_ok env_ok (tx_cfg true false) tm_inst o.
Proof.
  intros [<-|[<-|[]]]; unfold car_obj_ok; cbn [no_toi no_oti no_content no_md5 no_pkts cc_obj7 cc_obj9].
  - split; [repeat split; vm_compute; reflexivity|]. split; [discriminate|].
    split; [exists (mk_ff 7 CNull (Some ex_oti) 5 None None false); repeat split|].
    split; [split; reflexivity|]. split; [intros i; reflexivity|]. split; [exact I|].
    split; [vm_compute; discriminate|]. split; [vm_compute; discriminate|].
    split; [repeat constructor|]. split; [repeat constructor|].
    split; [repeat constructor|vm_compute; reflexivity].
  - split; [repeat split; vm_compute; reflexivity|]. split; [discriminate|].
    split; [exists (mk_ff 9 CNull (Some ex_oti) 3 None None false); repeat split|].
    split; [split; reflexivity|]. split; [intros i; reflexivity|]. split; [exact I|].
    split; [vm_compute; discriminate|]. split; [vm_compute; discriminate|].
    split; [repeat constructor|]. split; [repeat constructor|].
    split; [repeat constructor|vm_compute; reflexivity].
Qed.

Example cc_late_join_by_theorem : forall j : nat,
  let '(_, r, c) := recv_run env_ok tm_parse (tx_cfg true false) recv0
                             (map (fun p => RvPush p 100%Z) (skipn j cc_cycle ++ cc_cycle)) ctx0 in
  multi_delivered (tx_cfg true false) tm_inst ex_content 7 r c
  /\ multi_delivered (tx_cfg true false) tm_inst tm_content9 9 r c.
Proof.
  intros j.
  assert (ND : NoDup (map no_toi [cc_obj7; cc_obj9])).
  { cbn. constructor; [intros [H|[]]; discriminate|constructor; [intros []|constructor]]. }
  pose proof (nocode_multi_late_join env_ok tm_parse (tx_cfg true false) 100%Z (tx_fdt None) 1 tx_foti tx_doc tm_inst
                [cc_obj7; cc_obj9] (tx_fdt_ok None) eq_refl (or_introl eq_refl) ND (proj2 (Forall_forall _ _) cc_obj_ok)
                cc_cycle cc_cycle j cc_is_cycle cc_is_cycle) as K.
  destruct (recv_run env_ok tm_parse (tx_cfg true false) recv0 (map (fun p => RvPush p 100%Z) (skipn j cc_cycle ++ cc_cycle)) ctx0) as [[xs r] c].
  split; [exact (Forall_inv K)|exact (Forall_inv (Forall_inv_tail K))].
Qed.

(* ================= 7. RaptorQ toy examples (the systematic toy decoder sys_dec of Proofs/C02RS.v) ================= *)
(* the cycle exq_pkts = (1,0) (0,5: a repair symbol) (0,1) (1,0) (0,0): every join offset is delivered; the suffix from
   offset 3 alone is not *)
Example exq_late_join_computed :
  forallb (fun j => match summary 7 (receive env_sys 1 exq_files None 7 1000 (skipn j exq_pkts ++ exq_pkts)) with
                    | (Completed, [CallOpen true; CallWrite [1; 2; 3; 4] true; CallWrite [5] true; CallComplete]) => true
                    | _ => false end) [0; 1; 2; 3; 4; 5; 6]%nat = true
  /\ summary 7 (receive env_sys 1 exq_files None 7 1000 (skipn 3 exq_pkts)) = (Receiving, [CallOpen true]).
Proof. vm_compute. split; reflexivity. Qed.

Example exq_late_join_by_theorem : forall j : nat,
  delivered env_sys 1 exq_files None 7 1000 exr_content (skipn j exq_pkts ++ exq_pkts).
Proof.
  destruct (sys_dec_oracle env_sys exq_oti exr_content exq_rep 7 (fun _ _ _ _ _ _ _ => eq_refl)
              ltac:(vm_compute; reflexivity) ltac:(vm_compute; reflexivity) ltac:(vm_compute; reflexivity)) as [Os Oc].
  apply (fq_late_join_delivered env_sys exq_oti exr_content exq_enc 7 1000 1 exq_files None None).
  - split; [left; reflexivity|]. repeat split; vm_compute; reflexivity.
  - vm_compute. reflexivity.
  - exists (mk_ff 7 CNull (Some exq_oti) 5 None None false). repeat split.
  - split; reflexivity.
  - intros i. reflexivity.
  - exact I.
  - exact Os.
  - exact Oc.
  - vm_compute. discriminate.
  - vm_compute. discriminate.
  - repeat constructor.
  - repeat constructor.
  - repeat constructor.
  - vm_compute. reflexivity.
Qed.

(* session level: the packets caught before the FDT instance carry EXT_FTI *)
Example exq_session_late_join_computed :
  forallb (fun j => match sess_env env_sys (txr_parse exq_oti 5) (tx_cfg true false)
                               (skipn j (map (with_fti_of exq_oti 5) exq_pkts) ++ tx_fdt None :: exq_pkts) with
                    | (_, [], [7], [], l) => list_eqb (fun a b => match a, b with
                                                                 | EvWrite _ x _, EvWrite _ y _ => eqb_bytes x y
                                                                 | EvBuilder _ _, EvBuilder _ _ | EvOpen _ _, EvOpen _ _
                                                                 | EvComplete _, EvComplete _ => true
                                                                 | _, _ => false end) l delivered_log
                    | _ => false end) [0; 1; 2; 3; 4; 5; 6]%nat = true.
Proof. vm_compute. reflexivity. Qed.

Example exq_session_late_join_by_theorem : forall j : nat,
  let '(_, r, c) := recv_run env_sys (txr_parse exq_oti 5) (tx_cfg true false) recv0
                             (map (fun p => RvPush p 100%Z)
                                  (skipn j (map (with_fti_of exq_oti 5) exq_pkts) ++ tx_fdt None :: exq_pkts)) ctx0 in
  session_delivered (tx_cfg true false) (txr_inst exq_oti 5) exr_content 7 r c.
Proof.
  intros j.
  destruct (sys_dec_oracle env_sys exq_oti exr_content exq_rep 7 (fun _ _ _ _ _ _ _ => eq_refl)
              ltac:(vm_compute; reflexivity) ltac:(vm_compute; reflexivity) ltac:(vm_compute; reflexivity)) as [Os Oc].
  apply (fq_session_late_join env_sys (txr_parse exq_oti 5) (tx_cfg true false) exq_oti exr_content exq_enc 7 None 100%Z
           (tx_fdt None) 1 tx_foti tx_doc (txr_inst exq_oti 5) (map (with_fti_of exq_oti 5) exq_pkts) exq_pkts j).
  - split; [left; reflexivity|]. repeat split; vm_compute; reflexivity.
  - vm_compute. reflexivity.
  - discriminate.
  - apply tx_fdt_ok.
  - reflexivity.
  - left. reflexivity.
  - exists (mk_ff 7 CNull (Some exq_oti) 5 None None false). repeat split.
  - split; reflexivity.
  - intros i. reflexivity.
  - exact I.
  - exact Os.
  - exact Oc.
  - vm_compute. discriminate.
  - vm_compute. discriminate.
  - repeat constructor.
  - repeat constructor.
  - repeat constructor.
  - repeat constructor.
  - apply fq_close_flag_ok_noflag. repeat constructor.
  - vm_compute. reflexivity.
Qed.

(* ================= 8. the vocabulary, unfolded (for Properties/C16.v) ================= *)
Lemma multi_wf_statement : forall cfg toi now id inst gen pid cov pktpre foti d ph seen p rest,
  (WFm cfg toi now id inst gen pid cov pktpre foti d ph seen [] <-> ph = true /\ cov seen)
  /\ (WFm cfg toi now id inst gen pid cov pktpre foti d ph seen (p :: rest) <->
      if a_toi p =? 0 then FOk cfg now id inst foti d p /\ WFm cfg toi now id inst gen pid cov pktpre foti d true seen rest
      else if a_toi p =? toi
           then (if ph then gen p else pktpre p) /\ (a_close_obj p = true -> cov (pid p :: seen))
                /\ WFm cfg toi now id inst gen pid cov pktpre foti d ph (pid p :: seen) rest
           else WFm cfg toi now id inst gen pid cov pktpre foti d ph seen rest)
  /\ (FOk cfg now id inst foti d p <-> fdt_pkt_ok p id foti d /\ fdt_live cfg inst p now).
Proof. intros. split; [reflexivity|split; reflexivity]. Qed.

(* D44: WFm' = WFm without the flag clause for the packets of the object that precede the first FDT packet *)
Lemma multi_wf_statement' : forall cfg toi now id inst gen pid cov pktpre foti d ph seen p rest,
  (WFm' cfg toi now id inst gen pid cov pktpre foti d ph seen [] <-> ph = true /\ cov seen)
  /\ (WFm' cfg toi now id inst gen pid cov pktpre foti d ph seen (p :: rest) <->
      if a_toi p =? 0 then FOk cfg now id inst foti d p /\ WFm' cfg toi now id inst gen pid cov pktpre foti d true seen rest
      else if a_toi p =? toi
           then (if ph then gen p /\ (a_close_obj p = true -> cov (pid p :: seen)) else pktpre p)
                /\ WFm' cfg toi now id inst gen pid cov pktpre foti d ph (pid p :: seen) rest
           else WFm' cfg toi now id inst gen pid cov pktpre foti d ph seen rest)
  /\ (forall evs, WFm cfg toi now id inst gen pid cov pktpre foti d ph seen evs ->
                  WFm' cfg toi now id inst gen pid cov pktpre foti d ph seen evs).
Proof. intros. split; [reflexivity|split; [reflexivity|]]. intros evs. apply wfm_weaken. Qed.

Lemma multi_late_statements :
  (forall E cfg inst o, car_obj_ok E cfg inst o <->
     let L := lenN_ (no_content o) in
     nocode_ok (no_oti o) L /\ no_toi o <> 0
     /\ fdt_entry_for (fi_files inst) (fi_oti inst) (no_toi o) (no_oti o) L (no_md5 o)
     /\ writer_accepts E (no_toi o) /\ writes_succeed E (no_toi o) /\ md5_good E (no_content o) (no_md5 o)
     /\ L <= cf_max_cache cfg /\ nb_blocks_of (no_oti o) L <= 4097
     /\ Forall (fun p => a_toi p = no_toi o) (no_pkts o)
     /\ Forall (fun p => genuine_pkt (no_oti o) (no_content o) p = true) (no_pkts o)
     /\ Forall (inband (no_oti o) L) (no_pkts o)
     /\ recoverable (no_oti o) L (no_pkts o) = true)
  /\ (forall oti L p, inband oti L p <-> a_oti p = Some (oti, L) /\ a_cenc p = None /\ a_close_obj p = false)
  /\ (forall cfg inst now id foti d p, fdt_copy cfg inst now id foti d p <-> fdt_pkt_ok p id foti d /\ fdt_live cfg inst p now)
  /\ (forall cfg inst now id foti d objs p, of_carousel cfg inst now id foti d objs p <->
        (a_toi p = 0 -> fdt_copy cfg inst now id foti d p)
        /\ forall o, In o objs -> a_toi p = no_toi o -> In p (no_pkts o))
  /\ (forall pf objs cyc, is_cycle pf objs cyc <-> Merge ([pf] :: map no_pkts objs) cyc)
  (* what a cycle is made of *)
  /\ (forall ls pkts, Merge ls pkts -> forall p, In p pkts <-> exists l, In l ls /\ In p l).
Proof.
  split; [intros; reflexivity|]. split; [intros; reflexivity|]. split; [intros; reflexivity|]. split; [intros; reflexivity|].
  split; [intros; reflexivity|exact merge_in].
Qed.
