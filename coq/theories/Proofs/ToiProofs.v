(* Proofs for C15 (model: Model/Toi.v, executable statement: Spec/C15Spec.v). *)
From FluteV Require Import Model.Toi Spec.C15Spec.
From Coq Require Import Lia PeanoNat.
Open Scope N_scope.

Arguments N.add : simpl never. Arguments N.mul : simpl never. Arguments N.sub : simpl never.
Arguments N.div : simpl never. Arguments N.modulo : simpl never. Arguments N.pow : simpl never.
Arguments N.land : simpl never. Arguments N.lor : simpl never.
Arguments N.ltb : simpl never. Arguments N.leb : simpl never. Arguments N.eqb : simpl never.

(* ===================================================================================== *)
(* generic list facts                                                                     *)

Lemma mem_In x l : mem x l = true <-> In x l.
Proof.
  unfold mem. rewrite existsb_exists. split.
  - intros (y & Hy & E). apply N.eqb_eq in E. subst. assumption.
  - intros H. exists x. split; [assumption | apply N.eqb_refl].
Qed.

Lemma mem_false x l : mem x l = false <-> ~ In x l.
Proof.
  rewrite <- mem_In. destruct (mem x l); split; intros H;
    first [congruence | exfalso; apply H; reflexivity].
Qed.

Lemma filter_all {A} (p : A -> bool) l : (forall x, In x l -> p x = true) -> filter p l = l.
Proof.
  induction l as [|a l IH]; intros H; cbn [filter]; [reflexivity|].
  rewrite (H a (or_introl eq_refl)). f_equal. apply IH. intros x Hx. apply H. right. assumption.
Qed.

Lemma filter_filter {A} (p q : A -> bool) l :
  filter p (filter q l) = filter (fun x => q x && p x) l.
Proof.
  induction l as [|a l IH]; cbn [filter]; [reflexivity|].
  destruct (q a); cbn [filter andb]; [destruct (p a)|]; rewrite IH; reflexivity.
Qed.

Lemma NoDup_map_filter {A B} (f : A -> B) (p : A -> bool) l :
  NoDup (map f l) -> NoDup (map f (filter p l)).
Proof.
  induction l as [|a l IH]; cbn [map filter]; intros H; [constructor|].
  inversion H as [|x xs Hn Hd]; subst. destruct (p a); cbn [map]; [|auto].
  constructor; [|auto]. intros Hin. apply Hn.
  apply in_map_iff in Hin. destruct Hin as (y & E & Hy). apply filter_In in Hy.
  apply in_map_iff. exists y. tauto.
Qed.

Lemma NoDup_map_inj_in {A B} (f : A -> B) l x y :
  NoDup (map f l) -> In x l -> In y l -> f x = f y -> x = y.
Proof.
  induction l as [|a l IH]; cbn [map]; intros H Hx Hy E; [contradiction|].
  inversion H as [|z zs Hn Hd]; subst.
  destruct Hx as [->|Hx], Hy as [->|Hy]; try reflexivity.
  - exfalso. apply Hn. rewrite E. apply in_map. assumption.
  - exfalso. apply Hn. rewrite <- E. apply in_map. assumption.
  - auto.
Qed.

Lemma map_filter_commute {A B} (f : A -> B) (p : A -> bool) (q : B -> bool) l :
  (forall x, In x l -> p x = q (f x)) -> map f (filter p l) = filter q (map f l).
Proof.
  induction l as [|a l IH]; intros H; cbn [map filter]; [reflexivity|].
  rewrite <- (H a (or_introl eq_refl)). destruct (p a); cbn [map]; rewrite IH; auto.
  - intros x Hx. apply H. right. assumption.
  - intros x Hx. apply H. right. assumption.
Qed.

Lemma NoDup_map_seq {B} (f : nat -> B) k : forall s,
  (forall i j, (s <= i)%nat -> (i < j)%nat -> (j < s + k)%nat -> f i <> f j) ->
  NoDup (map f (seq s k)).
Proof.
  induction k as [|k IH]; intros s H; cbn [seq map]; constructor.
  - intros Hin. apply in_map_iff in Hin. destruct Hin as (j & E & Hj).
    apply in_seq in Hj. apply (H s j); [lia|lia|lia|]. symmetry. assumption.
  - apply IH. intros i j H1 H2 H3. apply H; lia.
Qed.

(* ===================================================================================== *)
(* Part 1: the allocator                                                                  *)

Lemma pow_width w : 2 ^ width_bits w = width_limit w.
Proof. destruct w; vm_compute; reflexivity. Qed.

Lemma to_max_length_mod t w : to_max_length t w = t mod width_limit w.
Proof.
  rewrite <- pow_width.
  destruct w; unfold to_max_length, width_bits.
  - change mask16 with (N.ones 16). apply N.land_ones.
  - change mask32 with (N.ones 32). apply N.land_ones.
  - change mask48 with (N.ones 48). apply N.land_ones.
  - change mask64 with (N.ones 64). apply N.land_ones.
  - change mask80 with (N.ones 80). apply N.land_ones.
  - change mask112 with (N.ones 112). apply N.land_ones.
Qed.

Definition TOI112 : N := 5192296858534827628530496329220096.   (* 2^112 *)

Lemma width_limit_bounds w : 65536 <= width_limit w <= TOI112.
Proof. unfold TOI112. destruct w; cbn [width_limit]; lia. Qed.

Lemma TOI112_lt_U128 : TOI112 < U128.
Proof. unfold TOI112, U128. lia. Qed.

(* the successor on the cyclic range 1 .. L-1, closed form of the i-th candidate after t *)
Definition cand (L t i : N) : N := (t - 1 + i) mod (L - 1) + 1.

Lemma cand_range L t i : 2 <= L -> 1 <= cand L t i < L.
Proof.
  intros HL. unfold cand. pose proof (N.mod_lt (t - 1 + i) (L - 1) ltac:(lia)) as H.
  set (m := (t - 1 + i) mod (L - 1)) in *. clearbody m. lia.
Qed.

Lemma cand_0 L t : 1 <= t < L -> cand L t 0 = t.
Proof.
  intros H. unfold cand. rewrite N.add_0_r. rewrite N.mod_small by lia. lia.
Qed.

Lemma next_candidate_cand w t i :
  next_candidate w (cand (width_limit w) t i) = Some (cand (width_limit w) t (i + 1)).
Proof.
  pose proof (width_limit_bounds w) as HB. pose proof TOI112_lt_U128 as HU.
  set (L := width_limit w) in *.
  pose proof (cand_range L t i ltac:(lia)) as HR.
  unfold next_candidate, checked_add1.
  destruct (N.ltb_spec (cand L t i + 1) U128) as [_|Hge]; [|lia].
  rewrite to_max_length_mod. fold L.
  unfold cand in *.
  replace (t - 1 + (i + 1)) with ((t - 1 + i) + 1) by lia.
  rewrite <- (N.add_mod_idemp_l (t - 1 + i) 1 (L - 1)) by lia.
  set (r := (t - 1 + i) mod (L - 1)) in *.
  assert (Hr : r < L - 1) by (apply N.mod_lt; lia).
  clearbody r. f_equal.
  destruct (N.eq_dec (r + 1) (L - 1)) as [E|NE].
  - replace (r + 1 + 1) with L by lia. rewrite N.mod_same by lia.
    rewrite N.eqb_refl. rewrite E. rewrite N.mod_same by lia. reflexivity.
  - rewrite (N.mod_small (r + 1 + 1) L) by lia.
    destruct (N.eqb_spec (r + 1 + 1) 0) as [Z|_]; [lia|].
    rewrite (N.mod_small (r + 1) (L - 1)) by lia. reflexivity.
Qed.

Lemma cand_inj L t i j : 2 <= L -> i < j -> j - i < L - 1 -> cand L t i <> cand L t j.
Proof.
  intros HL Hij Hd E. unfold cand in E.
  assert (E' : (t - 1 + i) mod (L - 1) = (t - 1 + j) mod (L - 1)) by lia. clear E.
  set (M := L - 1) in *. assert (HM : M <> 0) by lia.
  pose proof (N.div_mod (t - 1 + i) M HM) as D1.
  pose proof (N.div_mod (t - 1 + j) M HM) as D2.
  rewrite <- E' in D2.
  set (q1 := (t - 1 + i) / M) in *. set (q2 := (t - 1 + j) / M) in *.
  set (r := (t - 1 + i) mod M) in *. clearbody q1 q2 r.
  destruct (N.le_gt_cases q2 q1) as [Hle|Hgt].
  - pose proof (N.mul_le_mono_l q2 q1 M Hle). lia.
  - assert (Hs : q1 + 1 <= q2) by lia.
    pose proof (N.mul_le_mono_l (q1 + 1) q2 M Hs) as Hm.
    rewrite N.mul_add_distr_l, N.mul_1_r in Hm. lia.
Qed.

(* what the loop can do from the k-th candidate with [fuel] turns left *)
Lemma alloc_loop_spec w t resv : forall fuel k,
  match alloc_loop fuel w (cand (width_limit w) t k) resv with
  | Ok t' => exists i, k < i <= k + N.of_nat fuel /\ t' = cand (width_limit w) t i /\ mem t' resv = false
  | OutOfFuel => forall i, k < i <= k + N.of_nat fuel -> mem (cand (width_limit w) t i) resv = true
  | Panic => False
  end.
Proof.
  induction fuel as [|f IH]; intros k.
  - cbn [alloc_loop]. intros i Hi. lia.
  - cbn [alloc_loop]. rewrite next_candidate_cand.
    destruct (mem (cand (width_limit w) t (k + 1)) resv) eqn:Hm.
    + specialize (IH (k + 1)).
      destruct (alloc_loop f w (cand (width_limit w) t (k + 1)) resv) as [t'| |].
      * destruct IH as (i & Hi & E & Hn). exists i. repeat split; try assumption; lia.
      * assumption.
      * intros i Hi. destruct (N.eq_dec i (k + 1)) as [->|NE]; [assumption|].
        apply IH. lia.
    + exists (k + 1). repeat split; try assumption; lia.
Qed.

(* pigeonhole: n+1 distinct candidates cannot all lie in a list of n values *)
Lemma candidates_not_all_reserved L t resv :
  2 <= L -> N.of_nat (S (length resv)) < L ->
  ~ (forall i, 0 < i <= N.of_nat (S (length resv)) -> mem (cand L t i) resv = true).
Proof.
  intros HL Hcap Hall.
  set (k := S (length resv)) in *.
  set (f := fun i : nat => cand L t (N.of_nat i)).
  assert (ND : NoDup (map f (seq 1 k))).
  { apply NoDup_map_seq. intros i j H1 H2 H3. unfold f. apply cand_inj; lia. }
  assert (INC : incl (map f (seq 1 k)) resv).
  { intros x Hx. apply in_map_iff in Hx. destruct Hx as (i & <- & Hi). apply in_seq in Hi.
    apply mem_In. apply Hall. lia. }
  pose proof (NoDup_incl_length ND INC) as Hlen.
  rewrite map_length, seq_length in Hlen. unfold k in Hlen. lia.
Qed.

(* the allocator invariant (DESIGN: alloc_inv) *)
Definition ainv (a : allocator) : Prop :=
  1 <= a_next a < width_limit (a_width a)
  /\ ~ In (a_next a) (a_reserved a)
  /\ (forall v, In v (a_reserved a) -> 1 <= v < width_limit (a_width a))
  /\ NoDup (a_reserved a).

Lemma alloc_new_inv w init rnd : ainv (alloc_new w init rnd).
Proof.
  pose proof (width_limit_bounds w) as HB.
  unfold alloc_new, ainv. cbn [a_next a_reserved a_width].
  set (t0 := match init with Some 0 => 1 | Some n => n | None => rnd end).
  rewrite to_max_length_mod.
  pose proof (N.mod_lt t0 (width_limit w) ltac:(lia)) as Hm.
  set (t1 := t0 mod width_limit w) in *. clearbody t1.
  split; [|split; [|split]].
  - destruct (N.eqb_spec t1 0); lia.
  - intros [].
  - intros v [].
  - constructor.
Qed.

Lemma alloc_new_fields w init rnd :
  a_reserved (alloc_new w init rnd) = [] /\ a_width (alloc_new w init rnd) = w.
Proof. split; reflexivity. Qed.

(* allocate: under the capacity precondition it returns the candidate, which is fresh, and
   finds a new candidate (loop termination) *)
Lemma allocate_ok a :
  ainv a -> N.of_nat (length (a_reserved a)) + 2 < width_limit (a_width a) ->
  exists t, allocate a = Ok (a_next a, mkAlloc t (a_next a :: a_reserved a) (a_width a))
            /\ ainv (mkAlloc t (a_next a :: a_reserved a) (a_width a)).
Proof.
  intros (Hr & Hn & Hall & Hnd) Hcap.
  pose proof (width_limit_bounds (a_width a)) as HB.
  unfold allocate. apply mem_false in Hn. rewrite Hn. apply mem_false in Hn.
  set (w := a_width a) in *. set (ret := a_next a) in *. set (resv := ret :: a_reserved a).
  pose proof (alloc_loop_spec w ret resv (S (length resv)) 0) as HL.
  rewrite (cand_0 (width_limit w) ret Hr) in HL.
  destruct (alloc_loop (S (length resv)) w ret resv) as [t'| |].
  - destruct HL as (i & Hi & E & Hm). exists t'. split; [reflexivity|].
    unfold ainv. cbn [a_next a_reserved a_width]. fold resv.
    pose proof (cand_range (width_limit w) ret i ltac:(lia)) as HR. rewrite <- E in HR.
    repeat split; try lia.
    + apply mem_false. assumption.
    + destruct H as [<-|H]; [lia | apply Hall; assumption].
    + destruct H as [<-|H]; [lia | apply Hall; assumption].
    + constructor; assumption.
  - contradiction.
  - exfalso. apply (candidates_not_all_reserved (width_limit w) ret resv); [lia| |].
    + unfold resv. cbn [length]. lia.
    + intros i Hi. apply HL. lia.
Qed.

Lemma release_ok a v :
  ainv a -> In v (a_reserved a) ->
  exists a', release a v = Some a' /\ ainv a'
    /\ a_reserved a' = filter (fun x => negb (x =? v)) (a_reserved a)
    /\ a_next a' = a_next a /\ a_width a' = a_width a.
Proof.
  intros (Hr & Hn & Hall & Hnd) Hin. unfold release.
  apply mem_In in Hin. rewrite Hin. eexists. split; [reflexivity|].
  cbn [a_next a_reserved a_width].
  split; [|split; [reflexivity|split; reflexivity]].
  unfold ainv. cbn [a_next a_reserved a_width]. split; [lia|split; [|split]].
  - intros H. apply filter_In in H. tauto.
  - intros x H. apply filter_In in H. apply Hall. tauto.
  - apply NoDup_filter. assumption.
Qed.

Lemma filter_neq_notin v l : ~ In v l -> filter (fun x => negb (x =? v)) l = l.
Proof.
  intros H. apply filter_all. intros x Hx.
  destruct (N.eqb_spec x v) as [->|]; [contradiction|reflexivity].
Qed.

Lemma release_all_ok : forall vs a,
  ainv a -> NoDup vs -> incl vs (a_reserved a) ->
  exists a', release_all a vs = Some a' /\ ainv a'
    /\ a_reserved a' = filter (fun x => negb (mem x vs)) (a_reserved a)
    /\ a_next a' = a_next a /\ a_width a' = a_width a.
Proof.
  induction vs as [|v vs IH]; intros a Ha Hnd Hinc.
  - exists a. cbn [release_all]. split; [reflexivity|split; [assumption|split; [|split; reflexivity]]].
    symmetry. apply filter_all. intros x _. reflexivity.
  - cbn [release_all].
    destruct (release_ok a v Ha (Hinc v (or_introl eq_refl))) as (a1 & E1 & Ha1 & R1 & N1 & W1).
    rewrite E1. inversion Hnd as [|x xs Hnv Hnd']; subst.
    destruct (IH a1 Ha1 Hnd') as (a2 & E2 & Ha2 & R2 & N2 & W2).
    { intros x Hx. rewrite R1. apply filter_In. split; [apply Hinc; right; assumption|].
      destruct (N.eqb_spec x v) as [->|]; [contradiction|reflexivity]. }
    exists a2. split; [assumption|split; [assumption|split; [|split; congruence]]].
    rewrite R2, R1, filter_filter. apply filter_ext. intros x.
    unfold mem. cbn [existsb]. rewrite negb_orb. reflexivity.
Qed.

(* ===================================================================================== *)
(* Part 3: the TOI on the wire                                                            *)

Lemma be_bytes_length n v : length (be_bytes n v) = n.
Proof. induction n as [|k IH]; cbn [be_bytes length]; congruence. Qed.

Lemma be_bytes_small n v : forallb (fun b => b <? 256) (be_bytes n v) = true.
Proof.
  induction n as [|k IH]; cbn [be_bytes forallb]; [reflexivity|].
  rewrite IH, andb_true_r. apply N.ltb_lt. apply N.mod_lt. lia.
Qed.

Lemma be_fold n : forall v a,
  fold_left (fun a b => a * 256 + b) (be_bytes n v) a
  = a * 256 ^ N.of_nat n + v mod 256 ^ N.of_nat n.
Proof.
  induction n as [|k IH]; intros v a.
  - cbn [be_bytes fold_left]. change (N.of_nat 0) with 0. rewrite N.pow_0_r, N.mod_1_r. lia.
  - cbn [be_bytes fold_left]. rewrite IH.
    rewrite Nat2N.inj_succ, N.pow_succ_r'.
    assert (HP : 256 ^ N.of_nat k <> 0) by (apply N.pow_nonzero; lia).
    rewrite (N.mul_comm 256 (256 ^ N.of_nat k)).
    rewrite (N.mod_mul_r v (256 ^ N.of_nat k) 256) by lia.
    set (P := 256 ^ N.of_nat k) in *. set (m := v mod P). set (b := (v / P) mod 256).
    clearbody P m b. lia.
Qed.

Lemma be_decode_be_bytes n v : be_decode (be_bytes n v) = v mod 256 ^ N.of_nat n.
Proof. unfold be_decode. rewrite be_fold. lia. Qed.

Lemma grp_zero_lt v k k' : k' = k + 16 -> v < 2 ^ k' -> grp v k = 0 -> v < 2 ^ k.
Proof.
  intros -> Hv Hg. unfold grp in Hg.
  assert (HP : 2 ^ k <> 0) by (apply N.pow_nonzero; lia).
  rewrite N.pow_add_r in Hv. change (2 ^ 16) with 65536 in Hv.
  pose proof (N.div_lt_upper_bound v (2 ^ k) 65536 HP Hv) as Hq.
  rewrite N.mod_small in Hg by assumption.
  apply N.div_small_iff in Hg; assumption.
Qed.

Lemma grp_small v k : v < 2 ^ k -> grp v k = 0.
Proof. intros H. unfold grp. rewrite N.div_small by assumption. reflexivity. Qed.

Lemma nb_bytes_128_spec v : v < TOI112 ->
  In (nb_bytes_128 v 2) [2; 4; 6; 8; 10; 12; 14] /\ v < 256 ^ nb_bytes_128 v 2.
Proof.
  intros Hv. change TOI112 with (2 ^ 112) in Hv.
  unfold nb_bytes_128. rewrite (grp_small v 112 Hv). cbn [negb]. change (0 =? 0) with true. cbn [negb].
  destruct (N.eqb_spec (grp v 96) 0) as [E96|_]; cbn [negb];
    [|split; [cbn [In]; tauto | change (256 ^ 14) with (2 ^ 112); assumption]].
  pose proof (grp_zero_lt v 96 112 eq_refl Hv E96) as H96.
  destruct (N.eqb_spec (grp v 80) 0) as [E80|_]; cbn [negb];
    [|split; [cbn [In]; tauto | change (256 ^ 12) with (2 ^ 96); assumption]].
  pose proof (grp_zero_lt v 80 96 eq_refl H96 E80) as H80.
  destruct (N.eqb_spec (grp v 64) 0) as [E64|_]; cbn [negb];
    [|split; [cbn [In]; tauto | change (256 ^ 10) with (2 ^ 80); assumption]].
  pose proof (grp_zero_lt v 64 80 eq_refl H80 E64) as H64.
  destruct (N.eqb_spec (grp v 48) 0) as [E48|_]; cbn [negb];
    [|split; [cbn [In]; tauto | change (256 ^ 8) with (2 ^ 64); assumption]].
  pose proof (grp_zero_lt v 48 64 eq_refl H64 E48) as H48.
  destruct (N.eqb_spec (grp v 32) 0) as [E32|_]; cbn [negb];
    [|split; [cbn [In]; tauto | change (256 ^ 6) with (2 ^ 48); assumption]].
  pose proof (grp_zero_lt v 32 48 eq_refl H48 E32) as H32.
  destruct (N.eqb_spec (grp v 16) 0) as [E16|_]; cbn [negb];
    [|split; [cbn [In]; tauto | change (256 ^ 4) with (2 ^ 32); assumption]].
  pose proof (grp_zero_lt v 16 32 eq_refl H32 E16) as H16.
  destruct (N.eqb_spec (grp v 0) 0) as [E0|_]; cbn [negb];
    [|split; [cbn [In]; tauto | change (256 ^ 2) with (2 ^ 16); assumption]].
  pose proof (grp_zero_lt v 0 16 eq_refl H16 E0) as H0.
  split; [cbn [In]; tauto|]. change (256 ^ 2) with (2 ^ 16). assumption.
Qed.

(* the width selection never chooses fewer bytes than the size class, never more than 14,
   always whole half-words; both values of the TSI's half-word flag *)
Lemma len_of_size_table s h : In s [2; 4; 6; 8; 10; 12; 14] -> h < 2 ->
  s <= len_of_size s h /\ len_of_size s h <= 14
  /\ Nat.even (N.to_nat (len_of_size s h)) = true.
Proof.
  intros Hs Hh.
  assert (Hh' : h = 0 \/ h = 1) by lia.
  cbn [In] in Hs.
  destruct Hh' as [-> | ->];
    repeat (destruct Hs as [<- | Hs]; [vm_compute; repeat split; discriminate|]); contradiction.
Qed.

Lemma h_of_tsi_lt tsi : h_of_tsi tsi < 2.
Proof. unfold h_of_tsi. apply N.mod_lt. lia. Qed.

(* toi_wire_exact, LCT part: a TOI below 2^112 goes through the width selection of
   push_lct_header unharmed, whatever the TSI *)
Lemma toi_field_roundtrip v h : v < TOI112 -> h < 2 ->
  be_decode (toi_field_bytes v h) = v
  /\ field_ok (toi_field_bytes v h) v = true.
Proof.
  intros Hv Hh.
  destruct (nb_bytes_128_spec v Hv) as (Hin & Hlt).
  destruct (len_of_size_table (nb_bytes_128 v 2) h Hin Hh) as (Hle & H14 & Hev).
  unfold toi_field_bytes, toi_field_len.
  set (len := len_of_size (nb_bytes_128 v 2) h) in *.
  assert (Hdec : be_decode (be_bytes (N.to_nat len) v) = v).
  { rewrite be_decode_be_bytes, N2Nat.id. apply N.mod_small.
    eapply N.lt_le_trans; [exact Hlt|]. apply N.pow_le_mono_r; [lia|assumption]. }
  split; [assumption|].
  unfold field_ok. rewrite be_bytes_small, be_bytes_length, Hev. cbn [andb].
  change (be_value (be_bytes (N.to_nat len) v)) with (be_decode (be_bytes (N.to_nat len) v)).
  rewrite Hdec, N.eqb_refl, andb_true_r.
  apply Nat.leb_le. change 14%nat with (N.to_nat 14). lia.
Qed.

(* decimal text *)
Lemma pow10_succ f : 10 ^ N.of_nat (S f) = 10 * 10 ^ N.of_nat f.
Proof. rewrite Nat2N.inj_succ. apply N.pow_succ_r'. Qed.

Lemma digits_aux_S f v acc :
  digits_aux (S f) v acc = if v <? 10 then v :: acc else digits_aux f (v / 10) (v mod 10 :: acc).
Proof. reflexivity. Qed.

Lemma digits_value : forall f v acc,
  v < 10 ^ N.of_nat (S f) ->
  fold_left (fun a d => a * 10 + d) (digits_aux (S f) v acc) 0
  = fold_left (fun a d => a * 10 + d) acc v.
Proof.
  induction f as [|f IH]; intros v acc Hv.
  - change (10 ^ N.of_nat 1) with 10 in Hv. cbn [digits_aux].
    destruct (N.ltb_spec v 10) as [_|Hge]; [|lia].
    cbn [fold_left]. replace (0 * 10 + v) with v by lia. reflexivity.
  - rewrite digits_aux_S. destruct (N.ltb_spec v 10) as [_|Hge].
    + cbn [fold_left]. replace (0 * 10 + v) with v by lia. reflexivity.
    + rewrite IH.
      * cbn [fold_left]. pose proof (N.div_mod v 10 ltac:(lia)) as D.
        set (q := v / 10) in *. set (m := v mod 10) in *. clearbody q m.
        replace (q * 10 + m) with v by lia. reflexivity.
      * rewrite pow10_succ in Hv. apply N.div_lt_upper_bound; [lia|assumption].
Qed.

Lemma digits_canonical : forall f v acc,
  v < 10 ^ N.of_nat (S f) -> forallb (fun d => d <? 10) acc = true -> (acc = [] \/ v <> 0) ->
  canonical_dec (digits_aux (S f) v acc) = true.
Proof.
  assert (Base : forall v acc, v < 10 -> forallb (fun d => d <? 10) acc = true ->
                   (acc = [] \/ v <> 0) -> canonical_dec (v :: acc) = true).
  { intros v acc Hv Ha Hd. unfold canonical_dec. cbn [forallb]. rewrite Ha.
    apply N.ltb_lt in Hv. rewrite Hv. cbn [andb].
    destruct acc as [|d acc']; [reflexivity|].
    destruct Hd as [Hd|Hd]; [discriminate|].
    destruct (N.eqb_spec v 0); [contradiction|reflexivity]. }
  induction f as [|f IH]; intros v acc Hv Ha Hd.
  - change (10 ^ N.of_nat 1) with 10 in Hv. cbn [digits_aux].
    destruct (N.ltb_spec v 10) as [_|Hge]; [|lia]. apply Base; assumption.
  - rewrite digits_aux_S. destruct (N.ltb_spec v 10) as [Hlt|Hge]; [apply Base; assumption|].
    apply IH.
    + rewrite pow10_succ in Hv. apply N.div_lt_upper_bound; [lia|assumption].
    + cbn [forallb]. rewrite Ha, andb_true_r. apply N.ltb_lt. apply N.mod_lt. lia.
    + right. intros Z. apply N.div_small_iff in Z; lia.
Qed.

Lemma to_decimal_fuel v : v < 10 ^ N.of_nat (S (N.to_nat (N.log2 v))).
Proof.
  rewrite Nat2N.inj_succ, N2Nat.id.
  destruct (N.eq_dec v 0) as [->|NZ].
  - change (N.log2 0) with 0. change (N.succ 0) with 1. change (10 ^ 1) with 10. lia.
  - pose proof (N.log2_spec v ltac:(lia)) as (_ & H).
    eapply N.lt_le_trans; [exact H|]. apply N.pow_le_mono_l. lia.
Qed.

(* toi_wire_exact, FDT part: the attribute text reads back as the value, and is canonical *)
Lemma to_decimal_value v : dec_value (to_decimal v) = v.
Proof.
  unfold dec_value, to_decimal. rewrite digits_value by apply to_decimal_fuel. reflexivity.
Qed.

Lemma to_decimal_canonical v : canonical_dec (to_decimal v) = true.
Proof.
  unfold to_decimal. apply digits_canonical; [apply to_decimal_fuel|reflexivity|left; reflexivity].
Qed.

(* ===================================================================================== *)
(* Part 2: the sender over histories, and the monitor of Spec/C15Spec.v                   *)

Definition view (s : sender) : mon := mkMon (s_nh s) (s_no s) (s_live s).

(* the values of the live boxes ARE the reserved set (in the same order), for the
   configured width *)
Definition sinv (c : config) (s : sender) : Prop :=
  ainv (s_alloc s)
  /\ live_vals s = a_reserved (s_alloc s)
  /\ a_width (s_alloc s) = c_width c.

(* the capacity precondition: two values of the cyclic range must remain free *)
Definition cap (c : config) (s : sender) : Prop :=
  N.of_nat (length (s_live s)) + 2 < width_limit (c_width c).

Definition grows (o : op) : nat :=
  match o with OAlloc | OAdd None AddOk => 1 | _ => 0 end.

Definition good_step (c : config) (s : sender) (o : op) (s' : sender) (r : result) : Prop :=
  sinv c s' /\ is_fatal r = false
  /\ mon_step (c_width c) (view s) o r = Some (view s')
  /\ (length (s_live s') <= length (s_live s) + grows o)%nat.

Lemma sender_new_inv c : sinv c (sender_new c).
Proof.
  unfold sinv, sender_new. cbn [s_alloc]. split; [apply alloc_new_inv|]. split; reflexivity.
Qed.

Lemma cap_alloc c s : sinv c s -> cap c s ->
  N.of_nat (length (a_reserved (s_alloc s))) + 2 < width_limit (a_width (s_alloc s)).
Proof.
  intros (_ & E & W) H. unfold cap in H. rewrite <- E, W. unfold live_vals. rewrite map_length.
  assumption.
Qed.

Lemma filter_length_le' {A} (p : A -> bool) l : (length (filter p l) <= length l)%nat.
Proof. induction l as [|a l IH]; cbn [filter length]; [lia|]. destruct (p a); cbn [length]; lia. Qed.

Lemma update_vals sel f l : (forall e, e_val (f e) = e_val e) -> map e_val (update sel f l) = map e_val l.
Proof.
  intros H. unfold update. rewrite map_map. apply map_ext. intros e. destruct (sel e); auto.
Qed.

Lemma update_length sel f l : length (update sel f l) = length l.
Proof. unfold update. apply map_length. Qed.

Lemma val_taken_In live v : val_taken live v = true <-> In v (map e_val live).
Proof.
  unfold val_taken. rewrite existsb_exists, in_map_iff. split.
  - intros (e & He & E). apply N.eqb_eq in E. eauto.
  - intros (e & E & He). exists e. split; [assumption|]. apply N.eqb_eq. assumption.
Qed.

(* a value handed out by allocate passes the three demands of the specification *)
Lemma fresh_ok_next c s : sinv c s ->
  fresh_ok (c_width c) (s_live s) (a_next (s_alloc s)) = true.
Proof.
  intros ((Hr & Hn & _) & E & W). unfold fresh_ok. rewrite <- W.
  destruct (N.eqb_spec (a_next (s_alloc s)) 0) as [Z|_]; [lia|].
  destruct (N.ltb_spec (a_next (s_alloc s)) (width_limit (a_width (s_alloc s)))) as [_|G]; [|lia].
  destruct (val_taken (s_live s) (a_next (s_alloc s))) eqn:T; [|reflexivity].
  exfalso. apply val_taken_In in T. apply Hn. rewrite <- E. exact T.
Qed.

Lemma drop_entries_ok c s p : sinv c s ->
  exists s', drop_entries p s = Some s' /\ sinv c s'
    /\ s_live s' = filter (fun e => negb (p e)) (s_live s)
    /\ s_nh s' = s_nh s /\ s_no s' = s_no s.
Proof.
  intros (Ha & E & W). unfold drop_entries.
  assert (ND : NoDup (map e_val (s_live s))).
  { unfold live_vals in E. rewrite E. apply Ha. }
  destruct (release_all_ok (map e_val (filter p (s_live s))) (s_alloc s) Ha) as (a' & R & Ha' & Rv & _ & W').
  { apply NoDup_map_filter. assumption. }
  { rewrite <- E. unfold live_vals. intros x Hx. apply in_map_iff in Hx.
    destruct Hx as (e & <- & He). apply filter_In in He. apply in_map. tauto. }
  rewrite R. eexists. split; [reflexivity|]. cbn [s_alloc s_live s_nh s_no].
  split; [|split; [reflexivity|split; reflexivity]].
  unfold sinv, live_vals. cbn [s_alloc s_live]. split; [assumption|]. split; [|congruence].
  rewrite Rv, <- E. unfold live_vals.
  apply map_filter_commute. intros e He. f_equal.
  destruct (p e) eqn:Pe.
  - symmetry. apply mem_In. apply in_map_iff. exists e. split; [reflexivity|].
    apply filter_In. tauto.
  - symmetry. apply mem_false. intros Hin. apply in_map_iff in Hin.
    destruct Hin as (e' & Ev & He'). apply filter_In in He'. destruct He' as (He' & Pe').
    assert (e' = e) by (eapply (NoDup_map_inj_in e_val); eauto). subst. congruence.
Qed.

(* model packets satisfy the wire demands of the specification *)
Lemma pkts_ok c s sel : sinv c s ->
  (forall e, sel e = true -> is_obj (e_id e) e = true) ->
  forallb (pkt_ok (s_live s)) (map (pkt_of c) (filter sel (s_live s))) = true
  /\ all_seen sel (s_live s) (map (pkt_of c) (filter sel (s_live s))) = true.
Proof.
  intros (Ha & E & W) Hsel. split.
  - apply forallb_forall. intros p Hp. apply in_map_iff in Hp. destruct Hp as (e & <- & He).
    apply filter_In in He. destruct He as (He & Se).
    assert (Hv : e_val e < TOI112).
    { destruct Ha as (_ & _ & Hall & _).
      assert (Hin : In (e_val e) (a_reserved (s_alloc s))) by (rewrite <- E; apply in_map; assumption).
      pose proof (Hall _ Hin). pose proof (width_limit_bounds (a_width (s_alloc s))). lia. }
    destruct (toi_field_roundtrip (e_val e) (h_of_tsi (c_tsi c)) Hv (h_of_tsi_lt _)) as (D & F).
    unfold pkt_of, pkt_ok. rewrite D, F, andb_true_r.
    apply existsb_exists. exists e. split; [assumption|].
    rewrite (Hsel e Se), N.eqb_refl. reflexivity.
  - unfold all_seen. apply forallb_forall. intros e He.
    apply existsb_exists. exists (pkt_of c e). split; [apply in_map; assumption|].
    unfold pkt_of. cbn [fst]. apply Nat.eqb_refl.
Qed.

Lemma is_obj_in_is_obj j st e : is_obj_in j st e = true -> is_obj (e_id e) e = true.
Proof.
  unfold is_obj_in, is_obj. destruct (e_kind e) as [|[| |]]; destruct st; intros H;
    try discriminate; apply Nat.eqb_refl.
Qed.

Lemma flying_is_obj j e : flying j e = true -> is_obj (e_id e) e = true.
Proof.
  unfold flying. intros H. apply orb_true_iff in H. destruct H as [H|H].
  - unfold is_sending in H. unfold is_obj. destruct (e_kind e) as [|[| |]]; try discriminate;
      apply Nat.eqb_refl.
  - eapply is_obj_in_is_obj. exact H.
Qed.

(* the FDT listing of the model satisfies the FDT demand of the specification *)
Lemma eq_list_refl l : eq_list l l = true.
Proof. induction l as [|x l IH]; cbn [eq_list]; [reflexivity|]. rewrite N.eqb_refl. exact IH. Qed.

Lemma fdt_ok_model s : fdt_ok (s_live s) (map to_decimal (fdt_of s)) = true.
Proof.
  unfold fdt_ok, fdt_of. apply andb_true_iff. split.
  - apply forallb_forall. intros d Hd. apply in_map_iff in Hd. destruct Hd as (e & <- & _).
    apply to_decimal_canonical.
  - rewrite map_map.
    rewrite (map_ext (fun v => dec_value (to_decimal v)) (fun v => v))
      by (intros v; apply to_decimal_value).
    rewrite map_id. apply eq_list_refl.
Qed.

(* ---------- one lemma per operation ---------- *)

Lemma step_alloc c s : sinv c s -> cap c s ->
  good_step c s OAlloc (fst (step c s OAlloc)) (snd (step c s OAlloc)).
Proof.
  intros I C. pose proof (fresh_ok_next c s I) as F.
  destruct (allocate_ok (s_alloc s) (proj1 I) (cap_alloc c s I C)) as (t & EA & IA).
  cbn [step]. rewrite EA. cbn [fst snd].
  destruct I as (Ha & E & W).
  unfold good_step. split; [|split; [reflexivity|split]].
  - unfold sinv, live_vals. cbn [s_alloc s_live map e_val a_reserved a_width].
    split; [assumption|]. split; [|assumption]. f_equal. exact E.
  - cbn [mon_step view m_live m_nh m_no s_nh s_no s_live]. rewrite F. reflexivity.
  - cbn [s_live length grows]. lia.
Qed.

Lemma step_add_implicit_ok c s : sinv c s -> cap c s ->
  good_step c s (OAdd None AddOk) (fst (step c s (OAdd None AddOk))) (snd (step c s (OAdd None AddOk))).
Proof.
  intros I C. pose proof (fresh_ok_next c s I) as F.
  destruct (allocate_ok (s_alloc s) (proj1 I) (cap_alloc c s I C)) as (t & EA & IA).
  cbn [step]. rewrite EA. cbn [fst snd].
  destruct I as (Ha & E & W).
  unfold good_step. split; [|split; [reflexivity|split]].
  - unfold sinv, live_vals. cbn [s_alloc s_live map e_val a_reserved a_width].
    split; [assumption|]. split; [|assumption]. f_equal. exact E.
  - cbn [mon_step view m_live m_nh m_no s_nh s_no s_live]. rewrite F. reflexivity.
  - cbn [s_live length grows]. lia.
Qed.

(* allocate immediately followed by the release of the value: the reserved set is unchanged *)
Lemma allocate_release a : ainv a ->
  N.of_nat (length (a_reserved a)) + 2 < width_limit (a_width a) ->
  exists t a', allocate a = Ok (a_next a, mkAlloc t (a_next a :: a_reserved a) (a_width a))
    /\ release (mkAlloc t (a_next a :: a_reserved a) (a_width a)) (a_next a) = Some a'
    /\ ainv a' /\ a_reserved a' = a_reserved a /\ a_width a' = a_width a.
Proof.
  intros Ha Hc. destruct (allocate_ok a Ha Hc) as (t & EA & IA).
  destruct (release_ok _ (a_next a) IA (or_introl eq_refl)) as (a' & ER & IA' & RV & _ & W').
  exists t, a'. split; [assumption|split; [assumption|split; [assumption|split; [|assumption]]]].
  rewrite RV. cbn [a_reserved filter]. rewrite N.eqb_refl. cbn [negb].
  apply filter_neq_notin. apply Ha.
Qed.

Lemma step_add_implicit_late c s : sinv c s -> cap c s ->
  good_step c s (OAdd None AddFailLate) (fst (step c s (OAdd None AddFailLate)))
            (snd (step c s (OAdd None AddFailLate))).
Proof.
  intros I C.
  destruct (allocate_release (s_alloc s) (proj1 I) (cap_alloc c s I C)) as (t & a' & EA & ER & IA & RV & W').
  cbn [step]. rewrite EA, ER. cbn [fst snd].
  destruct I as (Ha & E & W).
  unfold good_step. split; [|split; [reflexivity|split]].
  - unfold sinv, live_vals, bump_no, with_alloc. cbn [s_alloc s_live].
    split; [assumption|]. split; [|congruence]. rewrite RV. exact E.
  - reflexivity.
  - unfold bump_no, with_alloc. cbn [s_live grows]. lia.
Qed.

Lemma step_add_implicit_early c s : sinv c s ->
  good_step c s (OAdd None AddFailEarly) (fst (step c s (OAdd None AddFailEarly)))
            (snd (step c s (OAdd None AddFailEarly))).
Proof.
  intros I. cbn [step fst snd]. unfold good_step. split; [|split; [reflexivity|split]].
  - exact I.
  - reflexivity.
  - unfold bump_no. cbn [s_live grows]. lia.
Qed.

Lemma step_drop c s i : sinv c s ->
  good_step c s (ODrop i) (fst (step c s (ODrop i))) (snd (step c s (ODrop i))).
Proof.
  intros I. destruct (drop_entries_ok c s (is_handle i) I) as (s' & ED & I' & L & NH & NO).
  cbn [step]. rewrite ED. cbn [fst snd].
  unfold good_step. split; [assumption|split; [reflexivity|split]].
  - cbn [mon_step view m_live m_nh m_no]. unfold view. rewrite L, NH, NO. reflexivity.
  - rewrite L. pose proof (filter_length_le' (fun e => negb (is_handle i e)) (s_live s)).
    cbn [grows]. lia.
Qed.

Lemma step_add_handle c s i m : sinv c s ->
  good_step c s (OAdd (Some i) m) (fst (step c s (OAdd (Some i) m))) (snd (step c s (OAdd (Some i) m))).
Proof.
  intros I. cbn [step]. unfold good_step.
  destruct (find (is_handle i) (s_live s)) as [e|] eqn:Fd.
  - destruct m.
    + cbn [fst snd]. split; [|split; [reflexivity|split]].
      * destruct I as (Ha & E & W). unfold sinv, live_vals. cbn [s_alloc s_live].
        split; [assumption|]. split; [|assumption].
        rewrite update_vals by reflexivity. exact E.
      * unfold mon_step. cbn [view m_live m_nh m_no]. rewrite Fd. rewrite N.eqb_refl. reflexivity.
      * cbn [s_live]. rewrite update_length. cbn [grows]. lia.
    + destruct (drop_entries_ok c s (is_handle i) I) as (s' & ED & I' & L & NH & NO).
      rewrite ED. cbn [fst snd]. split; [|split; [reflexivity|split]].
      * exact I'.
      * unfold mon_step. cbn [view m_live m_nh m_no]. rewrite Fd. unfold view, bump_no. cbn [s_nh s_no s_live].
        rewrite L, NH, NO. reflexivity.
      * unfold bump_no. cbn [s_live]. rewrite L.
        pose proof (filter_length_le' (fun e => negb (is_handle i e)) (s_live s)). cbn [grows]. lia.
    + destruct (drop_entries_ok c s (is_handle i) I) as (s' & ED & I' & L & NH & NO).
      rewrite ED. cbn [fst snd]. split; [|split; [reflexivity|split]].
      * exact I'.
      * unfold mon_step. cbn [view m_live m_nh m_no]. rewrite Fd. unfold view, bump_no. cbn [s_nh s_no s_live].
        rewrite L, NH, NO. reflexivity.
      * unfold bump_no. cbn [s_live]. rewrite L.
        pose proof (filter_length_le' (fun e => negb (is_handle i e)) (s_live s)). cbn [grows]. lia.
  - cbn [fst snd]. split; [exact I|split; [reflexivity|split]].
    + unfold mon_step. cbn [view m_live m_nh m_no]. rewrite Fd. destruct m; reflexivity.
    + unfold bump_no. cbn [s_live grows]. lia.
Qed.

Lemma step_start c s j : sinv c s ->
  good_step c s (OStart j) (fst (step c s (OStart j))) (snd (step c s (OStart j))).
Proof.
  intros I. cbn [step fst snd]. unfold good_step.
  destruct (pkts_ok c s (is_obj_in j Queued) I (is_obj_in_is_obj j Queued)) as (P1 & P2).
  split; [|split; [reflexivity|split]].
  - destruct I as (Ha & E & W). unfold sinv, live_vals. cbn [s_alloc s_live].
    split; [assumption|]. split; [|assumption]. rewrite update_vals by reflexivity. exact E.
  - cbn [mon_step view m_live m_nh m_no]. rewrite P1, P2. reflexivity.
  - cbn [s_live]. rewrite update_length. cbn [grows]. lia.
Qed.

Lemma step_finish c s j : sinv c s ->
  good_step c s (OFinish j) (fst (step c s (OFinish j))) (snd (step c s (OFinish j))).
Proof.
  intros I. destruct (drop_entries_ok c s (flying j) I) as (s' & ED & I' & L & NH & NO).
  cbn [step]. rewrite ED. cbn [fst snd]. unfold good_step.
  destruct (pkts_ok c s (flying j) I (flying_is_obj j)) as (P1 & P2).
  split; [assumption|split; [reflexivity|split]].
  - cbn [mon_step view m_live m_nh m_no]. rewrite P1, P2. unfold view. rewrite L, NH, NO. reflexivity.
  - rewrite L. pose proof (filter_length_le' (fun e => negb (flying j e)) (s_live s)). cbn [grows]. lia.
Qed.

Lemma step_remove c s j : sinv c s ->
  good_step c s (ORemove j) (fst (step c s (ORemove j))) (snd (step c s (ORemove j))).
Proof.
  intros I. destruct (drop_entries_ok c s (is_obj_in j Queued) I) as (s' & ED & I' & L & NH & NO).
  cbn [step]. rewrite ED. cbn [fst snd]. unfold good_step.
  split; [|split; [reflexivity|split]].
  - destruct I' as (Ha & E & W). unfold sinv, live_vals. cbn [s_alloc s_live].
    split; [assumption|]. split; [|assumption]. rewrite update_vals by reflexivity. exact E.
  - cbn [mon_step view m_live m_nh m_no s_nh s_no s_live]. rewrite L, NH, NO. reflexivity.
  - cbn [s_live]. rewrite update_length, L.
    pose proof (filter_length_le' (fun e => negb (is_obj_in j Queued e)) (s_live s)). cbn [grows]. lia.
Qed.

(* the churn: every turn hands out a fresh value and gives it back *)
Lemma churn_spec c s n : sinv c s -> cap c s ->
  exists a' vals, N.iter n churn_step (Ok (s_alloc s), []) = (Ok a', vals)
    /\ ainv a' /\ a_reserved a' = a_reserved (s_alloc s) /\ a_width a' = a_width (s_alloc s)
    /\ N.of_nat (length vals) = n
    /\ forallb (fresh_ok (c_width c) (s_live s)) vals = true.
Proof.
  intros I C.
  apply (N.iter_ind _ churn_step (Ok (s_alloc s), [])
    (fun k acc => exists a' vals, acc = (Ok a', vals)
       /\ ainv a' /\ a_reserved a' = a_reserved (s_alloc s) /\ a_width a' = a_width (s_alloc s)
       /\ N.of_nat (length vals) = k
       /\ forallb (fresh_ok (c_width c) (s_live s)) vals = true)).
  - exists (s_alloc s), []. destruct I as (Ha & _).
    split; [reflexivity|split; [exact Ha|split; [reflexivity|split; [reflexivity|split; reflexivity]]]].
  - intros k acc (a1 & vals & -> & Ha1 & R1 & W1 & Len & Fr).
    assert (Hc : N.of_nat (length (a_reserved a1)) + 2 < width_limit (a_width a1)).
    { rewrite R1, W1. exact (cap_alloc c s I C). }
    destruct (allocate_release a1 Ha1 Hc) as (t & a2 & EA & ER & Ha2 & R2 & W2).
    cbn [churn_step]. rewrite EA, ER.
    exists a2, (a_next a1 :: vals).
    split; [reflexivity|split; [assumption|split; [congruence|split; [congruence|split]]]].
    + cbn [length]. rewrite Nat2N.inj_succ, Len. reflexivity.
    + cbn [forallb]. rewrite Fr, andb_true_r.
      (* a1 has the same reserved set and width as the sender's allocator *)
      set (s1 := mkSender a1 (s_nh s) (s_no s) (s_live s)).
      assert (I1 : sinv c s1).
      { destruct I as (Ha & E & W). unfold sinv, s1, live_vals. cbn [s_alloc s_live].
        split; [assumption|split; [|congruence]]. rewrite R1. exact E. }
      exact (fresh_ok_next c s1 I1).
Qed.

Lemma step_churn c s n : sinv c s -> cap c s ->
  good_step c s (OChurn n) (fst (step c s (OChurn n))) (snd (step c s (OChurn n))).
Proof.
  intros I C. destruct (churn_spec c s n I C) as (a' & vals & EI & Ha' & R' & W' & Len & Fr).
  cbn [step]. rewrite EI. cbn [fst snd]. unfold good_step.
  split; [|split; [reflexivity|split]].
  - destruct I as (Ha & E & W). unfold sinv, live_vals, with_alloc. cbn [s_alloc s_live].
    split; [assumption|split; [|congruence]]. rewrite R'. exact E.
  - cbn [mon_step view m_live m_nh m_no]. rewrite rev_append_rev, app_nil_r, rev_length, Len, N.eqb_refl.
    cbn [andb].
    assert (Fr' : forallb (fresh_ok (c_width c) (s_live s)) (rev vals) = true).
    { apply forallb_forall. intros x Hx. apply in_rev in Hx.
      rewrite forallb_forall in Fr. apply Fr. assumption. }
    rewrite Fr'. reflexivity.
  - unfold with_alloc. cbn [s_live grows]. lia.
Qed.

Lemma step_ok c s o : sinv c s -> cap c s ->
  good_step c s o (fst (step c s o)) (snd (step c s o)).
Proof.
  intros I C. destruct o as [|i|[i|] m|j|j|j|n].
  - apply step_alloc; assumption.
  - apply step_drop; assumption.
  - apply step_add_handle; assumption.
  - destruct m.
    + apply step_add_implicit_ok; assumption.
    + apply step_add_implicit_early; assumption.
    + apply step_add_implicit_late; assumption.
  - apply step_start; assumption.
  - apply step_finish; assumption.
  - apply step_remove; assumption.
  - apply step_churn; assumption.
Qed.

(* ---------- histories ---------- *)

(* the capacity precondition holds before every operation of the history *)
Fixpoint within_capacity (c : config) (s : sender) (ops : list op) : Prop :=
  match ops with
  | [] => True
  | o :: r => cap c s /\ within_capacity c (fst (step c s o)) r
  end.

Lemma history_ok c : forall ops s, sinv c s -> within_capacity c s ops ->
  mon_run (c_width c) (view s) ops (map render_out (run c s ops)) = true
  /\ exists s', state_after c s ops = Some s' /\ sinv c s'.
Proof.
  induction ops as [|o r IH]; intros s I WC.
  - cbn [run map mon_run state_after]. split; [reflexivity|]. exists s. split; [reflexivity|assumption].
  - destruct WC as (C & WC).
    destruct (step_ok c s o I C) as (I' & NF & MS & _).
    cbn [run state_after mon_run]. destruct (step c s o) as [s' res]. cbn [fst snd] in *.
    rewrite NF. cbn [map render_out fst snd mon_run]. rewrite MS.
    destruct (IH s' I' WC) as (MR & s'' & SA & I'').
    split.
    + change (m_live (view s')) with (s_live s'). rewrite fdt_ok_model, MR. reflexivity.
    + exists s''. split; assumption.
Qed.

Fixpoint total_grows (ops : list op) : nat :=
  match ops with [] => 0%nat | o :: r => (grows o + total_grows r)%nat end.

(* a syntactic sufficient condition: fewer than 2^width - 2 operations that keep a TOI *)
Lemma grows_within c : forall ops s, sinv c s ->
  N.of_nat (length (s_live s) + total_grows ops) + 2 < width_limit (c_width c) ->
  within_capacity c s ops.
Proof.
  induction ops as [|o r IH]; intros s I B; cbn [within_capacity]; [exact Logic.I|].
  cbn [total_grows] in B.
  assert (C : cap c s) by (unfold cap; lia).
  split; [assumption|].
  destruct (step_ok c s o I C) as (I' & _ & _ & Len).
  apply IH; [assumption|]. lia.
Qed.

Lemma spec_history_capacity c ops :
  within_capacity c (sender_new c) ops ->
  P_C15_history (c_width c) ops (map render_out (run c (sender_new c) ops)) = true.
Proof.
  intros WC. unfold P_C15_history.
  exact (proj1 (history_ok c ops (sender_new c) (sender_new_inv c) WC)).
Qed.

Lemma spec_history c ops :
  N.of_nat (total_grows ops) + 2 < width_limit (c_width c) ->
  P_C15_history (c_width c) ops (map render_out (run c (sender_new c) ops)) = true.
Proof.
  intros B. apply spec_history_capacity. apply grows_within; [apply sender_new_inv|].
  cbn [sender_new s_live length]. exact B.
Qed.

Lemma spec_wire toi tsi :
  P_C15_wire toi (toi_field_bytes toi (h_of_tsi tsi)) (be_decode (toi_field_bytes toi (h_of_tsi tsi))) = true.
Proof.
  unfold P_C15_wire. change (width_limit ToiMax112) with TOI112.
  destruct (N.ltb_spec toi TOI112) as [H|_]; [|reflexivity].
  destruct (toi_field_roundtrip toi (h_of_tsi tsi) H (h_of_tsi_lt tsi)) as (D & F).
  rewrite F, D, N.eqb_refl. reflexivity.
Qed.

(* ---------- the clauses of C15 in readable form ---------- *)

Lemma allocate_fresh a :
  ainv a -> N.of_nat (length (a_reserved a)) + 2 < 2 ^ width_bits (a_width a) ->
  exists a', allocate a = Ok (a_next a, a')
    /\ a_next a <> 0 /\ a_next a < 2 ^ width_bits (a_width a)
    /\ ~ In (a_next a) (a_reserved a)
    /\ a_reserved a' = a_next a :: a_reserved a
    /\ ainv a'.
Proof.
  rewrite pow_width. intros Ha Hc. destruct (allocate_ok a Ha Hc) as (t & E & I').
  eexists. split; [exact E|]. destruct Ha as (Hr & Hn & _).
  split; [lia|split; [lia|split; [assumption|split; [reflexivity|assumption]]]].
Qed.

Lemma release_reusable a v :
  ainv a -> In v (a_reserved a) ->
  exists a', release a v = Some a' /\ ainv a'
    /\ ~ In v (a_reserved a')
    /\ (forall x, x <> v -> (In x (a_reserved a') <-> In x (a_reserved a))).
Proof.
  intros Ha Hin. destruct (release_ok a v Ha Hin) as (a' & E & I' & R & _).
  exists a'. split; [assumption|split; [assumption|split]].
  - rewrite R. intros H. apply filter_In in H. destruct H as (_ & H).
    rewrite N.eqb_refl in H. discriminate.
  - intros x Hx. rewrite R, filter_In. destruct (N.eqb_spec x v); [contradiction|]. cbn [negb]. tauto.
Qed.

Lemma sinv_facts c s : sinv c s ->
  NoDup (live_vals s)
  /\ (forall v, In v (live_vals s) -> v <> 0 /\ v < 2 ^ width_bits (c_width c))
  /\ live_vals s = a_reserved (s_alloc s)
  /\ ~ In (a_next (s_alloc s)) (live_vals s).
Proof.
  intros ((Hr & Hn & Hall & Hnd) & E & W). rewrite pow_width, <- W, E.
  split; [assumption|split; [|split; [reflexivity|assumption]]].
  intros v Hv. pose proof (Hall v Hv). lia.
Qed.

Lemma unique_live c ops :
  within_capacity c (sender_new c) ops ->
  exists s', state_after c (sender_new c) ops = Some s'
    /\ NoDup (live_vals s')
    /\ (forall v, In v (live_vals s') -> v <> 0 /\ v < 2 ^ width_bits (c_width c))
    /\ live_vals s' = a_reserved (s_alloc s').
Proof.
  intros WC. destruct (history_ok c ops (sender_new c) (sender_new_inv c) WC) as (_ & s' & SA & I').
  exists s'. destruct (sinv_facts c s' I') as (A & B & C & _). tauto.
Qed.

(* the effect of each operation on the list of live boxes *)
Definition releases (o : op) (e : entry) : bool :=
  match o with
  | ODrop i => is_handle i e
  | OAdd (Some i) AddFailEarly | OAdd (Some i) AddFailLate => is_handle i e
  | OFinish j => flying j e
  | ORemove j => is_obj_in j Queued e
  | _ => false
  end.

Lemma filter_negb_false {A} (l : list A) : filter (fun e => negb false) l = l.
Proof. apply filter_all. reflexivity. Qed.

(* values leave the live set only with an entry that the operation releases, and enter it only
   as the freshly allocated value *)
Lemma step_live_vals c s o : sinv c s -> cap c s ->
  let s' := fst (step c s o) in
  (exists v, snd (step c s o) = RVal v /\ grows o = 1%nat /\ ~ In v (live_vals s)
             /\ live_vals s' = v :: live_vals s)
  \/ live_vals s' = map e_val (filter (fun e => negb (releases o e)) (s_live s)).
Proof.
  intros I C. cbn zeta.
  destruct (sinv_facts c s I) as (_ & _ & _ & NI).
  destruct o as [|i|[i|] m|j|j|j|n].
  - left. destruct (allocate_ok (s_alloc s) (proj1 I) (cap_alloc c s I C)) as (t & EA & IA).
    cbn [step]. rewrite EA. cbn [fst snd]. exists (a_next (s_alloc s)).
    split; [reflexivity|split; [reflexivity|split; [assumption|reflexivity]]].
  - right. destruct (drop_entries_ok c s (is_handle i) I) as (s' & ED & _ & L & _).
    cbn [step]. rewrite ED. cbn [fst releases]. unfold live_vals. rewrite L. reflexivity.
  - right. cbn [step]. destruct (find (is_handle i) (s_live s)) as [e|] eqn:Fd.
    + destruct m.
      * cbn [fst releases]. unfold live_vals. cbn [s_live]. rewrite update_vals by reflexivity.
        rewrite filter_negb_false. reflexivity.
      * destruct (drop_entries_ok c s (is_handle i) I) as (s' & ED & _ & L & _).
        rewrite ED. cbn [fst releases]. unfold live_vals, bump_no. cbn [s_live]. rewrite L. reflexivity.
      * destruct (drop_entries_ok c s (is_handle i) I) as (s' & ED & _ & L & _).
        rewrite ED. cbn [fst releases]. unfold live_vals, bump_no. cbn [s_live]. rewrite L. reflexivity.
    + cbn [fst]. unfold live_vals, bump_no. cbn [s_live].
      (* no such handle: nothing in the list is selected by [is_handle i] *)
      f_equal. symmetry. apply filter_all. intros e He.
      pose proof (find_none _ _ Fd e He) as Hn.
      destruct m; cbn [releases]; try reflexivity; rewrite Hn; reflexivity.
  - destruct m.
    + left. destruct (allocate_ok (s_alloc s) (proj1 I) (cap_alloc c s I C)) as (t & EA & IA).
      cbn [step]. rewrite EA. cbn [fst snd]. exists (a_next (s_alloc s)).
      split; [reflexivity|split; [reflexivity|split; [assumption|reflexivity]]].
    + right. cbn [step fst releases]. unfold live_vals, bump_no. cbn [s_live].
      rewrite filter_negb_false. reflexivity.
    + right.
      destruct (allocate_release (s_alloc s) (proj1 I) (cap_alloc c s I C)) as (t & a' & EA & ER & _).
      cbn [step]. rewrite EA, ER. cbn [fst releases]. unfold live_vals, bump_no, with_alloc. cbn [s_live].
      rewrite filter_negb_false. reflexivity.
  - right. cbn [step fst releases]. unfold live_vals. cbn [s_live].
    rewrite update_vals by reflexivity. rewrite filter_negb_false. reflexivity.
  - right. destruct (drop_entries_ok c s (flying j) I) as (s' & ED & _ & L & _).
    cbn [step]. rewrite ED. cbn [fst releases]. unfold live_vals. rewrite L. reflexivity.
  - right. destruct (drop_entries_ok c s (is_obj_in j Queued) I) as (s' & ED & _ & L & _).
    cbn [step]. rewrite ED. cbn [fst releases]. unfold live_vals. cbn [s_live].
    rewrite update_vals by reflexivity. rewrite L. reflexivity.
  - right. destruct (churn_spec c s n I C) as (a' & vals & EI & _).
    cbn [step]. rewrite EI. cbn [fst releases]. unfold live_vals, with_alloc. cbn [s_live].
    rewrite filter_negb_false. reflexivity.
Qed.

(* "A TOI becomes reusable only after its handle or object has been released": a value that is
   live before an operation and not after it belonged to a box that this operation releases -
   a handle that is dropped or refused together with its object, an object whose transfer has
   ended, or a queued object that is removed.  (An object removed while it is being sent keeps
   its TOI until the transfer has ended.) *)
Lemma leaves_only_by_release c s o v : sinv c s -> cap c s ->
  In v (live_vals s) -> ~ In v (live_vals (fst (step c s o))) ->
  exists e, In e (s_live s) /\ e_val e = v /\ releases o e = true.
Proof.
  intros I C Hin Hout. destruct (step_live_vals c s o I C) as [(v0 & _ & _ & _ & E)|E].
  - exfalso. apply Hout. rewrite E. right. assumption.
  - unfold live_vals in Hin. apply in_map_iff in Hin. destruct Hin as (e & Ev & He).
    exists e. split; [assumption|split; [assumption|]].
    destruct (releases o e) eqn:R; [reflexivity|]. exfalso. apply Hout. rewrite E.
    apply in_map_iff. exists e. split; [assumption|]. apply filter_In. rewrite R. tauto.
Qed.

(* every value handed out (explicitly or by add_object) differs from all live values *)
Lemma allocation_is_fresh c s o v : sinv c s -> cap c s ->
  snd (step c s o) = RVal v -> grows o = 1%nat ->
  v <> 0 /\ v < 2 ^ width_bits (c_width c) /\ ~ In v (live_vals s)
  /\ live_vals (fst (step c s o)) = v :: live_vals s.
Proof.
  intros I C R G. destruct (step_live_vals c s o I C) as [(v0 & R0 & _ & N & E)|E].
  - rewrite R in R0. injection R0 as ->.
    destruct (step_ok c s o I C) as (I' & _).
    destruct (sinv_facts c _ I') as (_ & B & _).
    assert (Hv : In v0 (live_vals (fst (step c s o)))) by (rewrite E; left; reflexivity).
    destruct (B v0 Hv). tauto.
  - exfalso. destruct o as [|i|[i|] [| |]|j|j|j|n]; cbn [grows] in G; try discriminate.
    + destruct (allocate_ok (s_alloc s) (proj1 I) (cap_alloc c s I C)) as (t & EA & IA).
      cbn [step] in E. rewrite EA in E. cbn [fst releases] in E. unfold live_vals in E. cbn [s_live map] in E.
      rewrite filter_negb_false in E.
      assert (L : length (e_val {| e_kind := KHandle; e_id := s_nh s; e_val := a_next (s_alloc s) |}
                           :: map e_val (s_live s)) = length (map e_val (s_live s))) by (rewrite E; reflexivity).
      cbn [length] in L. lia.
    + destruct (allocate_ok (s_alloc s) (proj1 I) (cap_alloc c s I C)) as (t & EA & IA).
      cbn [step] in E. rewrite EA in E. cbn [fst releases] in E. unfold live_vals in E. cbn [s_live map] in E.
      rewrite filter_negb_false in E.
      assert (L : length (e_val {| e_kind := KObj Queued; e_id := s_no s; e_val := a_next (s_alloc s) |}
                           :: map e_val (s_live s)) = length (map e_val (s_live s))) by (rewrite E; reflexivity).
      cbn [length] in L. lia.
Qed.

Lemma alloc_inv_initial w init rnd :
  let a := alloc_new w init rnd in
  1 <= a_next a < 2 ^ width_bits w /\ a_reserved a = [] /\ a_width a = w /\ ainv a.
Proof.
  cbn zeta. pose proof (alloc_new_inv w init rnd) as H.
  rewrite pow_width. split; [exact (proj1 H)|]. split; [reflexivity|]. split; [reflexivity|exact H].
Qed.

Lemma invariant_reachable c ops :
  within_capacity c (sender_new c) ops ->
  exists s', state_after c (sender_new c) ops = Some s' /\ sinv c s'.
Proof.
  intros WC. exact (proj2 (history_ok c ops (sender_new c) (sender_new_inv c) WC)).
Qed.

Lemma toi_wire_exact v tsi :
  v < 2 ^ 112 ->
  be_decode (toi_field_bytes v (h_of_tsi tsi)) = v
  /\ field_ok (toi_field_bytes v (h_of_tsi tsi)) v = true
  /\ dec_value (to_decimal v) = v
  /\ canonical_dec (to_decimal v) = true.
Proof.
  intros Hv. change (2 ^ 112) with TOI112 in Hv.
  destruct (toi_field_roundtrip v (h_of_tsi tsi) Hv (h_of_tsi_lt tsi)) as (D & F).
  split; [exact D|split; [exact F|split; [apply to_decimal_value|apply to_decimal_canonical]]].
Qed.
