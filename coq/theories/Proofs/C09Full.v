(* C09, history level: every writer the receiver creates sees  open . write* . terminal?  and
   nothing after the terminal call; dropping the receiver terminates every opened writer.
   Proved of the model (Model/ObjRecv.v, Model/Recv.v) for every event history and every oracle. *)
From FluteV Require Import Model.ObjRecv Model.Recv Spec.RecvSpec Proofs.RecvProofs.
From Coq Require Import Lia.
Open Scope N_scope.

Arguments N.add : simpl never. Arguments N.mul : simpl never. Arguments N.sub : simpl never.
Arguments N.eqb : simpl never. Arguments N.ltb : simpl never. Arguments N.leb : simpl never.

(* ================= writer ids, logs, builder counter ================= *)
Lemma wid_eqb_eq a b : wid_eqb a b = true <-> a = b.
Proof.
  destruct a as [a1 a2], b as [b1 b2]; unfold wid_eqb; cbn [fst snd].
  rewrite andb_true_iff, N.eqb_eq, Nat.eqb_eq. split; [intros [-> ->]; reflexivity|intros H; inversion H; auto].
Qed.
Lemma wid_eqb_refl a : wid_eqb a a = true.
Proof. apply wid_eqb_eq; reflexivity. Qed.
Lemma wid_eqb_neq a b : a <> b -> wid_eqb a b = false.
Proof. intros H. destruct (wid_eqb a b) eqn:Eq; [apply wid_eqb_eq in Eq; congruence|reflexivity]. Qed.
Lemma wid_eq_dec (a b : wid) : {a = b} + {a <> b}.
Proof. decide equality; [apply Nat.eq_dec|apply N.eq_dec]. Qed.

Definition runw (w : wid) (log : list wev) : option wphase := c09_run None PhStart (calls_of w log).

Lemma calls_of_app w a b : calls_of w (a ++ b) = calls_of w a ++ calls_of w b.
Proof. unfold calls_of. apply flat_map_app. Qed.

Definition ev_call (e : wev) : option (wid * wcall) :=
  match e with
  | EvOpen w ok => Some (w, CallOpen ok)
  | EvWrite w d ok => Some (w, CallWrite d ok)
  | EvComplete w => Some (w, CallComplete)
  | EvError w => Some (w, CallError)
  | EvInterrupted w => Some (w, CallInterrupted)
  | EvBuilder _ _ => None
  end.
Lemma calls_of_single w e :
  calls_of w [e] = match ev_call e with Some (w', cl) => if wid_eqb w w' then [cl] else [] | None => [] end.
Proof. destruct e; cbn; try reflexivity; destruct (wid_eqb w _); reflexivity. Qed.

Lemma find_filter_other (t t' : N) (l : list (N * nat)) : t' <> t ->
  find (fun p => fst p =? t') (filter (fun p => negb (fst p =? t)) l) = find (fun p => fst p =? t') l.
Proof.
  intros H. induction l as [|x l IH]; cbn [filter find]; [reflexivity|].
  destruct (N.eqb_spec (fst x) t) as [e|ne]; cbn [negb].
  - destruct (N.eqb_spec (fst x) t'); [congruence|]. exact IH.
  - cbn [find]. destruct (fst x =? t'); [reflexivity|exact IH].
Qed.
Lemma ncalls_inc_same c t : ncalls (inc_calls c t) t = S (ncalls c t).
Proof. unfold ncalls at 1, inc_calls. cbn [c_next find fst]. rewrite N.eqb_refl. reflexivity. Qed.
Lemma ncalls_inc_other c t t' : t' <> t -> ncalls (inc_calls c t) t' = ncalls c t'.
Proof.
  intros H. unfold ncalls at 1, inc_calls. cbn [c_next find fst].
  destruct (N.eqb_spec t t'); [congruence|]. rewrite find_filter_other by assumption. reflexivity.
Qed.
Lemma ncalls_inc_mono c t t' : (ncalls c t' <= ncalls (inc_calls c t) t')%nat.
Proof. destruct (N.eq_dec t' t) as [->|ne]; [rewrite ncalls_inc_same; lia|rewrite ncalls_inc_other by assumption; lia]. Qed.
Lemma ncalls_logc c e t : ncalls (logc c e) t = ncalls c t.
Proof. reflexivity. Qed.
Lemma ncalls_next c c' t : c_next c' = c_next c -> ncalls c' t = ncalls c t.
Proof. intros H. unfold ncalls. rewrite H. reflexivity. Qed.

(* ================= object level ================= *)
Definition phase_ok (ws : wstate) (ph : wphase) : Prop :=
  match ws, ph with
  | WOpened, PhOpened _ => True
  | (WClosed | WErr), PhDone => True
  | _, _ => False
  end.

(* the writer can still be called *)
Definition Live (o : objrecv) : Prop :=
  match r_writer o with None | Some (_, WOpened) => True | _ => False end.
(* a terminated writer belongs to an object that has left the receiving state and holds no cache *)
Definition Quiet (o : objrecv) : Prop := Live o \/ (r_state o <> Receiving /\ r_cache o = []).
(* the writer's id is the object's TOI + an index below the builder counter, and the calls logged
   for it so far are accepted by the protocol automaton and end in the phase the object believes *)
Definition WInv (toi : N) (wr : option (wid * wstate)) (c : ctx) : Prop :=
  match wr with
  | None => True
  | Some (w, ws) => fst w = toi /\ (snd w < ncalls c (fst w))%nat /\
                    exists ph, runw w (c_log c) = Some ph /\ phase_ok ws ph
  end.
(* ids not yet handed out have no call *)
Definition Fresh (c : ctx) : Prop := forall w, (ncalls c (fst w) <= snd w)%nat -> calls_of w (c_log c) = [].
Definition Pre (o : objrecv) (c : ctx) : Prop := Quiet o /\ WInv (r_toi o) (r_writer o) c /\ Fresh c.

Record Ext (o : objrecv) (c : ctx) (o' : objrecv) (c' : ctx) : Prop := mkExt {
  e_toi : r_toi o' = r_toi o;
  e_mono : forall t, (ncalls c t <= ncalls c' t)%nat;
  e_stable : forall w ws, r_writer o = Some (w, ws) -> exists ws', r_writer o' = Some (w, ws');
  e_new : forall w ws, r_writer o = None -> r_writer o' = Some (w, ws) -> (ncalls c (fst w) <= snd w)%nat;
  e_frame : forall w, (forall ws, r_writer o' <> Some (w, ws)) -> calls_of w (c_log c') = calls_of w (c_log c);
  e_pre : Pre o' c'
}.

Lemma Fresh_step c c' o' :
  Fresh c -> (forall t, (ncalls c t <= ncalls c' t)%nat) ->
  (forall w, (forall ws, r_writer o' <> Some (w, ws)) -> calls_of w (c_log c') = calls_of w (c_log c)) ->
  WInv (r_toi o') (r_writer o') c' -> Fresh c'.
Proof.
  intros F M Fr W w Hw.
  assert (Hc : calls_of w (c_log c) = []) by (apply F; specialize (M (fst w)); lia).
  destruct (r_writer o') as [[w' ws']|] eqn:Ew.
  - destruct (wid_eq_dec w w') as [->|ne].
    + cbn in W. destruct W as (_ & L & _). lia.
    + rewrite Fr; [exact Hc|]. intros ws H. inversion H. congruence.
  - rewrite Fr; [exact Hc|]. intros ws H. discriminate.
Qed.

Lemma Ext_intro o c o' c' :
  Pre o c -> r_toi o' = r_toi o ->
  (forall t, (ncalls c t <= ncalls c' t)%nat) ->
  (forall w ws, r_writer o = Some (w, ws) -> exists ws', r_writer o' = Some (w, ws')) ->
  (forall w ws, r_writer o = None -> r_writer o' = Some (w, ws) -> (ncalls c (fst w) <= snd w)%nat) ->
  (forall w, (forall ws, r_writer o' <> Some (w, ws)) -> calls_of w (c_log c') = calls_of w (c_log c)) ->
  Quiet o' -> WInv (r_toi o') (r_writer o') c' -> Ext o c o' c'.
Proof.
  intros (Q & W & F) T M S Nw Fr Q' W'. constructor; try assumption.
  split; [exact Q'|split; [exact W'|]]. eapply Fresh_step; eassumption.
Qed.

Lemma Ext_refl o c : Pre o c -> Ext o c o c.
Proof.
  intros P. constructor; auto.
  - intros w ws H. eexists; exact H.
  - intros w ws H1 H2. congruence.
Qed.

Lemma Ext_trans o c o1 c1 o2 c2 : Ext o c o1 c1 -> Ext o1 c1 o2 c2 -> Ext o c o2 c2.
Proof.
  intros [T1 M1 S1 N1 F1 P1] [T2 M2 S2 N2 F2 P2]. constructor.
  - congruence.
  - intros t. specialize (M1 t). specialize (M2 t). lia.
  - intros w ws H. destruct (S1 _ _ H) as [ws1 H1]. exact (S2 _ _ H1).
  - intros w ws H0 H2. destruct (r_writer o1) as [[w1 ws1]|] eqn:E1.
    + destruct (S2 _ _ eq_refl) as [ws2 H2']. rewrite H2 in H2'. inversion H2'; subst. eapply N1; [assumption|reflexivity].
    + specialize (N2 _ _ eq_refl H2). specialize (M1 (fst w)). lia.
  - intros w H. rewrite F2 by exact H. apply F1. intros ws1 H1.
    destruct (S2 _ _ H1) as [ws2 H2]. exact (H _ H2).
  - exact P2.
Qed.

Lemma WInv_ceq toi wr c c' : c_next c' = c_next c -> c_log c' = c_log c -> WInv toi wr c -> WInv toi wr c'.
Proof.
  intros Hn Hl. destruct wr as [[w ws]|]; cbn; [|auto].
  rewrite (ncalls_next c c' _ Hn), Hl. auto.
Qed.

(* (a) the object changes, the log does not *)
Lemma Ext_upd o c o' c' :
  Pre o c -> r_toi o' = r_toi o -> r_writer o' = r_writer o -> Quiet o' ->
  c_next c' = c_next c -> c_log c' = c_log c -> Ext o c o' c'.
Proof.
  intros P T Wr Q' Hn Hl. apply Ext_intro; try assumption.
  - intros t. rewrite (ncalls_next c c' t Hn). lia.
  - intros w ws H. rewrite Wr. eexists; exact H.
  - intros w ws H1 H2. congruence.
  - intros w _. rewrite Hl. reflexivity.
  - rewrite T, Wr. destruct P as (_ & W & _). eapply WInv_ceq; eassumption.
Qed.

(* (b) one call to the open writer of the object *)
Lemma Ext_call o c o' c' w ws' e cl :
  Pre o c -> r_toi o' = r_toi o -> r_writer o = Some (w, WOpened) -> r_writer o' = Some (w, ws') ->
  Quiet o' -> c_next c' = c_next c -> c_log c' = c_log c ++ [e] -> ev_call e = Some (w, cl) ->
  (forall acc, exists ph, c09_step None (PhOpened acc) cl = Some ph /\ phase_ok ws' ph) ->
  Ext o c o' c'.
Proof.
  intros P T Wr Wr' Q' Hn Hl He Hs. apply Ext_intro; try assumption.
  - intros t. rewrite (ncalls_next c c' t Hn). lia.
  - intros w0 ws0 H. rewrite Wr in H. inversion H; subst. eexists; exact Wr'.
  - intros w0 ws0 H1 H2. congruence.
  - intros w0 H. rewrite Hl, calls_of_app, calls_of_single, He.
    rewrite wid_eqb_neq; [apply app_nil_r|]. intros ->. exact (H _ Wr').
  - rewrite Wr', T. destruct P as (_ & W & _). rewrite Wr in W. cbn in W |- *.
    destruct W as (W1 & W2 & ph & R & K). split; [exact W1|]. split; [rewrite (ncalls_next c c' _ Hn); exact W2|].
    destruct ph; cbn in K; try contradiction. destruct (Hs acc) as (ph' & St & K').
    exists ph'. split; [|exact K'].
    unfold runw in *. rewrite Hl, calls_of_app, calls_of_single, He, wid_eqb_refl, c09_run_app, R.
    cbn [c09_run]. rewrite St. reflexivity.
Qed.

Lemma Quiet_of_Live o : Live o -> Quiet o.
Proof. intros H; left; exact H. Qed.

Ltac live_same H :=
  (* Live o' from H : Live o when the writers agree definitionally *)
  first [exact H | left; exact H].

Lemma Ext_complete o c : Pre o c -> Live o -> Ext o c (fst (complete o c)) (snd (complete o c)).
Proof.
  intros P L. unfold complete. unfold Live in L.
  destruct (r_writer o) as [[w ws]|] eqn:Ew; cbn [fst snd].
  - destruct ws; try contradiction.
    eapply Ext_call with (w := w) (ws' := WClosed) (e := EvComplete w) (cl := CallComplete); try eassumption; try reflexivity.
    + cbn. rewrite Ew. reflexivity.
    + right. cbn. split; [discriminate|reflexivity].
    + intros acc. exists PhDone. split; [reflexivity|exact I].
  - apply Ext_upd; try assumption; try reflexivity.
    + cbn. rewrite Ew. reflexivity.
    + left. unfold Live. cbn. rewrite Ew. exact I.
Qed.

Lemma Ext_error o i c : Pre o c -> Live o -> Ext o c (fst (error o i c)) (snd (error o i c)).
Proof.
  intros P L. unfold error. unfold Live in L.
  destruct (r_writer o) as [[w ws]|] eqn:Ew; cbn [fst snd].
  - destruct ws; try contradiction.
    eapply Ext_call with (w := w) (ws' := WErr) (e := if i then EvInterrupted w else EvError w)
                         (cl := if i then CallInterrupted else CallError); try eassumption; try reflexivity.
    + cbn. rewrite Ew. reflexivity.
    + right. cbn. split; [destruct i; discriminate|reflexivity].
    + destruct i; reflexivity.
    + intros acc. exists PhDone. split; [destruct i; reflexivity|exact I].
  - apply Ext_upd; try assumption; try reflexivity.
    + cbn. rewrite Ew. reflexivity.
    + left. unfold Live. cbn. rewrite Ew. exact I.
Qed.

Section Obj.
  Variable E : env.

  Lemma Ext_write o c o' w d :
    Pre o c -> r_toi o' = r_toi o -> r_writer o = Some (w, WOpened) -> r_writer o' = r_writer o ->
    Ext o c o' (snd (do_write E w d c)).
  Proof.
    intros P T Wr Wr'. unfold do_write. cbn [snd].
    eapply Ext_call with (w := w) (ws' := WOpened) (cl := CallWrite d (e_write_ok E w (wcount c w)));
      try eassumption; try reflexivity.
    - congruence.
    - left. unfold Live. rewrite Wr', Wr. exact I.
    - intros acc. eexists. split; [reflexivity|exact I].
  Qed.

  Lemma bw_write_ctx w sbn b bw c :
    snd (bw_write E w sbn b bw c) = c \/ exists d, snd (bw_write E w sbn b bw c) = snd (do_write E w d c).
  Proof.
    unfold bw_write. destruct (negb (bw_sbn bw =? sbn)); [left; reflexivity|].
    destruct (bd_data b) as [data0|]; [|left; reflexivity].
    cbv zeta.
    match goal with |- context [do_write E w ?d c] => set (data := d) end.
    destruct (bw_cenc bw).
    - right. exists data. destruct (do_write E w data c) as [ok c1]. destruct ok; reflexivity.
    - destruct (bw_dead bw && negb (lenN_ data =? 0)); [left; reflexivity|].
      destruct (e_inflate E CZlib (bw_acc bw) false); [|left; reflexivity].
      destruct (e_inflate E CZlib _ _); [|left; reflexivity].
      match goal with |- context [match ?fr with [] => _ | _ :: _ => _ end] => destruct fr as [|x xs] eqn:Efr end.
      + left; reflexivity.
      + right. exists (x :: xs). destruct (do_write E w (x :: xs) c) as [ok c1]. destruct ok; reflexivity.
    - destruct (bw_dead bw && negb (lenN_ data =? 0)); [left; reflexivity|].
      destruct (e_inflate E CDeflate (bw_acc bw) false); [|left; reflexivity].
      destruct (e_inflate E CDeflate _ _); [|left; reflexivity].
      match goal with |- context [match ?fr with [] => _ | _ :: _ => _ end] => destruct fr as [|x xs] eqn:Efr end.
      + left; reflexivity.
      + right. exists (x :: xs). destruct (do_write E w (x :: xs) c) as [ok c1]. destruct ok; reflexivity.
    - destruct (bw_dead bw && negb (lenN_ data =? 0)); [left; reflexivity|].
      destruct (e_inflate E CGzip (bw_acc bw) false); [|left; reflexivity].
      destruct (e_inflate E CGzip _ _); [|left; reflexivity].
      match goal with |- context [match ?fr with [] => _ | _ :: _ => _ end] => destruct fr as [|x xs] eqn:Efr end.
      + left; reflexivity.
      + right. exists (x :: xs). destruct (do_write E w (x :: xs) c) as [ok c1]. destruct ok; reflexivity.
  Qed.

  Lemma Ext_bw o c o' w c1 :
    Pre o c -> r_toi o' = r_toi o -> r_writer o = Some (w, WOpened) -> r_writer o' = r_writer o ->
    (c1 = c \/ exists d, c1 = snd (do_write E w d c)) -> Ext o c o' c1.
  Proof.
    intros P T Wr Wr' [->|[d ->]].
    - apply Ext_upd; try assumption; try reflexivity. left. unfold Live. rewrite Wr', Wr. exact I.
    - apply Ext_write; assumption.
  Qed.

  Definition is_err (r : res) : bool := match r with RErr _ => true | ROk _ => false end.
  Definition ExtR (o : objrecv) (c : ctx) (rc : res * ctx) : Prop :=
    Ext o c (res_obj (fst rc)) (snd rc) /\ (is_err (fst rc) = true -> Live (res_obj (fst rc))).

  Lemma ExtR_ok o c o' c' : Ext o c o' c' -> ExtR o c (ROk o', c').
  Proof. intros H. split; [exact H|cbn; discriminate]. Qed.
  Lemma ExtR_err o c o' c' : Ext o c o' c' -> Live o' -> ExtR o c (RErr o', c').
  Proof. intros H L. split; [exact H|intros _; exact L]. Qed.
  Lemma ExtR_trans o c o1 c1 rc : Ext o c o1 c1 -> ExtR o1 c1 rc -> ExtR o c rc.
  Proof. intros H [H1 H2]. split; [eapply Ext_trans; eassumption|exact H2]. Qed.

  Lemma write_blocks_ext : forall fuel sbn o c, Pre o c -> ExtR o c (write_blocks E fuel sbn o c).
  Proof.
    induction fuel as [|f IH]; intros sbn o c P; cbn [write_blocks]; [apply ExtR_ok, Ext_refl, P|].
    destruct (r_writer o) as [[w ws]|] eqn:Ew; [|apply ExtR_ok, Ext_refl, P].
    destruct ws; try (apply ExtR_ok, Ext_refl, P).
    destruct (r_bw o) as [bw|]; [|apply ExtR_ok, Ext_refl, P].
    destruct ((r_off o <=? sbn) && (sbn - r_off o <? N.of_nat (length (r_blocks o)))); [|apply ExtR_ok, Ext_refl, P].
    destruct (negb (bd_completed _)); [apply ExtR_ok, Ext_refl, P|].
    assert (Lo : Live o) by (unfold Live; rewrite Ew; exact I).
    match goal with |- context [bw_write E w sbn ?b bw c] => pose proof (bw_write_ctx w sbn b bw c) as Hc;
      destruct (bw_write E w sbn b bw c) as [[| bw' | |] c1] end; cbn [snd] in Hc.
    - apply ExtR_ok. eapply Ext_bw; try eassumption; reflexivity.
    - destruct (Nat.eqb (N.to_nat (sbn - r_off o)) 0); cbv zeta beta iota;
      match goal with |- context [set_blocks o ?a ?b ?d ?e ?g] => set (o1 := set_blocks o a b d e g) end;
      assert (K1 : Ext o c o1 c1) by (eapply Ext_bw; try eassumption; reflexivity);
      assert (L1 : Live o1) by (unfold Live, o1; cbn [set_blocks r_writer]; rewrite Ew; exact I);
      pose proof (e_pre _ _ _ _ K1) as P1;
      destruct (bw_left bw' =? 0).
      all: try (eapply ExtR_trans; [exact K1|apply IH; exact P1]).
      all: destruct (match r_md5 o1, bw_md5 bw' with Some want, Some got => eqb_bytes want got | _, _ => true end).
      all: try (pose proof (Ext_complete o1 c1 P1 L1) as K2; destruct (complete o1 c1) as [o2 c2]; cbn [fst snd] in K2;
                apply ExtR_ok; exact (Ext_trans _ _ _ _ _ _ K1 K2)).
      all: try (pose proof (Ext_error o1 false c1 P1 L1) as K2; destruct (error o1 false c1) as [o2 c2]; cbn [fst snd] in K2;
                apply ExtR_ok; exact (Ext_trans _ _ _ _ _ _ K1 K2)).
    - apply ExtR_err; [|exact Lo]. eapply Ext_bw; try eassumption; reflexivity.
    - apply ExtR_err; [|exact Lo].
      eapply Ext_trans; [eapply Ext_bw with (o' := o); try eassumption; reflexivity|].
      apply Ext_upd; try reflexivity.
      + assert (K : Ext o c o c1) by (eapply Ext_bw; try eassumption; reflexivity). exact (e_pre _ _ _ _ K).
      + left; exact Lo.
  Qed.

  Lemma Quiet_recv o : Quiet o -> r_state o = Receiving -> Live o.
  Proof. intros [L|[H _]] R; [exact L|congruence]. Qed.
  Lemma Quiet_cache o : Quiet o -> r_cache o <> [] -> Live o.
  Proof. intros [L|[_ H]] R; [exact L|congruence]. Qed.

  Ltac ext_obj P L :=
    apply Ext_upd; [exact P | reflexivity | reflexivity | left; exact L | reflexivity | reflexivity].

  Lemma push_to_block2_ext p o c : Pre o c -> Live o -> ExtR o c (push_to_block2 E p o c).
  Proof.
    intros P L. unfold push_to_block2.
    destruct (r_oti o) as [oti|]; [|apply ExtR_err; [ext_obj P L|exact L]].
    destruct (r_tlen o) as [tlen|]; [|apply ExtR_err; [ext_obj P L|exact L]].
    destruct (a_pid_with (ro_fec oti) p) as [[[sbn esi] sbl]|]; [|apply ExtR_err; [apply Ext_refl, P|exact L]].
    destruct (tlen =? 0).
    { destruct (r_writer o) eqn:Ew0; [|apply ExtR_ok, Ext_refl, P].
      pose proof (Ext_complete o c P L) as K. destruct (complete o c) as [o1 c1]. apply ExtR_ok. exact K. }
    destruct (sbn <? r_off o); [apply ExtR_ok, Ext_refl, P|].
    destruct (match sbl with None => nb_blocks_of oti tlen <=? sbn | Some _ => false end);
      [apply ExtR_err; [apply Ext_refl, P|exact L]|].
    destruct ((N.of_nat (length (r_blocks o)) <=? sbn - r_off o) && (4096 <? sbn - r_off o));
      [apply ExtR_err; [ext_obj P L|exact L]|].
    cbv zeta.
    match goal with |- context [bd_completed ?b] => destruct (bd_completed b) end; [apply ExtR_ok; ext_obj P L|].
    match goal with |- context [match ?x with None => _ | Some _ => _ end] =>
      destruct x as [[[[b1 nb] sz]|]|] end.
    - destruct (bd_push E (r_toi o) oti sbn esi (a_payload p) b1) as [b2 pan].
      match goal with |- context [set_blocks (set_blocks o ?a ?b ?d ?e ?g) ?a2 ?b2' ?d2 ?e2 ?g2] =>
        set (o1 := set_blocks (set_blocks o a b d e g) a2 b2' d2 e2 g2) end.
      assert (K1 : Ext o c o1 (if pan then panicc c else c)) by (destruct pan; ext_obj P L).
      destruct (bd_completed b2); [|apply ExtR_ok; exact K1].
      eapply ExtR_trans; [exact K1|]. apply write_blocks_ext. exact (e_pre _ _ _ _ K1).
    - apply ExtR_err; [ext_obj P L|exact L].
    - apply ExtR_err; [ext_obj P L|exact L].
  Qed.

  Lemma push_to_block_ext p o c : Pre o c -> Live o -> ExtR o c (push_to_block E p o c).
  Proof.
    intros P L. unfold push_to_block. destruct (push_to_block2_ext p o c P L) as [K KL].
    destruct (push_to_block2 E p o c) as [[o1|o1] c1]; cbn [fst snd res_obj] in *.
    - destruct (a_close_obj p); [|apply ExtR_ok; exact K].
      destruct (r_state o1) eqn:Es; try (apply ExtR_ok; exact K).
      destruct (r_writer o1) as [wr1|] eqn:Ewr1; [|apply ExtR_ok; exact K].
      assert (L1 : Live o1). { apply Quiet_recv; [|exact Es]. exact (proj1 (e_pre _ _ _ _ K)). }
      pose proof (Ext_error o1 true c1 (e_pre _ _ _ _ K) L1) as K2.
      destruct (error o1 true c1) as [o2 c2]. cbn [fst snd] in K2.
      apply ExtR_ok. exact (Ext_trans _ _ _ _ _ _ K K2).
    - apply ExtR_err; [exact K|exact (KL eq_refl)].
  Qed.

  Definition ExtP (o : objrecv) (c : ctx) (oc : objrecv * ctx) : Prop := Ext o c (fst oc) (snd oc).

  Lemma drain_cache_ext : forall cache o c,
    Pre o c -> (cache <> [] -> Live o) -> ExtP o c (drain_cache E cache o c).
  Proof.
    induction cache as [|p rest IH]; intros o c P H; cbn [drain_cache]; [apply Ext_refl, P|].
    assert (L : Live o) by (apply H; discriminate).
    match goal with |- context [push_to_block E p ?x c] => set (o0 := x) end.
    assert (K0 : Ext o c o0 c) by (unfold o0; ext_obj P L).
    assert (L0 : Live o0) by exact L.
    destruct (push_to_block_ext p o0 c (e_pre _ _ _ _ K0) L0) as [K KL].
    destruct (push_to_block E p o0 c) as [[o1|o1] c1]; cbn [fst snd res_obj is_err] in *.
    - pose proof (Ext_trans _ _ _ _ _ _ K0 K) as K01.
      destruct (r_cache o1) as [|x xs] eqn:Ec; [exact K01|].
      unfold ExtP. eapply Ext_trans; [exact K01|]. apply IH; [exact (e_pre _ _ _ _ K)|].
      intros _. apply Quiet_cache; [exact (proj1 (e_pre _ _ _ _ K))|rewrite Ec; discriminate].
    - pose proof (Ext_error o1 false c1 (e_pre _ _ _ _ K) (KL eq_refl)) as K2.
      unfold ExtP. exact (Ext_trans _ _ _ _ _ _ (Ext_trans _ _ _ _ _ _ K0 K) K2).
  Qed.

  Lemma push_from_cache_ext o c : Pre o c -> ExtP o c (push_from_cache E o c).
  Proof.
    intros P. unfold push_from_cache. destruct (cache_replay_blocked o); [apply Ext_refl, P|].
    assert (H : r_cache o <> [] -> Live o).
    { intros H. apply Quiet_cache; [exact (proj1 P)|]. intros Hc. rewrite Hc in H. apply H. reflexivity. }
    pose proof (drain_cache_ext (r_cache o) o c P H) as K.
    destruct (drain_cache E (r_cache o) o c) as [o1 c1]. unfold ExtP in *. cbn [fst snd] in *.
    eapply Ext_trans; [exact K|].
    pose proof (e_pre _ _ _ _ K) as P1.
    apply Ext_upd; [exact P1|reflexivity|reflexivity|exact (proj1 P1)|reflexivity|reflexivity].
  Qed.

  Lemma init_partition_ext o c : Pre o c -> Ext o c (init_partition o) c.
  Proof.
    intros P. unfold init_partition. destruct (0 <? nb_block o); [apply Ext_refl, P|].
    destruct (r_oti o) as [oti|]; [|apply Ext_refl, P]. destruct (r_tlen o) as [tl|]; [|apply Ext_refl, P].
    destruct (block_partitioning (ro_b oti) tl (ro_e oti)) as [[[al as_] nal] n].
    apply Ext_upd; [exact P|reflexivity|reflexivity|exact (proj1 P)|reflexivity|reflexivity].
  Qed.

  Lemma init_writer_ext o c : Pre o c -> ExtP o c (init_writer E o c).
  Proof.
    intros P. unfold init_writer, ExtP.
    destruct (r_writer o) as [x|] eqn:Ew; [apply Ext_refl, P|].
    destruct (r_fdt_id o) as [fid|]; [|apply Ext_refl, P]. destruct (r_cenc o) as [ce|]; [|apply Ext_refl, P].
    destruct (r_tlen o) as [tl|]; [|apply Ext_refl, P]. destruct (r_oti o) as [oti|]; [|apply Ext_refl, P].
    cbv zeta.
    set (n := ncalls c (r_toi o)).
    generalize (e_builder E (r_toi o) n). intros ans.
    set (c1 := inc_calls (logc c (EvBuilder (r_toi o) ans)) (r_toi o)).
    assert (M1 : forall t, (ncalls c t <= ncalls c1 t)%nat).
    { intros t. unfold c1. etransitivity; [|apply ncalls_inc_mono]. rewrite ncalls_logc; lia. }
    assert (N1 : ncalls c1 (r_toi o) = S n).
    { unfold c1. rewrite ncalls_inc_same, ncalls_logc. reflexivity. }
    assert (C1 : forall w, calls_of w (c_log c1) = calls_of w (c_log c)).
    { intros w. unfold c1. cbn [inc_calls logc c_log]. rewrite calls_of_app. cbn. apply app_nil_r. }
    clearbody c1.
    assert (Lo : Live o) by (unfold Live; rewrite Ew; exact I).
    assert (NoW : forall w ws, r_writer o = Some (w, ws) -> exists ws', @None (wid * wstate) = Some (w, ws')).
    { intros w ws H. congruence. }
    destruct ans; cbn [fst snd].
    - (* WStore *)
      set (w := (r_toi o, n)).
      assert (Cw : calls_of w (c_log c) = []).
      { destruct P as (_ & _ & F). apply F. unfold w, n. cbn [fst snd]. lia. }
      destruct (e_open_ok E w) eqn:Eo; cbn [negb fst snd].
      + apply Ext_intro; try exact P; try reflexivity.
        * intros t. rewrite !ncalls_logc. apply M1.
        * intros w0 ws0 H. cbn [r_writer]. rewrite Ew in H. discriminate.
        * intros w0 ws0 _ H. cbn [r_writer] in H. inversion H; subst. unfold w, n. cbn [fst snd]. lia.
        * intros w0 H. cbn [r_writer] in H. cbn [logc c_log]. rewrite calls_of_app, C1, calls_of_single. cbn [ev_call].
          rewrite wid_eqb_neq; [apply app_nil_r|]. intros ->. exact (H _ eq_refl).
        * left. exact I.
        * cbn [r_writer r_toi WInv]. split; [reflexivity|]. split.
          { rewrite !ncalls_logc. unfold w. cbn [fst snd]. rewrite N1. lia. }
          exists (PhOpened []). split; [|exact I].
          unfold runw. cbn [logc c_log]. rewrite calls_of_app, C1, Cw, calls_of_single. cbn [ev_call].
          rewrite wid_eqb_refl. reflexivity.
      + unfold error. cbn [r_writer fst snd].
        apply Ext_intro; try exact P; try reflexivity.
        * intros t. rewrite !ncalls_logc. apply M1.
        * intros w0 ws0 H. rewrite Ew in H. discriminate.
        * intros w0 ws0 _ H. cbn in H. inversion H; subst. unfold w, n. cbn [fst snd]. lia.
        * intros w0 H. cbn in H. cbn [logc c_log]. rewrite !calls_of_app, C1, !calls_of_single. cbn [ev_call].
          rewrite wid_eqb_neq; [rewrite !app_nil_r; reflexivity|]. intros ->. exact (H _ eq_refl).
        * right. split; [cbn; discriminate|reflexivity].
        * unfold WInv. cbn [r_writer r_toi clear_bufs set_wstate set_state]. split; [reflexivity|]. split.
          { rewrite !ncalls_logc. unfold w. cbn [fst snd]. rewrite N1. lia. }
          exists PhDone. split; [|exact I].
          unfold runw. cbn [logc c_log]. rewrite !calls_of_app, C1, Cw, !calls_of_single. cbn [ev_call].
          rewrite wid_eqb_refl. reflexivity.
    - (* WAlready *)
      apply Ext_intro; try exact P; try reflexivity; try exact M1.
      + intros w ws H. rewrite Ew in H. discriminate.
      + intros w ws _ H. cbn in H. rewrite Ew in H. discriminate.
      + intros w _. apply C1.
      + left. exact Lo.
      + cbn. rewrite Ew. exact I.
    - (* WAbort *)
      apply Ext_intro; try exact P; try reflexivity; try exact M1.
      + intros w ws H. rewrite Ew in H. discriminate.
      + intros w ws _ H. cbn in H. rewrite Ew in H. discriminate.
      + intros w _. apply C1.
      + left. exact Lo.
      + cbn. rewrite Ew. exact I.
  Qed.

  Theorem or_push_ext p o c : Pre o c -> ExtP o c (or_push E p o c).
  Proof.
    intros P. unfold or_push. destruct (r_state o) eqn:Es; try (apply Ext_refl, P).
    assert (L : Live o) by (apply Quiet_recv; [exact (proj1 P)|exact Es]).
    assert (G0 : forall o1, Ext o c o1 c ->
      ExtP o c (let o2 := init_partition o1 in
                let (o3, c3) := init_writer E o2 c in
                match r_state o3 with
                | Receiving =>
                  let (o4, c4) := push_from_cache E o3 c3 in
                  match r_state o4 with
                  | Receiving =>
                    match r_oti o4 with
                    | None =>
                      if r_max o4 <=? r_cache_size o4 then error o4 false c4
                      else (mk_or (r_state o4) (r_toi o4) (r_oti o4) (r_cache o4 ++ [p]) (r_cache_size o4 + a_datalen p) (r_max o4) (r_blocks o4)
                                  (r_off o4) (r_tlen o4) (r_cenc o4) (r_md5 o4) (r_md5chk o4) (r_al o4) (r_as o4) (r_nal o4)
                                  (r_writer o4) (r_bw o4) (r_fdt_id o4) (r_nb_alloc o4) (r_alloc_size o4) (r_clen o4) (r_nocache o4), c4)
                    | Some _ =>
                      match push_to_block E p o4 c4 with
                      | (ROk o5, c5) => (o5, c5)
                      | (RErr o5, c5) => error o5 false c5
                      end
                    end
                  | _ => (o4, c4)
                  end
                | _ => (o3, c3)
                end)).
    2: { destruct (r_oti o); destruct (a_oti p) as [[ot l]|]; cbv zeta beta iota; apply G0; ext_obj P L. }
    intros o1 K1. cbv zeta. unfold ExtP.
    pose proof (init_partition_ext o1 c (e_pre _ _ _ _ K1)) as K2. set (o2 := init_partition o1) in *.
    pose proof (init_writer_ext o2 c (e_pre _ _ _ _ K2)) as K3. destruct (init_writer E o2 c) as [o3 c3].
    unfold ExtP in K3. cbn [fst snd] in K3.
    assert (K13 : Ext o c o3 c3) by (eapply Ext_trans; [exact K1|eapply Ext_trans; eassumption]).
    destruct (r_state o3) eqn:Es3; cbn [fst snd]; try exact K13.
    pose proof (push_from_cache_ext o3 c3 (e_pre _ _ _ _ K13)) as K4. destruct (push_from_cache E o3 c3) as [o4 c4].
    unfold ExtP in K4. cbn [fst snd] in K4.
    assert (K14 : Ext o c o4 c4) by (eapply Ext_trans; eassumption).
    pose proof (e_pre _ _ _ _ K14) as P4.
    destruct (r_state o4) eqn:Es4; cbn [fst snd]; try exact K14.
    assert (L4 : Live o4) by (apply Quiet_recv; [exact (proj1 P4)|exact Es4]).
    destruct (r_oti o4).
    - destruct (push_to_block_ext p o4 c4 P4 L4) as [K5 KL].
      destruct (push_to_block E p o4 c4) as [[o5|o5] c5]; cbn [fst snd res_obj is_err] in *.
      + eapply Ext_trans; eassumption.
      + pose proof (Ext_error o5 false c5 (e_pre _ _ _ _ K5) (KL eq_refl)) as K6.
        exact (Ext_trans _ _ _ _ _ _ K14 (Ext_trans _ _ _ _ _ _ K5 K6)).
    - destruct (r_max o4 <=? r_cache_size o4).
      + eapply Ext_trans; [exact K14|]. apply Ext_error; assumption.
      + cbn [fst snd]. eapply Ext_trans; [exact K14|]. ext_obj P4 L4.
  Qed.

  Definition ExtA (o : objrecv) (c : ctx) (x : bool * objrecv * ctx) : Prop := Ext o c (snd (fst x)) (snd x).

  (* D48: completing an empty object right after its writer was opened *)
  Lemma d48_step_ext o c : Pre o c -> Ext o c (fst (d48_step o c)) (snd (d48_step o c)).
  Proof.
    intros P. unfold d48_step.
    destruct (r_tlen o) as [[|l]|]; try (apply Ext_refl, P).
    destruct (r_oti o); try (apply Ext_refl, P).
    destruct (r_state o) eqn:Es; try (apply Ext_refl, P).
    destruct (r_writer o) eqn:Ew; try (apply Ext_refl, P).
    apply Ext_complete; [exact P|]. apply Quiet_recv; [exact (proj1 P)|exact Es].
  Qed.

  Theorem or_attach_ext id files ioti o c : Pre o c -> ExtA o c (or_attach E id files ioti o c).
  Proof.
    intros P. unfold or_attach. destruct (r_fdt_id o); [apply Ext_refl, P|].
    destruct (find _ files) as [f|]; [|apply Ext_refl, P].
    assert (G0 : forall o1, Ext o c o1 c ->
      ExtA o c (let o2 := init_partition o1 in
                let (o3a, c3a) := init_writer E o2 c in
                let (o3, c3) := d48_step o3a c3a in
                let (o4, c4) := push_from_cache E o3 c3 in
                let '(o5, c5) := match write_blocks E (S (length (r_blocks o4))) 0 o4 c4 with
                                 | (ROk x, cx) => (x, cx)
                                 | (RErr x, cx) => error x false cx
                                 end in
                let (o6, c6) := push_from_cache E o5 c5 in
                (true, o6, c6))).
    2: { destruct (r_oti o); [|destruct (match ff_oti f with Some x => Some x | None => ioti end)];
         cbv zeta beta iota; apply G0;
         (apply Ext_upd; [exact P|reflexivity|reflexivity|exact (proj1 P)|reflexivity|reflexivity]). }
    intros o1 K1. cbv zeta. unfold ExtA.
    pose proof (init_partition_ext o1 c (e_pre _ _ _ _ K1)) as K2. set (o2 := init_partition o1) in *.
    pose proof (init_writer_ext o2 c (e_pre _ _ _ _ K2)) as K3. destruct (init_writer E o2 c) as [o3a c3a].
    unfold ExtP in K3. cbn [fst snd] in K3.
    pose proof (d48_step_ext o3a c3a (e_pre _ _ _ _ K3)) as K3b. destruct (d48_step o3a c3a) as [o3 c3].
    cbn [fst snd] in K3b.
    assert (K13 : Ext o c o3 c3)
      by (eapply Ext_trans; [exact K1|eapply Ext_trans; [exact K2|eapply Ext_trans; eassumption]]).
    pose proof (push_from_cache_ext o3 c3 (e_pre _ _ _ _ K13)) as K4. destruct (push_from_cache E o3 c3) as [o4 c4].
    unfold ExtP in K4. cbn [fst snd] in K4.
    assert (K14 : Ext o c o4 c4) by (eapply Ext_trans; eassumption).
    destruct (write_blocks_ext (S (length (r_blocks o4))) 0 o4 c4 (e_pre _ _ _ _ K14)) as [K5 KL].
    assert (K15 : exists o5 c5, (match write_blocks E (S (length (r_blocks o4))) 0 o4 c4 with
                                 | (ROk x, cx) => (x, cx)
                                 | (RErr x, cx) => error x false cx
                                 end) = (o5, c5) /\ Ext o c o5 c5).
    { destruct (write_blocks E (S (length (r_blocks o4))) 0 o4 c4) as [[o5|o5] c5]; cbn [fst snd res_obj is_err] in *.
      - exists o5, c5. split; [reflexivity|eapply Ext_trans; eassumption].
      - pose proof (Ext_error o5 false c5 (e_pre _ _ _ _ K5) (KL eq_refl)) as K6.
        destruct (error o5 false c5) as [o6 c6]. exists o6, c6. split; [reflexivity|].
        exact (Ext_trans _ _ _ _ _ _ K14 (Ext_trans _ _ _ _ _ _ K5 K6)). }
    destruct K15 as (o5 & c5 & -> & K15).
    pose proof (push_from_cache_ext o5 c5 (e_pre _ _ _ _ K15)) as K6. destruct (push_from_cache E o5 c5) as [o6 c6].
    unfold ExtP in K6. cbn [fst snd] in *. eapply Ext_trans; eassumption.
  Qed.
End Obj.

(* dropping an object: its writer, if still open, gets its terminal call *)
Lemma or_drop_ext o c : Pre o c ->
  exists o', Ext o c o' (or_drop o c) /\ (forall w, r_writer o' <> Some (w, WOpened)).
Proof.
  intros P. unfold or_drop. destruct (r_writer o) as [[w ws]|] eqn:Ew.
  - destruct ws.
    + exfalso. destruct P as (_ & W & _). rewrite Ew in W. cbn in W. destruct W as (_ & _ & ph & _ & K). exact K.
    + exists o. split; [apply Ext_refl, P|]. intros w0 H. congruence.
    + assert (L : Live o) by (unfold Live; rewrite Ew; exact I).
      exists (fst (error o false c)). split; [apply Ext_error; assumption|].
      unfold error. rewrite Ew. cbn. rewrite Ew. intros w0 H. discriminate.
    + exists o. split; [apply Ext_refl, P|]. intros w0 H. congruence.
  - exists o. split; [apply Ext_refl, P|]. intros w0 H. congruence.
Qed.

(* ================= receiver level ================= *)
(* a writer nobody holds open: never called, or terminated *)
Definition Closed (w : wid) (c : ctx) : Prop := calls_of w (c_log c) = [] \/ runw w (c_log c) = Some PhDone.

Definition RInv (objs : list (N * objrecv)) (c : ctx) : Prop :=
  NoDup (map fst objs) /\
  (forall k o, In (k, o) objs -> r_toi o = k /\ Quiet o /\ WInv (r_toi o) (r_writer o) c) /\
  Fresh c /\
  (forall w, Closed w c \/ exists k o, In (k, o) objs /\ r_writer o = Some (w, WOpened)).

Lemma RInv_pre objs c k o : RInv objs c -> In (k, o) objs -> Pre o c.
Proof. intros (_ & H & F & _) Hin. destruct (H _ _ Hin) as (_ & Q & W). split; [exact Q|split; [exact W|exact F]]. Qed.

Lemma RInv_ceq objs c c' : c_next c' = c_next c -> c_log c' = c_log c -> RInv objs c -> RInv objs c'.
Proof.
  intros Hn Hl (N & H & F & C). split; [exact N|]. split; [|split].
  - intros k o Hin. destruct (H _ _ Hin) as (T & Q & W). split; [exact T|split; [exact Q|]]. eapply WInv_ceq; eassumption.
  - intros w Hw. rewrite Hl. apply F. rewrite <- (ncalls_next c c' _ Hn). exact Hw.
  - intros w. unfold Closed. rewrite Hl. exact (C w).
Qed.

Lemma WInv_frame toi wr o c o' c' :
  WInv toi wr c -> Ext o c o' c' -> toi <> r_toi o -> WInv toi wr c'.
Proof.
  intros W [T M S Nw Fr P'] Hne. destruct wr as [[w ws]|]; [|exact I]. cbn in W |- *.
  destruct W as (W1 & W2 & W3). split; [exact W1|]. split; [specialize (M (fst w)); lia|].
  unfold runw in *. rewrite Fr; [exact W3|]. intros ws' H.
  destruct P' as (_ & W' & _). rewrite H in W'. cbn in W'. destruct W' as (W1' & _). congruence.
Qed.

Lemma NoDup_mid_notin (l1 l2 : list N) k : NoDup (l1 ++ k :: l2) -> ~ In k l1 /\ ~ In k l2.
Proof. intros H. apply NoDup_remove_2 in H. split; intros Hin; apply H; apply in_or_app; auto. Qed.

Lemma RInv_replace l1 k o l2 c o' c' :
  RInv (l1 ++ (k, o) :: l2) c -> Ext o c o' c' -> RInv (l1 ++ (k, o') :: l2) c'.
Proof.
  intros R X. pose proof R as (N & H & F & C).
  assert (Hko : In (k, o) (l1 ++ (k, o) :: l2)) by (apply in_or_app; right; left; reflexivity).
  destruct (H _ _ Hko) as (Tk & _ & _).
  pose proof (e_pre _ _ _ _ X) as (Q' & W' & F').
  assert (Nk : ~ In k (map fst l1) /\ ~ In k (map fst l2)).
  { rewrite map_app in N. cbn [map fst] in N. apply NoDup_mid_notin. exact N. }
  split; [|split; [|split]].
  - rewrite map_app in *. exact N.
  - intros k2 o2 Hin. apply in_app_or in Hin.
    assert (Other : In (k2, o2) l1 \/ In (k2, o2) l2 -> r_toi o2 = k2 /\ Quiet o2 /\ WInv (r_toi o2) (r_writer o2) c').
    { intros Hin'. assert (Hin2 : In (k2, o2) (l1 ++ (k, o) :: l2)).
      { apply in_or_app. destruct Hin'; [left|right; right]; assumption. }
      destruct (H _ _ Hin2) as (T2 & Q2 & W2). split; [exact T2|split; [exact Q2|]].
      eapply WInv_frame; [exact W2|exact X|]. rewrite T2, Tk. intros ->.
      destruct Nk as [N1 N2]. destruct Hin' as [Hi|Hi]; [apply N1|apply N2]; apply (in_map fst) in Hi; exact Hi. }
    destruct Hin as [Hin|[Heq|Hin]]; [apply Other; left; exact Hin| |apply Other; right; exact Hin].
    inversion Heq; subst. split; [rewrite (e_toi _ _ _ _ X); reflexivity|split; assumption].
  - exact F'.
  - intros w.
    assert (NotMine : (forall ws, r_writer o' <> Some (w, ws)) ->
            Closed w c' \/ exists k0 o0, In (k0, o0) (l1 ++ (k, o') :: l2) /\ r_writer o0 = Some (w, WOpened)).
    { intros NM. pose proof (e_frame _ _ _ _ X w NM) as Fr.
      destruct (C w) as [Cl|(k2 & o2 & Hin & Hw)].
      - left. unfold Closed, runw in *. rewrite Fr. exact Cl.
      - right. apply in_app_or in Hin. destruct Hin as [Hin|[Heq|Hin]].
        + exists k2, o2. split; [apply in_or_app; left; exact Hin|exact Hw].
        + inversion Heq; subst. destruct (e_stable _ _ _ _ X _ _ Hw) as [ws' Hw']. exfalso. exact (NM _ Hw').
        + exists k2, o2. split; [apply in_or_app; right; right; exact Hin|exact Hw]. }
    destruct (r_writer o') as [[w' ws']|] eqn:Ew'.
    + destruct (wid_eq_dec w w') as [->|ne].
      * cbn in W'. destruct W' as (_ & _ & ph & Rn & K).
        destruct ws'.
        -- contradiction.
        -- left. right. destruct ph; try contradiction. exact Rn.
        -- right. exists k, o'. split; [apply in_or_app; right; left; reflexivity|exact Ew'].
        -- left. right. destruct ph; try contradiction. exact Rn.
      * apply NotMine. intros ws Hx. inversion Hx. congruence.
    + apply NotMine. intros ws Hx. discriminate.
Qed.

Lemma RInv_del l1 k o l2 c :
  RInv (l1 ++ (k, o) :: l2) c -> (forall w, r_writer o <> Some (w, WOpened)) -> RInv (l1 ++ l2) c.
Proof.
  intros (N & H & F & C) NW. split; [|split; [|split]].
  - rewrite map_app in *. cbn [map fst] in N. apply NoDup_remove_1 in N. exact N.
  - intros k2 o2 Hin. apply H. apply in_app_or in Hin. apply in_or_app. destruct Hin; [left|right; right]; assumption.
  - exact F.
  - intros w. destruct (C w) as [Cl|(k2 & o2 & Hin & Hw)]; [left; exact Cl|].
    right. apply in_app_or in Hin. destruct Hin as [Hin|[Heq|Hin]].
    + exists k2, o2. split; [apply in_or_app; left; exact Hin|exact Hw].
    + inversion Heq; subst. exfalso. exact (NW _ Hw).
    + exists k2, o2. split; [apply in_or_app; right; exact Hin|exact Hw].
Qed.

Lemma RInv_drop l1 k o l2 c : RInv (l1 ++ (k, o) :: l2) c -> RInv (l1 ++ l2) (or_drop o c).
Proof.
  intros R.
  assert (P : Pre o c) by (eapply RInv_pre; [exact R|apply in_or_app; right; left; reflexivity]).
  destruct (or_drop_ext o c P) as (o' & X & NW).
  eapply RInv_del; [|exact NW]. eapply RInv_replace; eassumption.
Qed.

Lemma NoDup_snoc (l : list N) k : NoDup l -> ~ In k l -> NoDup (l ++ [k]).
Proof.
  induction l as [|x l IH]; intros N H; cbn [app]; [constructor; [intros []|constructor]|].
  inversion N; subst. constructor.
  - intros Hin. apply in_app_or in Hin. destruct Hin as [Hin|[->|[]]]; [contradiction|]. apply H. left; reflexivity.
  - apply IH; [assumption|]. intros Hin. apply H. right; exact Hin.
Qed.

Lemma RInv_add objs c k m : RInv objs c -> ~ In k (map fst objs) -> RInv (objs ++ [(k, or_new k m)]) c.
Proof.
  intros (N & H & F & C) Hk. split; [|split; [|split]].
  - rewrite map_app. cbn [map fst]. apply NoDup_snoc; assumption.
  - intros k2 o2 Hin. apply in_app_or in Hin. destruct Hin as [Hin|[Heq|[]]]; [apply H; exact Hin|].
    inversion Heq; subst. split; [reflexivity|]. split; [left; exact I|exact I].
  - exact F.
  - intros w. destruct (C w) as [Cl|(k2 & o2 & Hin & Hw)]; [left; exact Cl|].
    right. exists k2, o2. split; [apply in_or_app; left; exact Hin|exact Hw].
Qed.

(* the map operations of the receiver, on a map with distinct keys *)
Lemma filter_notin k (l : list (N * objrecv)) : ~ In k (map fst l) -> filter (fun p => negb (fst p =? k)) l = l.
Proof.
  induction l as [|x l IH]; intros H; cbn [filter]; [reflexivity|].
  destruct (N.eqb_spec (fst x) k) as [e|ne]; cbn [negb].
  - exfalso. apply H. left. exact e.
  - f_equal. apply IH. intros Hin. apply H. right. exact Hin.
Qed.
Lemma map_notin k o' (l : list (N * objrecv)) :
  ~ In k (map fst l) -> map (fun p => if fst p =? k then (k, o') else p) l = l.
Proof.
  induction l as [|x l IH]; intros H; cbn [map]; [reflexivity|].
  destruct (N.eqb_spec (fst x) k) as [e|ne].
  - exfalso. apply H. left. exact e.
  - f_equal. apply IH. intros Hin. apply H. right. exact Hin.
Qed.

Definition Slot (objs : list (N * objrecv)) k o l1 l2 : Prop :=
  objs = l1 ++ (k, o) :: l2 /\ del_obj k objs = l1 ++ l2 /\ forall o', put_obj k o' objs = l1 ++ (k, o') :: l2.

Lemma find_slot objs k p :
  NoDup (map fst objs) -> find (fun q => fst q =? k) objs = Some p ->
  exists l1 l2, Slot objs k (snd p) l1 l2.
Proof.
  intros N Hf. apply find_some in Hf. destruct Hf as [Hin Hk]. apply N.eqb_eq in Hk.
  destruct p as [k' o]. cbn [fst snd] in *. subst k'.
  apply in_split in Hin. destruct Hin as (l1 & l2 & ->). exists l1, l2.
  rewrite map_app in N. cbn [map fst] in N. apply NoDup_mid_notin in N. destruct N as [N1 N2].
  split; [reflexivity|]. split.
  - unfold del_obj. rewrite filter_app. cbn [filter fst]. rewrite N.eqb_refl. cbn [negb].
    rewrite !filter_notin by assumption. reflexivity.
  - intros o'. unfold put_obj. rewrite existsb_app. cbn [existsb fst]. rewrite N.eqb_refl, orb_true_l, orb_true_r.
    rewrite map_app. cbn [map fst]. rewrite N.eqb_refl. rewrite !map_notin by assumption. reflexivity.
Qed.

Lemma find_none_notin (objs : list (N * objrecv)) k :
  find (fun q => fst q =? k) objs = None -> ~ In k (map fst objs).
Proof.
  intros Hf Hin. apply in_map_iff in Hin. destruct Hin as (x & Hx & Hin).
  pose proof (find_none _ _ Hf _ Hin) as H. cbn in H. apply N.eqb_neq in H. contradiction.
Qed.

Lemma find_snoc (objs : list (N * objrecv)) k o :
  ~ In k (map fst objs) -> find (fun q => fst q =? k) (objs ++ [(k, o)]) = Some (k, o).
Proof.
  induction objs as [|x l IH]; intros H; cbn [app find fst].
  - rewrite N.eqb_refl. reflexivity.
  - destruct (N.eqb_spec (fst x) k) as [e|ne]; [exfalso; apply H; left; exact e|].
    apply IH. intros Hin. apply H. right. exact Hin.
Qed.

Section Rcv.
  Variable E : env.
  Variable parse_fdt : list N -> option fdtinst.
  Variable cfg : rconfig.

  Definition RI (r : recv) (c : ctx) : Prop := RInv (rv_objects r) c.
  Definition RI2 (x : recv * ctx) : Prop := RInv (rv_objects (fst x)) (snd x).
  Definition RI3 (x : pres * recv * ctx) : Prop := RInv (rv_objects (snd (fst x))) (snd x).

  Lemma RI_put r c k o o' c' :
    RI r c -> get_obj r k = Some o -> Ext o c o' c' -> RInv (put_obj k o' (rv_objects r)) c'.
  Proof.
    intros R G X. unfold get_obj in G.
    destruct (find (fun p => fst p =? k) (rv_objects r)) as [p|] eqn:Ef; [|discriminate].
    inversion G; subst. destruct (find_slot _ _ _ (proj1 R) Ef) as (l1 & l2 & S1 & _ & S3).
    rewrite S3. eapply RInv_replace; [|exact X]. unfold RI in R. rewrite S1 in R. exact R.
  Qed.

  Lemma RI_get_pre r c k o : RI r c -> get_obj r k = Some o -> Pre o c.
  Proof.
    intros R G. unfold get_obj in G.
    destruct (find (fun p => fst p =? k) (rv_objects r)) as [p|] eqn:Ef; [|discriminate].
    inversion G; subst. apply find_some in Ef. destruct Ef as [Hin Hk]. destruct p as [k' o]. cbn [snd].
    eapply RInv_pre; [exact R|exact Hin].
  Qed.

  Lemma remove_obj_inv k r c : RI r c -> RI2 (remove_obj k r c).
  Proof.
    intros R. unfold remove_obj, RI2. destruct (get_obj r k) as [o|] eqn:G; [|exact R].
    cbn [fst snd set_objects rv_objects]. unfold get_obj in G.
    destruct (find (fun p => fst p =? k) (rv_objects r)) as [p|] eqn:Ef; [|discriminate].
    inversion G; subst. destruct (find_slot _ _ _ (proj1 R) Ef) as (l1 & l2 & S1 & S2 & _).
    rewrite S2. apply RInv_drop with (k := k). unfold RI in R. rewrite S1 in R. exact R.
  Qed.

  Lemma gc_error_inv : forall fuel r c, RI r c -> RI2 (gc_error cfg fuel r c).
  Proof.
    induction fuel as [|f IH]; intros r c R; cbn [gc_error]; [exact R|].
    destruct (cf_max_err cfg <? N.of_nat (length (rv_error r))); [|exact R].
    destruct (rv_error r) as [|toi rest]; [exact R|].
    match goal with |- context [remove_obj toi ?r1 c] =>
      pose proof (remove_obj_inv toi r1 c R) as R2; destruct (remove_obj toi r1 c) as [r2 c2] end.
    apply IH. exact R2.
  Qed.

  Lemma check_state_inv toi r c : RI r c -> RI2 (check_state cfg toi r c).
  Proof.
    intros R. unfold check_state. destruct (get_obj r toi) as [o|]; [|exact R].
    destruct (r_state o); [exact R| | |].
    - apply remove_obj_inv. exact R.
    - match goal with |- context [gc_error cfg ?n ?r1 c] =>
        pose proof (gc_error_inv n r1 c R) as R2; destruct (gc_error cfg n r1 c) as [r2 c2] end.
      apply remove_obj_inv. exact R2.
    - match goal with |- context [gc_error cfg ?n ?r1 c] =>
        pose proof (gc_error_inv n r1 c R) as R2; destruct (gc_error cfg n r1 c) as [r2 c2] end.
      apply remove_obj_inv. exact R2.
  Qed.

  Lemma check_all_inv : forall tois r c, RI r c -> RI2 (check_all cfg tois r c).
  Proof.
    induction tois as [|t rest IH]; intros r c R; cbn [check_all]; [exact R|].
    pose proof (check_state_inv t r c R) as R1. destruct (check_state cfg t r c) as [r1 c1]. apply IH. exact R1.
  Qed.

  Definition RIa (x : recv * ctx * list N) : Prop := RInv (rv_objects (fst (fst x))) (snd (fst x)).

  Lemma attach_all_inv id i : forall tois r c att, RI r c -> RIa (attach_all E id i tois r c att).
  Proof.
    induction tois as [|t rest IH]; intros r c att R; cbn [attach_all]; [exact R|].
    destruct (get_obj r t) as [o|] eqn:G; [|apply IH; exact R].
    pose proof (or_attach_ext E id (fi_files i) (fi_oti i) o c (RI_get_pre _ _ _ _ R G)) as X.
    destruct (or_attach E id (fi_files i) (fi_oti i) o c) as [[ok o1] c1]. unfold ExtA in X. cbn [fst snd] in X.
    apply IH. unfold RI. cbn [set_objects rv_objects]. eapply RI_put; eassumption.
  Qed.

  Definition ExtC (o : objrecv) (c : ctx) (x : list fdtrecv * objrecv * ctx) : Prop := Ext o c (snd (fst x)) (snd x).

  Lemma create_attach_ext : forall cur now o c, Pre o c -> ExtC o c (create_attach E cur now o c).
  Proof.
    induction cur as [|f rest IH]; intros now o c P; cbn [create_attach]; [apply Ext_refl, P|].
    assert (Skip : ExtC o c (let '(rest', o2, c2) := create_attach E rest now o c in (fr_update_expired f now :: rest', o2, c2))).
    { pose proof (IH now o c P) as X. destruct (create_attach E rest now o c) as [[rest' o2] c2]. exact X. }
    destruct (fr_state (fr_update_expired f now)); try exact Skip.
    destruct (fr_inst (fr_update_expired f now)) as [i|]; [|exact Skip].
    pose proof (or_attach_ext E (fr_id (fr_update_expired f now)) (fi_files i) (fi_oti i) o c P) as X.
    destruct (or_attach E _ (fi_files i) (fi_oti i) o c) as [[ok o1] c1]. unfold ExtA in X. cbn [fst snd] in X.
    destruct ok; [exact X|].
    pose proof (IH now o1 c1 (e_pre _ _ _ _ X)) as X2. destruct (create_attach E rest now o1 c1) as [[rest' o2] c2].
    unfold ExtC in *. cbn [fst snd] in *. eapply Ext_trans; eassumption.
  Qed.

  Definition push_tail (p : apkt) (now : Z) (r2 : recv) (c : ctx) : pres * recv * ctx :=
    let toi := a_toi p in
    let '(r3, o, c3) :=
      match get_obj r2 toi with
      | Some o => (r2, o, c)
      | None =>
        let '(cur, o1, c1) := create_attach E (rv_fdt_current r2) now (or_new toi (cf_max_cache cfg)) c in
        (mk_recv (rv_objects r2 ++ [(toi, o1)]) (rv_completed r2) (rv_error r2) (rv_fdt_receivers r2) cur (rv_closed r2),
         o1, c1)
      end in
    let (o2, c4) := or_push E p o c3 in
    let r4 := set_objects r3 (put_obj toi o2 (rv_objects r3)) in
    let (r5, c5) := check_state cfg toi r4 c4 in
    (POk, r5, c5).

  Lemma push_tail_inv p now r2 c : RI r2 c -> RI3 (push_tail p now r2 c).
  Proof.
    intros R. unfold push_tail. cbv zeta.
    assert (G : exists r3 o c3,
      (match get_obj r2 (a_toi p) with
       | Some o => (r2, o, c)
       | None =>
         let '(cur, o1, c1) := create_attach E (rv_fdt_current r2) now (or_new (a_toi p) (cf_max_cache cfg)) c in
         (mk_recv (rv_objects r2 ++ [(a_toi p, o1)]) (rv_completed r2) (rv_error r2) (rv_fdt_receivers r2) cur (rv_closed r2),
          o1, c1)
       end) = (r3, o, c3) /\ RI r3 c3 /\ get_obj r3 (a_toi p) = Some o).
    { destruct (get_obj r2 (a_toi p)) as [o|] eqn:G.
      - exists r2, o, c. split; [reflexivity|split; assumption].
      - unfold get_obj in G.
        destruct (find (fun q => fst q =? a_toi p) (rv_objects r2)) as [q|] eqn:Ef; [discriminate|].
        apply find_none_notin in Ef.
        pose proof (RInv_add _ _ (a_toi p) (cf_max_cache cfg) R Ef) as R1.
        assert (P0 : Pre (or_new (a_toi p) (cf_max_cache cfg)) c).
        { eapply RInv_pre; [exact R1|apply in_or_app; right; left; reflexivity]. }
        pose proof (create_attach_ext (rv_fdt_current r2) now _ c P0) as X.
        destruct (create_attach E (rv_fdt_current r2) now (or_new (a_toi p) (cf_max_cache cfg)) c) as [[cur o1] c1].
        unfold ExtC in X. cbn [fst snd] in X.
        eexists _, o1, c1. split; [reflexivity|]. split.
        + unfold RI. cbn [rv_objects]. eapply RInv_replace with (l2 := []); eassumption.
        + unfold get_obj. cbn [rv_objects]. rewrite find_snoc by assumption. reflexivity. }
    destruct G as (r3 & o & c3 & -> & R3 & G3).
    pose proof (or_push_ext E p o c3 (RI_get_pre _ _ _ _ R3 G3)) as X.
    destruct (or_push E p o c3) as [o2 c4]. unfold ExtP in X. cbn [fst snd] in X.
    pose proof (RI_put _ _ _ _ _ _ R3 G3 X) as R4.
    match goal with |- context [check_state cfg ?t ?r4 c4] =>
      pose proof (check_state_inv t r4 c4 R4) as R5; destruct (check_state cfg t r4 c4) as [r5 c5] end.
    exact R5.
  Qed.

  Lemma push_obj_inv p now r c : RI r c -> RI3 (push_obj E cfg p now r c).
  Proof.
    intros R. unfold push_obj. fold (push_tail p now). cbv zeta.
    destruct (existsb (N.eqb (a_toi p)) (rv_completed r)).
    - destruct (cf_once cfg); [exact R|].
      destruct (is_first_symbol p) as [[|]|]; try exact R.
      cbn [rv_error].
      destruct (existsb (N.eqb (a_toi p)) (rv_error r)).
      + match goal with |- context [get_obj ?r2 _] => apply (push_tail_inv p now r2 c); exact R end.
      + match goal with |- context [get_obj ?r2 _] => apply (push_tail_inv p now r2 c); exact R end.
    - destruct (existsb (N.eqb (a_toi p)) (rv_error r)).
      + destruct (is_first_symbol p) as [[|]|]; try exact R.
        match goal with |- context [get_obj ?r2 _] => apply (push_tail_inv p now r2 c); exact R end.
      + apply (push_tail_inv p now r c); exact R.
  Qed.

  Lemma push_fdt_obj_inv p now r c : RI r c -> RI3 (push_fdt_obj E parse_fdt cfg p now r c).
  Proof.
    intros R. unfold push_fdt_obj.
    destruct (a_fdt_id p) as [id|]; [|destruct (a_close_obj p || a_close_sess p); exact R].
    destruct (cf_once cfg && existsb (fun f => fr_id f =? id) (rv_fdt_current r)); [exact R|].
    cbv zeta.
    match goal with |- context [match fr_state ?f0 with _ => _ end] => destruct (fr_state f0) end; try exact R.
    match goal with |- context [fr_push E parse_fdt p now ?f] => destruct (fr_push E parse_fdt p now f) as [f1 pan] end.
    assert (R0 : RI r (if pan then panicc c else c)).
    { destruct pan; [|exact R]. eapply RInv_ceq; [| |exact R]; reflexivity. }
    set (c0 := if pan then panicc c else c) in *. clearbody c0.
    match goal with |- context [match fr_state ?f2 with _ => _ end] => set (ff2 := f2) end.
    destruct (fr_state ff2); try exact R0.
    destruct (fr_inst ff2) as [i|]; [|exact R0].
    match goal with |- context [attach_all E id i ?l ?r1 c0 []] =>
      pose proof (attach_all_inv id i l r1 c0 [] R0) as R2; destruct (attach_all E id i l r1 c0 []) as [[r2 c2] att] end.
    unfold RIa in R2. cbn [fst snd] in R2.
    pose proof (check_all_inv att r2 c2 R2) as R3. destruct (check_all cfg att r2 c2) as [r3 c3].
    exact R3.
  Qed.

  Lemma drop_all_inv : forall objs c, RInv objs c -> RInv [] (fold_left (fun cc q => or_drop (snd q) cc) objs c).
  Proof.
    induction objs as [|[k o] rest IH]; intros c R; cbn [fold_left snd]; [exact R|].
    apply IH. apply (RInv_drop [] k o rest c). exact R.
  Qed.

  Lemma recv_step_inv r e c : RI r c -> RI3 (recv_step E parse_fdt cfg r e c).
  Proof.
    intros R. destruct e as [p now| |now expired expired_fdt|]; cbn [recv_step].
    - destruct (a_toi p =? 0); [apply push_fdt_obj_inv|apply push_obj_inv]; destruct (a_close_sess p); exact R.
    - exact R.
    - cbv zeta.
      match goal with |- context [fold_left ?st ?l (r, c)] => set (step := st); set (ex := l) end.
      assert (G : forall l acc, RI2 acc -> RI2 (fold_left step l acc)).
      { induction l as [|t l IH]; intros acc Ra; cbn [fold_left]; [exact Ra|].
        apply IH. destruct acc as [r1 c1]. unfold step. apply remove_obj_inv. exact Ra. }
      pose proof (G ex (r, c) R) as R1. destruct (fold_left step ex (r, c)) as [r1 c1]. exact R1.
    - unfold RI3. cbn [fst snd set_objects rv_objects]. apply drop_all_inv. exact R.
  Qed.

  Definition RIr (x : list pres * recv * ctx) : Prop := RInv (rv_objects (snd (fst x))) (snd x).
  Lemma recv_run_inv : forall evs r c, RI r c -> RIr (recv_run E parse_fdt cfg r evs c).
  Proof.
    induction evs as [|e rest IH]; intros r c R; cbn [recv_run]; [exact R|].
    pose proof (recv_step_inv r e c R) as R1. destruct (recv_step E parse_fdt cfg r e c) as [[x r1] c1].
    pose proof (IH r1 c1 R1) as R2. destruct (recv_run E parse_fdt cfg r1 rest c1) as [[xs r2] c2]. exact R2.
  Qed.

  Lemma recv_run_drop_inv : forall evs r c, RI r c ->
    RInv [] (snd (recv_run E parse_fdt cfg r (evs ++ [RvDrop]) c)).
  Proof.
    induction evs as [|e rest IH]; intros r c R; cbn [app recv_run].
    - cbn [recv_step snd]. apply drop_all_inv. exact R.
    - pose proof (recv_step_inv r e c R) as R1. destruct (recv_step E parse_fdt cfg r e c) as [[x r1] c1].
      pose proof (IH r1 c1 R1) as R2. destruct (recv_run E parse_fdt cfg r1 (rest ++ [RvDrop]) c1) as [[xs r2] c2]. exact R2.
  Qed.
End Rcv.

Lemma RInv0 : RInv [] ctx0.
Proof.
  split; [constructor|]. split; [intros k o []|]. split; [intros w _; reflexivity|].
  intros w. left. left. reflexivity.
Qed.

Lemma RInv_protocol objs c : RInv objs c -> forall w, P_C09_writer None false (calls_of w (c_log c)) = true.
Proof.
  intros (_ & H & _ & C) w. unfold P_C09_writer.
  destruct (C w) as [[Cl|Cl]|(k & o & Hin & Hw)].
  - rewrite Cl. reflexivity.
  - unfold runw in Cl. rewrite Cl. reflexivity.
  - destruct (H _ _ Hin) as (_ & _ & W). rewrite Hw in W. cbn in W. destruct W as (_ & _ & ph & Rn & K).
    unfold runw in Rn. rewrite Rn. destruct ph; try contradiction. reflexivity.
Qed.

Lemma RInv_all_closed c : RInv [] c -> forall w, P_C09_writer None true (calls_of w (c_log c)) = true.
Proof.
  intros (_ & _ & _ & C) w. unfold P_C09_writer.
  destruct (C w) as [[Cl|Cl]|(k & o & [] & _)].
  - rewrite Cl. reflexivity.
  - unfold runw in Cl. rewrite Cl. reflexivity.
Qed.

(* ================= C09 at history level ================= *)
Theorem writer_protocol_history : forall E parse_fdt cfg evs,
  let '(_, _, c) := recv_run E parse_fdt cfg recv0 evs ctx0 in
  forall w, P_C09_writer None false (calls_of w (c_log c)) = true.
Proof.
  intros E parse_fdt cfg evs.
  pose proof (recv_run_inv E parse_fdt cfg evs recv0 ctx0 RInv0) as R.
  destruct (recv_run E parse_fdt cfg recv0 evs ctx0) as [[xs r] c]. unfold RIr in R. cbn [fst snd] in R.
  eapply RInv_protocol. exact R.
Qed.

Theorem drop_terminates_all_history : forall E parse_fdt cfg evs,
  let '(_, _, c) := recv_run E parse_fdt cfg recv0 (evs ++ [RvDrop]) ctx0 in
  forall w, P_C09_writer None true (calls_of w (c_log c)) = true.
Proof.
  intros E parse_fdt cfg evs.
  pose proof (recv_run_drop_inv E parse_fdt cfg evs recv0 ctx0 RInv0) as R.
  destruct (recv_run E parse_fdt cfg recv0 (evs ++ [RvDrop]) ctx0) as [[xs r] c]. cbn [snd] in R.
  apply RInv_all_closed. exact R.
Qed.

(* ================= corollary for C03: never complete and error on one writer ================= *)
Lemma run_never_both : forall cs ph ph', c09_run None ph cs = Some ph' ->
  match ph with PhDone => cs = [] | _ => completed cs && failed cs = false end.
Proof.
  induction cs as [|cl r IH]; intros ph ph' H.
  - destruct ph; reflexivity.
  - cbn [c09_run] in H. destruct (c09_step None ph cl) as [ph1|] eqn:St; [|discriminate].
    specialize (IH ph1 ph' H).
    destruct ph; destruct cl as [[|]|d ok| | |]; cbn in St; try discriminate; inversion St; subst ph1; cbn in IH |- *;
      try exact IH; try (subst r; reflexivity).
Qed.

Lemma protocol_never_both d cs : P_C09_writer None d cs = true -> completed cs && failed cs = false.
Proof.
  unfold P_C09_writer. destruct (c09_run None PhStart cs) as [ph|] eqn:R; [|discriminate].
  intros _. exact (run_never_both cs PhStart ph R).
Qed.

Theorem never_complete_and_failed_history : forall E parse_fdt cfg evs,
  let '(_, _, c) := recv_run E parse_fdt cfg recv0 evs ctx0 in
  forall w, completed (calls_of w (c_log c)) && failed (calls_of w (c_log c)) = false.
Proof.
  intros E parse_fdt cfg evs. pose proof (writer_protocol_history E parse_fdt cfg evs) as H.
  destruct (recv_run E parse_fdt cfg recv0 evs ctx0) as [[xs r] c].
  intros w. eapply protocol_never_both. apply H.
Qed.
